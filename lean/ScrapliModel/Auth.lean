import ScrapliModel.Channel
/-!
# In-channel login (channel/auth.go, channel/channel.go `Open`, transport/transport.go)

Two login loops run on top of the channel layer. Both consume the read queue one chunk at a time
(`Channel.Read`), exactly like `Chan.readUntil`, and differ in what they test and on which bytes:

* `authenticateSSH` keeps ONE buffer `b`; after every chunk it runs, in this order, the ssh error
  message table (`sshMessageHandler`), the prompt pattern, the password pattern and the passphrase
  pattern on the WHOLE buffer. A credential prompt is counted, refused when the count exceeds its
  maximum, otherwise answered (`WriteAndReturn(cred, redacted)`), and the buffer is reset.
* `authenticateTelnet` reads with `ReadUntilAnyPrompt([prompt, username, password])` (tests on the
  search WINDOW of the per-call buffer `rb`), appends what that returned to `b`, then tests prompt,
  user name, password on the WHOLE `b`; `b` is reset when a credential prompt is seen and kept when
  nothing matched.

The device is causal: it emits bytes only in reaction to a line it received. It is a parameter
(`react : σ → Bytes → σ × List Bytes`, any state type); a scripted device (`scriptReact`) plays a
fixed dialogue. The patterns and the ssh error table are parameters (`Pats`); `Driver/C10.lean`
instantiates them with the regex engine on the extracted patterns and the extracted table.
-/
namespace Scrapli.Auth
open Scrapli Scrapli.Chan

/-- what a write carries -/
inductive What | user | pass | phrase | ret
  deriving DecidableEq, Repr

/-- trace events of one `Channel.Open` -/
inductive Ev
  /-- the login loop read a chunk and this is the buffer it then tested and acted on -/
  | deliver (buf : Bytes)
  /-- `Channel.Write(data, redacted)` -/
  | write (w : What) (data : Bytes) (redacted : Bool)
  /-- `Q.Requeue(b)` -/
  | requeue (b : Bytes)
  /-- `Transport.Close` -/
  | close
  deriving DecidableEq, Repr

/-- canonical error class of `Open` (`stuck` = the model ran out of fuel; proved unreachable) -/
inductive Outcome | ok | auth | connection | timeout | stuck
  deriving DecidableEq, Repr

/-- matchers: `PromptPattern.Match`, `UsernamePattern.Match`, `PasswordPattern.Match`,
    `PassphrasePattern.Match`, `sshMessageHandler(b) != nil` -/
structure Pats where
  promptP : Bytes → Bool
  userP : Bytes → Bool
  passP : Bytes → Bool
  phraseP : Bytes → Bool
  sshErr : Bytes → Bool

structure Cfg where
  depth : Nat          -- PromptSearchDepth
  ret : Bytes          -- ReturnChar
  user : Bytes
  pass : Bytes
  phrase : Bytes
  uMax : Nat           -- usernameSeenMax
  pMax : Nat           -- passwordSeenMax
  ppMax : Nat          -- passphraseSeenMax

/-- result of a login loop -/
structure Res (σ : Type) where
  outcome : Outcome
  buf : Bytes               -- bytes returned on success (consumed since the last credential)
  queue : List Bytes        -- what is left in the read queue
  trace : List Ev
  dev : σ

/-! ## ssh flavour -/

/-- what one pass of the ssh loop (from a buffer reset to the next action) ends in -/
inductive SshAct
  | dry                                       -- queue exhausted: the loop polls until the timer fires
  | connErr (b : Bytes) (q : List Bytes)
  | success (b : Bytes) (q : List Bytes)
  | askPass (b : Bytes) (q : List Bytes)
  | askPhrase (b : Bytes) (q : List Bytes)
  deriving Repr

/-- the body of the `for` loop of `authenticateSSH` up to the next action -/
def sshScan (P : Pats) : Bytes → List Bytes → SshAct
  | _, [] => .dry
  | b, c :: q =>
    let b' := b ++ c                          -- b = append(b, nb...)
    if P.sshErr b' then .connErr b' q         -- err = c.sshMessageHandler(b)
    else if P.promptP b' then .success b' q   -- c.PromptPattern.Match(b)
    else if P.passP b' then .askPass b' q     -- c.PasswordPattern.Match(b)
    else if P.phraseP b' then .askPhrase b' q -- c.PassphrasePattern.Match(b)
    else sshScan P b' q

def credWrites (cfg : Cfg) (w : What) (data : Bytes) : List Ev :=
  [.write w data true, .write .ret cfg.ret false]   -- WriteAndReturn(data, true)

/-- `authenticateSSH`; `pc`/`ppc` are `pCount`/`ppCount`. One unit of fuel per answered prompt. -/
def authSSH {σ : Type} (P : Pats) (cfg : Cfg) (react : σ → Bytes → σ × List Bytes) :
    Nat → σ → Nat → Nat → List Bytes → List Ev → Res σ
  | 0, d, _, _, q, tr => ⟨.stuck, [], q, tr, d⟩
  | n + 1, d, pc, ppc, q, tr =>
    match sshScan P [] q with
    | .dry => ⟨.timeout, [], [], tr, d⟩
    | .connErr b q' => ⟨.connection, [], q', tr ++ [.deliver b], d⟩
    | .success b q' => ⟨.ok, b, q', tr ++ [.deliver b], d⟩
    | .askPass b q' =>
      if pc + 1 > cfg.pMax then ⟨.auth, [], q', tr ++ [.deliver b], d⟩   -- pCount++; pCount > max
      else
        let r := react d cfg.pass
        authSSH P cfg react n r.1 (pc + 1) ppc (q' ++ r.2)
          (tr ++ .deliver b :: credWrites cfg .pass cfg.pass)
    | .askPhrase b q' =>
      if ppc + 1 > cfg.ppMax then ⟨.auth, [], q', tr ++ [.deliver b], d⟩
      else
        let r := react d cfg.phrase
        authSSH P cfg react n r.1 pc (ppc + 1) (q' ++ r.2)
          (tr ++ .deliver b :: credWrites cfg .phrase cfg.phrase)

/-- `AuthenticateSSH(p, pp)` from a fresh channel (fuel: more than the number of prompts that can be
    answered; `C10.login_never_stuck` proves it suffices) -/
def loginSSH {σ : Type} (P : Pats) (cfg : Cfg) (react : σ → Bytes → σ × List Bytes)
    (d : σ) (q : List Bytes) : Res σ :=
  authSSH P cfg react (cfg.uMax + cfg.pMax + cfg.ppMax + 1) d 0 0 q []

/-! ## telnet flavour -/

/-- the test of `ReadUntilAnyPrompt(ctx, [PromptPattern, UsernamePattern, PasswordPattern])` -/
def telStop (P : Pats) (depth : Nat) (rb : Bytes) : Bool :=
  let w := window rb depth
  P.promptP w || P.userP w || P.passP w

inductive TelAct
  | dry
  | success (b : Bytes) (q : List Bytes)
  | askUser (b : Bytes) (q : List Bytes)
  | askPass (b : Bytes) (q : List Bytes)
  deriving Repr

/-- the `for` loop of `authenticateTelnet` (with the loop of `ReadUntilAnyPrompt` inlined) up to
    the next action: `b` is the outer buffer, `rb` the read buffer of the current
    `ReadUntilAnyPrompt` call -/
def telScan (P : Pats) (depth : Nat) : Bytes → Bytes → List Bytes → TelAct
  | _, _, [] => .dry
  | b, rb, c :: q =>
    let rb' := rb ++ c
    if telStop P depth rb' then               -- ReadUntilAnyPrompt returns rb
      let b' := b ++ rb'                      -- b = append(b, nb...)
      if P.promptP b' then .success b' q
      else if P.userP b' then .askUser b' q
      else if P.passP b' then .askPass b' q
      else telScan P depth b' [] q            -- nothing matched on the whole buffer: next call
    else telScan P depth b rb' q

/-- `authenticateTelnet`; `uc`/`pc` are `uCount`/`pCount` -/
def authTelnet {σ : Type} (P : Pats) (cfg : Cfg) (react : σ → Bytes → σ × List Bytes) :
    Nat → σ → Nat → Nat → List Bytes → List Ev → Res σ
  | 0, d, _, _, q, tr => ⟨.stuck, [], q, tr, d⟩
  | n + 1, d, uc, pc, q, tr =>
    match telScan P cfg.depth [] [] q with
    | .dry => ⟨.timeout, [], [], tr, d⟩
    | .success b q' => ⟨.ok, b, q', tr ++ [.deliver b], d⟩
    | .askUser b q' =>
      if uc + 1 > cfg.uMax then ⟨.auth, [], q', tr ++ [.deliver b], d⟩
      else
        let r := react d cfg.user
        authTelnet P cfg react n r.1 (uc + 1) pc (q' ++ r.2)
          (tr ++ .deliver b :: credWrites cfg .user cfg.user)
    | .askPass b q' =>
      if pc + 1 > cfg.pMax then ⟨.auth, [], q', tr ++ [.deliver b], d⟩
      else
        let r := react d cfg.pass
        authTelnet P cfg react n r.1 uc (pc + 1) (q' ++ r.2)
          (tr ++ .deliver b :: credWrites cfg .pass cfg.pass)

def loginTelnet {σ : Type} (P : Pats) (cfg : Cfg) (react : σ → Bytes → σ × List Bytes)
    (d : σ) (q : List Bytes) : Res σ :=
  authTelnet P cfg react (cfg.uMax + cfg.pMax + cfg.ppMax + 1) d 0 0 q []

/-! ## `Channel.Open` -/

/-- `InChannelAuthData().Type` -/
inductive Flavour | ssh | telnet
  deriving DecidableEq, Repr

structure OpenRes (σ : Type) where
  outcome : Outcome
  queue : List Bytes        -- the channel's read queue when `Open` returns
  trace : List Ev
  closed : Bool             -- transport closed by `Open`
  dev : σ

def login {σ : Type} (fl : Flavour) (P : Pats) (cfg : Cfg) (react : σ → Bytes → σ × List Bytes)
    (d : σ) (q : List Bytes) : Res σ :=
  match fl with
  | .ssh => loginSSH P cfg react d q
  | .telnet => loginTelnet P cfg react d q

/-- `Channel.Open` after the transport is open and the read loop started: run the login, requeue
    what it returned (`if len(b) > 0`), close the transport when it failed (deferred `c.Close()`) -/
def openChannel {σ : Type} (fl : Flavour) (P : Pats) (cfg : Cfg)
    (react : σ → Bytes → σ × List Bytes) (d : σ) (q : List Bytes) : OpenRes σ :=
  let r := login fl P cfg react d q
  match r.outcome with
  | .ok =>
    if r.buf.length > 0 then
      ⟨.ok, r.buf :: r.queue, r.trace ++ [.requeue r.buf], false, r.dev⟩
    else ⟨.ok, r.queue, r.trace, false, r.dev⟩
  | o => ⟨o, r.queue, r.trace ++ [.close], true, r.dev⟩

/-- `Channel.Open` with `AuthBypass` set, or over a transport that does not ask for in-channel
    authentication (`InChannelAuthUnsupported`): the read loop is started and nothing else happens —
    whatever the device shows stays in the queue for the first operation -/
def openNoAuth {σ : Type} (d : σ) (q : List Bytes) : OpenRes σ :=
  ⟨.ok, q, [], false, d⟩

/-! ## the login device: scripted dialogues -/

/-- what an emission of the device is, from the device's point of view -/
inductive Kind
  | quiet      -- text after which the device says nothing more (silence)
  | err        -- an ssh client failure message
  | prompt     -- a shell prompt: the device admitted us
  | user       -- asks for the user name
  | pass       -- asks for the password
  | phrase     -- asks for the key passphrase
  deriving DecidableEq, Repr

def Kind.isAsk : Kind → Bool
  | .user | .pass | .phrase => true
  | _ => false

/-- one emission: its kind and the reads it was cut into (the segmentation) -/
structure Stage where
  kind : Kind
  chunks : List Bytes
  deriving Repr

/-- a device that plays a fixed script: the i-th received line triggers the i-th emission -/
def scriptReact : List (List Bytes) → Bytes → List (List Bytes) × List Bytes
  | [], _ => ([], [])
  | s :: r, _ => (r, s)

/-- `Open` against a scripted dialogue: the first stage is the greeting -/
def openScript (fl : Flavour) (P : Pats) (cfg : Cfg) (first : Stage) (rest : List Stage) :
    OpenRes (List (List Bytes)) :=
  openChannel fl P cfg scriptReact (rest.map (·.chunks)) first.chunks

/-- the order of tests in `authenticateSSH` as a classification of a buffer -/
def clsSSH (P : Pats) (b : Bytes) : Kind :=
  if P.sshErr b then .err else if P.promptP b then .prompt
  else if P.passP b then .pass else if P.phraseP b then .phrase else .quiet

def sshStop (P : Pats) (b : Bytes) : Bool := clsSSH P b != .quiet

/-- the order of tests in `authenticateTelnet` -/
def clsTel (P : Pats) (b : Bytes) : Kind :=
  if P.promptP b then .prompt else if P.userP b then .user
  else if P.passP b then .pass else .quiet

/-- Well-formedness of a dialogue *as segmented*: reading the queue (left-overs followed by the
    current emission) chunk by chunk, the first read boundary at which the loop's stop test fires
    exists exactly when the emission is not `quiet`, the buffer there is classified as the kind the
    device meant, and — for a credential prompt — the same holds for what the device says next. No
    read boundary before that makes a prefix look like a prompt. -/
def wf (stop : Bytes → Bool) (cls : Bytes → Kind) : List Stage → List Bytes → Kind → Bool
  | rest, q, k =>
    match readUntil stop q [] with
    | none => k == .quiet
    | some (b, q') =>
      cls b == k && k != .quiet &&
      (if k.isAsk then
        match rest with
        | [] => false
        | s :: rest' => wf stop cls rest' (q' ++ s.chunks) s.kind
       else true)

def wfSSH (P : Pats) (first : Stage) (rest : List Stage) : Bool :=
  wf (sshStop P) (clsSSH P) rest first.chunks first.kind

def wfTel (P : Pats) (depth : Nat) (first : Stage) (rest : List Stage) : Bool :=
  wf (telStop P depth) (clsTel P) rest first.chunks first.kind

/-- THE SPECIFICATION, on the device's own account of the dialogue (kinds only): walk the
    emissions counting how often each credential was asked for. -/
def spec (cfg : Cfg) : Nat → Nat → Nat → Kind → List Kind → Outcome
  | _, _, _, .quiet, _ => .timeout
  | _, _, _, .err, _ => .connection
  | _, _, _, .prompt, _ => .ok
  | u, p, pp, .user, rest =>
    if u + 1 > cfg.uMax then .auth else
    match rest with
    | [] => .timeout
    | k :: r => spec cfg (u + 1) p pp k r
  | u, p, pp, .pass, rest =>
    if p + 1 > cfg.pMax then .auth else
    match rest with
    | [] => .timeout
    | k :: r => spec cfg u (p + 1) pp k r
  | u, p, pp, .phrase, rest =>
    if pp + 1 > cfg.ppMax then .auth else
    match rest with
    | [] => .timeout
    | k :: r => spec cfg u p (pp + 1) k r

/-- the credential lines the device must have received, in order, for a dialogue -/
def specLines (cfg : Cfg) : Nat → Nat → Nat → Kind → List Kind → List (What × Bytes)
  | u, p, pp, .user, rest =>
    if u + 1 > cfg.uMax then [] else
    (.user, cfg.user) :: match rest with
    | [] => []
    | k :: r => specLines cfg (u + 1) p pp k r
  | u, p, pp, .pass, rest =>
    if p + 1 > cfg.pMax then [] else
    (.pass, cfg.pass) :: match rest with
    | [] => []
    | k :: r => specLines cfg u (p + 1) pp k r
  | u, p, pp, .phrase, rest =>
    if pp + 1 > cfg.ppMax then [] else
    (.phrase, cfg.phrase) :: match rest with
    | [] => []
    | k :: r => specLines cfg u p (pp + 1) k r
  | _, _, _, _, _ => []

/-! ## trace observers -/

/-- credential lines written, in order -/
def credLines : List Ev → List (What × Bytes)
  | [] => []
  | .write w d _ :: t => if w = .ret then credLines t else (w, d) :: credLines t
  | _ :: t => credLines t

def countWrites (w : What) : List Ev → Nat
  | [] => 0
  | .write w' _ _ :: t => (if w' = w then 1 else 0) + countWrites w t
  | _ :: t => countWrites w t

/-- the pattern a credential answers -/
def patOf (P : Pats) : What → Bytes → Bool
  | .user => P.userP
  | .pass => P.passP
  | .phrase => P.phraseP
  | .ret => fun _ => true

def credOf (cfg : Cfg) : What → Bytes
  | .user => cfg.user
  | .pass => cfg.pass
  | .phrase => cfg.phrase
  | .ret => cfg.ret

/-- every credential write is immediately preceded by a delivered buffer matching the pattern of
    that credential, carries exactly that credential and is redacted; every return follows a
    credential write. `prev` is the previous event. -/
def paired (P : Pats) (cfg : Cfg) : Option Ev → List Ev → Bool
  | _, [] => true
  | prev, .write w d r :: t =>
    (match w with
     | .ret => (match prev with
        | some (.write w' _ _) => w' != .ret && d == cfg.ret && !r
        | _ => false)
     | _ => (match prev with
        | some (.deliver b) => patOf P w b && d == credOf cfg w && r
        | _ => false)) && paired P cfg (some (.write w d r)) t
  | _, e :: t => paired P cfg (some e) t

end Scrapli.Auth
