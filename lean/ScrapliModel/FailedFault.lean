import ScrapliModel.Failed
/-!
# FailedFault: the error returns of the send loop (model for C13)

The same functions as in `Failed.lean`, for a device that may not answer: `DevE σ = σ → cmd → σ ×
Option output`, `none` = `Channel.SendInput` returned an error (timeout, lost connection; which one
is C05/C06's subject). Mirrors the `if err != nil { return nil, err }` statements of
`driver/generic/sendcommand.go`, `driver/generic/sendcommands.go` and `driver/network/sendconfig.go`:
the error is handed up, the responses collected so far are dropped, nothing more is transmitted.

Core Lean only.
-/
namespace Scrapli.Failed
open Scrapli

abbrev DevE (σ : Type) := σ → Bytes → σ × Option Bytes

/-- result of a plural send -/
inductive SendRes where
  | noop                -- `ErrNoOp`: empty command list
  | chanErr             -- the channel's error, handed up unchanged; no response object
  | ok (m : Multi)
deriving DecidableEq, Repr

/-- `(*generic.Driver).sendCommand`: the command is written in any case; `none` = error returned -/
def sendCommandE {σ : Type} (dev : DevE σ) (drv : List Bytes) (op : Op) (s : Sess σ) (cmd : Bytes) :
    Option Resp × Op × Sess σ :=
  let op' : Op := if op.fwc.length == 0 then { op with fwc := drv } else op
  let r := newResponse cmd op'.fwc
  let (d', b) := dev s.dev cmd
  let s' : Sess σ := { dev := d', log := s.log ++ [cmd] }
  match b with
  | none => (none, op', s')
  | some b => (some (r.record b), op', s')

inductive LoopOut (σ : Type) where
  | err (s : Sess σ)                       -- `return nil, err`
  | early (m : Multi) (s : Sess σ)         -- stop-on-failed `return m, err`
  | cont (m : Multi) (op : Op) (s : Sess σ)  -- loop ran to its end

/-- the `for _, input := range commands[:len(commands)-1]` loop -/
def sendLoopE {σ : Type} (dev : DevE σ) (drv : List Bytes) :
    List Bytes → Op → Multi → Sess σ → LoopOut σ
  | [], op, m, s => .cont m op s
  | c :: cs, op, m, s =>
    match sendCommandE dev drv op s c with
    | (none, _, s') => .err s'
    | (some r, op', s') =>
      let m' := m.append r
      if op'.stop && r.failed.isSome then .early m' s'
      else sendLoopE dev drv cs op' m' s'

/-- `(*generic.Driver).SendCommands` -/
def sendCommandsE {σ : Type} (dev : DevE σ) (drv : List Bytes) (op : Op) (s : Sess σ)
    (cmds : List Bytes) : SendRes × Sess σ :=
  match cmds.getLast? with
  | none => (.noop, s)
  | some last =>
    match sendLoopE dev drv cmds.dropLast op Multi.empty s with
    | .err s' => (.chanErr, s')
    | .early m s' => (.ok m, s')
    | .cont m op' s' =>
      match sendCommandE dev drv op' s' last with
      | (none, _, s'') => (.chanErr, s'')
      | (some r, _, s'') => (.ok (m.append r), s'')

/-- `(*network.Driver).SendConfig` after privilege acquisition; `none` = error handed up -/
def sendConfigE {σ : Type} (dev : DevE σ) (drv : List Bytes) (op : Op) (s : Sess σ)
    (config : Bytes) : Option Resp × Sess σ :=
  match sendCommandsE dev drv op s (splitLF config) with
  | (.ok m, s') => (some (collapse config m), s')
  | (_, s') => (none, s')

/-! ## specification side -/

/-- the device's answers if every command were sent -/
def answersE {σ : Type} (dev : DevE σ) : σ → List Bytes → List (Option Bytes)
  | _, [] => []
  | d, c :: cs => (dev d c).2 :: answersE dev (dev d c).1 cs

/-- index of the first unanswered command (length if all are answered) -/
def firstNone : List (Option Bytes) → Nat
  | [] => 0
  | none :: _ => 0
  | some _ :: t => firstNone t + 1

def flagE (eff : List Bytes) : Option Bytes → Bool
  | some b => marks eff b
  | none => false

/-- a device that always answers -/
def liftDev {σ : Type} (dev : Dev σ) : DevE σ := fun d c => ((dev d c).1, some (dev d c).2)

end Scrapli.Failed
