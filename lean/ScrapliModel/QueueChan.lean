import ScrapliModel.Queue
import ScrapliModel.Channel
/-!
# The queue inside the channel (channel/read.go, channel/channel.go) — byte level

`Channel.read` (the producer goroutine) takes transport reads one after the other, skips a read of
length 0 (read.go:104), normalises the others (drop CR; strip ANSI when the chunk contains ESC,
read.go:113-117) and enqueues the result — also when normalisation left nothing (an empty, possibly
nil, chunk). Operations (`Read`, `ReadAll`, the `ReadUntil*` loops, `GetPrompt`, the login code)
are the consumer: they only call `Dequeue` / `DequeueAll`, concatenate what they get, and the login
code puts the concatenation of what it read since the last password prompt back with `Requeue`.
So an operation's observable is a byte string, not a chunk list; `consumeB` is the push-back reader
of `Conc.consume` with the chunk boundaries erased.
-/
namespace Scrapli.Queue.Chan
open Scrapli Scrapli.Queue.Conc

/-- the chunks `Channel.read` enqueues for a sequence of transport reads -/
def enqueued (norm : Bytes → Bytes) (reads : List Bytes) : List Bytes :=
  (reads.filter (fun r => !r.isEmpty)).map norm

/-- the byte stream the channel owes its consumers -/
def stream (norm : Bytes → Bytes) (reads : List Bytes) : Bytes := (enqueued norm reads).flatten

/-- byte-level push-back reader: `got c` must find the bytes `c` at the front and removes them,
`back b` puts the bytes `b` in front -/
def consumeB : List CEv → Bytes → Option Bytes
  | [], S => some S
  | .got c :: es, S => if c.isPrefixOf S then consumeB es (S.drop c.length) else none
  | .back b :: es, S => consumeB es (b ++ S)

end Scrapli.Queue.Chan

/-! ## value semantics of an enqueued chunk

The model's queue holds byte strings (values). The Go queue holds slices; the model is only right if
what `Channel.read` enqueues is a private copy of the transport's bytes — `bytes.ReplaceAll` always
allocates, so it is. `Aliased` spells out what would happen otherwise: a transport may hand out
views of ONE buffer that the next `Read` overwrites (the `Implementation` interface does not promise a
fresh slice); an entry that was not copied is then a view that is resolved only when it is dequeued. -/
namespace Scrapli.Queue.Chan.Aliased
open Scrapli

/-- a queued entry: a private copy, or a view of the first `len` bytes of the transport's buffer -/
inductive Entry where
  | val (b : Bytes)
  | view (len : Nat)
  deriving Repr, DecidableEq

/-- the transport writes its next read over the start of its buffer -/
def overwrite (buf r : Bytes) : Bytes := r ++ buf.drop r.length

/-- the read loop over a buffer-reusing transport: `copies r` says whether the normalisation of the
read `r` allocates. Returns the entries (oldest first) and the buffer as the last read left it. -/
def loop (copies : Bytes → Bool) (norm : Bytes → Bytes) : List Bytes → Bytes → List Entry × Bytes
  | [], buf => ([], buf)
  | r :: rs, buf =>
    let buf' := overwrite buf r
    let (es, bufEnd) := loop copies norm rs buf'
    if r.isEmpty then (es, bufEnd)
    else ((if copies r then Entry.val (norm r) else Entry.view r.length) :: es, bufEnd)

/-- what a consumer sees when it dequeues an entry while the buffer holds `buf` -/
def resolve (buf : Bytes) : Entry → Bytes
  | .val b => b
  | .view n => buf.take n

end Scrapli.Queue.Chan.Aliased
