import ScrapliModel.Queue
import ScrapliModel.Channel
/-!
# The queue inside the channel (channel/read.go, channel/channel.go) — byte level

`Channel.read` (the producer goroutine) takes transport reads one after the other, skips a read of
length 0 (read.go:104), normalises the others (drop CR; strip ANSI when the chunk contains ESC,
read.go:113-117) and enqueues the result — also when normalisation left nothing (an empty, possibly
nil, chunk). Operations (`Read`, `ReadAll`, the `ReadUntil*` loops, `GetPrompt`, the login code)
are the consumer: they only call `Dequeue` / `DequeueAll`, concatenate what they get, and the login
code puts the concatenation of what it read since the last password prompt back with `Requeue`.
So an operation's observable is a byte string, not a chunk list; `consumeB` is the push-back reader
of `Conc.consume` with the chunk boundaries erased.
-/
namespace Scrapli.Queue.Chan
open Scrapli Scrapli.Queue.Conc

/-- the chunks `Channel.read` enqueues for a sequence of transport reads -/
def enqueued (norm : Bytes → Bytes) (reads : List Bytes) : List Bytes :=
  (reads.filter (fun r => !r.isEmpty)).map norm

/-- the byte stream the channel owes its consumers -/
def stream (norm : Bytes → Bytes) (reads : List Bytes) : Bytes := (enqueued norm reads).flatten

/-- byte-level push-back reader: `got c` must find the bytes `c` at the front and removes them,
`back b` puts the bytes `b` in front -/
def consumeB : List CEv → Bytes → Option Bytes
  | [], S => some S
  | .got c :: es, S => if c.isPrefixOf S then consumeB es (S.drop c.length) else none
  | .back b :: es, S => consumeB es (b ++ S)

end Scrapli.Queue.Chan
