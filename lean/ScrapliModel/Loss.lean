import ScrapliModel.Channel
/-!
# Connection loss (channel/read.go, channel/channel.go, driver/netconf/read.go, driver/netconf/rpc.go)

The channel layer of `Channel.lean` extended with what happens when the transport stops working.

* The transport hands out the device's output chunk by chunk until `left` bytes have been delivered;
  from then on every read fails: with `io.EOF` (`Kind.eof`) or with a persistent non-EOF error
  (`Kind.err`, EIO / connection reset). Writes fail once `wleft` bytes have been accepted.
* `Channel.read` (the read goroutine) has three outcomes per transport read: data → enqueue;
  EOF → return (the deferred `readLoopExited = true`); other error → `c.Errs <- err`. `Errs` is
  unbuffered, so the goroutine stays blocked in the send (`Rd.handing`) until some `Channel.Read`
  takes the error; then it sleeps and reads the transport again (and is handed the same error again).
* `Channel.Read` looks, in this order, at: a sender blocked on `Errs` → that error; the
  `readLoopExited` flag → `ErrConnectionError`; the queue.
* An operation (`SendInput`, `GetPrompt`, `SendInteractive`, the NETCONF capability read, …) is a
  program of phases: `write b react` (a transport write; `react` is what the causal device emits in
  reaction, already cut into reads) and `read P` (a `ReadUntil*` loop with completion predicate `P`
  on the read buffer). The read goroutine and the operation run concurrently: a *schedule* is an
  arbitrary interleaving of their steps. A *tick* is one step of each, in either order.
* NETCONF adds `Driver.read` (polls `Channel.Read`, forwards an error into the unbuffered `d.errs`,
  accumulates bytes until the delimiter matcher fires, stores the message under its id) and
  `sendRPC` (writes, then `select` on `d.errs` / the stored message).

Chunks are the *normalised* reads (CR removal / ANSI stripping is C01's subject).
-/
namespace Scrapli.Loss
open Scrapli Scrapli.Chan

/-- how transport reads fail after the loss -/
inductive Kind | eof | err
  deriving DecidableEq, Repr

/-- what the read loop can ask about a transport read error VALUE. The loop's classification is
    two-way: `errors.Is(err, io.EOF)` → return; anything else → hand over through `Errs`. The other
    fields are facts about the value the loop must NOT let influence it (a `net.Error` whose
    `Timeout()` is true such as ETIMEDOUT / EAGAIN / deadline exceeded; a message that merely
    contains "EOF"). -/
structure EVal where
  isEOF : Bool
  netTimeout : Bool
  eofText : Bool
  deriving DecidableEq, Repr

/-- the loss kind an error value is -/
def kindOf (v : EVal) : Kind := if v.isEOF then .eof else .err

/-- does a branch condition of the read loop's error block (source text, extracted by the
    translator) fire on `v` during a loss (the channel is not being closed, so `done` is silent)?
    A condition the model does not know is assumed able to fire. -/
def condFires (c : String) (v : EVal) : Bool :=
  if c == "<-c.done" then false
  else if c == "errors.Is(err, io.EOF)" then v.isEOF
  else true

/-- the error reaches `c.Errs <- err` -/
def handedOver (exc : List (String × String)) (sendPresent : Bool) (v : EVal) : Bool :=
  sendPresent && exc.all fun (c, _) => !condFires c v

/-- the loop returns (sets `readLoopExited`) on this value -/
def exitsOn (exc : List (String × String)) (v : EVal) : Bool :=
  match exc.find? fun (c, _) => condFires c v with
  | some (_, a) => a == "exit"
  | none => false

/-- state of the read goroutine `Channel.read` -/
inductive Rd
  | running   -- in the loop (reading the transport / sleeping)
  | handing   -- blocked in `c.Errs <- err`
  | exited    -- returned; `readLoopExited = true`
  deriving DecidableEq, Repr

/-- error classes an operation can return -/
inductive Err
  | transport    -- the transport's own read error, handed over through `Errs`
  | connection   -- `util.ErrConnectionError` (read loop has exited)
  | write        -- the transport's write error
  deriving DecidableEq, Repr

structure St where
  pending : List Bytes   -- device output not yet read from the transport
  left : Nat             -- bytes the transport still delivers before every read fails
  kind : Kind            -- how reads fail afterwards
  wleft : Option Nat     -- bytes the transport still accepts (`none`: writes never fail)
  q : List Bytes         -- `Channel.Q`
  rd : Rd                -- the read goroutine
  lost : Bool            -- ghost: a transport read has reported the loss
  deriving Repr

/-- one iteration of `Channel.read` -/
def rstep (s : St) : St :=
  match s.rd with
  | .exited => s
  | .handing => s
  | .running =>
    if s.left = 0 then
      match s.kind with
      | .eof => { s with rd := .exited, lost := true }
      | .err => { s with rd := .handing, lost := true }
    else
      match s.pending with
      | [] => s                                   -- blocked in `t.Read()`
      | c :: cs =>
        if c.length ≤ s.left then
          { s with pending := cs, left := s.left - c.length, q := s.q ++ [c] }
        else                                      -- the loss cuts this read short
          { s with pending := c.drop s.left :: cs, left := 0, q := s.q ++ [c.take s.left] }

/-- result of `Channel.Read` -/
inductive RR
  | err (e : Err)
  | nil
  | data (c : Bytes)

/-- `Channel.Read`: pending error → exited flag → dequeue -/
def chRead (s : St) : RR × St :=
  match s.rd with
  | .handing => (.err .transport, { s with rd := .running })
  | .exited => (.err .connection, s)
  | .running =>
    match s.q with
    | [] => (.nil, s)
    | c :: q => (.data c, { s with q := q })

/-- `Channel.Write` against the causal device: `false` = the transport returned its write error -/
def chWrite (s : St) (b : Bytes) (react : List Bytes) : Bool × St :=
  match s.wleft with
  | none => (true, { s with pending := s.pending ++ react })
  | some w =>
    if b.length ≤ w then (true, { s with wleft := some (w - b.length), pending := s.pending ++ react })
    else (false, { s with wleft := some 0 })

inductive Phase
  | write (b : Bytes) (react : List Bytes)
  | read (P : Bytes → Bool)

/-- an operation in flight: remaining phases, the current `ReadUntil*` buffer, buffers returned by
    the completed reads -/
structure Op where
  prog : List Phase
  rb : Bytes
  outs : List Bytes

inductive Res
  | ok (outs : List Bytes)
  | error (e : Err)

def Res.isError : Res → Bool
  | .error _ => true
  | .ok _ => false

/-- one step of the operation's goroutine (`inr`: it returned) -/
def ostep (s : St) (o : Op) : St × (Op ⊕ Res) :=
  match o.prog with
  | [] => (s, .inr (.ok o.outs))
  | .write b react :: rest =>
    match chWrite s b react with
    | (false, s') => (s', .inr (.error .write))
    | (true, s') => (s', .inl { o with prog := rest })
  | .read P :: rest =>
    match chRead s with
    | (.err e, s') => (s', .inr (.error e))
    | (.nil, s') => (s', .inl o)
    | (.data c, s') =>
      if P (o.rb ++ c) then (s', .inl { prog := rest, rb := [], outs := o.outs ++ [o.rb ++ c] })
      else (s', .inl { o with rb := o.rb ++ c })

inductive Actor | rdr | op
  deriving DecidableEq, Repr

/-- run an arbitrary interleaving until the operation returns or the schedule ends -/
def run : List Actor → St → Op → St × (Op ⊕ Res)
  | [], s, o => (s, .inl o)
  | .rdr :: t, s, o => run t (rstep s) o
  | .op :: t, s, o =>
    match ostep s o with
    | (s', .inl o') => run t s' o'
    | (s', .inr r) => (s', .inr r)

/-- discrete time: in every tick both goroutines take one step, in either order -/
def ticks (ord : List Bool) : List Actor :=
  ord.flatMap fun b => if b then [.rdr, .op] else [.op, .rdr]

/-! ## what the lossless run would consume -/

/-- everything emitted and not yet consumed by a completed read -/
def unread (s : St) (o : Op) : Bytes := o.rb ++ s.q.flatten ++ s.pending.flatten

/-- every remaining read completes exactly when it has consumed everything emitted so far
    (C01's well-formedness, for an arbitrary program) -/
def Exact : Bytes → List Phase → Prop
  | _, [] => True
  | U, .write _ r :: rest => Exact (U ++ r.flatten) rest
  | U, .read P :: rest => ExactAt P U ∧ Exact [] rest

/-- bytes the remaining reads consume in the lossless run, given `u` unread bytes now -/
def need : Nat → List Phase → Nat
  | _, [] => 0
  | u, .write _ r :: rest => need (u + r.flatten.length) rest
  | u, .read _ :: rest => u + need 0 rest

/-- buffers the remaining reads return in the lossless run -/
def ideal : Bytes → List Phase → List Bytes
  | _, [] => []
  | U, .write _ r :: rest => ideal (U ++ r.flatten) rest
  | U, .read _ :: rest => U :: ideal [] rest

/-- bytes the remaining writes send -/
def wneed : List Phase → Nat
  | [] => 0
  | .write b _ :: rest => b.length + wneed rest
  | .read _ :: rest => wneed rest

/-- longest run of adjacent writes -/
def adjWrites : List Phase → Nat
  | [] => 0
  | .write _ _ :: rest => adjWrites rest + 1
  | .read _ :: _ => 0

def maxAdjWrites : List Phase → Nat
  | [] => 0
  | .write b r :: rest => max (adjWrites (.write b r :: rest)) (maxAdjWrites rest)
  | .read _ :: rest => maxAdjWrites rest

/-- bytes the operation holds or can still be given -/
def budget (s : St) (o : Op) : Nat := s.left + o.rb.length + s.q.flatten.length

/-- `Doomed U B prog`: with `U` unread and `B` bytes still obtainable, the remaining program cannot
    complete: some read's predicate fires on no obtainable prefix, the reads before it completing
    exactly (and using up their share of `B`). This is "the loss point lies before completion". -/
def Doomed : Bytes → Nat → List Phase → Prop
  | _, _, [] => False
  | U, B, .write _ r :: rest => Doomed (U ++ r.flatten) B rest
  | U, B, .read P :: rest =>
    (∀ j, j ≤ B → P (U.take j) = false) ∨ (ExactAt P U ∧ U.length ≤ B ∧ Doomed [] (B - U.length) rest)

def DoomedSt (s : St) (o : Op) : Prop := Doomed (unread s o) (budget s o) o.prog

/-- the program still has a `ReadUntil*` loop ahead of it -/
def hasRead : List Phase → Bool
  | [] => false
  | .read _ :: _ => true
  | .write _ _ :: rest => hasRead rest

/-! ## history after the loss: re-Open / Close / more operations on the same `Channel` -/

/-- where `Channel.Open` clears `readLoopExited`, if anywhere (read off the source by the translator:
    `Gen.C06ReadLoop.flagStores`) -/
inductive ClearAt
  | never            -- no `Store(false)` (a `Channel` is single-use)
  | afterLoopStart   -- only once the transport open has succeeded and the new read loop is started
  | early            -- before that (e.g. first statement of `Open`)
  deriving DecidableEq, Repr

/-- the two facts a later operation depends on -/
structure Conn where
  flag : Bool   -- `readLoopExited`
  loop : Bool   -- a read goroutine is running
  deriving DecidableEq, Repr

/-- what the caller / the transport does next -/
inductive SEv
  | lossEof    -- the transport reports end-of-stream to the running read loop
  | openFail   -- `Open()` whose transport open fails (device refuses the connection)
  | openOk     -- `Open()` whose transport open succeeds: a new connection, a new read loop
  | close      -- `Close()`
  | op         -- an operation that has to read (`Channel.Read` consults the flag first)
  deriving DecidableEq, Repr

/-- one event; for `op` the Boolean says whether the operation is refused with an error at once
    (`true`) or goes on to the queue / waits for data (`false`) -/
def sstep (p : ClearAt) (c : Conn) : SEv → Conn × Option Bool
  | .lossEof => (if c.loop then { flag := true, loop := false } else c, none)
  | .openFail => ({ c with flag := if p = .early then false else c.flag }, none)
  | .openOk => ({ flag := if p = .never then c.flag else false, loop := true }, none)
  | .close => (if c.loop then { flag := true, loop := false } else c, none)
  | .op => (c, some c.flag)

/-- run a history; returns the final state and, in order, how each operation fared -/
def srun (p : ClearAt) : Conn → List SEv → Conn × List Bool
  | c, [] => (c, [])
  | c, e :: es =>
    match sstep p c e with
    | (c', none) => srun p c' es
    | (c', some b) => let r := srun p c' es; (r.1, b :: r.2)

/-- the clearing policy the extracted `Store` sites amount to -/
def policyOf (stores : List (String × String × String)) : ClearAt :=
  let clears := stores.filter fun (_, v, _) => v != "true"
  if clears.isEmpty then .never
  else if clears.all fun (f, _, w) => f == "Open" && w == "after-loop-start" then .afterLoopStart
  else .early

/-! ## on-open / on-close step sequences (platform/onx.go) -/

/-- an on-X function: run the steps in order; each step transforms the connection state and may
    fail; after every step the loop tests the error and returns it at once. `none` = all succeeded. -/
def onxSeq {σ ε : Type} : List (σ → σ × Option ε) → σ → σ × Option ε
  | [], s => (s, none)
  | f :: fs, s =>
    match f s with
    | (s', some e) => (s', some e)
    | (s', none) => onxSeq fs s'

/-- the same loop when the error of the steps marked `true` is bound to a new variable in its case
    arm (`r, err := …`): the test after the switch reads the loop's own, still nil, `err` -/
def onxSeqShadow {σ ε : Type} : List (Bool × (σ → σ × Option ε)) → σ → σ × Option ε
  | [], s => (s, none)
  | (shadowed, f) :: fs, s =>
    match f s with
    | (s', some e) => if shadowed then onxSeqShadow fs s' else (s', some e)
    | (s', none) => onxSeqShadow fs s'

/-! ## operations built on other operations (SendCommands, SendConfigs, SendConfig, …FromFile) -/

/-- a composite operation: run the element operations in order on the connection state, collecting
    their results; the first element that fails ends the composite with that error and NO result -/
def composed {σ ε α : Type} : List (σ → σ × (ε ⊕ α)) → σ → σ × (ε ⊕ List α)
  | [], s => (s, .inr [])
  | f :: fs, s =>
    match f s with
    | (s', .inl e) => (s', .inl e)
    | (s', .inr a) =>
      match composed fs s' with
      | (s'', .inl e) => (s'', .inl e)
      | (s'', .inr as) => (s'', .inr (a :: as))

/-- the variant that hands back what it has gathered when an element fails and lets a wrapper turn
    that into a result (`return m, err` + `if err != nil && len(m.Responses) == 0`) -/
def composedPartial {σ ε α : Type} : List (σ → σ × (ε ⊕ α)) → σ → σ × (ε ⊕ List α)
  | [], s => (s, .inr [])
  | f :: fs, s =>
    match f s with
    | (s', .inl _) => (s', .inr [])          -- the error is dropped, the gathered part is the result
    | (s', .inr a) =>
      match composedPartial fs s' with
      | (s'', .inl e) => (s'', .inl e)
      | (s'', .inr as) => (s'', .inr (a :: as))

/-! ## the standard operations as programs -/

/-- `Channel.SendInputB` -/
def sendInputProg (cfg : Cfg) (x : Exchange) : List Phase :=
  [.write x.cmd x.echo, .read (echoPred cfg x.cmd), .write cfg.ret x.resp, .read (promptPred cfg)]

/-- `Channel.GetPrompt` -/
def getPromptProg (cfg : Cfg) (resp : List Bytes) : List Phase :=
  [.write cfg.ret resp, .read (promptPred cfg)]

/-- one event of `Channel.SendInteractive`: write the input, read its echo unless hidden, write the
    return, read until one of the event's prompts -/
structure Event where
  input : Bytes
  hidden : Bool
  echo : List Bytes
  resp : List Bytes
  anyP : Bytes → Bool          -- `ReadUntilAnyPrompt` predicate on the buffer (window inside)

def eventProg (cfg : Cfg) (e : Event) : List Phase :=
  if e.hidden then [.write e.input e.echo, .write cfg.ret e.resp, .read e.anyP]
  else [.write e.input e.echo, .read (echoPred cfg e.input), .write cfg.ret e.resp, .read e.anyP]

def interactiveProg (cfg : Cfg) (es : List Event) : List Phase := es.flatMap (eventProg cfg)

/-- NETCONF `Open` after the transport is up: read the server hello, send the client hello -/
def ncOpenProg (delimP : Bytes → Bool) (clientHello ret : Bytes) : List Phase :=
  [.read delimP, .write clientHello [], .write ret []]

/-! ## NETCONF: `Driver.read` and `sendRPC` -/

structure NSt where
  ch : St
  nb : Bytes                     -- `Driver.read`'s buffer
  fwd : Option Err               -- `Driver.read` is blocked in `d.errs <- err`
  store : List (Nat × Bytes)     -- `d.messages` (newest first)

/-- one iteration of `Driver.read`; `echoRest b = some rest` when `b` contains `</rpc>` (the transport
    echoed the request): `rest` is what follows the first delimiter -/
def nstep (msgP : Bytes → Bool) (idOf : Bytes → Nat) (echoRest : Bytes → Option Bytes) (n : NSt) : NSt :=
  match n.fwd with
  | some _ => n
  | none =>
    match chRead n.ch with
    | (.err e, s') => { n with ch := s', fwd := some e }
    | (.nil, s') => { n with ch := s' }
    | (.data c, s') =>
      if msgP (n.nb ++ c) then
        match echoRest (n.nb ++ c) with
        | some rest => { n with ch := s', nb := rest }   -- the request echoed back: keep what follows it
        | none =>
          { n with ch := s', nb := [],
                   store := if idOf (n.nb ++ c) = 0 then n.store else (idOf (n.nb ++ c), n.nb ++ c) :: n.store }
      else { n with ch := s', nb := n.nb ++ c }

/-- feed chunks to `Driver.read`'s accumulate-and-test: `true` iff no message is ever stored (every
    buffer on which the delimiter matcher fires is an echoed request, after which reading goes on
    with what follows it) -/
def feedSafe (msgP : Bytes → Bool) (echoRest : Bytes → Option Bytes) : Bytes → List Bytes → Bool
  | _, [] => true
  | nb, c :: cs =>
    if msgP (nb ++ c) then
      match echoRest (nb ++ c) with
      | some rest => feedSafe msgP echoRest rest cs
      | none => false
    else feedSafe msgP echoRest (nb ++ c) cs

/-- the chunks a transport with `left` bytes to go still delivers of the chunk list `cs` (the last one
    cut short by the loss) -/
def cutTo : Nat → List Bytes → List Bytes
  | _, [] => []
  | left, c :: cs =>
    if left = 0 then []
    else if c.length ≤ left then c :: cutTo (left - c.length) cs
    else [c.take left]

/-- `sendRPC`: the remaining transport writes (with the server's reaction), then the `select` -/
structure Rpc where
  writes : List (Bytes × List Bytes)
  mid : Nat

/-- one step of `sendRPC`; `preferData` resolves the `select` when both arms are ready -/
def rpcStep (preferData : Bool) (n : NSt) (r : Rpc) : NSt × (Rpc ⊕ Res) :=
  match r.writes with
  | (b, react) :: ws =>
    match chWrite n.ch b react with
    | (false, s') => ({ n with ch := s' }, .inr (.error .write))
    | (true, s') => ({ n with ch := s' }, .inl { r with writes := ws })
  | [] =>
    match n.fwd, n.store.lookup r.mid with
    | some e, none => ({ n with fwd := none }, .inr (.error e))
    | none, some m => ({ n with store := n.store.filter (·.1 != r.mid) }, .inr (.ok [m]))
    | some e, some m =>
      if preferData then ({ n with store := n.store.filter (·.1 != r.mid) }, .inr (.ok [m]))
      else ({ n with fwd := none }, .inr (.error e))
    | none, none => (n, .inl r)

inductive NActor | rdr | fwd | rpc (preferData : Bool)
  deriving DecidableEq, Repr

def nrun (msgP : Bytes → Bool) (idOf : Bytes → Nat) (echoRest : Bytes → Option Bytes) : List NActor → NSt → Rpc → NSt × (Rpc ⊕ Res)
  | [], n, r => (n, .inl r)
  | .rdr :: t, n, r => nrun msgP idOf echoRest t { n with ch := rstep n.ch } r
  | .fwd :: t, n, r => nrun msgP idOf echoRest t (nstep msgP idOf echoRest n) r
  | .rpc p :: t, n, r =>
    match rpcStep p n r with
    | (n', .inl r') => nrun msgP idOf echoRest t n' r'
    | (n', .inr res) => (n', .inr res)

/-- a NETCONF tick: each of the three goroutines takes one step, in one of the six orders
    (`ord % 6`), `ord / 6 % 2` resolving the `select` -/
def ntick (ord : Nat) : List NActor :=
  let p := ord / 6 % 2 == 1
  match ord % 6 with
  | 0 => [.rdr, .fwd, .rpc p]
  | 1 => [.rdr, .rpc p, .fwd]
  | 2 => [.fwd, .rdr, .rpc p]
  | 3 => [.fwd, .rpc p, .rdr]
  | 4 => [.rpc p, .rdr, .fwd]
  | _ => [.rpc p, .fwd, .rdr]

def nticks (ords : List Nat) : List NActor := ords.flatMap ntick

/-- everything the server has emitted or will emit for this RPC that `Driver.read` has not yet
    turned into a message -/
def nunread (n : NSt) (r : Rpc) : Bytes :=
  n.nb ++ n.ch.q.flatten ++ n.ch.pending.flatten ++ (r.writes.map (·.2.flatten)).flatten

/-- the chunks `Driver.read` can still be handed: queued, pending or still to be emitted in reaction
    to the RPC's remaining writes — as far as the transport delivers them -/
def deliverable (n : NSt) (r : Rpc) : List Bytes :=
  n.ch.q ++ cutTo n.ch.left (n.ch.pending ++ (r.writes.map (·.2)).flatten)

/-- bytes `Driver.read` holds or can still be given -/
def nbudget (n : NSt) : Nat := n.ch.left + n.nb.length + n.ch.q.flatten.length

end Scrapli.Loss
