import ScrapliModel.Regex
/-!
# RegexSpec: a declarative match relation for the regex model

`Matches re p q`: the regular expression `re` matches the input between position `p` and position
`q`. The relation is rune-level (one `decodeRune` step per consuming atom), position-aware (line and
text anchors and word boundaries look at the bytes around the position) and ignores captures,
priorities (left alternative first) and greediness: it says *which* spans a regex can match, not
which one a leftmost-first engine reports. `Lemmas/RegexSound.lean` proves the executable engine
`Rx.m` sound and complete against it.
-/
namespace Scrapli.Rx
open Scrapli

/-- `(?m)^`: at the start of the text or right after a line feed -/
def Pos.atBol (p : Pos) : Bool := match p.before with | [] => true | b :: _ => b == LF
/-- `(?m)$`: at the end of the text or right before a line feed -/
def Pos.atEol (p : Pos) : Bool := match p.after with | [] => true | b :: _ => b == LF
/-- `\A` -/
def Pos.atBot (p : Pos) : Bool := match p.before with | [] => true | _ :: _ => false
/-- `\z` -/
def Pos.atEot (p : Pos) : Bool := match p.after with | [] => true | _ :: _ => false

/-- The declarative match relation. -/
inductive Matches : Re → Pos → Pos → Prop
  | empty (p : Pos) : Matches .empty p p
  | lit {p : Pos} {r w : Nat} : decodeRune p.after = some (r, w) → Matches (.lit r) p (p.advance w)
  | cls {p : Pos} {rs : List (Nat × Nat)} {r w : Nat} :
      decodeRune p.after = some (r, w) → inRanges r rs = true → Matches (.cls rs) p (p.advance w)
  | anyNL {p : Pos} {r w : Nat} : decodeRune p.after = some (r, w) → Matches .anyNL p (p.advance w)
  | anyNoNL {p : Pos} {r w : Nat} :
      decodeRune p.after = some (r, w) → r ≠ 10 → Matches .anyNoNL p (p.advance w)
  | bol {p : Pos} : p.atBol = true → Matches .bol p p
  | eol {p : Pos} : p.atEol = true → Matches .eol p p
  | bot {p : Pos} : p.atBot = true → Matches .bot p p
  | eot {p : Pos} : p.atEot = true → Matches .eot p p
  | wordB {p : Pos} : atWordBoundary p = true → Matches .wordB p p
  | noWordB {p : Pos} : atWordBoundary p = false → Matches .noWordB p p
  | cat {a b : Re} {p q r : Pos} : Matches a p q → Matches b q r → Matches (.cat a b) p r
  | altL {a b : Re} {p q : Pos} : Matches a p q → Matches (.alt a b) p q
  | altR {a b : Re} {p q : Pos} : Matches b p q → Matches (.alt a b) p q
  | starNil {r : Re} {g : Bool} (p : Pos) : Matches (.star r g) p p
  | starCons {r : Re} {g : Bool} {p q s : Pos} :
      Matches r p q → Matches (.star r g) q s → Matches (.star r g) p s
  | plus {r : Re} {g : Bool} {p q s : Pos} :
      Matches r p q → Matches (.star r g) q s → Matches (.plus r g) p s
  | questNil {r : Re} {g : Bool} (p : Pos) : Matches (.quest r g) p p
  | questSome {r : Re} {g : Bool} {p q : Pos} : Matches r p q → Matches (.quest r g) p q
  | group {i : Nat} {r : Re} {p q : Pos} : Matches r p q → Matches (.group i r) p q

/-- The match relation with the capture table threaded through, as the engine does: a group
records `(index, start offset, end offset)` on top of the captures of its body; later entries
override earlier ones (`Caps.get`). Priorities and greediness are still not specified: this relation
says which `(end, captures)` pairs are possible, not which one is reported. -/
inductive MatchesC : Re → Pos → Caps → Pos → Caps → Prop
  | empty (p : Pos) (c : Caps) : MatchesC .empty p c p c
  | lit {p : Pos} {c : Caps} {r w : Nat} :
      decodeRune p.after = some (r, w) → MatchesC (.lit r) p c (p.advance w) c
  | cls {p : Pos} {c : Caps} {rs : List (Nat × Nat)} {r w : Nat} :
      decodeRune p.after = some (r, w) → inRanges r rs = true → MatchesC (.cls rs) p c (p.advance w) c
  | anyNL {p : Pos} {c : Caps} {r w : Nat} :
      decodeRune p.after = some (r, w) → MatchesC .anyNL p c (p.advance w) c
  | anyNoNL {p : Pos} {c : Caps} {r w : Nat} :
      decodeRune p.after = some (r, w) → r ≠ 10 → MatchesC .anyNoNL p c (p.advance w) c
  | bol {p : Pos} {c : Caps} : p.atBol = true → MatchesC .bol p c p c
  | eol {p : Pos} {c : Caps} : p.atEol = true → MatchesC .eol p c p c
  | bot {p : Pos} {c : Caps} : p.atBot = true → MatchesC .bot p c p c
  | eot {p : Pos} {c : Caps} : p.atEot = true → MatchesC .eot p c p c
  | wordB {p : Pos} {c : Caps} : atWordBoundary p = true → MatchesC .wordB p c p c
  | noWordB {p : Pos} {c : Caps} : atWordBoundary p = false → MatchesC .noWordB p c p c
  | cat {a b : Re} {p q r : Pos} {c c1 c2 : Caps} :
      MatchesC a p c q c1 → MatchesC b q c1 r c2 → MatchesC (.cat a b) p c r c2
  | altL {a b : Re} {p q : Pos} {c c1 : Caps} : MatchesC a p c q c1 → MatchesC (.alt a b) p c q c1
  | altR {a b : Re} {p q : Pos} {c c1 : Caps} : MatchesC b p c q c1 → MatchesC (.alt a b) p c q c1
  | starNil {r : Re} {g : Bool} (p : Pos) (c : Caps) : MatchesC (.star r g) p c p c
  | starCons {r : Re} {g : Bool} {p q s : Pos} {c c1 c2 : Caps} :
      MatchesC r p c q c1 → MatchesC (.star r g) q c1 s c2 → MatchesC (.star r g) p c s c2
  | plus {r : Re} {g : Bool} {p q s : Pos} {c c1 c2 : Caps} :
      MatchesC r p c q c1 → MatchesC (.star r g) q c1 s c2 → MatchesC (.plus r g) p c s c2
  | questNil {r : Re} {g : Bool} (p : Pos) (c : Caps) : MatchesC (.quest r g) p c p c
  | questSome {r : Re} {g : Bool} {p q : Pos} {c c1 : Caps} :
      MatchesC r p c q c1 → MatchesC (.quest r g) p c q c1
  | group {i : Nat} {r : Re} {p q : Pos} {c c1 : Caps} :
      MatchesC r p c q c1 → MatchesC (.group i r) p c q ((i, p.off, q.off) :: c1)

/-- the regex contains no capture group -/
def Re.noGroup : Re → Bool
  | .group _ _ => false
  | .cat a b => a.noGroup && b.noGroup
  | .alt a b => a.noGroup && b.noGroup
  | .star r _ => r.noGroup
  | .plus r _ => r.noGroup
  | .quest r _ => r.noGroup
  | _ => true

/-- `q` is reachable from `p` by decoding whole runes: the positions the search loop visits (Go's
`regexp` also steps rune by rune, so a match never starts inside a valid multi-byte sequence). -/
inductive RuneReach : Pos → Pos → Prop
  | refl (p : Pos) : RuneReach p p
  | step {p q : Pos} {r w : Nat} :
      decodeRune p.after = some (r, w) → RuneReach (p.advance w) q → RuneReach p q

/-- `p` is a position of the text `s`: it splits `s` and carries the right offset. -/
def Pos.Of (s : Bytes) (p : Pos) : Prop := p.before.reverse ++ p.after = s ∧ p.off = p.before.length

/-- the regex cannot consume a line feed: no `(?s).`, no `\n` literal, no class containing `\n` -/
def Re.noLF : Re → Bool
  | .lit r => r != 10
  | .cls rs => !inRanges 10 rs
  | .anyNL => false
  | .cat a b => a.noLF && b.noLF
  | .alt a b => a.noLF && b.noLF
  | .star r _ => r.noLF
  | .plus r _ => r.noLF
  | .quest r _ => r.noLF
  | .group _ r => r.noLF
  | _ => true

/-- the regex contains no text anchor (`\A`, `\z`, non-multiline `^` `$`) -/
def Re.noTextAnchor : Re → Bool
  | .bot => false
  | .eot => false
  | .cat a b => a.noTextAnchor && b.noTextAnchor
  | .alt a b => a.noTextAnchor && b.noTextAnchor
  | .star r _ => r.noTextAnchor
  | .plus r _ => r.noTextAnchor
  | .quest r _ => r.noTextAnchor
  | .group _ r => r.noTextAnchor
  | _ => true

/-- empty, or beginning with a line feed: what may follow a line (and, reversed, precede it) -/
def LFish (l : Bytes) : Prop := l = [] ∨ ∃ t, l = LF :: t

/-- Fuel that suffices for the engine on `re` with `n` bytes of input left: the engine spends one
unit of fuel per nesting level of the regex tree, and one per star iteration (each iteration must
consume at least one byte). -/
def Re.need : Re → Nat → Nat
  | .cat a b, n => max (a.need n) (b.need n) + 1
  | .alt a b, n => max (a.need n) (b.need n) + 1
  | .star r _, n => r.need n + n + 1
  | .plus r _, n => r.need n + n + 3
  | .quest r _, n => r.need n + 1
  | .group _ r, n => r.need n + 1
  | _, _ => 1

/-- the bytes between position `p` and a later position `q` of the same text -/
def Pos.span (p q : Pos) : Bytes := p.after.take (q.off - p.off)

/-- the spans `(start, end, _)` are in order, do not overlap, start at or after `cur` and end at or
before `bound` -/
def SpansIn (bound : Nat) : Nat → List (Nat × Nat × Caps) → Prop
  | _, [] => True
  | cur, (a, e, _) :: t => cur ≤ a ∧ a ≤ e ∧ e ≤ bound ∧ SpansIn bound e t

end Scrapli.Rx
