import ScrapliModel.ChannelOps
import ScrapliModel.ChannelEv
/-!
# `GetPrompt` and `SendInputB` over phase-indexed events (channel/getprompt.go, channel/sendinput.go)

Both operations run their work in one goroutine and block on its single result (the
"synchronous goroutine" idiom), so they are sequential computations over an environment `OpSt`:

* `phases` — one event list (`ChannelEv.Ev`) per `ReadUntil*` call, in call order. What a read
  leaves unconsumed stays in the channel's queue, i.e. is prepended to the next phase
  (`pushBack`) — with chunk-only events this is the queue of `ChannelOps.lean`;
* `writes` — every byte string handed to `Channel.Write` / `WriteReturn`, in order (the attempt is
  logged whether or not it fails);
* `wfaults` — the outcome of each write in order (`none` = success; an exhausted list = success).

`context.WithTimeout`, `defer cancel()`, `GetTimeout` and logging are not modelled (time is C05's
subject); a cancelled context shows up as the `cancelled` event and is mapped to
`ErrTimeoutError`, exactly like any error that `errors.Is(·, context.DeadlineExceeded)`.

Core Lean only.
-/
namespace Scrapli.Chan
open Scrapli

structure OpSt where
  phases : List (List Ev)
  writes : List Bytes
  wfaults : List (Option String)

def popFault : List (Option String) → Option String × List (Option String)
  | [] => (none, [])
  | f :: fs => (f, fs)

def popPhase : List (List Ev) → List Ev × List (List Ev)
  | [] => ([], [])
  | p :: ps => (p, ps)

/-- events a read did not consume are still queued when the next read starts -/
def pushBack (rest : List Ev) : List (List Ev) → List (List Ev)
  | [] => [rest]
  | p :: ps => (rest ++ p) :: ps

/-- how an operation ends -/
inductive OpRes where
  | ok (b : Bytes)
  | timeout            -- `ErrTimeoutError` (the context was done)
  | err (e : String)   -- any other error, returned as it is
  deriving Repr, DecidableEq

/-- what `ctx.Err()` is called in the event semantics -/
def cancelErr : String := "ctx.Err()"

/-- the parent's error mapping: `errors.Is(r.err, context.DeadlineExceeded)` → `ErrTimeoutError` -/
def mapErr (e : String) : OpRes := if e = cancelErr then .timeout else .err e

/-- `c.Write(b, …)` / `c.WriteReturn()` -/
def OpSt.write (st : OpSt) (b : Bytes) : Option String × OpSt :=
  ((popFault st.wfaults).1, { st with writes := st.writes ++ [b], wfaults := (popFault st.wfaults).2 })

/-- one `ReadUntil*` call with completion predicate `P`; `skip` = the early return on an empty
input, which consumes nothing -/
def OpSt.read (st : OpSt) (skip : Bool) (P : Bytes → Bool) : Option (RRes × OpSt) :=
  if skip then some (.ok [], { st with phases := pushBack (popPhase st.phases).1 (popPhase st.phases).2 })
  else
    match readUntilEv P (popPhase st.phases).1 [] with
    | none => none
    | some (r, rest) => some (r, { st with phases := pushBack rest (popPhase st.phases).2 })

/-- a read that did not succeed, as the operation's result -/
def RRes.fail : RRes → OpRes
  | .ok _ => .ok []          -- not used
  | .cancelled => .timeout
  | .err e => mapErr e

/-- `Channel.GetPrompt` -/
def getPromptEv (cfg : Cfg) (findP : Bytes → Bytes) (st : OpSt) : Option (OpRes × OpSt) :=
  match st.write cfg.ret with
  | (some e, st1) => some (mapErr e, st1)
  | (none, st1) =>
    match st1.read false (promptPred cfg) with
    | none => none
    | some (.ok rb, st2) => some (.ok (findP rb), st2)
    | some (r, st2) => some (r.fail, st2)

/-- `Channel.SendInputB`: `opErr` = the error of `NewOperation(opts...)`, `o` its options
(`ExactMatchInput` and `StripPrompt` are `cfg.exact` and `cfg.strip`) -/
def sendInputEv (cfg : Cfg) (o : SendOpts) (opErr : Option String) (st : OpSt) (cmd : Bytes) :
    Option (OpRes × OpSt) :=
  match opErr with
  | some e => some (.err e, st)
  | none =>
    match st.write cmd with
    | (some e, st1) => some (mapErr e, st1)
    | (none, st1) =>
      match st1.read cmd.isEmpty (echoPred cfg cmd) with
      | none => none
      | some (.ok _, st2) =>
        (match st2.write cfg.ret with
         | (some e, st3) => some (mapErr e, st3)
         | (none, st3) =>
           if o.eager then some (.ok (processOut cfg []), st3)
           else
             match st3.read false (finalPred cfg o.interim) with
             | none => none
             | some (.ok rb, st4) => some (.ok (processOut cfg rb), st4)
             | some (r, st4) => some (r.fail, st4))
      | some (r, st2) => some (r.fail, st2)

/-- the Go results of an operation with the environment it leaves -/
def OpRes.encode : OpRes × OpSt → Bytes × Option String × List (List Ev) × List Bytes × List (Option String)
  | (.ok b, st) => (b, none, st.phases, st.writes, st.wfaults)
  | (.timeout, st) => ([], some "ErrTimeoutError", st.phases, st.writes, st.wfaults)
  | (.err e, st) => ([], some e, st.phases, st.writes, st.wfaults)

end Scrapli.Chan
