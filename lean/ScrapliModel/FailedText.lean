import ScrapliModel.Failed
import ScrapliModel.Generated.C13ErrorText
/-!
# FailedText: what the failure errors say, and the joined result (model for C13)

* `fmt.Sprintf` restricted to the verbs the two error texts use (`%s`, `%d`): `parseFmt`, `render`
* `(*OperationError).Error`, `(*MultiOperationError).Error` (`response/errors.go`) → `OpErr.text`,
  `multiText`; formats and argument lists are regenerated from the source
  (`Generated/C13ErrorText.lean`)
* `(*MultiResponse).JoinedResult` (`response/multi.go`) → `Multi.joinedResult`

Core Lean only.
-/
namespace Scrapli.Failed
open Scrapli

inductive FmtPart where
  | lit (b : Bytes)
  | str   -- `%s`
  | int   -- `%d`
deriving DecidableEq, Repr

inductive FmtArg where
  | s (b : Bytes)
  | n (k : Nat)
deriving DecidableEq, Repr

def flushLit (acc : Bytes) : List FmtPart := if acc.isEmpty then [] else [.lit acc]

/-- split a format into literal pieces and verbs (`%` followed by anything but `s`/`d` stays literal;
the two texts contain no such thing) -/
def parseFmtAux : Bytes → Bytes → List FmtPart
  | [], acc => flushLit acc
  | 37 :: 115 :: t, acc => flushLit acc ++ FmtPart.str :: parseFmtAux t []
  | 37 :: 100 :: t, acc => flushLit acc ++ FmtPart.int :: parseFmtAux t []
  | b :: t, acc => parseFmtAux t (acc ++ [b])

def parseFmt (f : Bytes) : List FmtPart := parseFmtAux f []

/-- `fmt.Sprintf` on a parsed format: a verb without (or with the wrong kind of) argument renders
nothing (Go would print `%!s(MISSING)`; the obligations rule that out) -/
def render : List FmtPart → List FmtArg → Bytes
  | [], _ => []
  | .lit l :: ps, as => l ++ render ps as
  | .str :: ps, .s b :: as => b ++ render ps as
  | .int :: ps, .n k :: as => decDigits k ++ render ps as
  | _ :: ps, [] => render ps []
  | _ :: ps, _ :: as => render ps as

/-- verbs and arguments agree in number and kind -/
def verbsMatch : List FmtPart → List FmtArg → Bool
  | [], [] => true
  | [], _ :: _ => false
  | .lit _ :: ps, as => verbsMatch ps as
  | .str :: ps, .s _ :: as => verbsMatch ps as
  | .int :: ps, .n _ :: as => verbsMatch ps as
  | _ :: _, _ => false

/-- the value of an argument expression of `(*OperationError).Error` -/
def opErrArg (e : OpErr) (name : String) : Option FmtArg :=
  if name == "Input" then some (.s e.input)
  else if name == "Output" then some (.s e.output)
  else if name == "ErrorString" then some (.s e.errStr)
  else none

/-- the value of an argument expression of `(*MultiOperationError).Error` -/
def multiErrArg (es : List OpErr) (name : String) : Option FmtArg :=
  if name == "len(Operations)" then some (.n es.length)
  else match es with
    | e :: _ =>
      if name == "Operations[0].Input" then some (.s e.input)
      else if name == "Operations[0].Output" then some (.s e.output)
      else if name == "Operations[0].ErrorString" then some (.s e.errStr)
      else none
    | [] => none

/-- `(*OperationError).Error()` -/
def OpErr.text (e : OpErr) : Bytes :=
  render (parseFmt Gen.C13ErrorText.opErrorFormat) (Gen.C13ErrorText.opErrorArgs.filterMap (opErrArg e))

/-- `(*MultiOperationError).Error()` -/
def multiText (es : List OpErr) : Bytes :=
  if Gen.C13ErrorText.multiOneWhenLen == some es.length then
    render (parseFmt Gen.C13ErrorText.multiOneFormat) (Gen.C13ErrorText.multiOneArgs.filterMap (multiErrArg es))
  else
    render (parseFmt Gen.C13ErrorText.multiManyFormat) (Gen.C13ErrorText.multiManyArgs.filterMap (multiErrArg es))

/-- the text of whatever sits in a `Failed` field -/
def Failure.text : Failure → Bytes
  | .op e => e.text
  | .multi es => multiText es

/-- `(*MultiResponse).JoinedResult()` -/
def Multi.joinedResult (m : Multi) : Bytes := joinLF (m.responses.map (·.result))

end Scrapli.Failed
