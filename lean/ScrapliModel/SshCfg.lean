import ScrapliModel.Bytes
import ScrapliModel.Generated.Consts
/-!
# SshCfg: how the two SSH transports turn the configuration into an ssh invocation (C14)

* `buildOpenArgs` / `systemArgv` / `systemOpen` mirror `transport/system.go`
  (`buildOpenArgs`, `open`/`openNetconf`, `Open`): the argument vector handed to the `ssh` binary.
* `standardCfg` / `standardOpen` mirror `transport/standard.go` (`openBase`): the `crypto/ssh`
  client configuration (host-key policy, auth methods, user, address) and the outcome of `Open`
  given what the environment does (files load, the known-hosts verdict on the server's key, which
  credentials the server accepts).  Host-key *matching* itself (`knownhosts`, OpenSSH) is an input
  (`KhVerdict`), not modelled.
* `sshParse` is OUR reading of how OpenSSH's `ssh` interprets a command line (getopt loop of
  `ssh.c`: first value wins for `-p`, `-l` and every `-o Key=value`; `-F` last wins; `-i`
  accumulates).  It is specification-side: used to say what an argv *means*.

Strings are `Bytes`; core Lean only.
-/
namespace Scrapli.SshCfg

/-- byte-string literal: `b!"-p"` elaborates to the explicit list `[45, 112]` so that the kernel
and `simp`/`decide` see constructor-form lists (`String.toUTF8` does not reduce). -/
macro "b!" s:str : term => do
  let bs := s.getString.toUTF8.toList
  let elems ← bs.toArray.mapM fun b => `(($(Lean.quote b.toNat) : UInt8))
  `(([$elems,*] : Bytes))

/-! Placeholders the translator (`go/cmd/extract/gen_c14.go`) emits for source constructs outside
its statement language: the generated file still compiles (other checks link against it), but no
equality with the model can be proved about them, so the C14 obligation fails as it should. -/
def unsupportedS (_what : String) : Bytes := [0]
def unsupportedL (_what : String) : List Bytes := [[0]]
def unsupportedI (_what : String) : Int := 0
def unsupportedB (_what : String) : Bool := false

/-- `fmt.Sprintf("%d", i)` -/
def fmtInt : Int → Bytes
  | .ofNat n => decDigits n
  | .negSucc n => 45 :: decDigits (n + 1)

/-- the fields of `transport.Args` the SSH transports read -/
structure Args where
  host : Bytes
  port : Int
  user : Bytes := []
  password : Bytes := []
  /-- `TimeoutSocket`, a `time.Duration` = nanoseconds -/
  timeoutNs : Int
  deriving Repr

/-- `transport.SSHArgs` -/
structure SSHArgs where
  strictKey : Bool
  privateKeyPath : Bytes := []
  privateKeyPassPhrase : Bytes := []
  configFile : Bytes := []
  knownHostsFile : Bytes := []
  netconf : Bool := false
  deriving Repr

/-- `NewSSHArgs` before any option is applied: strict checking comes from the generated constant -/
def newSSHArgs : SSHArgs := { strictKey := Gen.Transport.defaultSSHStrictKey }

/-- `int(d.Seconds())`: `Seconds()` is `float64(d/Second) + float64(d%Second)/1e9`, `int()`
truncates toward zero.  Exact (no float rounding up to the next integer) for `|d| < 2^50 ns`
(≈ 13 days), which is the correspondence domain. -/
def timeoutSeconds (ns : Int) : Int := Int.tdiv ns 1000000000

/-! ## system transport -/

/-- `(*System).buildOpenArgs`, statement by statement -/
def buildOpenArgs (a : Args) (s : SSHArgs) (extra : List Bytes) : List Bytes :=
  let secs := fmtInt (timeoutSeconds a.timeoutNs)
  [a.host, b!"-p", fmtInt a.port,
   b!"-o", b!"ConnectTimeout=" ++ secs,
   b!"-o", b!"ServerAliveInterval=" ++ secs,
   b!"-o", b!"EscapeChar=none"]
  ++ (if a.user ≠ [] then [b!"-l", a.user] else [])
  ++ (if s.strictKey then
        [b!"-o", b!"StrictHostKeyChecking=yes"]
        ++ (if s.knownHostsFile ≠ [] then [b!"-o", b!"UserKnownHostsFile=" ++ s.knownHostsFile] else [])
      else
        [b!"-o", b!"StrictHostKeyChecking=no", b!"-o", b!"UserKnownHostsFile=/dev/null"])
  ++ (if s.configFile ≠ [] then [b!"-F", s.configFile] else [b!"-F", b!"/dev/null"])
  ++ (if s.privateKeyPath ≠ [] then [b!"-i", s.privateKeyPath] else [])
  ++ extra

/-- the `System` transport object as far as `Open` reads it -/
structure System where
  ssh : SSHArgs
  /-- `ExtraArgs` (`WithSystemTransportOpenArgs`, appended) -/
  extra : List Bytes := []
  /-- `OpenBin` -/
  bin : Bytes := Gen.Transport.defaultOpenBin
  /-- `OpenArgs` as set by `WithSystemTransportOpenArgsOverride` (empty = not set) -/
  override : List Bytes := []

/-- `open` / `openNetconf`: the argv of the spawned process (first `Open` of the object) -/
def systemArgv (a : Args) (t : System) : List Bytes :=
  let base := if t.override ≠ [] then t.override else buildOpenArgs a t.ssh t.extra
  if t.ssh.netconf then base ++ [b!"-s", b!"netconf"] else base

/-- bytes of the fixed option syntax: ASCII letters, digits, `-`, `=`, `/` -/
def isOptionByte (b : UInt8) : Bool :=
  isDigit b || (65 ≤ b && b ≤ 90) || (97 ≤ b && b ≤ 122) || b == 45 || b == 61 || b == 47

/-- `m` is a marker byte: it occurs in none of the inputs other than the password, nor in the
fixed option syntax (domain predicate of `argv_no_password`) -/
def markerB (m : UInt8) (a : Args) (t : System) : Bool :=
  !isOptionByte m && !a.host.contains m && !a.user.contains m && !t.ssh.knownHostsFile.contains m &&
  !t.ssh.configFile.contains m && !t.ssh.privateKeyPath.contains m &&
  t.extra.all (fun x => !x.contains m) && t.override.all (fun x => !x.contains m)

inductive Err | badOption | keyFile | knownHostsFile | fileNotFound | spawn
  deriving DecidableEq, Repr

/-- `(*System).Open`: pre-checks on the key, then the spawn of `bin argv…`.
`keyLoads` = the key file is readable and `ssh.ParsePrivateKey` accepts it (environment). -/
def systemOpen (a : Args) (t : System) (keyLoads : Bool) : Except Err (Bytes × List Bytes) :=
  if t.ssh.privateKeyPath ≠ [] then
    if t.ssh.privateKeyPassPhrase ≠ [] then .error .badOption
    else if !keyLoads then .error .keyFile
    else .ok (t.bin, systemArgv a t)
  else .ok (t.bin, systemArgv a t)

/-- `Open` including the spawn itself: `binRuns` = `OpenBin` can be started with a pty
(environment); a binary that cannot be started is an error of `Open`, nothing is connected. -/
def systemOpenSpawn (a : Args) (t : System) (keyLoads binRuns : Bool) : Except Err (Bytes × List Bytes) :=
  match systemOpen a t keyLoads with
  | .ok r => if binRuns then .ok r else .error .spawn
  | .error e => .error e

/-! ## the ssh file options (`driver/options/transportssh.go`) -/

/-- how a known-hosts / config file is asked for -/
inductive FileOpt
  | none                                   -- option not given
  | path (p : Bytes) (found : Bool)        -- `WithSSH…File(p)`; `found` = `util.ResolveFilePath` succeeds (environment)
  | system (homeHas etcHas : Bool)         -- `WithSSH…FileSystem()`; which of `~/.ssh/…`, `/etc/ssh/…` exist (environment)
  deriving DecidableEq, Repr

/-- the `SSHArgs` field the option leaves behind, or the error `NewSSHArgs` (hence `NewDriver`)
returns: an unresolvable explicit path is `ErrFileNotFoundError`; the system variant takes the
user's file first, the system-wide one second, and is `ErrBadOption` when neither exists. -/
def resolveFileOpt (home etc : Bytes) : FileOpt → Except Err Bytes
  | .none => .ok []
  | .path p found => if found then .ok p else .error .fileNotFound
  | .system homeHas etcHas => if homeHas then .ok home else if etcHas then .ok etc else .error .badOption

/-- `util.ResolveFilePath f`: the path AS GIVEN when a file is there (`asGiven`, environment);
only otherwise the path with a leading `~/` stripped, re-rooted under the home directory, when a
file is there (`underHome`); otherwise not found.  The order matters: a same-named file under
`$HOME` must never replace an existing configured file. -/
def resolvePath (home f : Bytes) (asGiven underHome : Bool) : Except Err Bytes :=
  if asGiven then .ok f
  else if underHome then .ok (home ++ b!"/" ++ trimPrefix f (b!"~/"))
  else .error .fileNotFound

/-! ## what the channel is given for in-channel authentication (`Transport.InChannelAuthData`) -/

inductive TransportKind | system | standard
  deriving DecidableEq, Repr

inductive InChanType | unsupported | ssh
  deriving DecidableEq, Repr

structure InChanData where
  type : InChanType
  user : Bytes
  password : Bytes
  passphrase : Bytes
  deriving DecidableEq, Repr

/-- the system transport authenticates "in channel" (the channel types the password at ssh's own
prompt on the pty); the standard transport does not implement in-channel auth, the channel gets
no credential at all -/
def inChannelAuthData (k : TransportKind) (a : Args) (s : SSHArgs) : InChanData :=
  match k with
  | .standard => { type := .unsupported, user := [], password := [], passphrase := [] }
  | .system => { type := .ssh, user := a.user, password := a.password, passphrase := s.privateKeyPassPhrase }

/-! ## standard (crypto/ssh) transport -/

inductive HostKeyPolicy
  | insecure                       -- `ssh.InsecureIgnoreHostKey()`
  | knownHosts (file : Bytes)      -- `knownhosts.New(file)`
  deriving DecidableEq, Repr

inductive AuthMethod
  | publicKey (keyPath : Bytes)
  | password (pw : Bytes)
  | keyboardInteractive (answer : Bytes)
  deriving DecidableEq, Repr

/-- what `openBase` hands to `ssh.Dial` -/
structure ClientCfg where
  addr : Bytes
  user : Bytes
  auth : List AuthMethod
  policy : HostKeyPolicy
  timeoutNs : Int
  deriving DecidableEq, Repr

/-- `openBase` up to the `ssh.Dial` call.  `khLoads`: `knownhosts.New` succeeds on the file;
`keyLoads`: key file readable and parseable (both environment). -/
def standardCfg (a : Args) (s : SSHArgs) (khLoads keyLoads : Bool) : Except Err ClientCfg :=
  if s.strictKey && s.knownHostsFile == [] then .error .badOption
  else if s.strictKey && !khLoads then .error .knownHostsFile
  else
    let policy := if s.strictKey then HostKeyPolicy.knownHosts s.knownHostsFile else .insecure
    if s.privateKeyPath ≠ [] && !keyLoads then .error .keyFile
    else
      let auth := (if s.privateKeyPath ≠ [] then [AuthMethod.publicKey s.privateKeyPath] else [])
        ++ (if a.password ≠ [] then [.password a.password, .keyboardInteractive a.password] else [])
      .ok { addr := a.host ++ b!":" ++ fmtInt a.port, user := a.user, auth := auth,
            policy := policy, timeoutNs := a.timeoutNs }

/-- what the known-hosts database says about (host:port, server key) — observed, not modelled -/
inductive KhVerdict | matches | mismatch | unknown | revoked
  deriving DecidableEq, Repr

def hostKeyAccepted : HostKeyPolicy → KhVerdict → Bool
  | .insecure, _ => true
  | .knownHosts _, v => v == .matches

inductive Outcome
  | cfgError (e : Err)
  | hostKeyRejected
  | authFailed
  | established (user : Bytes) (by_ : AuthMethod)
  deriving DecidableEq, Repr

/-- outcome of `Open` of the standard transport against a reachable server whose key gets
`verdict` from the known-hosts file and which accepts exactly the credentials `accepts`;
methods are tried in configuration order (crypto/ssh client behaviour, observed). -/
def standardOpen (a : Args) (s : SSHArgs) (khLoads keyLoads : Bool) (verdict : KhVerdict)
    (accepts : AuthMethod → Bool) : Outcome :=
  match standardCfg a s khLoads keyLoads with
  | .error e => .cfgError e
  | .ok cfg =>
    if !hostKeyAccepted cfg.policy verdict then .hostKeyRejected
    else match cfg.auth.find? accepts with
      | some m => .established cfg.user m
      | none => .authFailed

/-- the methods offered to the server, in order, up to and including the first accepted one -/
def attemptsUntil (accepts : AuthMethod → Bool) : List AuthMethod → List AuthMethod
  | [] => []
  | m :: t => if accepts m then [m] else m :: attemptsUntil accepts t

/-- credentials the server gets to see during `Open` (nothing unless its host key was accepted) -/
def standardAttempts (a : Args) (s : SSHArgs) (khLoads keyLoads : Bool) (verdict : KhVerdict)
    (accepts : AuthMethod → Bool) : List AuthMethod :=
  match standardCfg a s khLoads keyLoads with
  | .error _ => []
  | .ok cfg => if hostKeyAccepted cfg.policy verdict then attemptsUntil accepts cfg.auth else []

/-! ### under which name the known-hosts file is searched -/

/-- `ssh.Dial(tcp, addr, cfg)` hands `addr` itself to the `HostKeyCallback` as `hostname`, and
that is what `knownhosts` looks up (after normalising `host:port` to `host` / `[host]:port`); the
address the name resolved to (`peer`, environment) is deliberately not an input of the result. -/
def hostKeyLookupName (c : ClientCfg) (_peer : Bytes) : Bytes := c.addr

/-! ### the configured identity and how a server answers it -/

/-- `offered_methods_spec`: the auth methods `openBase` configures, as a function of the
configuration alone: the key (iff a key path is set) BEFORE password and keyboard-interactive
(iff a password is set).  `standardCfg` installs exactly this list (`standard_policy`). -/
def configuredMethods (a : Args) (s : SSHArgs) : List AuthMethod :=
  (if s.privateKeyPath ≠ [] then [AuthMethod.publicKey s.privateKeyPath] else [])
  ++ (if a.password ≠ [] then [.password a.password, .keyboardInteractive a.password] else [])

def AuthMethod.isPublicKey : AuthMethod → Bool
  | .publicKey _ => true
  | _ => false

def AuthMethod.isPassword : AuthMethod → Bool
  | .password _ => true
  | _ => false

/-- what the server does with credentials -/
inductive ServerPolicy
  /-- every method is available; a credential is good iff `accepts` says so -/
  | anyOf (accepts : AuthMethod → Bool)
  /-- two steps: only `publickey` is available at first; a good key is a PARTIAL success after
  which only `password` is available and required -/
  | keyThenPassword (keyOk pwOk : Bool)

/-- the crypto/ssh client loop against such a server (observed behaviour of `clientAuthenticate`:
methods are tried in configuration order among those the server lists; a failed method is not
retried): the credentials offered, in order, and the one that completed authentication -/
def authRun : ServerPolicy → List AuthMethod → List AuthMethod × Option AuthMethod
  | .anyOf accepts, l => (attemptsUntil accepts l, l.find? accepts)
  | .keyThenPassword keyOk pwOk, l =>
    match l.find? AuthMethod.isPublicKey with
    | none => ([], none)
    | some k =>
      if !keyOk then ([k], none)
      else match l.find? AuthMethod.isPassword with
        | none => ([k], none)
        | some w => ([k, w], if pwOk then some w else none)

/-- `Open` against a server with the given policy: outcome and credentials offered -/
def standardOpenP (a : Args) (s : SSHArgs) (khLoads keyLoads : Bool) (verdict : KhVerdict)
    (p : ServerPolicy) : Outcome × List AuthMethod :=
  match standardCfg a s khLoads keyLoads with
  | .error e => (.cfgError e, [])
  | .ok cfg =>
    if !hostKeyAccepted cfg.policy verdict then (.hostKeyRejected, [])
    else match authRun p cfg.auth with
      | (offered, some m) => (.established cfg.user m, offered)
      | (offered, none) => (.authFailed, offered)

/-! ### connections in sequence

`openBase` reads the known-hosts file anew for every connection (`knownhosts.New`), so what the
file holds AT THE TIME of a connection is an input of that connection, and nothing a previous
connection did (same process, same path, same or another driver) is. -/

/-- what the configured known-hosts path holds when the connection is opened, as far as this
server's key is concerned (observed, see `KhVerdict`) -/
inductive KhContent
  | missing                  -- no such file
  | malformed                -- `knownhosts.New` rejects it
  | holds (v : KhVerdict)
  deriving DecidableEq, Repr

def KhContent.loads : KhContent → Bool
  | .holds _ => true
  | _ => false

def KhContent.verdict : KhContent → KhVerdict
  | .holds v => v
  | _ => .unknown

/-- one connection attempt with everything it depends on -/
structure Conn where
  a : Args
  s : SSHArgs
  kh : KhContent
  keyLoads : Bool
  accepts : AuthMethod → Bool
  /-- `some (keyOk, pwOk)`: the server runs the two-step policy instead of `accepts` -/
  multi : Option (Bool × Bool) := none

def Conn.policy (c : Conn) : ServerPolicy :=
  match c.multi with
  | some (k, p) => .keyThenPassword k p
  | none => .anyOf c.accepts

/-- outcome and offered credentials of one connection under its server's policy -/
def standardConnP (c : Conn) : Outcome × List AuthMethod :=
  standardOpenP c.a c.s c.kh.loads c.keyLoads c.kh.verdict c.policy

def standardConn (c : Conn) : Outcome :=
  standardOpen c.a c.s c.kh.loads c.keyLoads c.kh.verdict c.accepts

def standardConnAttempts (c : Conn) : List AuthMethod :=
  standardAttempts c.a c.s c.kh.loads c.keyLoads c.kh.verdict c.accepts

/-- a process opening connections one after the other: the transport keeps no state between
them, so the run is the connection-wise map (the state threaded through is `Unit`) -/
def standardHistory (h : List Conn) : List Outcome := h.map standardConn

/-! ## specification side: what an ssh command line means (our reading of OpenSSH `ssh.c`) -/

/-- parse state / effective settings -/
structure Eff where
  host : Option Bytes := none
  port : Option Bytes := none        -- first wins
  user : Option Bytes := none        -- first wins
  strict : Option Bytes := none      -- value of the first `-o StrictHostKeyChecking=…`
  knownHosts : Option Bytes := none  -- value of the first `-o UserKnownHostsFile=…`
  cfg : Option Bytes := none         -- last `-F` wins
  ids : List Bytes := []             -- every `-i`
  subsystem : Bool := false          -- `-s`
  cmd : List Bytes := []             -- remote command words
  pending : Option UInt8 := none     -- option letter waiting for its argument
  noOpts : Bool := false             -- after `--`
  inCmd : Bool := false
  deriving DecidableEq, Repr

def lowerB (b : UInt8) : UInt8 := if 65 ≤ b && b ≤ 90 then b + 32 else b

def isSep (b : UInt8) : Bool := b == 61 || b == 32 || b == 9

/-- `Key=value` / `Key value` → (lower-cased key, value after the one separator) -/
def splitOpt (arg : Bytes) : Bytes × Bytes :=
  ((arg.takeWhile fun b => !isSep b).map lowerB, (arg.dropWhile fun b => !isSep b).drop 1)

def kwStrict : Bytes := b!"stricthostkeychecking"
def kwKnownHosts : Bytes := b!"userknownhostsfile"

/-- option letters of `ssh` that take an argument (optstring of ssh.c) -/
def takesArg (c : UInt8) : Bool :=
  (b!"bceilmopBDEFIJLOPQRSwW").contains c

/-- apply option `-c arg` -/
def applyOpt (e : Eff) (c : UInt8) (arg : Bytes) : Eff :=
  if c == 112 then (if e.port.isNone then { e with port := some arg } else e)            -- p
  else if c == 108 then (if e.user.isNone then { e with user := some arg } else e)       -- l
  else if c == 70 then { e with cfg := some arg }                                        -- F
  else if c == 105 then { e with ids := e.ids ++ [arg] }                                 -- i
  else if c == 111 then                                                                  -- o
    if (splitOpt arg).1 == kwStrict then
      (if e.strict.isNone then { e with strict := some (splitOpt arg).2 } else e)
    else if (splitOpt arg).1 == kwKnownHosts then
      (if e.knownHosts.isNone then { e with knownHosts := some (splitOpt arg).2 } else e)
    else e
  else e

/-- one `-abc` cluster (characters after the dash) -/
def cluster (e : Eff) : List UInt8 → Eff
  | [] => e
  | c :: cs =>
    if takesArg c then
      (if cs.isEmpty then { e with pending := some c } else applyOpt e c cs)
    else cluster (if c == 115 then { e with subsystem := true } else e) cs

def nonOpt (e : Eff) (t : Bytes) : Eff :=
  if e.host.isNone then { e with host := some t, noOpts := false }
  else { e with inCmd := true, cmd := [t] }

/-- a token that getopt treats as an option cluster: `-x…` (not `-`, not `--`) -/
def isOptTok : Bytes → Bool
  | 45 :: c :: cs => !(c == 45 && cs.isEmpty)
  | _ => false

/-- a host that ssh reads as the destination, not as an option (domain of `argv_effective`) -/
def hostOk (h : Bytes) : Bool := !isOptTok h && h != b!"--"

def step (e : Eff) (t : Bytes) : Eff :=
  if e.inCmd then { e with cmd := e.cmd ++ [t] }
  else match e.pending with
    | some c => applyOpt { e with pending := none } c t
    | none =>
      if e.noOpts then nonOpt e t
      else if t == b!"--" then { e with noOpts := true }
      else if isOptTok t then cluster e (t.drop 1)
      else nonOpt e t

/-- effective settings of `ssh argv…` -/
def sshParse (argv : List Bytes) : Eff := argv.foldl step {}

end Scrapli.SshCfg
