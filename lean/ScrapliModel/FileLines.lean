import ScrapliModel.Bytes
/-!
# FileLines: `util.LoadFileLines` (model for the from-file variants of C13)

`bufio.Scanner` with `bufio.ScanLines`: the file is cut at every LF, one trailing CR of a line is
dropped, nothing is emitted for the empty remainder after the last LF — and the scanner *stops
silently* at the first line that does not fit its buffer (`bufio.MaxScanTokenSize` = 65536 bytes;
`LoadFileLines` never looks at `scanner.Err()`), returning the lines before it and no error.
Core Lean only.
-/
namespace Scrapli.FileLines
open Scrapli

/-- `bufio.MaxScanTokenSize` -/
def maxTok : Nat := 65536

/-- `dropCR` of bufio -/
def dropCR (l : Bytes) : Bytes := if l.getLast? = some CR then l.dropLast else l

/-- the raw lines `ScanLines` would produce with an unbounded buffer -/
def rawLines (b : Bytes) : List Bytes :=
  let ls := splitLF b
  if ls.getLast? = some [] then ls.dropLast else ls

/-- stop at the first line that does not fit the scanner's buffer -/
def fitting (lim : Nat) : List Bytes → List Bytes
  | [] => []
  | l :: t => if l.length < lim then l :: fitting lim t else []

/-- `util.LoadFileLines` on the file's content -/
def fileLines (b : Bytes) : List Bytes := (fitting maxTok (rawLines b)).map dropCR

/-- a file the property speaks about: every line fits -/
def AllFit (b : Bytes) : Prop := ∀ l ∈ rawLines b, l.length < maxTok
instance (b : Bytes) : Decidable (AllFit b) := by unfold AllFit; infer_instance

/-- writing lines to a file: each followed by LF -/
def writeLines : List Bytes → Bytes
  | [] => []
  | l :: t => l ++ LF :: writeLines t

end Scrapli.FileLines
