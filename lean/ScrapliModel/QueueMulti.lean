import ScrapliModel.Queue
/-!
# util.Queue with ONE producer and ANY NUMBER of consumer goroutines

The library can run two consumers at once: `Close` on a platform-built network driver runs an
on-close function that sends commands (a second consumer of the channel's queue) while an
operation started earlier is still reading. Same small-step programs as `Conc` (`PPc`, `CPc`), but
`k` consumer program counters, a write lock owned by the producer or by consumer `i`, read locks
(`GetDepth`) derived from the program counters, and two history variables that make ownership
explicit: `holder` (who took the depth token out of the channel) and `pub` (the depth published
last). `recheck = true` is the code with `if len(q.queue) == 0 { return nil }` under the lock in
`Dequeue`; `recheck = false` is the code before that repair (kept for the negative witness).
-/
namespace Scrapli.Queue.Multi
open Scrapli Scrapli.Queue.Conc

inductive Who where
  | prod
  | cons (i : Nat)
  deriving Repr, DecidableEq

structure St where
  queue : List Bytes
  depth : Int
  token : Option Int
  lock : Option Who            -- the write lock
  holder : Option Who          -- history: who holds the depth token while the channel is empty
  pub : Int                    -- history: the depth published last
  ppc : PPc
  cpcs : List CPc              -- program counter of consumer `i` at index `i`
  produced : List Bytes        -- chunks appended by the producer, in order
  clog : List (Nat × CEv)      -- slice mutations of all consumers in the order they happened (each under the lock), tagged with the consumer
  deriving Repr, DecidableEq

def init (k : Nat) : St :=
  { queue := [], depth := 0, token := some 0, lock := none, holder := none, pub := 0, ppc := .idle,
    cpcs := List.replicate k .idle, produced := [], clog := [] }

/-- consumer holds the read lock (`GetDepth`) -/
def critR : CPc → Bool
  | .gdRead | .gdRUnlock _ => true
  | _ => false

/-- `Lock()` succeeds: no writer and no reader -/
def lockFree (s : St) : Bool := s.lock.isNone && s.cpcs.all (fun pc => !critR pc)

def stepP (s : St) (b : Bytes) : Option St :=
  match s.ppc with
  | .idle => some { s with ppc := .lock b }
  | .lock b => if lockFree s then some { s with lock := some .prod, ppc := .app b } else none
  | .app b => some { s with queue := s.queue ++ [b], produced := s.produced ++ [b], ppc := .inc }
  | .inc => some { s with depth := s.depth + 1, ppc := .recv }
  | .recv => match s.token with
    | some _ => some { s with token := none, holder := some .prod, ppc := .send }
    | none => none
  | .send => match s.token with
    | none => some { s with token := some s.depth, holder := none, pub := s.depth, ppc := .unlock }
    | some _ => none
  | .unlock => some { s with lock := none, ppc := .idle }

/-- one step of consumer `i`. `recheck` selects the code with / without the emptiness test under the
lock in `Dequeue`. -/
def stepC (recheck : Bool) (s : St) (i : Nat) (call : Call) : Option St :=
  match s.cpcs[i]? with
  | none => none
  | some pc =>
    let go (s' : St) (pc' : CPc) : Option St := some { s' with cpcs := s.cpcs.set i pc' }
    match pc with
    | .idle => match call with
      | .dequeue => go s (.gRecv .dq)
      | .dequeueAll => go s (.gRecv .da)
      | .requeue b => go s (.rqLock b)
      | .getDepth => go s .gdRLock
    | .gRecv k => match s.token with
      | some d => go { s with token := none, holder := some (.cons i) } (.gSend k d)
      | none => none
    | .gSend k d => match s.token with
      | none => go { s with token := some d, holder := none } (.gTest k d)
      | some _ => none
    | .gTest k d => if d = 0 then go s .idle else go s (.lock k)
    | .lock k =>
      if lockFree s then
        go { s with lock := some (.cons i) }
          (match k with | .dq => if recheck then .dqChk else .dqIdx | .da => .daTake)
      else none
    | .dqChk => match s.queue with
      | [] => go s (.unlock (.deq none))
      | _ :: _ => go s .dqIdx
    | .dqIdx => match s.queue with
      | [] => go s .panicked
      | b :: _ => go s (.dqSlice b)
    | .dqSlice b => go { s with queue := s.queue.drop 1, clog := s.clog ++ [(i, .got b)] } (.dqDec b)
    | .dqDec b => go { s with depth := s.depth - 1 } (.pubRecv (.deq (some b)))
    | .daTake => go s (.daNil s.queue)
    | .daNil bs => go { s with queue := [], clog := s.clog ++ bs.map (fun c => (i, .got c)) } (.daZero bs)
    | .daZero bs => go { s with depth := 0 } (.pubRecv (.deqAll (some bs)))
    | .rqLock b => if lockFree s then go { s with lock := some (.cons i) } (.rqPrep b) else none
    | .rqPrep b => go { s with queue := b :: s.queue, clog := s.clog ++ [(i, .back b)] } (.rqInc b)
    | .rqInc b => go { s with depth := s.depth + 1 } (.pubRecv (.req b))
    | .pubRecv r => match s.token with
      | some _ => go { s with token := none, holder := some (.cons i) } (.pubSend r)
      | none => none
    | .pubSend r => match s.token with
      | none => go { s with token := some s.depth, holder := none, pub := s.depth } (.unlock r)
      | some _ => none
    | .unlock _ => go { s with lock := none } .idle
    | .gdRLock => if s.lock.isNone then go s .gdRead else none
    | .gdRead => go s (.gdRUnlock s.depth)
    | .gdRUnlock _ => go s .idle
    | .panicked => none

inductive Step (recheck : Bool) : St → St → Prop where
  | p (b : Bytes) {s s' : St} : stepP s b = some s' → Step recheck s s'
  | c (i : Nat) (call : Call) {s s' : St} : stepC recheck s i call = some s' → Step recheck s s'

/-- reachable with `k` consumers under some schedule, some arguments, any number of steps -/
inductive Reach (recheck : Bool) (k : Nat) : St → Prop where
  | init : Reach recheck k (init k)
  | step {s s' : St} : Reach recheck k s → Step recheck s s' → Reach recheck k s'

/-- run a schedule (`inl b` a producer step, `inr (i, call)` a step of consumer `i`) -/
def sched (recheck : Bool) : List (Bytes ⊕ (Nat × Call)) → St → Option St
  | [], s => some s
  | .inl b :: r, s => (stepP s b).bind (sched recheck r)
  | .inr (i, c) :: r, s => (stepC recheck s i c).bind (sched recheck r)

/-- chunks consumer `i` took off the queue, in the order it took them -/
def delivered (i : Nat) (clog : List (Nat × CEv)) : List Bytes :=
  gotsOf ((clog.filter (fun e => e.1 == i)).map (·.2))

end Scrapli.Queue.Multi
