import ScrapliModel.Bytes
/-!
# Pipe: the built-in transports as byte pipes (property C16)

What is *logic* in `transport/{system,standard,telnet,transport}.go` is small:

* `System.Read` / `Standard.Read`:  `b := make([]byte, n); k, err := r.Read(b);
  if err != nil { return nil, err }; return b[0:k], nil`
* `Telnet.Read`: hand out `initialBuf` once (whole, whatever `n` is), afterwards
  `k, err := c.Read(b); return b[0:k], err`
* `X.Write`: `_, err := w.Write(b); return err`
* `Transport.read` takes `implLock` around the implementation read, `Transport.Close(force)` takes
  it only when `force` is false.

Everything else is the pty, TCP, `crypto/ssh` and OpenSSH.  Their contract is *assumed* in
`rawRead` (an `io.Reader` over an ordered byte stream: a read of a non-empty stream returns a
non-empty prefix of at most `n` bytes and no error; an empty stream blocks until data arrives, the
peer goes away (EOF/EIO) or the descriptor is closed locally) and observed by the harness.

The length of the prefix a raw read returns is the operating system's choice.  It is a parameter
`k` of every read event; `takeLen` clamps it into the legal range so that *every* value of `k`
denotes a legal behaviour and every legal behaviour is denoted by some `k`
(`Props.C16.every_segmentation_realisable`).
-/
namespace Scrapli.Pipe

/-- error classes of a raw read -/
inductive RErr
  | eof      -- the peer went away (io.EOF on a socket / ssh channel, EIO on a pty master)
  | closed   -- the descriptor was closed locally
  | other
deriving DecidableEq, Repr

/-- one direction of a byte pipe, seen from the reading end -/
structure Stream where
  pending  : Bytes   -- sent by the peer, not yet read
  peerGone : Bool    -- the peer has exited / closed its end (after `pending`)
  closed   : Bool    -- closed locally
deriving DecidableEq, Repr

def Stream.init : Stream := ⟨[], false, false⟩

/-- what a (possibly blocking) read call does -/
inductive Outcome
  | ret (data : Bytes) (err : Option RErr)
  | block
deriving DecidableEq, Repr

/-- number of bytes a raw read of a non-empty stream asks `List.take` for: the choice `k`, clamped
to `1 ≤ · ≤ n` (`take` itself stops at the end of the pending bytes, so the result has
`min (takeLen n k) avail` bytes) -/
def takeLen (n k : Nat) : Nat := max 1 (min k n)

/-- the assumed contract of `os.File.Read` (pty master), `net.Conn.Read` and the `crypto/ssh`
channel reader, for a buffer of `n` bytes -/
def rawRead (n k : Nat) (s : Stream) : Outcome × Stream :=
  if s.closed then (.ret [] (some .closed), s)
  else if n = 0 then (.ret [] none, s)
  else match s.pending with
    | [] => if s.peerGone then (.ret [] (some .eof), s) else (.block, s)
    | p => (.ret (p.take (takeLen n k)) none, { s with pending := p.drop (takeLen n k) })

/-- `b := make([]byte, n)` after the reader copied `data` into its front -/
def filled (n : Nat) (data : Bytes) : Bytes := data ++ List.replicate (n - data.length) 0

/-- `System.Read` / `Standard.Read` after the raw read:
`if err != nil { return nil, err }; return b[0:k], nil` -/
def sysWrap (n : Nat) (data : Bytes) (err : Option RErr) : Bytes × Option RErr :=
  match err with
  | some e => ([], some e)
  | none => ((filled n data).take data.length, none)

/-- `Telnet.Read` after the raw read: `return b[0:k], err` -/
def telWrap (n : Nat) (data : Bytes) (err : Option RErr) : Bytes × Option RErr :=
  ((filled n data).take data.length, err)

inductive Kind
  | system | standard | telnet
deriving DecidableEq, Repr

/-- reader side of a transport implementation: telnet's one-shot initial buffer + the stream -/
structure TState where
  ib  : Bytes     -- `Telnet.initialBuf` (always empty for system / standard)
  s   : Stream
  out : Bytes     -- bytes accepted by `Write`, i.e. handed to the peer, in order
deriving DecidableEq, Repr

def TState.init (ib : Bytes) : TState := ⟨ib, Stream.init, []⟩

/-- `System.Read` / `Standard.Read` -/
def sysRead (n k : Nat) (t : TState) : Outcome × TState :=
  match rawRead n k t.s with
  | (.block, s') => (.block, { t with s := s' })
  | (.ret d e, s') => (.ret (sysWrap n d e).1 (sysWrap n d e).2, { t with s := s' })

/-- `Telnet.Read`: `if len(t.initialBuf) > 0 { b := t.initialBuf; t.initialBuf = nil; return b, nil }`
then the connection read.  Note that the initial buffer is handed out whole even when it is
longer than `n`, and even after a local close. -/
def telnetRead (n k : Nat) (t : TState) : Outcome × TState :=
  match t.ib with
  | _ :: _ => (.ret t.ib none, { t with ib := [] })
  | [] =>
    match rawRead n k t.s with
    | (.block, s') => (.block, { t with s := s' })
    | (.ret d e, s') => (.ret (telWrap n d e).1 (telWrap n d e).2, { t with s := s' })

def implRead : Kind → Nat → Nat → TState → Outcome × TState
  | .telnet => telnetRead
  | _ => sysRead

/-- `X.Write`: `_, err := w.Write(b); return err` (a closed descriptor refuses) -/
def implWrite (b : Bytes) (t : TState) : Option RErr × TState :=
  if t.s.closed then (some .closed, t) else (none, { t with out := t.out ++ b })

/-- events of a pipe history -/
inductive Ev
  | send (b : Bytes)      -- the peer sends `b`
  | read (n k : Nat)      -- the client calls `Read(n)`; the raw read picks prefix length `k`
  | write (b : Bytes)     -- the client calls `Write(b)`
  | peerExit              -- the peer closes its end / exits
  | close                 -- the client calls `Close`
deriving DecidableEq, Repr

/-- one event; reads yield an outcome. A peer that has gone sends nothing. -/
def step (kd : Kind) (t : TState) : Ev → TState × Option Outcome
  | .send b => if t.s.peerGone then (t, none) else ({ t with s := { t.s with pending := t.s.pending ++ b } }, none)
  | .read n k => let r := implRead kd n k t; (r.2, some r.1)
  | .write b => ((implWrite b t).2, none)
  | .peerExit => ({ t with s := { t.s with peerGone := true } }, none)
  | .close => ({ t with s := { t.s with closed := true } }, none)

/-- a whole history; returns the final state and the outcomes of the reads in order -/
def run (kd : Kind) : TState → List Ev → TState × List Outcome
  | t, [] => (t, [])
  | t, e :: es =>
    let (t', o) := step kd t e
    let (t'', os) := run kd t' es
    (t'', match o with | some x => x :: os | none => os)

def Outcome.data : Outcome → Bytes
  | .ret d _ => d
  | .block => []

/-- concatenation of everything the reads returned -/
def delivered (os : List Outcome) : Bytes := (os.map Outcome.data).flatten

/-- the non-empty read results, i.e. the chunks the channel layer sees -/
def chunks (os : List Outcome) : List Bytes := (os.map Outcome.data).filter (fun d => !d.isEmpty)

/-- what the peer sent over a history, starting with `gone` = peer already gone -/
def sentFrom : Bool → List Ev → Bytes
  | _, [] => []
  | gone, .send b :: es => if gone then sentFrom gone es else b ++ sentFrom gone es
  | _, .peerExit :: es => sentFrom true es
  | gone, _ :: es => sentFrom gone es

/-- what the client wrote successfully over a history, starting with `closed` -/
def writtenFrom : Bool → List Ev → Bytes
  | _, [] => []
  | closed, .write b :: es => if closed then writtenFrom closed es else b ++ writtenFrom closed es
  | _, .close :: es => writtenFrom true es
  | closed, _ :: es => writtenFrom closed es

/-- bytes still to be read -/
def TState.left (t : TState) : Bytes := t.ib ++ t.s.pending

/-- repeated reads of size `n` with prefix-length choices `ks` -/
def readEvents (n : Nat) (ks : List Nat) : List Ev := ks.map (Ev.read n)

/-! ## `Transport.read` / `Transport.Write` / `Transport.Close(force)` around the implementation

Control skeleton only: one reader inside `Transport.read`, one writer inside `Transport.Write`, one
closer inside `Transport.Close`. The only lock is `implLock`: the reader holds it for the whole
implementation read, `Close(false)` takes it, `Close(true)` takes **no lock at all**, and
`Transport.Write` calls `Impl.Write` without any lock — so nothing a blocked reader or a blocked
writer may hold stands between a forced close and `Impl.Close`.
`avail` abstracts "the raw read can return" (data pending or peer gone), `drain` "the raw write can
complete" (the peer takes the bytes); closing the descriptor releases both blocked calls. -/

inductive RPc | idle | waitLock | inRead | done deriving DecidableEq, Repr
inductive WPc | idle | inWrite | done deriving DecidableEq, Repr
inductive CPc | idle | waitLock | closing | done deriving DecidableEq, Repr
inductive Holder | none | reader | closer deriving DecidableEq, Repr
inductive Who | reader | writer | closer deriving DecidableEq, Repr

structure LSt where
  r      : RPc
  w      : WPc
  c      : CPc
  lock   : Holder  -- who holds `implLock`
  closed : Bool
  avail  : Bool    -- data pending or peer gone: a blocked read can return
  drain  : Bool    -- the peer drains: a blocked write can complete
deriving DecidableEq, Repr

/-- the reader's next step, if enabled.
`idle → waitLock` (call), `waitLock → inRead` (`implLock.Lock()` when free),
`inRead → done` (`Impl.Read` returns, deferred `Unlock`) when the raw read can return. -/
def readerStep (s : LSt) : Option LSt :=
  match s.r with
  | .idle => some { s with r := .waitLock }
  | .waitLock => if s.lock = .none then some { s with r := .inRead, lock := .reader } else none
  | .inRead => if s.closed || s.avail then some { s with r := .done, lock := .none } else none
  | .done => none

/-- the writer's next step, if enabled: `Transport.Write` is `return t.Impl.Write(b)`, no lock.
`inWrite → done` when the raw write can complete or the descriptor was closed. -/
def writerStep (s : LSt) : Option LSt :=
  match s.w with
  | .idle => some { s with w := .inWrite }
  | .inWrite => if s.closed || s.drain then some { s with w := .done } else none
  | .done => none

/-- the closer's next step, if enabled. `force` skips the (only) lock. -/
def closerStep (force : Bool) (s : LSt) : Option LSt :=
  match s.c with
  | .idle => if force then some { s with c := .closing } else some { s with c := .waitLock }
  | .waitLock => if s.lock = .none then some { s with c := .closing, lock := .closer } else none
  | .closing => some { s with c := .done, closed := true, lock := if s.lock = .closer then .none else s.lock }
  | .done => none

/-- one move of the named process; a disabled process stutters -/
def move (force : Bool) (s : LSt) : Who → LSt
  | .reader => (readerStep s).getD s
  | .writer => (writerStep s).getD s
  | .closer => (closerStep force s).getD s

/-- a schedule: which process moves next -/
def runSched (force : Bool) : LSt → List Who → LSt
  | s, [] => s
  | s, p :: rest => runSched force (move force s p) rest

/-- start states: a read blocked inside `Transport.read` (holds the lock, nothing to return) when
`rb`, a write blocked inside `Transport.Write` (the peer does not drain) when `wb`; the other
process, if any, has not called yet -/
def blocked (rb wb : Bool) : LSt :=
  ⟨if rb then .inRead else .idle, if wb then .inWrite else .idle, .idle,
   if rb then .reader else .none, false, false, false⟩

/-- progress of the closer -/
def cprog : CPc → Nat
  | .idle => 0 | .waitLock => 0 | .closing => 1 | .done => 2

/-- number of closer moves in a schedule -/
def nCloser : List Who → Nat
  | [] => 0
  | .closer :: r => nCloser r + 1
  | _ :: r => nCloser r

/-- invariant of a forced close -/
def finv (s : LSt) : Prop :=
  s.c ≠ .waitLock ∧ (s.c = .done → s.closed = true)

/-- the reader / the writer is inside its implementation call or has returned -/
def rIn (s : LSt) : Prop := s.r = .inRead ∨ s.r = .done
def wIn (s : LSt) : Prop := s.w = .inWrite ∨ s.w = .done


/-- `cs` is a segmentation of `stream`: non-empty pieces whose concatenation is the stream -/
def IsSegmentation (cs : List Bytes) (stream : Bytes) : Prop :=
  cs.flatten = stream ∧ ∀ c ∈ cs, c ≠ []


/-! ## Concurrent `Write` calls

`Transport.Write` takes no lock; what two goroutines write at the same time reaches the peer as
some interleaving of pieces of the two byte strings (each implementation serialises at its own
granularity: the whole call for a descriptor, one ssh packet for `crypto/ssh`). `IsMerge a b m`:
`m` is such an interleaving — `a` and `b` each appear in `m` once and in order, nothing else does. -/

inductive IsMerge : Bytes → Bytes → Bytes → Prop
  | nil : IsMerge [] [] []
  | left (x : UInt8) {a b m : Bytes} : IsMerge a b m → IsMerge (x :: a) b (x :: m)
  | right (x : UInt8) {a b m : Bytes} : IsMerge a b m → IsMerge a (x :: b) (x :: m)

/-- the harness tags writer A with bytes < 0x80 and writer B with bytes ≥ 0x80 -/
def lowByte (x : UInt8) : Bool := decide (x < 128)

/-- executable verdict: both projections of `m` are the writers' strings -/
def mergeVerdict (a b m : Bytes) : Bool :=
  m.filter lowByte == a && m.filter (fun x => !lowByte x) == b

/-- the two argv elements `-o` and `EscapeChar=none` -/
def dashO : Bytes := [45, 111]
def escapeCharNone : Bytes := [69, 115, 99, 97, 112, 101, 67, 104, 97, 114, 61, 110, 111, 110, 101]

end Scrapli.Pipe
