import ScrapliModel.Netconf.Store
/-!
# Per-call deadlines on top of the session model (property C08, history layer)

`sendRPC` guards every call with its own timer: `time.NewTimer(d.Channel.GetTimeout(op.Timeout))`
is created when the call starts waiting and nothing of it survives the call. The timed layer makes
that explicit: time advances by `tick` events, a call arms `deadline := now + timeout` when it
starts, and the call's timeout verdict (`Ev.expire` of the untimed model) is produced exactly when
a tick reaches the deadline of the call *in flight*. A timer that fires while no call is in flight
(idle session) is nobody's business.
-/
namespace Scrapli.Netconf.Store
open Scrapli

inductive TEv
  | call (timeout : Nat)    -- a new RPC whose timer is armed with `timeout` ticks
  | read (chunk : Bytes)    -- one read-loop iteration
  | poll                    -- the pending call polls the store
  | tick                    -- one unit of time passes (during a call or while the session idles)
  deriving Repr

structure TClient where
  c : Client
  now : Nat
  /-- when the timer of the call in flight fires; meaningless while nothing is pending -/
  deadline : Nat
  deriving Repr

def tstep (v : Ver) (t : TClient) : TEv → TClient
  | .call d =>
    match t.c.pending with
    | some _ => t
    | none => { t with c := step v t.c .call, deadline := t.now + d }
  | .read ch => { t with c := step v t.c (.read ch) }
  | .poll => { t with c := step v t.c .poll }
  | .tick =>
    match t.c.pending with
    | some _ =>
      if t.deadline ≤ t.now + 1 then { t with now := t.now + 1, c := step v t.c .expire }
      else { t with now := t.now + 1 }
    | none => { t with now := t.now + 1 }

def trun (v : Ver) (t : TClient) (evs : List TEv) : TClient := evs.foldl (tstep v) t

def tinit : TClient := ⟨init, 0, 0⟩

/-- the untimed events one timed event amounts to in state `t` -/
def toEv (t : TClient) : TEv → List Ev
  | .call _ => [.call]
  | .read ch => [.read ch]
  | .poll => [.poll]
  | .tick => if t.c.pending.isSome && decide (t.deadline ≤ t.now + 1) then [.expire] else []

/-- the untimed history a timed history amounts to -/
def erase (v : Ver) (t : TClient) : List TEv → List Ev
  | [] => []
  | e :: es => toEv t e ++ erase v (tstep v t e) es

def ticksIn : List TEv → Nat
  | [] => 0
  | .tick :: es => ticksIn es + 1
  | _ :: es => ticksIn es

def noCalls : List TEv → Bool
  | [] => true
  | .call _ :: _ => false
  | _ :: es => noCalls es

end Scrapli.Netconf.Store
