import ScrapliModel.Netconf.Hello
/-!
# The NETCONF driver's negotiation state across a HISTORY of public calls

One `netconf.Driver` object lives through probes (`ServerHasCapability`, `ServerCapabilities`,
`SessionID`, the `SelectedVersion` field), `Open`s (each against whatever hello the server of that
session sends) and `Close`s. The state that matters is what `processServerCapabilities` and
`determineVersion` store in the driver: `serverCapabilities`, `sessionID`, `SelectedVersion`.

Two switches describe variants of the code:

* `frozen` — `ServerHasCapability` answers from an index of the capabilities built ONCE, on its
  first call, and never rebuilt (the defect shape of seeded change C09k). `frozen = false` is the
  code as it is: every call walks `d.serverCapabilities`.
* `reopen` — whether an `Open` after the channel was closed (by `Close` or by a failed `Open`) gets
  a working channel again. As built (`reopen = false`) the channel is single-use: its `done`
  channel stays closed, the read loop of the new `Open` exits at once and the `Open` returns a
  connection error before any hello is read.
-/
namespace Scrapli.Netconf.Hello
open Scrapli

/-- the version decision on the two membership answers (`determineVersion` without the list) -/
def decideVer (has10 has11 : Bool) (pref : Bytes) : Option Ver × Option Ver :=
  -- (value stored in SelectedVersion by the first if/else, final result)
  let first : Option Ver := if has11 then some .v11 else if has10 then some .v10 else none
  match first with
  | none => (none, none)
  | some sel =>
    if pref == Gen.Netconf.V1Dot0 then (some sel, if has10 then some .v10 else none)
    else if pref == Gen.Netconf.V1Dot1 then (some sel, if has11 then some .v11 else none)
    else (some sel, some sel)

structure DState where
  caps : List Bytes            -- d.serverCapabilities
  sid : Nat                    -- d.sessionID
  sel : Bytes                  -- d.SelectedVersion ("" before the first negotiation)
  index : Option (List Bytes)  -- the once-built lookup index (only used when `frozen`)
  dead : Bool                  -- the channel has been closed
  isOpen : Bool
  deriving DecidableEq, Repr

def DState.init : DState := { caps := [], sid := 0, sel := [], index := none, dead := false, isOpen := false }

/-- `ServerHasCapability(c)` -/
def lookup (frozen : Bool) (s : DState) (c : Bytes) : Bool :=
  match frozen, s.index with
  | true, some ix => ix.contains c
  | _, _ => s.caps.contains c

/-- the side effect of a `ServerHasCapability` call: the first call builds the index -/
def touch (frozen : Bool) (s : DState) : DState :=
  match frozen, s.index with
  | true, none => { s with index := some s.caps }
  | _, _ => s

inductive Ev
  | probe (c : Bytes)                                              -- all public getters, asking about `c`
  | openHello (parsed : Bool × List Bytes × Option Bytes) (pref : Bytes)  -- Open; the first message as parsed
  | openNoHello                                                    -- Open; the read of the first message fails (timeout)
  | close
  deriving Repr

inductive Obs
  | probed (has : Bool) (caps : List Bytes) (sid : Nat) (sel : Bytes)
  | opened (v : Ver)
  | openErr (e : Err)
  | openDead                  -- connection error: the channel of this driver is closed for good
  | closed
  deriving DecidableEq, Repr

/-- `processServerCapabilities` + `determineVersion` on a live channel, field by field as the Go
code assigns them: nothing is touched when the hello pattern does not match; the capability list
is replaced unconditionally; the session-id is stored only when the hello carries one; an
unparsable session-id fails after the list was replaced; `SelectedVersion` is stored by the first
`if/else` even when the `switch` on the preference then fails. -/
def negotiate (frozen : Bool) (s : DState) (parsed : Bool × List Bytes × Option Bytes) (pref : Bytes) :
    DState × Option Ver :=
  let (hello, caps, sid) := parsed
  if !hello then (s, none)
  else
    let s1 := { s with caps := caps }
    match sid, sidValue sid with
    | some _, none => (s1, none)
    | _, sv =>
      let s2 := match sid, sv with
        | some _, some n => { s1 with sid := n }
        | _, _ => s1
      let h11 := lookup frozen s2 Gen.Netconf.v1Dot1Cap
      let h10 := lookup frozen s2 Gen.Netconf.v1Dot0Cap
      let s3 := touch frozen s2
      match decideVer h10 h11 pref with
      | (none, _) => (s3, none)
      | (some st, none) => ({ s3 with sel := st.str }, none)
      | (some _, some v) => ({ s3 with sel := v.str }, some v)

def step (frozen reopen : Bool) (s : DState) : Ev → DState × Obs
  | .probe c => (touch frozen s, .probed (lookup frozen s c) s.caps s.sid s.sel)
  | .close => ({ s with dead := true, isOpen := false }, .closed)
  | .openNoHello =>
    if s.dead && !reopen then (s, .openDead)
    else ({ s with dead := true, isOpen := false }, .openErr .timeout)
  | .openHello parsed pref =>
    if s.dead && !reopen then (s, .openDead)
    else
      match negotiate frozen { s with dead := false } parsed pref with
      | (s', some v) => ({ s' with isOpen := true }, .opened v)
      | (s', none) => ({ s' with dead := true, isOpen := false }, .openErr .netconf)

def run (frozen reopen : Bool) : DState → List Ev → List Obs
  | _, [] => []
  | s, e :: es => (step frozen reopen s e).2 :: run frozen reopen (step frozen reopen s e).1 es

def final (frozen reopen : Bool) : DState → List Ev → DState
  | s, [] => s
  | s, e :: es => final frozen reopen (step frozen reopen s e).1 es

def Ev.isProbe : Ev → Bool
  | .probe _ => true
  | _ => false

def Obs.isProbe : Obs → Bool
  | .probed .. => true
  | _ => false

/-! ## several driver objects in one process -/

/-- Several sessions (driver objects, indexed by a number) live side by side; an event belongs to
one of them. As built nothing of the negotiation state is shared between driver objects (the
package-level pattern table is written once, by its constructor). -/
def stepMulti (frozen reopen : Bool) (st : Nat → DState) (e : Nat × Ev) : (Nat → DState) × (Nat × Obs) :=
  let r := step frozen reopen (st e.1) e.2
  (fun i => if i = e.1 then r.1 else st i, (e.1, r.2))

def runMulti (frozen reopen : Bool) : (Nat → DState) → List (Nat × Ev) → List (Nat × Obs)
  | _, [] => []
  | st, e :: es => (stepMulti frozen reopen st e).2 :: runMulti frozen reopen (stepMulti frozen reopen st e).1 es

def finalMulti (frozen reopen : Bool) : (Nat → DState) → List (Nat × Ev) → (Nat → DState)
  | st, [] => st
  | st, e :: es => finalMulti frozen reopen (stepMulti frozen reopen st e).1 es

/-- the framing a session uses for its later traffic is the one its own state selected -/
def sessionWire (s : DState) (ret xml : Bytes) : Option Bytes :=
  if s.sel == Gen.Netconf.V1Dot0 then some (requestWire .v10 ret xml)
  else if s.sel == Gen.Netconf.V1Dot1 then some (requestWire .v11 ret xml)
  else none

end Scrapli.Netconf.Hello
