import ScrapliModel.Netconf.Decode
import ScrapliModel.Generated.Consts
/-!
# NETCONF request building, framing and the byte stream a session puts on the wire

Mirrors, statement by statement,
* `driver/netconf/message.go`  `serialize` (optional declaration, optional self-closing rewrite,
  copy as `rawXML`, frame as `framedXML`) and `ForceSelfClosingTags`,
* `driver/netconf/rpc.go`      `sendRPC` (`WriteAndReturn(framed)`, plus `WriteReturn` in 1.1),
* `driver/netconf/capabilities.go` `sendClientCapabilities` (`WriteAndReturn(caps)`),
* `driver/netconf/driver.go`   `buildPayload` (message-id counter, rpc element).

`encoding/xml` is NOT modelled: the marshalled `<rpc>` element is an input parameter (`body`);
only the outermost rpc element written by `buildPayload` has a byte-level model (`rpcBody`), which
is tied to the code by correspondence.

`strictDecode` is the specification side: a strict RFC 6242 / RFC 4742 session decoder written from
the RFC grammar, independent of the (lenient) reply decoder of `Netconf/Decode.lean`.
-/
namespace Scrapli.Netconf.Req
open Scrapli Scrapli.Netconf

def LTc : UInt8 := 60
def GTc : UInt8 := 62
def SLc : UInt8 := 47

/-! ## ForceSelfClosingTags

Go: `emptyTags.FindAllSubmatch(b, -1)` with the pattern
`<([^>/]+?)(\s+[^>]+?)?>\s*</([\w-]+)>`, then for every match whose group 1 equals group 3
`bytes.ReplaceAll(b, fullMatch, "<" + group1 + group2 + "/>")`.

The scanner below is a single left-to-right pass that finds exactly the matches `FindAll` finds
(leftmost, non-overlapping, with the regex's lazy/greedy priorities resolved by hand) and rewrites
them in place. It is the model of the REPAIRED function: a match whose attribute text ends in `/`
(an already self-closed element followed by its parent's closing tag, e.g.
`<a><a x="1"/></a>`) is left alone; the unrepaired code turns that into `<a><a x="1"//>`.
-/

/-- Go regexp `\s` = `[\t\n\f\r ]` -/
def isWs (b : UInt8) : Bool := b == 9 || b == 10 || b == 12 || b == 13 || b == 32

/-- Go regexp `[\w-]` = `[0-9A-Za-z_-]` -/
def isWordDash (b : UInt8) : Bool :=
  (48 ≤ b && b ≤ 57) || (65 ≤ b && b ≤ 90) || (97 ≤ b && b ≤ 122) || b == 95 || b == 45

/-- the text after `<` up to the first `>` (exclusive), and what follows that `>` -/
def spanTag : Bytes → Option (Bytes × Bytes)
  | [] => none
  | b :: t => if b == GTc then some ([], t) else (spanTag t).map fun (x, r) => (b :: x, r)

/-- Split the tag text into (group 1, group 2) the way `([^>/]+?)(\s+[^>]+?)?` followed by `>`
does: the shortest non-empty `/`-free prefix such that the remainder is empty, or is one
whitespace byte followed by at least one more byte. -/
def splitTag : Bytes → Option (Bytes × Bytes)
  | [] => none
  | b :: t =>
    if b == SLc then none
    else match t with
      | [] => some ([b], [])
      | c :: t' =>
        if isWs c && !t'.isEmpty then some ([b], c :: t')
        else (splitTag (c :: t')).map fun (n, a) => (b :: n, a)

/-- one regex match, anchored just after a `<` -/
structure Match where
  name : Bytes    -- group 1
  attrs : Bytes   -- group 2 (empty when absent)
  ws : Bytes      -- `\s*`
  cname : Bytes   -- group 3
  rest : Bytes    -- input after the match
  deriving Repr, DecidableEq

/-- `</([\w-]+)>` at the start of the text: (closing name, rest of the input) -/
def closeTail : Bytes → Option (Bytes × Bytes)
  | a :: b :: r2 =>
    if a == LTc && b == SLc then
      match r2.takeWhile isWordDash, r2.dropWhile isWordDash with
      | c :: cn, g :: rest => if g == GTc then some (c :: cn, rest) else none
      | _, _ => none
    else none
  | _ => none

/-- `\s*</([\w-]+)>` at the start of `r1`: (white space, closing name, rest of the input) -/
def closeAt (r1 : Bytes) : Option (Bytes × Bytes × Bytes) :=
  (closeTail (r1.dropWhile isWs)).map fun (cn, rest) => (r1.takeWhile isWs, cn, rest)

/-- try to match the pattern at a `<` whose following text is `s` -/
def matchAt (s : Bytes) : Option Match :=
  match spanTag s with
  | none => none
  | some (tag, r1) =>
    match closeAt r1 with
    | none => none
    | some (ws, cn, rest) => (splitTag tag).map fun (n, a) => ⟨n, a, ws, cn, rest⟩

/-- the bytes a match covers (including the leading `<`) -/
def Match.full (m : Match) : Bytes :=
  LTc :: (m.name ++ m.attrs ++ GTc :: (m.ws ++ LTc :: SLc :: (m.cname ++ [GTc])))

/-- what an eligible match is replaced with -/
def Match.closed (m : Match) : Bytes := LTc :: (m.name ++ m.attrs ++ [SLc, GTc])

/-- repaired eligibility test: names equal, and the opening tag is not already self-closed -/
def Match.eligible (m : Match) : Bool := m.name == m.cname && m.attrs.getLast? != some SLc

/-- the eligibility test of the code as it is (names equal only) -/
def Match.eligibleAsIs (m : Match) : Bool := m.name == m.cname

def scan (elig : Match → Bool) : Nat → Bytes → Bytes
  | 0, s => s
  | _, [] => []
  | f+1, b :: t =>
    if b == LTc then
      match matchAt t with
      | some m => (if elig m then m.closed else m.full) ++ scan elig f m.rest
      | none => b :: scan elig f t
    else b :: scan elig f t

/-- model of (repaired) `ForceSelfClosingTags` -/
def forceSelfClosing (s : Bytes) : Bytes := scan Match.eligible s.length s

/-- single-pass model with the unrepaired eligibility test (used to reproduce the defect) -/
def forceSelfClosingAsIs (s : Bytes) : Bytes := scan Match.eligibleAsIs s.length s

/-! ### the function exactly as written in Go (FindAllSubmatch, then ReplaceAll per match)

`forceSelfClosing` above rewrites each match where it stands. The Go code instead replaces every
textual occurrence of a matched element, one `bytes.ReplaceAll` per match, on the progressively
rewritten buffer. The two agree whenever the text of an eligible match does not occur elsewhere
in the input outside a match (e.g. inside a comment or CDATA section); the driver evaluates that
agreement per case (`dom`). -/

/-- `FindAllSubmatch`: the matches in input order (same traversal as `scan`) -/
def findAll : Nat → Bytes → List Match
  | 0, _ => []
  | _, [] => []
  | f+1, b :: t =>
    if b == LTc then
      match matchAt t with
      | some m => m :: findAll f m.rest
      | none => findAll f t
    else findAll f t

/-- `bytes.ReplaceAll` for a non-empty `old` -/
def replaceAll (old new : Bytes) : Nat → Bytes → Bytes
  | 0, s => s
  | _, [] => []
  | f+1, b :: t =>
    if hasPrefix (b :: t) old && !old.isEmpty then
      new ++ replaceAll old new f ((b :: t).drop old.length)
    else b :: replaceAll old new f t

/-- `ForceSelfClosingTags` statement by statement -/
def forceSelfClosingGo (elig : Match → Bool) (s : Bytes) : Bytes :=
  (findAll s.length s).foldl
    (fun b m => if elig m then replaceAll m.full m.closed b.length b else b) s

/-! ### specification of the rewrite -/

/-- `<name attrs>ws</name>` is an empty element the rewrite may close -/
structure EmptyElem (name attrs ws : Bytes) : Prop where
  name_ne : name ≠ []
  name_word : ∀ b ∈ name, isWordDash b = true
  attrs_shape : attrs = [] ∨ ∃ w r, attrs = w :: r ∧ isWs w = true ∧ r ≠ []
  attrs_noGT : ∀ b ∈ attrs, b ≠ GTc
  attrs_open : attrs.getLast? ≠ some SLc
  ws_space : ∀ b ∈ ws, isWs b = true

/-- `Rewrites s t`: `t` is `s` except that some occurrences of `<n a…>ws</n>` (same name `n`,
whitespace-only content) have been replaced by `<n a…/>`. -/
inductive Rewrites : Bytes → Bytes → Prop
  | nil : Rewrites [] []
  | keep (b : UInt8) {s t : Bytes} : Rewrites s t → Rewrites (b :: s) (b :: t)
  | close (name attrs ws : Bytes) {s t : Bytes} : EmptyElem name attrs ws → Rewrites s t →
      Rewrites (LTc :: (name ++ attrs ++ GTc :: (ws ++ LTc :: SLc :: (name ++ GTc :: s))))
               (LTc :: (name ++ attrs ++ SLc :: GTc :: t))

/-- executable checker for `Rewrites` (sound, see `checkRewrite_sound`): walks both strings; where
they differ the input must carry an empty element and the output its closed form. -/
def checkRewrite : Nat → Bytes → Bytes → Bool
  | _, [], [] => true
  | 0, _, _ => false
  | f+1, b :: s, c :: t =>
    (b == c && checkRewrite f s t) ||
    (b == LTc && c == LTc &&
      match matchAt s with
      | some m =>
        m.eligible && hasPrefix t (m.name ++ m.attrs ++ [SLc, GTc]) &&
          checkRewrite f m.rest (t.drop (m.name ++ m.attrs ++ [SLc, GTc]).length)
      | none => false)
  | _+1, _, _ => false

/-! ## serialize (message.go) -/

/-- `serialize`: returns `(rawXML, framedXML)` for the marshalled rpc element `body` -/
def serialize (v : Version) (selfClose noHeader : Bool) (body : Bytes) : Bytes × Bytes :=
  let msg := if noHeader then body else Gen.Netconf.xmlHeader ++ body
  let msg := if selfClose then forceSelfClosing msg else msg
  let framed := match v with
    | .v10 => msg ++ Gen.Netconf.v1Dot0Delim
    | .v11 => HASH :: (decDigits msg.length ++ LF :: (msg ++ [LF, HASH, HASH]))
  (msg, framed)

/-! ## what a session writes to the transport (rpc.go, capabilities.go, channel/write.go) -/

/-- the channel's return character (netconf.NewDriver leaves the default) -/
def ret : Bytes := Gen.Channel.DefaultReturnChar

def clientHello : Version → Bytes
  | .v10 => Gen.Netconf.v1Dot0Caps
  | .v11 => Gen.Netconf.v1Dot1Caps

/-- `sendRPC`: `WriteAndReturn(framed)`; in 1.1 one more `WriteReturn` -/
def sendOne (v : Version) (selfClose noHeader : Bool) (body : Bytes) : Bytes :=
  (serialize v selfClose noHeader body).2 ++ ret ++ (match v with | .v10 => [] | .v11 => ret)

/-- every byte handed to `Transport.Write` from `Open` on: client hello, return, then the requests -/
def wire (v : Version) (selfClose noHeader : Bool) (bodies : List Bytes) : Bytes :=
  clientHello v ++ ret ++ (bodies.map (sendOne v selfClose noHeader)).flatten

/-! ### the rpc element written by `buildPayload` -/

/-- `<rpc xmlns="urn:ietf:params:xml:ns:netconf:base:1.0" message-id="` -/
def rpcOpenPrefix : Bytes :=
  [60,114,112,99,32,120,109,108,110,115,61,34,117,114,110,58,105,101,116,102,58,112,97,114,97,109,
   115,58,120,109,108,58,110,115,58,110,101,116,99,111,110,102,58,98,97,115,101,58,49,46,48,34,32,
   109,101,115,115,97,103,101,45,105,100,61,34]

/-- `</rpc>` -/
def rpcClose : Bytes := [60,47,114,112,99,62]

/-- the marshalled `message` struct: rpc element, base namespace, message-id, payload as innerxml -/
def rpcBody (id : Nat) (inner : Bytes) : Bytes :=
  rpcOpenPrefix ++ (decDigits id ++ 34 :: GTc :: (inner ++ rpcClose))

/-! ### how a caller's XML fragment is wrapped (elements.go, editconfig.go)

`filterT`, `editConfig` and `message` carry the caller's string in a field tagged `,innerxml`:
`encoding/xml` writes it between the element's tags as it is. The element texts below are the
byte-level model of that (tied by correspondence); that the code hands the caller's string to the
field untouched is a regenerated source fact (`Generated/C03Embedding.lean`). -/

/-- `<filter type="subtree">` -/
def subtreeOpen : Bytes :=
  [60,102,105,108,116,101,114,32,116,121,112,101,61,34,115,117,98,116,114,101,101,34,62]

/-- `</filter>` -/
def filterClose : Bytes := [60,47,102,105,108,116,101,114,62]

/-- `buildFilterElem(filter, "subtree")`, marshalled -/
def subtreeFilterElem (filter : Bytes) : Bytes := subtreeOpen ++ filter ++ filterClose

/-- `<edit-config><target><` name `></` name `></target>` -/
def editConfigOpen (target : Bytes) : Bytes :=
  [60,101,100,105,116,45,99,111,110,102,105,103,62,60,116,97,114,103,101,116,62,60] ++ target ++
    [62,60,47] ++ target ++ [62,60,47,116,97,114,103,101,116,62]

/-- `</edit-config>` -/
def editConfigClose : Bytes := [60,47,101,100,105,116,45,99,111,110,102,105,103,62]

/-- `buildEditConfigElem(target, config)`, marshalled -/
def editConfigElem (target config : Bytes) : Bytes :=
  editConfigOpen target ++ config ++ editConfigClose

/-- `<with-defaults xmlns="urn:ietf:params:xml:ns:yang:ietf-netconf-with-defaults">` -/
def defaultsOpen : Bytes :=
  [60,119,105,116,104,45,100,101,102,97,117,108,116,115,32,120,109,108,110,115,61,34] ++
    Gen.Netconf.defaultNamespace ++ [34,62]

/-- `</with-defaults>` -/
def defaultsClose : Bytes := [60,47,119,105,116,104,45,100,101,102,97,117,108,116,115,62]

/-- `buildDefaultsElem`: no element for the empty mode, an error (`none`) for an unknown mode,
otherwise the element carrying the caller's mode — whatever the server advertised -/
def defaultsElem (mode : Bytes) : Option (Option Bytes) :=
  if mode.isEmpty then some none
  else if mode == Gen.Netconf.reportAll || mode == Gen.Netconf.reportAllTagged
      || mode == Gen.Netconf.trim || mode == Gen.Netconf.explicit then
    some (some (defaultsOpen ++ mode ++ defaultsClose))
  else none

/-- the part of the driver a request can see, and the part it must not look at -/
structure DriverState where
  version : Version          -- d.SelectedVersion
  selfClose : Bool           -- d.ForceSelfClosingTags
  noHeader : Bool            -- d.ExcludeHeader
  messageID : Nat            -- d.messageID
  serverCaps : List Bytes    -- d.serverCapabilities (everything the server's hello advertised)
  sessionID : Nat            -- d.sessionID
  preferred : Option Version -- d.PreferredVersion

/-- `buildPayload` + `serialize` + the writes of `sendRPC` for one marshalled payload:
(reported input, framed input, bytes written, next state) -/
def DriverState.request (st : DriverState) (inner : Bytes) : Bytes × Bytes × Bytes × DriverState :=
  let ser := serialize st.version st.selfClose st.noHeader (rpcBody st.messageID inner)
  (ser.1, ser.2, sendOne st.version st.selfClose st.noHeader (rpcBody st.messageID inner),
    { st with messageID := st.messageID + 1 })

/-- specification side: the children of an element whose opening and closing tag texts are known -/
def childrenOf (openTag closeTag elem : Bytes) : Option Bytes :=
  if hasPrefix elem openTag && hasPrefix elem.reverse closeTag.reverse
      && openTag.length + closeTag.length ≤ elem.length then
    some ((elem.drop openTag.length).take (elem.length - openTag.length - closeTag.length))
  else none

/-- `buildPayload` uses `d.messageID` and increments it -/
def sessionBodies : Nat → List Bytes → List Bytes
  | _, [] => []
  | id, inner :: rest => rpcBody id inner :: sessionBodies (id + 1) rest

/-- the wire of a session whose k-th request has the marshalled payload `inners[k]` -/
def session (v : Version) (selfClose noHeader : Bool) (inners : List Bytes) : Bytes :=
  wire v selfClose noHeader (sessionBodies Gen.Netconf.initialMessageID inners)

/-! ## strict session decoder (specification side; RFC 4742 §3, RFC 6242 §4.2) -/

/-- split at the first occurrence of `d`: (before, after) -/
def splitOn (d : Bytes) : Bytes → Option (Bytes × Bytes)
  | [] => if d.isEmpty then some ([], []) else none
  | b :: t =>
    if hasPrefix (b :: t) d then some ([], (b :: t).drop d.length)
    else (splitOn d t).map fun (x, r) => (b :: x, r)

/-- XML `S` (white space between the end-of-message marker and the next document) -/
def isXmlWs (b : UInt8) : Bool := b == 9 || b == 10 || b == 13 || b == 32

/-- RFC 4742: messages are separated by `]]>]]>`; white space before a document is skipped; the
stream must end after a delimiter (plus white space). -/
def msgs10 (delim : Bytes) : Nat → Bytes → Option (List Bytes)
  | 0, _ => none
  | f+1, s =>
    match s.dropWhile isXmlWs with
    | [] => some []
    | b :: t =>
      match splitOn delim (b :: t) with
      | none => none
      | some (m, rest) => if m.isEmpty then none else (msgs10 delim f rest).map (m :: ·)

/-- RFC 6242 `chunk-size = [1-9][0-9]{0,9}`, value ≤ 4294967295, terminated by LF -/
def readSize (s : Bytes) : Option (Nat × Bytes) :=
  match s.takeWhile isDigit, s.dropWhile isDigit with
  | d0 :: ds, l :: rest =>
    if l != LF || d0 == 48 || 10 < (d0 :: ds).length then none
    else match parseDec (d0 :: ds) with
      | some n => if n ≤ 4294967295 then some (n, rest) else none
      | none => none
  | _, _ => none

/-- the chunks of one message: `(LF '#' size LF data)+ LF '#' '#' LF`; returns (data, rest) -/
def chunks11 : Nat → Bytes → Bytes → Bool → Option (Bytes × Bytes)
  | 0, _, _, _ => none
  | f+1, s, acc, seen =>
    match s with
    | a :: b :: c :: t =>
      if a == LF && b == HASH then
        if c == HASH then
          match t with
          | e :: rest => if e == LF && seen then some (acc, rest) else none
          | [] => none
        else match readSize (c :: t) with
          | some (n, rest) =>
            if rest.length < n then none
            else chunks11 f (rest.drop n) (acc ++ rest.take n) true
          | none => none
      else none
    | _ => none

/-- messages until the stream ends; a lone LF (the line end that will start the next chunk header)
may remain -/
def msgs11 : Nat → Bytes → Option (List Bytes)
  | 0, _ => none
  | f+1, s =>
    if s.isEmpty || s == [LF] then some []
    else match chunks11 (s.length + 1) s [] false with
      | none => none
      | some (m, rest) => (msgs11 f rest).map (m :: ·)

/-- hello (RFC 4742 framing in both versions), then the requests in the negotiated framing -/
def strictDecodeFull (v : Version) (w : Bytes) : Option (Bytes × List Bytes) :=
  match splitOn Gen.Netconf.v1Dot0Delim w with
  | none => none
  | some (hello, rest) =>
    (match v with
     | .v10 => msgs10 Gen.Netconf.v1Dot0Delim (rest.length + 1) rest
     | .v11 => msgs11 (rest.length + 1) rest).map fun ms => (hello, ms)

/-- the request messages of a session's byte stream (without the hello) -/
def strictDecode (v : Version) (w : Bytes) : Option (List Bytes) :=
  (strictDecodeFull v w).map (·.2)

/-! ## reading the message-id back (specification side) -/

/-- `message-id="` -/
def msgIdKey : Bytes := [109,101,115,115,97,103,101,45,105,100,61,34]

/-- the decimal value of the first `message-id="…"` attribute -/
def msgIdOf (raw : Bytes) : Option Nat :=
  match splitOn msgIdKey raw with
  | none => none
  | some (_, after) =>
    match after.dropWhile isDigit with
    | q :: _ => if q == 34 then parseDec (after.takeWhile isDigit) else none
    | _ => none

end Scrapli.Netconf.Req
