import ScrapliModel.Bytes
import ScrapliModel.Generated.Consts
/-!
# NETCONF reply decoding (response/netconf.go: Record, record1dot0, record1dot1Chunks)

`decode11` mirrors the cursor loop of `record1dot1Chunks` statement by statement: trim, first byte
must be `#`, then repeatedly: skip LF; require `#`; a second `#` ends the message; otherwise read a
size header of 1..maxChunkSizeCharLen characters terminated by LF (strconv.Atoi: optional sign,
decimal digits), require 0 < size ≤ remaining bytes, copy, advance. Falling off the end of the
input without having seen `##` is an error.
-/
namespace Scrapli.Netconf
open Scrapli

inductive DErr
  | noMarker      -- no '#' where a chunk must start
  | badSize       -- header missing / too long / not a number / not positive
  | short         -- size larger than the bytes that remain
  | truncated     -- input ended before the end-of-chunks marker
  deriving Repr, DecidableEq

/-- split at the first LF found at index ≤ k: (before, after) -/
def takeHeader : Nat → Bytes → Option (Bytes × Bytes)
  | _, [] => none
  | 0, b :: t => if b == LF then some ([], t) else none
  | k+1, b :: t => if b == LF then some ([], t) else (takeHeader k t).map (fun (h, r) => (b :: h, r))

/-- `strconv.Atoi` followed by the `> 0` guard, on a header of at most 10 characters
    (so no overflow): optional `+`, then one or more decimal digits, value positive. A leading
    `-` always ends in an error (syntax error or non-positive value). -/
def parseSize : Bytes → Option Nat
  | [] => none
  | 43 :: ds => (parseDec ds).bind fun n => if n = 0 then none else some n
  | ds => (parseDec ds).bind fun n => if n = 0 then none else some n

def decodeLoop (maxHdr : Nat) : Nat → Bytes → Bytes → Except DErr Bytes
  | 0, _, _ => .error .truncated
  | _+1, [], _ => .error .truncated
  | f+1, b :: t, acc =>
    if b == LF then decodeLoop maxHdr f t acc
    else if b != HASH then .error .noMarker
    else match t with
      | [] => .error .truncated
      | b2 :: _ =>
        if b2 == HASH then .ok acc
        else match takeHeader maxHdr t with
          | none => .error .badSize
          | some (hd, rest) =>
            match parseSize hd with
            | none => .error .badSize
            | some n =>
              if rest.length < n then .error .short
              else decodeLoop maxHdr f (rest.drop n) (acc ++ rest.take n)

/-- the joined chunk data, before declaration / whitespace trimming -/
def decode11Raw (raw : Bytes) : Except DErr Bytes :=
  let d := trimSpace raw
  match d with
  | [] => .error .noMarker
  | b :: _ => if b != HASH then .error .noMarker
              else decodeLoop Gen.Response.maxChunkSizeCharLen (d.length + 1) d []

def finish (joined : Bytes) : Bytes := trimSpace (trimPrefix joined Gen.Response.xmlHeader)

/-- `record1dot1Chunks`: result on success -/
def decode11 (raw : Bytes) : Except DErr Bytes := (decode11Raw raw).map finish

/-- `record1dot0` (never fails): white space around the message, the canonical XML declaration, white
    space again, the end-of-message delimiter, white space again -/
def decode10 (raw : Bytes) : Bytes :=
  trimSpace (trimSuffix (trimSpace (trimPrefix (trimSpace raw) Gen.Response.xmlHeader)) Gen.Response.v1Dot0Delim)

/-- `record1dot0` as it read before fix 72d4808 (finding C02-F21): the declaration was looked for
    before the white space in front of the message had been removed. Kept as a negative witness
    (`Props/C02.lean`: `decode10_before_fix_keeps_declaration`). -/
def decode10BeforeFix (raw : Bytes) : Bytes :=
  trimSpace (trimSuffix (trimSpace (trimPrefix raw Gen.Response.xmlHeader)) Gen.Response.v1Dot0Delim)

def containsAny (markers : List Bytes) (b : Bytes) : Bool := markers.any fun m => isInfix m b

inductive Version | v10 | v11 deriving Repr, DecidableEq

structure Recorded where
  result : Bytes
  failed : Bool
  parseErr : Bool
  deriving Repr, DecidableEq

/-- `NetconfResponse.Record`: failure classification on the raw bytes and on the decoded result,
    then decoding according to the version. -/
def record (markers : List Bytes) (v : Version) (raw : Bytes) : Recorded :=
  match v with
  | .v10 =>
    let r := decode10 raw
    { result := r, failed := containsAny markers raw || containsAny markers r, parseErr := false }
  | .v11 =>
    match decode11 raw with
    | .ok r => { result := r, failed := containsAny markers raw || containsAny markers r, parseErr := false }
    | .error _ => { result := [], failed := true, parseErr := true }

/-! ## rpc-error messages (`Record`: `rpcSingleErrors.FindAll(raw, -1)` + severity classification)

`rpcSingleErrors` is `(?sU)<rpc-errors?>.*</rpc-errors?>`: the leftmost opening tag, then (lazy
star) the nearest closing tag behind it; the search goes on behind the match. If the first opening
tag has no closing tag behind it, no later one has. `errorBlocks` is that scan written by hand
(specification side; the regular expression itself is tied by the per-run differential run). -/

/-- `<rpc-error>`, `<rpc-errors>` -/
def errOpenTags : List Bytes := [[60,114,112,99,45,101,114,114,111,114,62], [60,114,112,99,45,101,114,114,111,114,115,62]]
/-- `</rpc-error>`, `</rpc-errors>` -/
def errCloseTags : List Bytes := [[60,47,114,112,99,45,101,114,114,111,114,62], [60,47,114,112,99,45,101,114,114,111,114,115,62]]
/-- `<error-severity>error</error-severity>` -/
def sevError : Bytes := [60,101,114,114,111,114,45,115,101,118,101,114,105,116,121,62,101,114,114,111,114,60,47,101,114,114,111,114,45,115,101,118,101,114,105,116,121,62]
/-- `<error-severity>warning</error-severity>` -/
def sevWarning : Bytes := [60,101,114,114,111,114,45,115,101,118,101,114,105,116,121,62,119,97,114,110,105,110,103,60,47,101,114,114,111,114,45,115,101,118,101,114,105,116,121,62]

/-- first position at which one of `tags` starts: (bytes before it, the tag, bytes behind it) -/
def findTag (tags : List Bytes) : Bytes → Option (Bytes × Bytes × Bytes)
  | [] => none
  | b :: t =>
    match tags.find? (fun tg => hasPrefix (b :: t) tg) with
    | some tg => some ([], tg, (b :: t).drop tg.length)
    | none => (findTag tags t).map fun (pre, tg, rest) => (b :: pre, tg, rest)

/-- the non-overlapping `<rpc-error(s)>…</rpc-error(s)>` blocks of `s`, left to right -/
def errorBlocks : Nat → Bytes → List Bytes
  | 0, _ => []
  | f + 1, s =>
    match findTag errOpenTags s with
    | none => []
    | some (_, otag, rest) =>
      match findTag errCloseTags rest with
      | none => []
      | some (body, ctag, rest') => (otag ++ body ++ ctag) :: errorBlocks f rest'

/-- the `switch` in `Record`: a block with severity `error` is an error message, otherwise one with
    severity `warning` is a warning message, otherwise it is dropped -/
def classifyMsgs (blocks : List Bytes) : List Bytes × List Bytes :=
  (blocks.filter (fun m => isInfix sevError m),
   blocks.filter (fun m => !isInfix sevError m && isInfix sevWarning m))

/-- `ErrorMessages`, `WarningErrorMessages` of a fresh response after `Record(raw)` -/
def messages (markers : List Bytes) (raw : Bytes) : List Bytes × List Bytes :=
  if containsAny markers raw then classifyMsgs (errorBlocks (raw.length + 1) raw) else ([], [])

/-! ## RFC 6242 / RFC 4742 encoders (specification side) -/
def chunk (c : Bytes) : Bytes := [LF, HASH] ++ decDigits c.length ++ [LF] ++ c
def frame11 (cs : List Bytes) : Bytes := (cs.map chunk).flatten ++ [LF, HASH, HASH, LF]
def frame10 (p : Bytes) : Bytes := p ++ Gen.Response.v1Dot0Delim

end Scrapli.Netconf
