import ScrapliModel.Bytes
import ScrapliModel.Generated.Consts
/-!
# NETCONF session read loop, message store and request ids (model for property C08)

Mirrors `driver/netconf/driver.go` (`buildPayload`, `storeMessage`, `getMessage`),
`driver/netconf/read.go` (`read`, `getID`) and the caller side of `driver/netconf/rpc.go`
(`sendRPC`: poll `getMessage(own id)` until reply, error or timer).

The three regular expressions of the read loop are modelled by small scanners:

* `v1Dot0Delim = "]]>]]>"` (a literal; taken from the generated constant): `isInfix` / `afterFirst`;
* `v1Dot1Delim = "(?m)^##$"`: a line that is exactly `##` (`match11From` / `after11From`);
* `messageIDPattern = (?i)(?:message-id\s*=\s*["'](\d+)["'])`: `firstId` (left-most occurrence,
  ASCII case folding, optional white space around `=`, either quote character, greedy digits).

Scanner = the Lean regex engine on the regenerated pattern terms is proved in
`Props/RXNetconf.lean` (message-id: for texts without U+017F); that the engine is Go's `regexp` is
tested (the harness diffs both on generated strings on every run); the pattern sources are pinned
in `Props/C08.lean`.
-/
namespace Scrapli.Netconf.Store
open Scrapli

inductive Ver | v10 | v11
  deriving DecidableEq, Repr

/-! ## scanners -/

/-- `</rpc>` -/
def rpcCloseTag : Bytes := [60, 47, 114, 112, 99, 62]

/-- `bytes.Contains(b, []byte("</rpc>"))` -/
def containsRpcClose (b : Bytes) : Bool := isInfix rpcCloseTag b

/-- the 1.0 end-of-message marker, from the source constant -/
def delim10 : Bytes := Gen.Netconf.v1Dot0Delim

/-- what follows the first occurrence of `needle` (`regexp.Split(s, 2)[1]` for a literal) -/
def afterFirst (needle : Bytes) : Bytes → Option Bytes
  | [] => if needle.isEmpty then some [] else none
  | b :: t =>
    if hasPrefix (b :: t) needle then some ((b :: t).drop needle.length) else afterFirst needle t

/-- at a line start: the line is exactly `##` (followed by LF or end of text) -/
def hashLineHere : Bytes → Bool
  | a :: c :: rest => a == HASH && c == HASH && (match rest with | [] => true | d :: _ => d == LF)
  | _ => false

/-- `(?m)^##$` matches somewhere; `ls` = the current position is a line start -/
def match11From (ls : Bool) : Bytes → Bool
  | [] => false
  | c :: t => (ls && hashLineHere (c :: t)) || match11From (c == LF) t

/-- the text after the first match of `(?m)^##$` -/
def after11From (ls : Bool) : Bytes → Option Bytes
  | [] => none
  | c :: t => if ls && hashLineHere (c :: t) then some (t.drop 1) else after11From (c == LF) t

/-- `d.Channel.PromptPattern.Match(b)` -/
def delimMatch : Ver → Bytes → Bool
  | .v10, b => isInfix delim10 b
  | .v11, b => match11From true b

def afterFirstOpt : Ver → Bytes → Option Bytes
  | .v10, b => afterFirst delim10 b
  | .v11, b => after11From true b

/-- `patterns.v1DotXDelim.Split(string(b), 2)[1]` (only used when `delimMatch` holds) -/
def afterFirstDelim (v : Ver) (b : Bytes) : Bytes := (afterFirstOpt v b).getD []

/-- `message-id` as (lower, upper) byte pairs: the `(?i)` literal part of `messageIDPattern` -/
def midPrefix : List (UInt8 × UInt8) :=
  [(109, 77), (101, 69), (115, 83), (115, 83), (97, 65), (103, 71), (101, 69), (45, 45),
   (105, 73), (100, 68)]

def dropFold : List (UInt8 × UInt8) → Bytes → Option Bytes
  | [], b => some b
  | _ :: _, [] => none
  | (lo, up) :: p, c :: t => if c == lo || c == up then dropFold p t else none

def decVal (acc : Nat) : Bytes → Nat
  | [] => acc
  | b :: t => decVal (acc * 10 + digitVal b) t

def maxInt64 : Nat := 9223372036854775807

/-- `id, _ := strconv.Atoi(s)` on a non-empty all-digit string: the value, or MaxInt64 on overflow
(the range error is ignored by `getID`) -/
def atoiClamp (ds : Bytes) : Nat := min (decVal 0 ds) maxInt64

def QUOTE : UInt8 := 34
def EQ : UInt8 := 61

/-- Go's Perl class `\s` = `[\t\n\f\r ]` -/
def isWsB (b : UInt8) : Bool := b == 9 || b == 10 || b == 12 || b == 13 || b == 32

/-- `["']` -/
def isQuoteB (b : UInt8) : Bool := b == 34 || b == 39

/-- what follows the attribute name: `\s*=\s*["'](\d+)["']` (the two quote characters need not be
the same; `=` and the quotes are not white space and a quote is not a digit, so each run is
maximal) -/
def idTail (r0 : Bytes) : Option Nat :=
  match r0.dropWhile isWsB with
  | e :: r1 =>
    if e == EQ then
      match r1.dropWhile isWsB with
      | q :: rest =>
        if isQuoteB q then
          match rest.dropWhile isDigit with
          | q2 :: _ =>
            if isQuoteB q2 && !(rest.takeWhile isDigit).isEmpty then
              some (atoiClamp (rest.takeWhile isDigit))
            else none
          | [] => none
        else none
      | [] => none
    else none
  | [] => none

/-- the pattern matches starting exactly here -/
def idHere (b : Bytes) : Option Nat :=
  match dropFold midPrefix b with
  | none => none
  | some r0 => idTail r0

/-- `getID(patterns.messageID.FindSubmatch(b))` with "no match" kept apart from id 0 -/
def firstId : Bytes → Option Nat
  | [] => none
  | c :: t =>
    match idHere (c :: t) with
    | some n => some n
    | none => firstId t

/-- the key a complete message is filed under (`0` = not filed) -/
def msgKey (b : Bytes) : Nat := (firstId b).getD 0

/-! ## message store (`map[int][]byte`) -/

abbrev Store := List (Nat × Bytes)

/-- `d.messages[i] = b` -/
def Store.put (s : Store) (id : Nat) (m : Bytes) : Store := (id, m) :: s.filter (fun p => p.1 != id)
/-- `d.messages[i]` -/
def Store.get (s : Store) (id : Nat) : Option Bytes := (s.find? (fun p => p.1 == id)).map (·.2)
/-- `delete(d.messages, i)` -/
def Store.del (s : Store) (id : Nat) : Store := s.filter (fun p => p.1 != id)

/-! ## driver state -/

structure St where
  nextId : Nat
  store : Store
  buf : Bytes
  deriving Repr

/-- `buildPayload`: the request carries the current counter, which is then incremented -/
def buildRequest (s : St) : Nat × St := (s.nextId, { s with nextId := s.nextId + 1 })

/-- one iteration of the read loop on the buffer alone: new buffer and the message filed (if any).
`chunk` is the result of `Channel.Read` (empty when nothing was queued). -/
def bufStep (v : Ver) (buf chunk : Bytes) : Bytes × Option (Nat × Bytes) :=
  let b := buf ++ chunk
  if delimMatch v b then
    if containsRpcClose b then (afterFirstDelim v b, none)
    else
      match firstId b with
      | some n => if n != 0 then ([], some (n, b)) else ([], none)
      | none => ([], none)
  else (b, none)

def St.file (s : St) : Option (Nat × Bytes) → Store
  | some (n, m) => s.store.put n m
  | none => s.store

/-- one iteration of `(*Driver).read` -/
def readStep (v : Ver) (s : St) (chunk : Bytes) : St :=
  let r := bufStep v s.buf chunk
  { s with buf := r.1, store := s.file r.2 }

/-- `getMessage(id)`: the stored message (if any); the entry is deleted -/
def fetch (s : St) (id : Nat) : Option Bytes × St := (s.store.get id, { s with store := s.store.del id })

/-! ## a session: sequential calls against the read loop -/

inductive Ev
  | call                    -- a new RPC: `buildPayload` + write (ignored while a call is pending)
  | read (chunk : Bytes)    -- one read-loop iteration
  | poll                    -- the pending call polls `getMessage(own id)`; returns when it finds one
  | expire                  -- the pending call's timer fires / an error is delivered: it returns an error
  deriving Repr

structure Client where
  st : St
  pending : Option Nat
  /-- completed calls in order: request id and the raw reply (`none` = error/timeout) -/
  results : List (Nat × Option Bytes)
  deriving Repr

def step (v : Ver) (c : Client) : Ev → Client
  | .call =>
    match c.pending with
    | some _ => c
    | none => let r := buildRequest c.st; { c with st := r.2, pending := some r.1 }
  | .read chunk => { c with st := readStep v c.st chunk }
  | .poll =>
    match c.pending with
    | none => c
    | some id =>
      let r := fetch c.st id
      match r.1 with
      | some m => { st := r.2, pending := none, results := c.results ++ [(id, some m)] }
      | none => { c with st := r.2 }
  | .expire =>
    match c.pending with
    | none => c
    | some id => { c with pending := none, results := c.results ++ [(id, none)] }

def run (v : Ver) (c : Client) (evs : List Ev) : Client := evs.foldl (step v) c

def init : Client := ⟨⟨Gen.Netconf.initialMessageID, [], []⟩, none, []⟩

/-- ids handed out so far, in order (completed calls, then the pending one) -/
def Client.issued (c : Client) : List Nat := c.results.map (·.1) ++ c.pending.toList

/-- the chunks of the read events, in order -/
def readsOf : List Ev → List Bytes
  | [] => []
  | .read c :: t => c :: readsOf t
  | _ :: t => readsOf t

/-- all messages the read loop files while consuming `chunks` from buffer `buf`, and the final buffer -/
def filings (v : Ver) (buf : Bytes) : List Bytes → List (Nat × Bytes) × Bytes
  | [] => ([], buf)
  | c :: cs =>
    let r := bufStep v buf c
    let rest := filings v r.1 cs
    (r.2.toList ++ rest.1, rest.2)

/-! ## what the server sends (used by the hypotheses of the theorems and by the driver) -/

def allLF (b : Bytes) : Bool := b.all (· == LF)

/-- a reply as it travels: `body` = framed bytes up to and including the end-of-message marker,
`tail` = what the server sends after the marker (line feeds), `to` = the request it answers -/
structure Reply where
  to : Nat
  body : Bytes
  tail : Bytes
  deriving Repr

/-- the transport's echo of one request: framed request through its end marker, then the returns -/
structure Echo where
  body : Bytes
  tail : Bytes
  deriving Repr

/-- no proper prefix of the framed message looks complete to the read loop -/
def noEarlyFire (v : Ver) (body : Bytes) : Bool :=
  (List.range body.length).all fun k => !delimMatch v (body.take k)

def startsLFOrEmpty : Bytes → Bool
  | [] => true
  | c :: _ => c == LF

/-- hypotheses on one reply: `NoRpcCloseTagInReply`, `NoFakeDelimiter` (+ the marker is there),
the `message-id` attribute is contiguous in the framed bytes and is the request's id, RFC 6242
frames start with LF. -/
def goodReply (v : Ver) (r : Reply) : Bool :=
  allLF r.tail
  && !containsRpcClose (r.body ++ r.tail)
  && noEarlyFire v r.body
  && delimMatch v r.body
  && (firstId r.body == some r.to) && r.to != 0
  && (v == .v10 || startsLFOrEmpty r.body)

/-- hypotheses on one echo: our own request closes with `</rpc>`, has no fake delimiter, and its
first delimiter is its last bytes -/
def goodEcho (v : Ver) (e : Echo) : Bool :=
  allLF e.tail
  && containsRpcClose e.body
  && noEarlyFire v e.body
  && delimMatch v e.body
  && (afterFirstOpt v e.body == some [])

/-- what arrives between two quiet moments of the stream: the echo of a request, a reply, or an
echo directly followed by a reply (reads may then carry bytes of both) -/
inductive Burst
  | echoOnly (e : Echo)
  | replyOnly (r : Reply)
  | echoReply (e : Echo) (r : Reply)
  deriving Repr

def Burst.bytes : Burst → Bytes
  | .echoOnly e => e.body ++ e.tail
  | .replyOnly r => r.body ++ r.tail
  | .echoReply e r => (e.body ++ e.tail) ++ (r.body ++ r.tail)

def Burst.replies : Burst → List Reply
  | .echoOnly _ => []
  | .replyOnly r => [r]
  | .echoReply _ r => [r]

def Burst.good (v : Ver) : Burst → Bool
  | .echoOnly e => goodEcho v e
  | .replyOnly r => goodReply v r
  | .echoReply e r => goodEcho v e && goodReply v r

/-- a unit together with the way the transport cut it into reads -/
structure Delivery where
  burst : Burst
  chunks : List Bytes
  deriving Repr

/-- the chunks are a segmentation of the unit's bytes (empty reads allowed anywhere); when a read
may carry echo and reply bytes together, the read loop gets one idle iteration (an empty read)
before bytes of a further server message arrive -/
def Delivery.valid (v : Ver) (d : Delivery) : Bool :=
  d.burst.good v && (d.chunks.flatten == d.burst.bytes) &&
  (match d.burst with
   | .echoReply _ _ => d.chunks.getLast? == some []
   | _ => true)

end Scrapli.Netconf.Store
