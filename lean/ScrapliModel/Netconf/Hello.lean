import ScrapliModel.Regex
import ScrapliModel.Channel
import ScrapliModel.Generated.Consts
import ScrapliModel.Generated.Patterns
/-!
# NETCONF session establishment (driver/netconf/capabilities.go, driver/netconf/driver.go `Open`)

`Open` = `Channel.Open`; `processServerCapabilities` (read until the 1.0 delimiter is visible in the
search window, require the hello pattern, collect capability elements with `FindAllSubmatch`,
session-id with `FindSubmatch` + `Atoi`); `determineVersion`; `sendClientCapabilities`.

Two parsers of the server hello live here:

* `parseHello` — what the code does: the Lean regex engine running the three patterns *extracted
  from the source* (`Gen.Rx.Netconf.hello / capability / sessionID`). It follows the source by
  itself when a pattern changes.
* `parseHelloScan pfxSid` — a hand-written scanner for the same three searches (ASCII case folding,
  optional `\w+:` prefix). `pfxSid = true` lets the session-id element carry a namespace prefix like
  the other two patterns do (the repaired behaviour, finding F7); `pfxSid = false` is the pattern as
  it stood at design time. The property theorems are proved about the scanner; the correspondence
  run ties scanner, engine and the real `Open` together case by case.
-/
namespace Scrapli.Netconf.Hello
open Scrapli Scrapli.Chan

/-! ## version decision (`determineVersion`) -/

inductive Ver | v10 | v11
  deriving DecidableEq, Repr

/-- `SelectedVersion` as the string the Go code stores -/
def Ver.str : Ver → Bytes
  | .v10 => Gen.Netconf.V1Dot0
  | .v11 => Gen.Netconf.V1Dot1

/-- the base capability URI of a version -/
def Ver.cap : Ver → Bytes
  | .v10 => Gen.Netconf.v1Dot0Cap
  | .v11 => Gen.Netconf.v1Dot1Cap

/-- `ServerHasCapability`: string equality against every stored capability -/
def hasCap (caps : List Bytes) (c : Bytes) : Bool := caps.contains c

/-- `determineVersion`, statement by statement: the `if / else if / else` on the advertised base
capabilities, then the `switch d.PreferredVersion` (any string other than the two version strings
falls through the switch). `none` = `ErrNetconfError`. -/
def determineVersion (caps : List Bytes) (pref : Bytes) : Option Ver :=
  let first : Option Ver :=
    if hasCap caps Gen.Netconf.v1Dot1Cap then some .v11
    else if hasCap caps Gen.Netconf.v1Dot0Cap then some .v10
    else none
  match first with
  | none => none
  | some sel =>
    if pref == Gen.Netconf.V1Dot0 then
      (if hasCap caps Gen.Netconf.v1Dot0Cap then some .v10 else none)
    else if pref == Gen.Netconf.V1Dot1 then
      (if hasCap caps Gen.Netconf.v1Dot1Cap then some .v11 else none)
    else some sel

/-- what the user asked for -/
inductive Pref | none | p10 | p11
  deriving DecidableEq, Repr

/-- `PreferredVersion` as the option stores it -/
def Pref.bytes : Pref → Bytes
  | .none => []
  | .p10 => Gen.Netconf.V1Dot0
  | .p11 => Gen.Netconf.V1Dot1

/-- The property's table, written from its statement: 1.1 exactly when the server advertises it
and the user did not ask for 1.0; 1.0 when that is all the server offers, or it is what the user
asked for and the server offers it; failure when neither base capability is advertised or the
required one is missing. -/
def specVersion (has10 has11 : Bool) : Pref → Option Ver
  | .none => if has11 then some .v11 else if has10 then some .v10 else none
  | .p10 => if has10 then some .v10 else none
  | .p11 => if has11 then some .v11 else none

/-- `options.WithNetconfPreferredVersion`: only the two version strings are accepted
(`false` = `ErrBadOption`, the driver is not constructed). -/
def prefOptionOK (s : Bytes) : Bool := s == Gen.Netconf.V1Dot0 || s == Gen.Netconf.V1Dot1

/-- `sendClientCapabilities`: the constant selected by the `switch d.SelectedVersion` -/
def clientHello : Ver → Bytes
  | .v10 => Gen.Netconf.v1Dot0Caps
  | .v11 => Gen.Netconf.v1Dot1Caps

/-- position of the first occurrence (`bytes.Index`) -/
def indexOf (needle : Bytes) : Bytes → Option Nat
  | [] => if needle.isEmpty then some 0 else none
  | b :: t => if hasPrefix (b :: t) needle then some 0 else (indexOf needle t).map (· + 1)

/-! ## the hello as the code reads it: regex engine on the extracted patterns -/

/-- `len(sessionIDMatch) != numSessionIDMatches → return`: `FindSubmatch` of a pattern with one
group has length 2 when it matches; with any other value of the constant the id is never read -/
def sidMatchLenOK : Bool := Gen.Netconf.numSessionIDMatches == 2

/-- `(hello matched, capability group 1 of every match, session-id group 1 of the first match)` -/
def parseHello (raw : Bytes) : Bool × List Bytes × Option Bytes :=
  (Rx.isMatch Gen.Rx.Netconf.hello raw,
   Rx.findAllGroup Gen.Rx.Netconf.capability raw 1,
   if sidMatchLenOK then Rx.findGroup Gen.Rx.Netconf.sessionID raw 1 else none)

/-! ## hand-written scanner -/

def isWord (b : UInt8) : Bool :=
  (48 ≤ b && b ≤ 57) || (65 ≤ b && b ≤ 90) || (97 ≤ b && b ≤ 122) || b == 95

/-- ASCII lower-casing as a table (no `UInt8` arithmetic) -/
def toLowerB : UInt8 → UInt8
  | 65 => 97 | 66 => 98 | 67 => 99 | 68 => 100 | 69 => 101 | 70 => 102 | 71 => 103 | 72 => 104
  | 73 => 105 | 74 => 106 | 75 => 107 | 76 => 108 | 77 => 109 | 78 => 110 | 79 => 111 | 80 => 112
  | 81 => 113 | 82 => 114 | 83 => 115 | 84 => 116 | 85 => 117 | 86 => 118 | 87 => 119 | 88 => 120
  | 89 => 121 | 90 => 122
  | b => b

/-- does `s` start with the (lower-case) `name`, ignoring ASCII case -/
def hasPrefixCI : Bytes → Bytes → Bool
  | _, [] => true
  | [], _ :: _ => false
  | a :: s, b :: p => toLowerB a == b && hasPrefixCI s p

/-- skip an optional `\w+:` -/
def stripPfx (s : Bytes) : Bytes :=
  match s with
  | [] => []
  | b :: _ =>
    if isWord b then
      match s.dropWhile isWord with
      | 58 :: r => r
      | _ => s
    else s

/-- element names the scanner looks for (lower case; the closing `>` belongs to the name where the
patterns require it) -/
def nmHello : Bytes := [104,101,108,108,111]                               -- hello
def nmHelloGt : Bytes := [104,101,108,108,111,62]                          -- hello>
def nmCap : Bytes := [99,97,112,97,98,105,108,105,116,121,62]              -- capability>
def nmCaps : Bytes := [99,97,112,97,98,105,108,105,116,105,101,115,62]     -- capabilities>
def nmSid : Bytes := [115,101,115,115,105,111,110,45,105,100,62]           -- session-id>

/-- `<(\w+:)?name` at the head of `s`; the result is what follows the name. With `pfx = false` no
prefix is accepted. -/
def openTag (pfx : Bool) (name : Bytes) (s : Bytes) : Option Bytes :=
  match s with
  | 60 :: t =>
    let u := if pfx then stripPfx t else t
    if hasPrefixCI u name then some (u.drop name.length) else none
  | _ => none

/-- `</(\w+:)?name` at the head of `s` -/
def closeTag (pfx : Bool) (name : Bytes) (s : Bytes) : Option Bytes :=
  match s with
  | 60 :: 47 :: t =>
    let u := if pfx then stripPfx t else t
    if hasPrefixCI u name then some (u.drop name.length) else none
  | _ => none

/-- first suffix of the text at which `f` succeeds (leftmost match start) -/
def firstSome {α : Type} (f : Bytes → Option α) : Bytes → Option α
  | [] => f []
  | b :: t =>
    match f (b :: t) with
    | some x => some x
    | none => firstSome f t

/-- `<(\w+:)?hello` with both alternatives of the optional prefix tried (the name has no closing
delimiter in the pattern, so `<hellofoo:hello` style inputs need the second try) -/
def openHelloAt (s : Bytes) : Option Bytes :=
  match openTag true nmHello s with
  | some r => some r
  | none => openTag false nmHello s

def closeHelloAt (s : Bytes) : Option Bytes := closeTag true nmHelloGt s

/-- hello pattern `(?is)(<(\w+:)?hello.*</(\w+:)?hello>)`: a first opening position and, somewhere
after it, a closing tag -/
def hasHelloScan (raw : Bytes) : Bool :=
  match firstSome openHelloAt raw with
  | none => false
  | some rest => (firstSome closeHelloAt rest).isSome

/-- `(.*?)` followed by the closing capability tag: shortest content, no LF inside -/
def capBody : Bytes → Option (Bytes × Bytes)
  | [] => none
  | b :: t =>
    match closeTag true nmCap (b :: t) with
    | some rest => some ([], rest)
    | none =>
      if b == LF then none
      else (capBody t).map fun (u, r) => (b :: u, r)

/-- one capability element starting exactly here: (content, text after the element) -/
def capAt (s : Bytes) : Option (Bytes × Bytes) :=
  match openTag true nmCap s with
  | some body => capBody body
  | none => none

/-- `FindAllSubmatch(capability)`: leftmost match, continue after its end; on failure move one
byte on. Fuel = text length + 1 is always enough (`capsScan`). -/
def capsScanF : Nat → Bytes → List Bytes
  | 0, _ => []
  | _, [] => []
  | f+1, b :: t =>
    match capAt (b :: t) with
    | some (u, rest) => u :: capsScanF f rest
    | none => capsScanF f t

def capsScan (s : Bytes) : List Bytes := capsScanF (s.length + 1) s

/-- session-id element starting exactly here: the digit string -/
def sidAt (pfx : Bool) (s : Bytes) : Option Bytes :=
  match openTag pfx nmSid s with
  | none => none
  | some r =>
    let d := r.takeWhile isDigit
    if d.isEmpty then none
    else
      match closeTag pfx nmSid (r.dropWhile isDigit) with
      | some _ => some d
      | none => none

def sidScan (pfx : Bool) (s : Bytes) : Option Bytes := firstSome (sidAt pfx) s

def parseHelloScan (pfxSid : Bool) (raw : Bytes) : Bool × List Bytes × Option Bytes :=
  (hasHelloScan raw, capsScan raw, sidScan pfxSid raw)

/-! ## the hello grammar the property quantifies over -/

/-- the rendered namespace prefix: nothing, or the prefix name and a colon -/
def pfxB (p : Bytes) : Bytes := if p.isEmpty then [] else p ++ [58]

def otag (p name : Bytes) : Bytes := 60 :: (pfxB p ++ name)
def ctag (p name : Bytes) : Bytes := 60 :: 47 :: (pfxB p ++ name)

/-- One server hello: optional declaration / processing instruction `<?…`, one namespace prefix
(possibly none) on every element, arbitrary attribute text on the hello element, arbitrary filler
without `<` between elements (white space in practice), any number of capability elements with
arbitrary URIs, optional session-id. -/
structure Layout where
  pre : Bytes                  -- before everything: banner / MOTD lines the transport shows first (no `<`)
  decl : Option Bytes          -- text after `<?` up to and including `?>`
  pfx : Bytes                  -- namespace prefix name ([] = none)
  attrs : Bytes                -- between `hello` and `>`
  ws0 : Bytes                  -- before the hello element
  ws1 : Bytes                  -- after the hello start tag
  ws2 : Bytes                  -- after the capabilities start tag
  ws3 : Bytes                  -- after the capabilities end tag
  ws4 : Bytes                  -- after the session-id element
  caps : List (Bytes × Bytes)  -- (URI, filler after the element)
  sid : Option Bytes           -- decimal digits
  deriving Repr

def declB : Option Bytes → Bytes
  | none => []
  | some d => 60 :: 63 :: d

def capEl (p : Bytes) (c : Bytes × Bytes) : Bytes := otag p nmCap ++ c.1 ++ ctag p nmCap ++ c.2

def capsR (p : Bytes) (caps : List (Bytes × Bytes)) : Bytes := (caps.map (capEl p)).flatten

def sidR (p : Bytes) : Option Bytes → Bytes → Bytes
  | none, _ => []
  | some ds, w => otag p nmSid ++ ds ++ ctag p nmSid ++ w

/-- the hello from its declaration on -/
def renderCore (L : Layout) : Bytes :=
  declB L.decl ++ L.ws0 ++ (otag L.pfx nmHello ++ L.attrs ++ [62]) ++ L.ws1 ++ otag L.pfx nmCaps ++
    L.ws2 ++ capsR L.pfx L.caps ++ ctag L.pfx nmCaps ++ L.ws3 ++ sidR L.pfx L.sid L.ws4 ++
    ctag L.pfx nmHelloGt

/-- the server's first message: whatever text precedes it on the channel, then the hello -/
def render (L : Layout) : Bytes := L.pre ++ renderCore L

def noLT (b : Bytes) : Bool := b.all (· != 60)

/-- attribute text: no `<`; empty or starting with a byte that ends the element name -/
def attrsOK (a : Bytes) : Bool :=
  noLT a && (match a with
    | [] => true
    | c :: _ => !isWord c && c != 58)

/-- membership in the grammar (decidable; the driver evaluates it per case as `dom`) -/
def Layout.ok (L : Layout) : Bool :=
  (match L.decl with
    | none => true
    | some d => noLT d) &&
  L.pfx.all isWord && attrsOK L.attrs && noLT L.pre &&
  noLT L.ws0 && noLT L.ws1 && noLT L.ws2 && noLT L.ws3 && noLT L.ws4 &&
  L.caps.all (fun c => noLT c.1 && c.1.all (· != LF) && noLT c.2) &&
  (match L.sid with
    | none => true
    | some ds => !ds.isEmpty && ds.all isDigit)

/-! ## `Open` -/

inductive Err | timeout | netconf | transport
  deriving DecidableEq, Repr

structure Opened where
  ver : Ver
  caps : List Bytes
  sid : Nat
  /-- everything written to the transport during `Open` -/
  sent : Bytes
  /-- chunks still queued for the session read loop -/
  queue : List Bytes
  deriving DecidableEq, Repr

inductive Res
  | err (e : Err)
  | ok (o : Opened)
  deriving DecidableEq, Repr

/-- `strconv.Atoi` on a digit string: `none` = out of `int` range (64 bit). An absent session-id
leaves the field at 0. -/
def sidValue : Option Bytes → Option Nat
  | none => some 0
  | some ds =>
    match parseDec ds with
    | none => none
    | some n => if n < 2 ^ 63 then some n else none

/-- `Open` after `Channel.Open` succeeded. `chunks` are the reads as the channel queued them
(already normalised by the read goroutine). `delimP` is the prompt pattern (the 1.0 delimiter)
and `depth` the prompt search depth. `ret` is the channel's return character. -/
def openSession (parse : Bytes → Bool × List Bytes × Option Bytes) (delimP : Bytes → Bool)
    (depth : Nat) (ret : Bytes) (pref : Bytes) (chunks : List Bytes) : Res :=
  match readUntil (fun rb => delimP (window rb depth)) chunks [] with
  | none => .err .timeout
  | some (b, queue) =>
    let (hello, caps, sid) := parse b
    if !hello then .err .netconf
    else
      match sidValue sid with
      | none => .err .netconf
      | some sidN =>
        match determineVersion caps pref with
        | none => .err .netconf
        | some v => .ok { ver := v, caps := caps, sid := sidN, sent := clientHello v ++ ret, queue := queue }

/-- the end-of-message marker first completes at the very end of `H ++ delim` -/
def delimFirstAtEnd (delim H : Bytes) : Bool := indexOf delim (H ++ delim) == some H.length

/-- once the marker has arrived it is visible in the channel's search window, however many of the
bytes that follow it arrived in the same read -/
def windowOK (delim : Bytes) (depth : Nat) (H suffix : Bytes) : Bool :=
  (List.range (suffix.length + 1)).all fun j =>
    isInfix delim (window ((H ++ delim ++ suffix).take (H.length + delim.length + j)) depth)

/-- what the property demands of `Open`, given the server's capabilities and session-id -/
def specOpen (caps : List Bytes) (sid : Option Bytes) (pref ret : Bytes) (q : List Bytes) : Res :=
  match sidValue sid with
  | none => .err .netconf
  | some n =>
    match determineVersion caps pref with
    | none => .err .netconf
    | some v => .ok { ver := v, caps := caps, sid := n, sent := clientHello v ++ ret, queue := q }

/-- In-channel SSH authentication (`Channel.AuthenticateSSH`, used by transports that log in
through the channel: system ssh, or any custom transport that says so) once the last password
has been written: reads are accumulated until the prompt pattern — for NETCONF the 1.0 delimiter —
matches the WHOLE accumulated buffer (no search window here); `Channel.Open` then puts that buffer
back in front of the queue as ONE chunk (`Q.Requeue`). `none` = the reads ran dry first. -/
def authTail (delimP : Bytes → Bool) (chunks : List Bytes) : Option (List Bytes) :=
  match readUntil delimP chunks [] with
  | none => none
  | some (b, q) => some (b :: q)

/-- `Open` over a transport with in-channel authentication; `chunks` are the reads after the last
password was sent (a banner shown before the password prompt is discarded by the login loop) -/
def openSessionAuth (parse : Bytes → Bool × List Bytes × Option Bytes) (delimP : Bytes → Bool)
    (depth : Nat) (ret : Bytes) (pref : Bytes) (chunks : List Bytes) : Res :=
  match authTail delimP chunks with
  | none => .err .timeout
  | some q => openSession parse delimP depth ret pref q

/-- `sendClientCapabilities` returns the transport's write error: the negotiation result is
replaced by a failure when the write of the client hello fails -/
def withWriteFailure (writeFails : Bool) : Res → Res
  | .ok o => if writeFails then .err .transport else .ok o
  | r => r

/-! ## what follows `Open`: request framing per selected version (message.serialize + sendRPC) -/

/-- bytes written for one request: `serialize` framing, `WriteAndReturn`, and the extra
`WriteReturn` of 1.1 -/
def requestWire (v : Ver) (ret : Bytes) (xml : Bytes) : Bytes :=
  match v with
  | .v10 => xml ++ Gen.Netconf.v1Dot0Delim ++ ret
  | .v11 => HASH :: decDigits xml.length ++ LF :: xml ++ [LF, HASH, HASH] ++ ret ++ ret

/-- the version the *server* uses (RFC 6241 §8.1: 1.1 iff both peers advertise it), from its own
capabilities and the capabilities found in the client's hello -/
def serverVersion (serverHas11 : Bool) (clientCaps : List Bytes) : Ver :=
  if serverHas11 && hasCap clientCaps Gen.Netconf.v1Dot1Cap then .v11 else .v10

/-- strict RFC 6242 decoder for ONE single-chunk message at the head of the stream:
`LF '#' size LF data LF '#' '#' LF` → (data, rest) -/
def decodeOne11 (s : Bytes) : Option (Bytes × Bytes) :=
  match s with
  | 10 :: 35 :: t =>
    let ds := t.takeWhile isDigit
    match t.dropWhile isDigit with
    | 10 :: r =>
      match parseDec ds with
      | none => none
      | some n =>
        if n == 0 || r.length < n then none
        else
          match r.drop n with
          | 10 :: 35 :: 35 :: 10 :: rest => some (r.take n, rest)
          | _ => none
    | _ => none
  | _ => none

/-- strict RFC 4742 decoder for one message: text up to the first end-of-message marker (leading
line feeds between messages dropped) -/
def decodeOne10 (s : Bytes) : Option (Bytes × Bytes) :=
  match indexOf Gen.Netconf.v1Dot0Delim s with
  | none => none
  | some i => some ((s.take i).dropWhile (· == LF), s.drop (i + Gen.Netconf.v1Dot0Delim.length))

end Scrapli.Netconf.Hello
