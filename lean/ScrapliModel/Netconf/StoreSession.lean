import ScrapliModel.Netconf.Store
/-!
# Which end-of-message pattern a session's read loop uses (property C08, version matrix)

`determineVersion` first picks `SelectedVersion` from the server's capabilities, then lets
`PreferredVersion` override it, and only then installs the delimiter pattern of the FINAL selected
version as `Channel.PromptPattern`. Requests are framed, and the server is told, according to
`SelectedVersion`; the read loop waits for `PromptPattern`. The session model keeps the two apart so
that "the read loop waits for the marker of the version the session speaks" is a statement, not a
convention.

Also here: the read-loop variant that skips its buffer examination when a read returned nothing
(negative witness for `complete_reply_delivered_without_new_bytes`).
-/
namespace Scrapli.Netconf.Store
open Scrapli

/-- `SelectedVersion` as the string the Go code stores -/
def Ver.str : Ver → Bytes
  | .v10 => Gen.Netconf.V1Dot0
  | .v11 => Gen.Netconf.V1Dot1

structure Session where
  /-- `d.SelectedVersion`: how requests are framed, which base capability the client's hello carries -/
  selected : Ver
  /-- the version whose delimiter pattern `d.Channel.PromptPattern` holds: what the read loop waits for -/
  prompt : Ver
  deriving DecidableEq, Repr

/-- `determineVersion` in statement order on the two membership answers (`s10`/`s11` = the server
advertises base:1.0 / base:1.1) and the preference: pick from the server's capabilities, apply the
override, then derive the pattern from the final selection. `none` = `ErrNetconfError`. -/
def negotiate (s10 s11 : Bool) (pref : Option Ver) : Option Session :=
  let first : Option Ver := if s11 then some .v11 else if s10 then some .v10 else none
  match first with
  | none => none
  | some sel0 =>
    let sel : Option Ver :=
      match pref with
      | some .v10 => if s10 then some .v10 else none
      | some .v11 => if s11 then some .v11 else none
      | none => some sel0
    sel.map fun v => { selected := v, prompt := v }

/-- the variant that installs the pattern together with the first pick (before the override) -/
def negotiateEarlyPrompt (s10 s11 : Bool) (pref : Option Ver) : Option Session :=
  let first : Option Ver := if s11 then some .v11 else if s10 then some .v10 else none
  match first with
  | none => none
  | some sel0 =>
    let sel : Option Ver :=
      match pref with
      | some .v10 => if s10 then some .v10 else none
      | some .v11 => if s11 then some .v11 else none
      | none => some sel0
    sel.map fun v => { selected := v, prompt := sel0 }

/-- the read loop of a session examines its buffer with the session's prompt pattern -/
def Session.run (s : Session) (c : Client) (evs : List Ev) : Client := Store.run s.prompt c evs

/-- `d.PreferredVersion` (any string other than the two version strings is "no preference") -/
def prefOf (pref : Bytes) : Option Ver :=
  if pref == Gen.Netconf.V1Dot0 then some .v10 else if pref == Gen.Netconf.V1Dot1 then some .v11 else none

/-! ## the skip-on-empty-read variant of the read loop -/

/-- one loop iteration that goes back to sleep without looking at its buffer when `Channel.Read`
returned nothing -/
def bufStepSkip (v : Ver) (buf chunk : Bytes) : Bytes × Option (Nat × Bytes) :=
  if chunk.isEmpty then (buf, none) else bufStep v buf chunk

def filingsSkip (v : Ver) (buf : Bytes) : List Bytes → List (Nat × Bytes) × Bytes
  | [] => ([], buf)
  | c :: cs =>
    let r := bufStepSkip v buf c
    let rest := filingsSkip v r.1 cs
    (r.2.toList ++ rest.1, rest.2)

/-! ## channel settings that must not influence the routing -/

/-- the driver / channel settings a session is created with that the read loop could conceivably
consult: `Channel.PromptSearchDepth`, `Channel.ReadDelay`, the transport read size, the return
character, `TimeoutOps`. The model's read loop takes none of them: the routing keys of a complete
message are computed over the WHOLE message. -/
structure ChannelCfg where
  promptSearchDepth : Nat
  readDelay : Nat
  readSize : Nat
  returnChar : Bytes
  timeoutOps : Nat
  deriving Repr

/-- one read-loop iteration of a session created with settings `cfg` -/
def bufStepWith (_cfg : ChannelCfg) (v : Ver) (buf chunk : Bytes) : Bytes × Option (Nat × Bytes) :=
  bufStep v buf chunk

/-- the variant that looks for the message-id only in the first `depth` bytes of a complete message
(negative witness for `routing_independent_of_search_depth`) -/
def bufStepHead (depth : Nat) (v : Ver) (buf chunk : Bytes) : Bytes × Option (Nat × Bytes) :=
  let b := buf ++ chunk
  if delimMatch v b then
    if containsRpcClose b then (afterFirstDelim v b, none)
    else
      match firstId (b.take depth) with
      | some n => if n != 0 then ([], some (n, b)) else ([], none)
      | none => ([], none)
  else (b, none)

/-- the 1.1 variant that first throws away its buffer up to and including the first `]]>]]>`
(negative witness for `v11_ignores_v10_marker`) -/
def bufStepDrop10 (buf chunk : Bytes) : Bytes × Option (Nat × Bytes) :=
  let b := buf ++ chunk
  match afterFirst delim10 b with
  | some rest => bufStep .v11 rest []
  | none => bufStep .v11 b []

end Scrapli.Netconf.Store
