import ScrapliModel.Netconf.Store
/-!
# Notifications and the subscription store (property C08, notification routing)

`(*Driver).read` files every complete, non-echo message twice, independently: under the first
`message-id="N"` it carries (message store, `getMessage`) and — when it contains the text
`</subscription-id>` — under the number `subscriptionIDPattern` finds (subscription store,
`storeSubscriptionMessage` appends, `GetSubscriptionMessages(id)` returns the list and empties it).

The read loop is therefore split into `bufCut` (which complete message, if any, one iteration
cuts out of the buffer) and the two keys computed from the cut message; `bufStep` of
`Netconf/Store.lean` is `bufCut` followed by `keyOf` (lemma `bufStep_eq_cut`).

`subscriptionIDPattern = (?i)<subscription-id.*>(\d+)</subscription-id>` is modelled by the scanner
`firstSubId` (left-most start, greedy `.*` that does not cross a line feed, hence the LAST `>` of
the line after which digits and the closing tag follow); scanner = Go regexp is diffed by the
harness like the other scanners.
-/
namespace Scrapli.Netconf.Store
open Scrapli

/-- `</subscription-id>` (the `bytes.Contains` test is case sensitive) -/
def subCloseTag : Bytes := [60, 47, 115, 117, 98, 115, 99, 114, 105, 112, 116, 105, 111, 110, 45, 105, 100, 62]
def containsSubClose (b : Bytes) : Bool := isInfix subCloseTag b

/-- `<subscription-id` / `</subscription-id>` as (lower, upper) pairs: the `(?i)` literals -/
def subOpenFold : List (UInt8 × UInt8) := [(60, 60), (115, 83), (117, 85), (98, 66), (115, 83), (99, 67), (114, 82), (105, 73), (112, 80), (116, 84), (105, 73), (111, 79), (110, 78), (45, 45), (105, 73), (100, 68)]
def subCloseFold : List (UInt8 × UInt8) := [(60, 60), (47, 47), (115, 83), (117, 85), (98, 66), (115, 83), (99, 67), (114, 82), (105, 73), (112, 80), (116, 84), (105, 73), (111, 79), (110, 78), (45, 45), (105, 73), (100, 68), (62, 62)]

def GT : UInt8 := 62

/-- `(\d+)</subscription-id>` matches here -/
def subTail (b : Bytes) : Option Nat :=
  if (b.takeWhile isDigit).isEmpty then none
  else
    match dropFold subCloseFold (b.dropWhile isDigit) with
    | some _ => some (atoiClamp (b.takeWhile isDigit))
    | none => none

/-- greedy `.*>` inside one line: the last `>` after which `subTail` matches -/
def lastGt : Bytes → Option Nat
  | [] => none
  | c :: t =>
    match lastGt t with
    | some n => some n
    | none => if c == GT then subTail t else none

def subIdHere (b : Bytes) : Option Nat :=
  match dropFold subOpenFold b with
  | none => none
  | some rest => lastGt (rest.takeWhile (· != LF))

/-- `getID(patterns.subscriptionID.FindSubmatch(b))`, "no match" kept apart from 0 -/
def firstSubId : Bytes → Option Nat
  | [] => none
  | c :: t =>
    match subIdHere (c :: t) with
    | some n => some n
    | none => firstSubId t

/-- the subscription a complete message is filed under (`0` = none) -/
def subKey (b : Bytes) : Nat := if containsSubClose b then (firstSubId b).getD 0 else 0

/-! ## the read loop as "cut, then key" -/

/-- one iteration on the buffer alone: new buffer and the complete non-echo message cut out -/
def bufCut (v : Ver) (buf chunk : Bytes) : Bytes × Option Bytes :=
  let b := buf ++ chunk
  if delimMatch v b then
    if containsRpcClose b then (afterFirstDelim v b, none) else ([], some b)
  else (b, none)

def keyOf (b : Bytes) : Option (Nat × Bytes) :=
  match firstId b with
  | some n => if n != 0 then some (n, b) else none
  | none => none

def subOf (b : Bytes) : Option (Nat × Bytes) := if subKey b != 0 then some (subKey b, b) else none

/-- all complete messages the loop cuts out while consuming `chunks`, and the final buffer -/
def cuts (v : Ver) (buf : Bytes) : List Bytes → List Bytes × Bytes
  | [] => ([], buf)
  | c :: cs =>
    let r := bufCut v buf c
    let rest := cuts v r.1 cs
    (r.2.toList ++ rest.1, rest.2)

/-- what `storeSubscriptionMessage` is called with, in order -/
def subFilings (v : Ver) (buf : Bytes) (chunks : List Bytes) : List (Nat × Bytes) :=
  (cuts v buf chunks).1.filterMap subOf

/-! ## the subscription store and its reader -/

inductive SEv
  | read (chunk : Bytes)   -- one read-loop iteration
  | get (id : Nat)         -- `GetSubscriptionMessages(id)`
  deriving Repr

structure SubClient where
  buf : Bytes
  /-- stored (subscription id, message), oldest first -/
  subs : List (Nat × Bytes)
  /-- what every `GetSubscriptionMessages` call returned, in call order -/
  got : List (Nat × List Bytes)
  deriving Repr

def sstep (v : Ver) (s : SubClient) : SEv → SubClient
  | .read ch =>
    let r := bufCut v s.buf ch
    { s with buf := r.1, subs := s.subs ++ (r.2.bind subOf).toList }
  | .get id =>
    { s with subs := s.subs.filter (fun p => p.1 != id),
             got := s.got ++ [(id, (s.subs.filter (fun p => p.1 == id)).map (·.2))] }

def srun (v : Ver) (s : SubClient) (evs : List SEv) : SubClient := evs.foldl (sstep v) s

def sinit : SubClient := ⟨[], [], []⟩

def sreadsOf : List SEv → List Bytes
  | [] => []
  | .read c :: t => c :: sreadsOf t
  | _ :: t => sreadsOf t

/-- everything `GetSubscriptionMessages(id)` has returned so far, concatenated in call order -/
def SubClient.delivered (s : SubClient) (id : Nat) : List Bytes :=
  (s.got.filter (fun p => p.1 == id)).flatMap (·.2)

/-- what is still waiting in the store for `id` -/
def SubClient.waiting (s : SubClient) (id : Nat) : List Bytes :=
  (s.subs.filter (fun p => p.1 == id)).map (·.2)

/-! ## what the server sends: messages that may carry a message-id, a subscription id, both or none -/

/-- a server message as it travels. `to` = the request it answers (`0`: it is not a reply and carries
no message-id text), `sub` = the subscription it belongs to (`0`: none) -/
structure Msg where
  to : Nat
  sub : Nat
  body : Bytes
  tail : Bytes
  deriving Repr

/-- hypotheses on one message: as `goodReply`, with the two keys the read loop computes from the
framed bytes being the server's `to` and `sub` -/
def goodMsg (v : Ver) (m : Msg) : Bool :=
  allLF m.tail
  && !containsRpcClose (m.body ++ m.tail)
  && noEarlyFire v m.body
  && delimMatch v m.body
  && (msgKey m.body == m.to)
  && (subKey m.body == m.sub)
  && (v == .v10 || startsLFOrEmpty m.body)

inductive Burst2
  | echoOnly (e : Echo)
  | msgOnly (m : Msg)
  | echoMsg (e : Echo) (m : Msg)
  deriving Repr

def Burst2.bytes : Burst2 → Bytes
  | .echoOnly e => e.body ++ e.tail
  | .msgOnly m => m.body ++ m.tail
  | .echoMsg e m => (e.body ++ e.tail) ++ (m.body ++ m.tail)

def Burst2.msgs : Burst2 → List Msg
  | .echoOnly _ => []
  | .msgOnly m => [m]
  | .echoMsg _ m => [m]

def Burst2.good (v : Ver) : Burst2 → Bool
  | .echoOnly e => goodEcho v e
  | .msgOnly m => goodMsg v m
  | .echoMsg e m => goodEcho v e && goodMsg v m

structure Delivery2 where
  burst : Burst2
  chunks : List Bytes
  deriving Repr

def Delivery2.valid (v : Ver) (d : Delivery2) : Bool :=
  d.burst.good v && (d.chunks.flatten == d.burst.bytes) &&
  (match d.burst with
   | .echoMsg _ _ => d.chunks.getLast? == some []
   | _ => true)

end Scrapli.Netconf.Store
