import ScrapliModel.Bytes
import ScrapliModel.Generated.Consts
/-!
# Priv: the privilege layer of `driver/network` (L3) and the privilege device (core Lean only)

Mirrors `driver/network/privilege.go` (`buildPrivGraph`), `acquirepriv.go` (`buildPrivChangeMap`,
`determineCurrentPriv`, `processAcquirePriv`, `escalate`, `deescalate`, `AcquirePriv`) and the
wrappers `sendcommand.go`, `sendcommands.go`, `sendconfig.go`, `sendconfigs.go`,
`sendinteractive.go`.

* Level names, commands, prompts and lines are `Bytes` (Go strings). `[]` is Go's `""`.
* Go iterates maps in random order at two places: the neighbours of a node in
  `buildPrivChangeMap` and the levels in `determineCurrentPriv`. Both orders are taken from an
  oracle `Orders` that may answer differently at every call (it is indexed by a global tick and, for
  the neighbours, by the working steps, which identify the recursive call). The theorems quantify
  over every oracle that returns the same *members* (any order, any multiplicity).
* The channel layer (echo, read-until-prompt) is C01's subject; here an exchange is one *line* that
  reaches the device, and the device answers with the prompt of its mode (or with a password
  request, on which a plain `SendInput` times out).
-/
namespace Scrapli.Priv
open Scrapli

/-! ## generic depth-first path search (`buildPrivChangeMap`) -/

/-- `buildPrivChangeMap`: append `cur` to the working steps; done when `cur = tgt`; otherwise try
the neighbours that are not yet among the working steps, in the order the map iteration yields
them, and return the first non-empty result. `fuel` bounds the recursion depth (Go has none: every
call adds a fresh node, so `|nodes|` suffices — `dfs_complete`). -/
def dfs {α : Type} [DecidableEq α] (nb : α → List α) (ord : List α → List α → List α) (tgt : α) :
    Nat → α → List α → Option (List α)
  | 0, cur, steps => if cur = tgt then some (steps ++ [cur]) else none
  | fuel + 1, cur, steps =>
    if cur = tgt then some (steps ++ [cur]) else
      (ord (steps ++ [cur]) (nb cur)).findSome? fun p =>
        if p ∈ steps ++ [cur] then none else dfs nb ord tgt fuel p (steps ++ [cur])

/-! ## levels and graph -/

/-- `network.PrivilegeLevel` (pattern / not-contains enter through the abstract matcher) -/
structure Level where
  name : Bytes
  previous : Bytes
  escalate : Bytes
  deescalate : Bytes
  escalateAuth : Bool
deriving DecidableEq, Repr

/-- `PrivilegeLevels`: the map as an association list (key = `Name`) -/
abbrev Levels := List Level

def names (L : Levels) : List Bytes := L.map (·.name)

/-- map lookup `d.PrivilegeLevels[a]` -/
def find? (L : Levels) (a : Bytes) : Option Level := L.find? (fun l => l.name == a)

/-- the edge `buildPrivGraph` adds for a level: its `PreviousPriv` when not empty -/
def par (L : Levels) (a : Bytes) : Option Bytes :=
  match find? L a with
  | some l => if l.previous = [] then none else some l.previous
  | none => none

/-- the symmetric closure adds, to node `a`, every level that names `a` as its previous -/
def children (L : Levels) (a : Bytes) : List Bytes :=
  (L.filter fun l => l.previous == a && l.previous != []).map (·.name)

/-- `d.privGraph[a]` (as a list; duplicates are irrelevant to the search) -/
def neighbours (L : Levels) (a : Bytes) : List Bytes := (par L a).toList ++ children L a

/-- the two map-iteration orders of one `processAcquirePriv` call -/
structure Orders where
  nbr : List Bytes → List Bytes → List Bytes
  lv : Levels → Levels

def pathDFS (L : Levels) (o : Orders) (cur tgt : Bytes) : Option (List Bytes) :=
  dfs (neighbours L) o.nbr tgt L.length cur []

/-! ## `processAcquirePriv` -/

inductive Err | privilege | timeout | noop | panic
deriving DecidableEq, Repr

inductive Action | noAction | escalate | deescalate
deriving DecidableEq, Repr

def unknownPriv : Bytes := Gen.Network.unknownPriv

/-- `determineCurrentPriv`: names of the levels whose matcher (not-contains + pattern) accepts the
prompt, in map-iteration order -/
def determineCurrent (matchP : Level → Bytes → Bool) (o : Orders) (L : Levels) (prompt : Bytes) :
    List Bytes :=
  ((o.lv L).filter fun l => matchP l prompt).map (·.name)

/-- result of `processAcquirePriv`: action, the level to act on, and the new cached `CurrentPriv` -/
structure Step where
  action : Action
  next : Bytes
  cache : Bytes
deriving DecidableEq, Repr

def processAcquire (matchP : Level → Bytes → Bool) (o : Orders) (L : Levels) (cache tgt prompt : Bytes) :
    Except Err Step :=
  match determineCurrent matchP o L prompt with
  | [] => .error .privilege
  | p0 :: ps =>
    let possible := p0 :: ps
    let current := if cache ∈ possible then cache else if tgt ∈ possible then tgt else p0
    if current = tgt then .ok ⟨.noAction, current, current⟩
    else
      match pathDFS L o current tgt with
      | some (_ :: m1 :: _) =>
        match find? L m1 with
        | some l1 =>
          if l1.previous ≠ current then .ok ⟨.deescalate, current, unknownPriv⟩
          else .ok ⟨.escalate, l1.name, unknownPriv⟩
        | none => .error .panic     -- nil map entry dereferenced
      | _ => .error .panic          -- `mapTo[1]` out of range

/-! ## the privilege device -/

/-- device state: current mode, pending password request (for entering that child), and the log of
`(mode when the line arrived, line)` -/
structure Dev where
  mode : Bytes
  awaiting : Option Bytes
  log : List (Bytes × Bytes)
deriving DecidableEq, Repr

/-- static part of a scenario: levels, the client's secondary secret (= the device's), which
children the device asks a password for, the device's prompt per mode, the client's prompt matcher,
the default desired level, and the map-iteration oracle -/
structure Cfg where
  L : Levels
  default : Bytes
  secret : Bytes
  asks : Bytes → Bool
  promptOf : Bytes → Bytes
  matchP : Level → Bytes → Bool
  orc : Nat → Orders

/-- one input line reaches the device -/
def devStep (c : Cfg) (d : Dev) (line : Bytes) : Dev :=
  let log := d.log ++ [(d.mode, line)]
  match d.awaiting with
  | some ch =>
    if line = c.secret then { mode := ch, awaiting := none, log := log }
    else { d with awaiting := none, log := log }
  | none =>
    if line = [] then { d with log := log }
    else
      match c.L.find? (fun l => l.previous == d.mode && l.escalate == line) with
      | some ch =>
        if c.asks ch.name then { d with awaiting := some ch.name, log := log }
        else { d with mode := ch.name, log := log }
      | none =>
        match find? c.L d.mode with
        | some m =>
          if m.deescalate = line ∧ m.previous ≠ [] then { d with mode := m.previous, log := log }
          else { d with log := log }
        | none => { d with log := log }

/-! ## the client session -/

/-- client + device: the device, the cached `CurrentPriv`, and the oracle tick -/
structure Sess where
  dev : Dev
  cache : Bytes
  tick : Nat
deriving DecidableEq, Repr

/-- `Channel.SendInput`: the line reaches the device; the read-until-prompt completes iff the
device shows a prompt afterwards -/
def sendInput (c : Cfg) (s : Sess) (line : Bytes) : Option Err × Sess :=
  let d := devStep c s.dev line
  (if d.awaiting.isSome then some .timeout else none, { s with dev := d })

/-- `GetPrompt`: a bare return, then the prompt of the device's mode -/
def getPrompt (c : Cfg) (s : Sess) : Bytes × Sess :=
  let d := devStep c s.dev []
  (c.promptOf d.mode, { s with dev := d })

/-- `escalate`: plain `SendInput` of the escalate command when the level is not authenticated or no
secondary secret is configured; otherwise the two-event interactive, whose second event (the
secret) is skipped when the device already shows the prompt of the previous or the new level -/
def escalate (c : Cfg) (s : Sess) (next : Bytes) : Option Err × Sess :=
  match find? c.L next with
  | none => (some .panic, s)
  | some p =>
    if !p.escalateAuth || c.secret = [] then sendInput c s p.escalate
    else
      let d1 := devStep c s.dev p.escalate
      if d1.awaiting.isSome then
        (none, { s with dev := devStep c d1 c.secret })
      else (none, { s with dev := d1 })

/-- `deescalate` -/
def deescalate (c : Cfg) (s : Sess) (cur : Bytes) : Option Err × Sess :=
  match find? c.L cur with
  | none => (some .panic, s)
  | some p => sendInput c s p.deescalate

/-- the `for` loop of `AcquirePriv`; `count` is the Go counter, `fuel` the remaining iterations
(`acquirePriv` starts it with `2·|levels| + 2`, which the `count > 2·|levels|` exit never lets run
out) -/
def acquireLoop (c : Cfg) (tgt : Bytes) : Nat → Nat → Sess → Option Err × Sess
  | 0, _, s => (some .privilege, s)
  | fuel + 1, count, s =>
    let (prompt, s1) := getPrompt c s
    let s1 := { s1 with tick := s1.tick + 1 }
    match processAcquire c.matchP (c.orc s.tick) c.L s1.cache tgt prompt with
    | .error e => (some e, s1)
    | .ok st =>
      let s2 := { s1 with cache := st.cache }
      match st.action with
      | .noAction => (none, s2)
      | .escalate =>
        match escalate c s2 st.next with
        | (some e, s3) => (some e, s3)
        | (none, s3) =>
          if count + 1 > 2 * c.L.length then (some .privilege, s3)
          else acquireLoop c tgt fuel (count + 1) s3
      | .deescalate =>
        match deescalate c s2 st.next with
        | (some e, s3) => (some e, s3)
        | (none, s3) =>
          if count + 1 > 2 * c.L.length then (some .privilege, s3)
          else acquireLoop c tgt fuel (count + 1) s3

/-- `AcquirePriv` -/
def acquirePriv (c : Cfg) (tgt : Bytes) (s : Sess) : Option Err × Sess :=
  match find? c.L tgt with
  | none => (some .privilege, s)
  | some _ => acquireLoop c tgt (2 * c.L.length + 2) 0 s

/-- `generic.Driver.SendCommands` on the channel: each command is one line; stops at the first
error; an empty list is refused (`ErrNoOp`) -/
def sendLines (c : Cfg) : List Bytes → Sess → Option Err × Sess
  | [], s => (none, s)
  | l :: ls, s =>
    match sendInput c s l with
    | (some e, s1) => (some e, s1)
    | (none, s1) => sendLines c ls s1

def genericSendCommands (c : Cfg) (cmds : List Bytes) (s : Sess) : Option Err × Sess :=
  if cmds = [] then (some .noop, s) else sendLines c cmds s

/-- the operations of `network.Driver` the property names. `priv = []` = no
`opoptions.WithPrivilegeLevel` -/
inductive Op
  | sendCommand (cmd : Bytes)
  | sendCommands (cmds : List Bytes)
  | sendConfigs (lines : List Bytes) (priv : Bytes)
  | sendConfig (cfg : Bytes) (priv : Bytes)
  | acquirePriv (tgt : Bytes)
  | sendInteractive (inputs : List Bytes) (priv : Bytes)
deriving DecidableEq, Repr

/-- `SendCommand(s)`: acquire the default level unless the cache already names it; any
acquisition error is reported as a privilege error -/
def withDefault (c : Cfg) (s : Sess) (k : Sess → Option Err × Sess) : Option Err × Sess :=
  if s.cache ≠ c.default then
    match acquirePriv c c.default s with
    | (some _, s1) => (some .privilege, s1)
    | (none, s1) => k s1
  else k s

/-- `SendConfigs` / `SendInteractive`: always acquire the requested (or fallback) level -/
def withTarget (c : Cfg) (priv fallback : Bytes) (s : Sess) (k : Sess → Option Err × Sess) :
    Option Err × Sess :=
  let tgt := if priv = [] then fallback else priv
  match acquirePriv c tgt s with
  | (some e, s1) => (some e, s1)
  | (none, s1) => k s1

def runOp (c : Cfg) (s : Sess) : Op → Option Err × Sess
  | .sendCommand cmd => withDefault c s fun s => sendInput c s cmd
  | .sendCommands cmds => withDefault c s (genericSendCommands c cmds)
  | .sendConfigs lines priv =>
    withTarget c priv Gen.Network.defaultConfigurationPrivLevel s (genericSendCommands c lines)
  | .sendConfig cfg priv =>
    withTarget c priv Gen.Network.defaultConfigurationPrivLevel s (genericSendCommands c (splitLF cfg))
  | .acquirePriv tgt => acquirePriv c tgt s
  | .sendInteractive inputs priv => withTarget c priv c.default s (sendLines c inputs)

/-- a sequence of operations; every operation runs whatever the earlier ones returned -/
def runOps (c : Cfg) : Sess → List Op → List (Option Err) × Sess
  | s, [] => ([], s)
  | s, op :: ops =>
    let (e, s1) := runOp c s op
    let (es, s2) := runOps c s1 ops
    (e :: es, s2)

/-! ## decidable domain predicates (also evaluated by the driver for `dom`) -/

/-- number of previous-links from `a` to a root, when reached within `fuel` levels -/
def rootDist (L : Levels) : Nat → Bytes → Option Nat
  | 0, _ => none
  | f + 1, a =>
    match find? L a with
    | none => none
    | some l => if l.previous = [] then some 0 else (rootDist L f l.previous).map (· + 1)

/-- the levels form a rooted tree: distinct non-empty names none of which is the `UNKNOWN`
sentinel, exactly one root (empty previous), and every level reaches a root along previous links
(so every previous is a level and there is no cycle) -/
def isTree (L : Levels) : Bool :=
  decide (names L).Nodup && !(names L).contains [] && !(names L).contains unknownPriv &&
  (L.filter fun l => l.previous == []).length == 1 &&
  L.all fun l => (rootDist L L.length l.name).isSome

/-- prompts distinguish levels: level `l`'s matcher accepts the prompt of mode `m` iff `m` is `l` -/
def distinguishes (c : Cfg) : Bool :=
  c.L.all fun l => c.L.all fun m => c.matchP l (c.promptOf m.name) == (l.name == m.name)

/-- every level's matcher accepts the prompt the device shows in that level -/
def recognises (c : Cfg) : Bool :=
  c.L.all fun l => c.matchP l (c.promptOf l.name)

/-- the prompt of mode `m` is unambiguous: no other level's matcher accepts it -/
def unambB (c : Cfg) (m : Bytes) : Bool :=
  c.L.all fun l => !c.matchP l (c.promptOf m) || l.name == m

/-- levels whose prompt is ambiguous (e.g. `configuration` / `configuration-exclusive`, both
`router(config)#`) have at most one neighbour in the graph, so they are never an interior node of
a path: while passing through a level the cache is `UNKNOWN` and cannot break the tie -/
def ambigLeaf (c : Cfg) : Bool :=
  c.L.all fun m => unambB c m.name ||
    (neighbours c.L m.name).all fun x => (neighbours c.L m.name).all fun y => x == y

/-- the transition commands available in one mode are unambiguous and not empty: sibling escalate
commands differ, and no child's escalate equals the mode's own deescalate -/
def cmdsOK (L : Levels) : Bool :=
  L.all fun l =>
    (l.previous == [] || (l.escalate != [] && l.deescalate != [])) &&
    L.all fun m =>
      (l.previous == [] || l.previous != m.previous || l.escalate != m.escalate || l.name == m.name) &&
      (l.previous == [] || l.previous != m.name || m.previous == [] || l.escalate != m.deescalate)

/-- the device asks for a password only where the client is prepared to give it -/
def asksOK (c : Cfg) : Bool :=
  c.L.all fun l => !c.asks l.name || (l.escalateAuth && c.secret != [])

/-- a payload line is not a transition command of any level -/
def isPayload (L : Levels) (line : Bytes) : Bool :=
  L.all fun l => line != l.escalate && line != l.deescalate

/-! ## specification side: what the property says the device must have received -/

def escCmd (L : Levels) (a : Bytes) : Bytes :=
  match find? L a with
  | some l => l.escalate
  | none => []

def deescCmd (L : Levels) (a : Bytes) : Bytes :=
  match find? L a with
  | some l => l.deescalate
  | none => []

/-- lines of one hop `a → b` of the tree path: the deescalate command of `a` when `b` is its
parent; otherwise the escalate command of the child `b`, followed by the secret when the device
asks for it; each logged with the mode the device was in (`a`) -/
def stepEntries (c : Cfg) (a b : Bytes) : List (Bytes × Bytes) :=
  if par c.L a = some b then [(a, deescCmd c.L a)]
  else (a, escCmd c.L b) :: (if c.asks b then [(a, c.secret)] else [])

/-- the complete `(mode, line)` log of one acquisition along the path: one bare return (prompt
probe) per node, and the hop lines in between -/
def expectedLog (c : Cfg) : List Bytes → List (Bytes × Bytes)
  | [] => []
  | [a] => [(a, [])]
  | a :: b :: t => (a, []) :: (stepEntries c a b ++ expectedLog c (b :: t))

/-- the hop lines of a path, without the prompt probes -/
def hopLines (c : Cfg) : List Bytes → List (Bytes × Bytes)
  | a :: b :: t => stepEntries c a b ++ hopLines c (b :: t)
  | _ => []

/-- the tree path computed without any search: while the two ends differ, step from the deeper
one to its parent (`dep` is a depth function; the front part grows from `a`, the back part from
`b`) -/
def climb {α : Type} [DecidableEq α] (par : α → Option α) (dep : α → Nat) : Nat → α → α → List α
  | 0, a, _ => [a]
  | f + 1, a, b =>
    if a = b then [a]
    else if dep b ≤ dep a then
      match par a with
      | some p => a :: climb par dep f p b
      | none => [a]
    else
      match par b with
      | some q => climb par dep f a q ++ [b]
      | none => [a]

/-- depth of a level: number of previous-links to the root -/
def depthOf (L : Levels) (a : Bytes) : Nat := (rootDist L L.length a).getD 0

/-- up from `a` to the lowest common ancestor, then down to `b` (specification side of the driver;
independent of `dfs`) -/
def treePath (L : Levels) (a b : Bytes) : List Bytes :=
  climb (par L) (depthOf L) (2 * L.length) a b

end Scrapli.Priv
