import ScrapliModel.Generated.QueueSkeleton
/-!
# Early warning (never gating): statement skeleton of `util/queue.go`

`expected` is the statement listing the step programs of `ScrapliModel/Queue.lean`
(`Conc.stepP`, `Conc.stepC`) and the sequential functions (`Seq.*`) were written from, one model
step per listed statement that touches the lock, the depth channel, the slice or `depth`.
`Generated/QueueSkeleton.lean` is regenerated from the source on every run; `report` names the
methods whose listing changed, so that a reader re-inspects the model's step granularity. A
difference is only a note in the evidence: the gating ties are the differential run and the stress.
-/
namespace Scrapli.Queue.Skeleton

def expected : List (String × List String) := [
  ("Dequeue", ["if q.getDepth() == 0 {", "return nil", "}",          -- gRecv, gSend, gTest
               "q.lock.Lock()", "defer q.lock.Unlock()",             -- lock … unlock
               "if len(q.queue) == 0 {", "return nil", "}",          -- dqChk
               "b := q.queue[0]",                                    -- dqIdx
               "q.queue = q.queue[1:]",                              -- dqSlice
               "q.depth--",                                          -- dqDec
               "<-q.depthChan", "q.depthChan <- q.depth",            -- pubRecv, pubSend
               "return b"]),
  ("DequeueAll", ["if q.getDepth() == 0 {", "return nil", "}",
               "q.lock.Lock()", "defer q.lock.Unlock()",
               "b := q.queue",                                       -- daTake
               "q.queue = nil",                                      -- daNil
               "q.depth = 0",                                        -- daZero
               "<-q.depthChan", "q.depthChan <- q.depth",
               "return bytes.Join(b, []byte{})"]),
  ("Enqueue", ["q.lock.Lock()", "defer q.lock.Unlock()",             -- PPc.lock … PPc.unlock
               "q.queue = append(q.queue, b)",                       -- app
               "q.depth++",                                          -- inc
               "<-q.depthChan", "q.depthChan <- q.depth"]),          -- recv, send
  ("GetDepth", ["q.lock.RLock()", "defer q.lock.RUnlock()",          -- gdRLock … gdRUnlock
               "return q.depth"]),                                   -- gdRead
  ("NewQueue", ["depthChan := make(chan int, 1)", "depthChan <- 0",  -- Conc.init / Queue.new
               "return &Queue{ depthChan: depthChan, lock: &sync.RWMutex{}, }"]),
  ("Requeue", ["q.lock.Lock()", "defer q.lock.Unlock()",             -- rqLock … unlock
               "n := [][]byte{b}", "q.queue = append(n, q.queue...)", -- rqPrep
               "q.depth++",                                          -- rqInc
               "<-q.depthChan", "q.depthChan <- q.depth"]),
  ("getDepth", ["d := <-q.depthChan", "q.depthChan <- d", "return d"]) -- gRecv, gSend
]

/-- names of methods whose statement listing differs from `expected` (added, removed or changed) -/
def differing : List String :=
  let gen := Scrapli.Gen.QueueSkeleton.methods
  let changed := expected.filterMap fun (n, ss) =>
    match gen.lookup n with
    | some ss' => if ss == ss' then none else some n
    | none => some (n ++ "(removed)")
  let added := gen.filterMap fun (n, _) =>
    match expected.lookup n with
    | some _ => none
    | none => some (n ++ "(new)")
  changed ++ added

def report : String :=
  if differing.isEmpty then "match" else "differs:" ++ ",".intercalate differing

end Scrapli.Queue.Skeleton
