import ScrapliModel.Bytes
/-!
# Channel layer (channel/read.go, channel/sendinput.go, channel/channel.go, util/bytes.go)

The read goroutine normalises every transport read (drop CR; strip ANSI if the chunk contains ESC)
and enqueues it. An operation consumes the queue one chunk at a time (`Channel.Read`), appending to
its read buffer `rb` and testing its predicate on the search window `processReadBuf(rb, depth)` after
every chunk; whatever arrived later stays queued for the next operation.

The regular expressions (prompt, ANSI) are parameters here; `Driver/C01.lean` instantiates them with
the Lean regex engine running the patterns extracted from the source.
-/
namespace Scrapli.Chan
open Scrapli

/-- `bytes.ReplaceAll(b, "\r", "")` -/
def dropCR (b : Bytes) : Bytes := b.filter (· != CR)

/-- per-read normalisation in `Channel.read` -/
def normalizeChunk (stripAnsi : Bytes → Bytes) (b : Bytes) : Bytes :=
  let b' := dropCR b
  if b'.contains ESC then stripAnsi b' else b'

/-- `getProcessReadBufSearchDepth` -/
def searchDepth (mult depth inputLen : Nat) : Nat :=
  if mult * inputLen > depth then mult * inputLen else depth

/-- index of the first LF (`bytes.Index(prb, "\n")`) -/
def indexLF : Bytes → Option Nat
  | [] => none
  | b :: t => if b == LF then some 0 else (indexLF t).map (· + 1)

/-- `processReadBuf` -/
def window (rb : Bytes) (d : Nat) : Bytes :=
  if rb.length ≤ d then rb
  else
    let prb := rb.drop (rb.length - d)
    match indexLF prb with
    | some i => if i > 0 then prb.drop i else prb
    | none => prb

/-- greedy in-order subsequence test (the loop of `BytesRoughlyContains`) -/
def isSubseq : Bytes → Bytes → Bool
  | [], _ => true
  | _ :: _, [] => false
  | a :: as, b :: bs => if a == b then isSubseq as bs else isSubseq (a :: as) bs

/-- `util.BytesRoughlyContains(input, output)` -/
def roughlyContains (input output : Bytes) : Bool :=
  isInfix input output || (if output.length < input.length then false else isSubseq input output)

/-- `ReadUntil*`: dequeue chunk after chunk, append, test; `none` = the queue ran dry first
    (the real loop would keep polling until its deadline). Returns the buffer and the chunks
    left in the queue. -/
def readUntil (P : Bytes → Bool) : List Bytes → Bytes → Option (Bytes × List Bytes)
  | [], _ => none
  | c :: q, rb =>
    let rb' := rb ++ c
    if P rb' then some (rb', q) else readUntil P q rb'

structure Cfg where
  depth : Nat                    -- PromptSearchDepth
  mult : Nat                     -- inputSearchDepthMultiplier
  exact : Bool                   -- ExactMatchInput
  strip : Bool                   -- StripPrompt
  ret : Bytes                    -- ReturnChar
  promptP : Bytes → Bool         -- PromptPattern.Match
  stripP : Bytes → Bytes         -- PromptPattern.ReplaceAll(·, nil)

def echoPred (cfg : Cfg) (cmd : Bytes) (rb : Bytes) : Bool :=
  let w := window rb (searchDepth cfg.mult cfg.depth cmd.length)
  if cfg.exact then isInfix cmd w else roughlyContains cmd w

def promptPred (cfg : Cfg) (rb : Bytes) : Bool := cfg.promptP (window rb cfg.depth)

/-- `ReadUntilAnyPrompt`'s predicate: some pattern matches the search window -/
def anyPromptPred (depth : Nat) (prompts : List (Bytes → Bool)) (rb : Bytes) : Bool :=
  prompts.any fun p => p (window rb depth)

def rstripSpaces (l : Bytes) : Bytes := trimRight (· == SP) l

/-- `bytes.Trim(b, cutset)` for a byte cutset -/
def trimSet (cut : Bytes) (b : Bytes) : Bytes :=
  trimRight (fun x => cut.contains x) (trimLeft (fun x => cut.contains x) b)

/-- `Channel.processOut` -/
def processOut (cfg : Cfg) (b : Bytes) : Bytes :=
  let b1 := joinLF ((splitLF b).map rstripSpaces)
  let b2 := if cfg.strip then cfg.stripP b1 else b1
  trimSet [LF] (trimSet cfg.ret b2)

/-- session state: the read queue and everything written to the transport so far -/
structure Sess where
  q : List Bytes
  writes : List Bytes
  deriving Repr

/-- one exchange as the device plays it: the chunks (already normalised) it emits in reaction to
    the command bytes, and those it emits in reaction to the return -/
structure Exchange where
  cmd : Bytes
  echo : List Bytes
  resp : List Bytes
  deriving Repr

/-- `Channel.SendInputB` (non-eager, no interim prompts) against a causal device -/
def sendInput (cfg : Cfg) (s : Sess) (x : Exchange) : Option (Bytes × Sess) :=
  let s1 : Sess := { q := s.q ++ x.echo, writes := s.writes ++ [x.cmd] }
  match readUntil (echoPred cfg x.cmd) s1.q [] with
  | none => none
  | some (_, q2) =>
    let s2 : Sess := { q := q2 ++ x.resp, writes := s1.writes ++ [cfg.ret] }
    match readUntil (promptPred cfg) s2.q [] with
    | none => none
    | some (rb, q3) => some (processOut cfg rb, { s2 with q := q3 })

/-- a sequence of sends; stops at the first one that cannot complete -/
def sendAll (cfg : Cfg) : Sess → List Exchange → Option (List Bytes × Sess)
  | s, [] => some ([], s)
  | s, x :: xs =>
    match sendInput cfg s x with
    | none => none
    | some (r, s') =>
      match sendAll cfg s' xs with
      | none => none
      | some (rs, s'') => some (r :: rs, s'')

/-- `P` holds of `S` and of no proper prefix of it -/
def ExactAt (P : Bytes → Bool) (S : Bytes) : Prop :=
  P S = true ∧ ∀ k, k < S.length → P (S.take k) = false

instance (P : Bytes → Bool) (S : Bytes) : Decidable (ExactAt P S) := by
  unfold ExactAt
  exact inferInstanceAs (Decidable (_ ∧ ∀ k, k < S.length → _))

end Scrapli.Chan
