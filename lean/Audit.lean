import Lean
/-!
Audit: `lake env lean --run Audit.lean <Module>` lists every theorem declared in the module with
the axioms it depends on, one per line: `THEOREM <name> AXIOMS <a,b,c>`; exit status 1 if any
theorem depends on an axiom outside {propext, Classical.choice, Quot.sound}.
-/
open Lean

def allowed : List Name := [``propext, ``Classical.choice, ``Quot.sound]

unsafe def main (args : List String) : IO UInt32 := do
  let some modStr := args.head? | do IO.eprintln "usage: Audit <Module> [filter]"; return 2
  let filt := (args.drop 1).head?.getD ""
  let modName := modStr.toName
  initSearchPath (← findSysroot)
  let env ← importModules #[{ module := modName }] {} (trustLevel := 1024) (loadExts := false)
  let some idx := env.getModuleIdx? modName | do IO.eprintln "module not found"; return 2
  let names := env.header.moduleData[idx.toNat]!.constNames
  let mut bad := 0
  let mut n := 0
  for c in names do
    if c.isInternal then continue
    if !filt.isEmpty && (c.toString.splitOn filt).length < 2 then continue
    match env.find? c with
    | some (.thmInfo _) =>
      let (axs, _) ← (Lean.collectAxioms c : CoreM _).toIO
        { fileName := "<audit>", fileMap := default } { env := env }
      let extra := axs.toList.filter fun a => !(allowed.contains a)
      n := n + 1
      IO.println s!"THEOREM {c} AXIOMS {axs.toList}"
      if !extra.isEmpty then
        bad := bad + 1
        IO.println s!"BAD {c} uses {extra}"
    | _ => pure ()
  IO.println s!"AUDIT module={modName} theorems={n} bad={bad}"
  return (if bad == 0 then 0 else 1)
