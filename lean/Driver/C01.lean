import Driver.Proto
import ScrapliModel.Channel
import ScrapliModel.Generated.Patterns
import ScrapliModel.Generated.Consts
namespace Driver.C01
open Scrapli Scrapli.Chan

def stripAnsi (b : Bytes) : Bytes := Rx.replaceAll Gen.Rx.Util.ansiPattern b []

def mkCfg (depth : Nat) (exact strip : Bool) (ret : Bytes) : Cfg :=
  { depth := depth, mult := Gen.Channel.inputSearchDepthMultiplier, exact := exact, strip := strip,
    ret := ret,
    promptP := fun w => Rx.isMatch Gen.Rx.Channel.promptPattern w,
    stripP := fun b => Rx.replaceAll Gen.Rx.Channel.promptPattern b [] }

def exactAtB (P : Bytes → Bool) (S : Bytes) : Bool :=
  P S && (List.range S.length).all fun k => !P (S.take k)

def wellFormedB (cfg : Cfg) (x : Exchange) : Bool :=
  !x.echo.flatten.isEmpty && exactAtB (echoPred cfg x.cmd) x.echo.flatten &&
  !x.resp.flatten.isEmpty && exactAtB (promptPred cfg) x.resp.flatten

def parseExchanges : List String → Option (List Exchange)
  | [] => some []
  | c :: e :: r :: t => do
    let cmd ← fromHex c
    let echo ← hexList e
    let resp ← hexList r
    let rest ← parseExchanges t
    pure ({ cmd := cmd, echo := echo.map (normalizeChunk stripAnsi),
            resp := resp.map (normalizeChunk stripAnsi) } :: rest)
  | _ => none

/-- `c01 sess <depth> <exact> <strip> <ret> (<cmd> <echo-chunks> <resp-chunks>)*`
    → `<dom> <ok> <results> <queue-empty> <writes>`;
    `c01 window <depth> <hex>` → window; `c01 rough <input> <output>` → 0/1;
    `c01 pout <strip> <ret> <hex>` → processOut; `c01 norm <hex>` → normalizeChunk -/
def handleC01 : List String → String
  | "sess" :: depth :: exact :: strip :: ret :: xs =>
    match depth.toNat?, fromHex ret, parseExchanges xs with
    | some d, some ret, some exs =>
      let cfg := mkCfg d (s2b exact) (s2b strip) ret
      let dom := exs.all (wellFormedB cfg) && exs.all fun x => !x.cmd.isEmpty
      match sendAll cfg { q := [], writes := [] } exs with
      | none => s!"{b2s dom} 0 . 0 ."
      | some (rs, s) => s!"{b2s dom} 1 {showHexList rs} {b2s s.q.flatten.isEmpty} {showHexList s.writes}"
    | _, _, _ => "bad-op"
  | ["window", depth, h] =>
    match depth.toNat?, fromHex h with
    | some d, some b => toHex (window b d)
    | _, _ => "bad-op"
  | ["sdepth", depth, n] =>
    match depth.toNat?, n.toNat? with
    | some d, some n => toString (searchDepth Gen.Channel.inputSearchDepthMultiplier d n)
    | _, _ => "bad-op"
  | ["rough", a, b] =>
    match fromHex a, fromHex b with
    | some a, some b => b2s (roughlyContains a b)
    | _, _ => "bad-op"
  | ["pout", strip, ret, h] =>
    match fromHex ret, fromHex h with
    | some ret, some b => toHex (processOut (mkCfg 1000 false (s2b strip) ret) b)
    | _, _ => "bad-op"
  | ["norm", h] =>
    match fromHex h with
    | some b => toHex (normalizeChunk stripAnsi b)
    | none => "bad-op"
  | _ => "bad-op"

end Driver.C01