import Driver.Proto
import ScrapliModel.Channel
import ScrapliModel.ChannelOps
import ScrapliModel.Generated.C01
import ScrapliModel.Generated.Patterns
import ScrapliModel.Generated.Consts
namespace Driver.C01
open Scrapli Scrapli.Chan

def stripAnsi (b : Bytes) : Bytes := Rx.replaceAll Gen.Rx.Util.ansiPattern b []

def mkCfg (depth : Nat) (exact strip : Bool) (ret : Bytes) : Cfg :=
  { depth := depth, mult := Gen.Channel.inputSearchDepthMultiplier, exact := exact, strip := strip,
    ret := ret,
    promptP := fun w => Rx.isMatch Gen.Rx.Channel.promptPattern w,
    stripP := fun b => Rx.replaceAll Gen.Rx.Channel.promptPattern b [] }

def wellFormedB (cfg : Cfg) (x : Exchange) : Bool :=
  !x.echo.flatten.isEmpty && exactAtB (echoPred cfg x.cmd) x.echo.flatten &&
  !x.resp.flatten.isEmpty && exactAtB (promptPred cfg) x.resp.flatten

def parseExchanges : List String → Option (List Exchange)
  | [] => some []
  | c :: e :: r :: t => do
    let cmd ← fromHex c
    let echo ← hexList e
    let resp ← hexList r
    let rest ← parseExchanges t
    pure ({ cmd := cmd, echo := echo.map (normalizeChunk stripAnsi),
            resp := resp.map (normalizeChunk stripAnsi) } :: rest)
  | _ => none

/-! ### mixed sessions: sends with options and GetPrompt (`ScrapliModel/ChannelOps.lean`) -/

/-- interim prompt pattern `i` of the generated table (`go/facts/c01_table.go`) -/
def interimP (i : Nat) : Bytes → Bool :=
  match Gen.C01.interim[i]? with
  | some re => fun w => Rx.isMatch re w
  | none => fun _ => false

/-- `PromptPattern.Find` (nil = empty) -/
def findPrompt (b : Bytes) : Bytes := (Rx.findBytes Gen.Rx.Channel.promptPattern b).getD []

def parseIdx01 (s : String) : Option (List Nat) :=
  if s == "" then some [] else (s.splitOn ",").mapM String.toNat?

def normL (cs : List Bytes) : List Bytes := cs.map (normalizeChunk stripAnsi)

def parseSendOpts (k : String) : Option SendOpts :=
  if k == "S" then some {}
  else if k == "E" then some { eager := true }
  else if k.startsWith "I" then (parseIdx01 (k.drop 1).toString).map fun is => { interim := is.map interimP }
  else none

/-- `P <resp-chunks>` | `S|E|I<i,j,…> <cmd> <echo-chunks> <resp-chunks>` -/
def parseOps : List String → Option (List ChanOp)
  | [] => some []
  | [_] => none
  | k :: r :: t =>
    if k == "P" then do
      let resp ← hexList r
      let rest ← parseOps t
      pure (.prompt (normL resp) :: rest)
    else
      match t with
      | e :: r2 :: t' => do
        let o ← parseSendOpts k
        let cmd ← fromHex r
        let echo ← hexList e
        let resp ← hexList r2
        let rest ← parseOps t'
        pure (.send o { cmd := cmd, echo := normL echo, resp := normL resp } :: rest)
      | _ => none

/-- `WFOp` as a Boolean -/
def wfOpB (cfg : Cfg) (stale : Bytes) : ChanOp → Bool
  | .send o x =>
    let e := stale ++ x.echo.flatten
    let r := sendPre cfg stale x ++ x.resp.flatten
    (skipsEcho x.cmd || (!e.isEmpty && exactAtB (echoPred cfg x.cmd) e)) &&
      (o.eager || (!r.isEmpty && exactAtB (finalPred cfg o.interim) r))
  | .prompt resp =>
    let e := stale ++ resp.flatten
    promptQueued cfg stale || (!e.isEmpty && exactAtB (promptPred cfg) e)

def wfOpsB (cfg : Cfg) : Bytes → List ChanOp → Bool
  | _, [] => true
  | st, op :: ops => wfOpB cfg st op && wfOpsB cfg (op.leaves cfg st) ops

/-- index of the first operation that is not well formed (`ops.length` when all are) -/
def firstBad (cfg : Cfg) : Bytes → List ChanOp → Nat
  | _, [] => 0
  | st, op :: ops => if wfOpB cfg st op then firstBad cfg (op.leaves cfg st) ops + 1 else 0

/-- `c01 sess <depth> <exact> <strip> <ret> (<cmd> <echo-chunks> <resp-chunks>)*`
    → `<dom> <ok> <results> <queue-empty> <writes>`;
    `c01 window <depth> <hex>` → window; `c01 rough <input> <output>` → 0/1;
    `c01 pout <strip> <ret> <hex>` → processOut; `c01 norm <hex>` → normalizeChunk;
    `c01 ops <depth> <exact> <strip> <ret> <init-chunks> <op>*` (ops as in `parseOps`)
    → `<dom> <ok> <results> <queue-as-specified> <writes> <spec-results> <index of the first
    operation that is not well formed>`;
    `c01 ipat <i> <hex>` → does interim pattern `i` match; `c01 log <chunks>` → what the channel
    log receives for these reads (the normalised chunks, concatenated) -/
def handleC01 : List String → String
  | "sess" :: depth :: exact :: strip :: ret :: xs =>
    match depth.toNat?, fromHex ret, parseExchanges xs with
    | some d, some ret, some exs =>
      let cfg := mkCfg d (s2b exact) (s2b strip) ret
      let dom := exs.all (wellFormedB cfg) && exs.all fun x => !x.cmd.isEmpty
      match sendAll cfg { q := [], writes := [] } exs with
      | none => s!"{b2s dom} 0 . 0 ."
      | some (rs, s) => s!"{b2s dom} 1 {showHexList rs} {b2s s.q.flatten.isEmpty} {showHexList s.writes}"
    | _, _, _ => "bad-op"
  | "ops" :: depth :: exact :: strip :: ret :: init :: xs =>
    match depth.toNat?, fromHex ret, hexList init, parseOps xs with
    | some d, some ret, some init, some ops =>
      let cfg := mkCfg d (s2b exact) (s2b strip) ret
      let q0 := normL init
      let dom := wfOpsB cfg q0.flatten ops
      let spec := specOps cfg findPrompt q0.flatten ops
      match runOps cfg findPrompt { q := q0, writes := [] } ops with
      | none => s!"{b2s dom} 0 . 0 . {showHexList spec} {firstBad cfg q0.flatten ops}"
      | some (rs, s) =>
        s!"{b2s dom} 1 {showHexList rs} {b2s (s.q.flatten == leavesOps cfg q0.flatten ops)} {showHexList s.writes} {showHexList spec} {firstBad cfg q0.flatten ops}"
    | _, _, _, _ => "bad-op"
  | ["ipat", i, h] =>
    match i.toNat?, fromHex h with
    | some i, some b => b2s (interimP i b)
    | _, _ => "bad-op"
  | ["log", cs] =>
    match hexList cs with
    | some cs => toHex (normL cs).flatten
    | none => "bad-op"
  | ["window", depth, h] =>
    match depth.toNat?, fromHex h with
    | some d, some b => toHex (window b d)
    | _, _ => "bad-op"
  | ["sdepth", depth, n] =>
    match depth.toNat?, n.toNat? with
    | some d, some n => toString (searchDepth Gen.Channel.inputSearchDepthMultiplier d n)
    | _, _ => "bad-op"
  | ["rough", a, b] =>
    match fromHex a, fromHex b with
    | some a, some b => b2s (roughlyContains a b)
    | _, _ => "bad-op"
  | ["pout", strip, ret, h] =>
    match fromHex ret, fromHex h with
    | some ret, some b => toHex (processOut (mkCfg 1000 false (s2b strip) ret) b)
    | _, _ => "bad-op"
  | ["norm", h] =>
    match fromHex h with
    | some b => toHex (normalizeChunk stripAnsi b)
    | none => "bad-op"
  | _ => "bad-op"

end Driver.C01