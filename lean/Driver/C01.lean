import Driver.Proto
namespace Driver
open Scrapli

/-- line-protocol handler for property C01 (arguments after the leading `c01` token) -/
def handleC01 : List String → String
  | _ => "bad-op"

end Driver
