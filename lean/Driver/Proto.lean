import ScrapliModel.Bytes
/-! Line-protocol helpers shared by the per-property driver handlers. -/
namespace Driver
open Scrapli

def hexList (s : String) : Option (List Bytes) :=
  if s == "." then some [] else (s.splitOn ",").mapM fromHex

def showHexList (l : List Bytes) : String :=
  if l.isEmpty then "." else ",".intercalate (l.map toHex)

def b2s (b : Bool) : String := if b then "1" else "0"
def s2b (s : String) : Bool := s == "1"

end Driver
