import Driver.Proto
namespace Driver.C05
open Scrapli

/-- line-protocol handler for property C05 (arguments after the leading `c05` token) -/
def handleC05 : List String → String
  | _ => "bad-op"

end Driver.C05