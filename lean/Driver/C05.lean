import Driver.Proto
import ScrapliModel.Timeout
import ScrapliModel.Generated.Patterns
import ScrapliModel.Generated.C05Patterns
import ScrapliModel.Generated.Consts
import ScrapliModel.Generated.SshErrors
namespace Driver.C05
open Scrapli Scrapli.Chan Scrapli.Timeout

namespace C05

/-- delivered schedule per phase: chunks (hex) and silences `~N` (N ticks without an arrival: the
    device paced its output), phases separated by `/`, `.` = nothing -/
def schedItem (s : String) : Option Sched :=
  if s.startsWith "~" then (s.drop 1).toNat?.map fun n => List.replicate n none
  else (fromHex s).map fun b => [some b]

def schedOf (s : String) : Option Sched :=
  if s == "." then some [] else ((s.splitOn ",").mapM schedItem).map List.flatten

def hexListList (s : String) : Option (List Sched) := (s.splitOn "/").mapM schedOf

def showErr : ErrClass → String
  | .timeout => "timeout" | .connection => "connection" | .auth => "auth" | .privilege => "privilege"
  | .netconf => "netconf" | .operation => "operation" | .other => "other"

def showExcept : Except ErrClass Bytes → String
  | .ok r => "ok:" ++ toHex r
  | .error e => showErr e

def rxCfg (re : Rx.Re) (depth : Nat) (exact strip : Bool) (ret : Bytes) : Cfg :=
  { depth := depth, mult := Gen.Channel.inputSearchDepthMultiplier, exact := exact, strip := strip,
    ret := ret,
    promptP := fun w => Rx.isMatch re w,
    stripP := fun b => Rx.replaceAll re b [] }

def findWith (re : Rx.Re) (b : Bytes) : Bytes := (Rx.findBytes re b).getD []

def exactAtB (P : Bytes → Bool) (S : Bytes) : Bool :=
  P S && (List.range S.length).all fun k => !P (S.take k)

/-- first prefix length at which `P` holds -/
def firstHold (P : Bytes → Bool) (S : Bytes) : Option Nat :=
  (List.range (S.length + 1)).find? fun j => P (S.take j)

/-- The property's demand for a case, computed from the un-stalled device's per-phase streams and
    the stall offset `k`, by the very case split of `Stalls` (C05.sendInput_stalls /
    single_phase_stalls): walk the phases; a phase whose stream is cut by the stall before the
    point `c` where its predicate first holds must time out; a phase that receives its whole stream
    completes when `c` is the end of the stream (otherwise the case is outside the quantifier:
    `none`) — except that the LAST phase may complete before the end of its stream if the
    predicate stays true from there on (NETCONF 1.1: `\n##` completes, the final `\n` follows);
    what it returns then depends on where the reads were cut (`loose`). Returns the outcome, the
    streams left, the stall budget left, and `loose`. -/
def specWalk {α : Type} : Prog α → List Bytes → Nat → Option (Out α × List Bytes × Nat × Bool)
  | .ret r, ss, k => some (.ok r, ss, k, false)
  | .fail e, ss, k => some (.err e, ss, k, false)
  | .io _ P _ kont, ss, k =>
    match ss with
    | [] => none
    | S :: rest =>
      match firstHold P S with
      | none => none
      | some c =>
        if c == 0 then none
        else if k < c then some (.timeout, rest, 0, false)
        else if c == S.length then specWalk (kont S) rest (k - S.length)
        else
          let stable := (List.range (S.length - c + 1)).all fun i => P (S.take (c + i))
          match kont (S.take c), rest with
          | .ret r, [] => if stable then some (.ok r, [], k - c, true) else none
          | _, _ => none

def lower (b : UInt8) : UInt8 := if 65 ≤ b && b ≤ 90 then b + 32 else b

def containsFold (lit : Bytes) (b : Bytes) : Bool := isInfix (lit.map lower) (b.map lower)

def mkSt (deliv : List Sched) : St := { rs := deliv }

structure Ans where
  dom : Bool
  spec : String
  model : String
  t : Nat
  dl : Nat

def showAns (a : Ans) : String := s!"{b2s a.dom} {a.spec} {a.model} {a.t} {a.dl}"

/-- one operation of a single kind: spec from the full streams, model from the delivered chunks -/
def answer (kind : OpKind) (d : Nat) (prog : Prog Bytes) (fulls : List Bytes) (deliv : List Sched)
    (k : Nat) : Ans :=
  let r := run d prog (mkSt deliv)
  let model := showExcept (toPublic kind r.1)
  match specWalk prog fulls k with
  | none => ⟨false, "-", model, r.2.now, r.2.deadline⟩
  | some (o, _, _, loose) =>
    let sp := showExcept (toPublic kind o)
    ⟨true, if loose then "ok:*" else sp, model, r.2.now, r.2.deadline⟩

def parseEvents : Nat → List String → Option (List Event × List String)
  | 0, rest => some ([], rest)
  | n + 1, inp :: resp :: hid :: rest => do
    let i ← fromHex inp
    let r ← if resp == "-" then pure none else (fromHex resp).map some
    let (es, rest') ← parseEvents n rest
    pure ({ input := i, resp := r.map fun lit => fun w => isInfix lit w, hidden := s2b hid } :: es, rest')
  | _, _ => none

def parseCallbacks : Nat → List String → Option (List Callback)
  | 0, _ => some []
  | n + 1, trig :: comp :: send :: rest => do
    let t ← fromHex trig
    let s ← fromHex send
    let cbs ← parseCallbacks n rest
    pure ({ trig := containsFold t, complete := s2b comp, reset := true,
            send := if s.isEmpty then [] else [s], next := none } :: cbs)
  | _, _ => none

/-- callbacks with all their options: `trigger notContains complete send nextTimeout`
    (`-` = absent); the trigger fires when the (lower-cased) output contains `trigger` and not
    `notContains` -/
def parseCallbacksX : Nat → List String → Option (List Callback)
  | 0, _ => some []
  | n + 1, trig :: notc :: comp :: send :: next :: rest => do
    let t ← fromHex trig
    let nc ← fromHex notc
    let s ← fromHex send
    let cbs ← parseCallbacksX n rest
    pure ({ trig := fun b => containsFold t b && (nc.isEmpty || !containsFold nc b),
            complete := s2b comp, reset := true,
            send := if s.isEmpty then [] else [s], next := if next == "-" then none else next.toNat? } :: cbs)
  | _, _ => none

/-- `sshMessageHandler`: the lower-cased buffer contains one of the error texts of the regenerated
    table (a row without message of its own needs one of its sub-cases) -/
def sshErr (b : Bytes) : Bool :=
  let lb := b.map lower
  Gen.SshErrors.table.any fun r =>
    r.triggers.any (fun t => isInfix t lb) && (!r.msg.isEmpty || r.sub.any fun (t, _) => isInfix t lb)

/-- units of a scripted operation: `g T` (GetPrompt), `s T strip cmd` (SendInput), `i T n events…`
    (SendInteractive); returns the programs and the unread tokens -/
def parseUnits (cfg : Cfg) (re : Rx.Re) : Nat → List String → Option (List (Prog Bytes))
  | 0, _ => some []
  | n + 1, "g" :: T :: rest => do
    let T ← T.toNat?
    let us ← parseUnits cfg re n rest
    pure (getPromptP cfg (findWith re) T :: us)
  | n + 1, "s" :: T :: strip :: cmd :: rest => do
    let T ← T.toNat?
    let cmd ← fromHex cmd
    let us ← parseUnits cfg re n rest
    pure (sendInputP { cfg with strip := s2b strip } cmd T :: us)
  | n + 1, "i" :: T :: m :: rest => do
    let T ← T.toNat?
    let m ← m.toNat?
    let (es, rest') ← parseEvents m rest
    let us ← parseUnits cfg re n rest'
    pure (interactiveP cfg [] es (some T) [] :: us)
  | _, _ => none

end C05
open C05

/-- `c05 gt <ops> <t>` → `GetTimeout` (integers, nanoseconds);
    `c05 op <kind> <T> <d> <k> <full streams> <delivered chunks per phase> <kind parameters…>`
    → `<dom> <spec> <model> <model return time> <deadline in force>`.
    kinds: `si depth exact strip ret cmd` · `gp depth ret` · `ia depth ret n (input resp|- hidden)*`
    · `au depth ret user pass` · `he depth` · `rp version` · `rq version source perOp` · `cb ret input n (trigger complete send)*`
    · `nw depth ret strip escalate cmd fuel Tcmd` -/
def handleC05 : List String → String
  | ["gt", ops, t] =>
    match ops.toInt?, t.toInt? with
    | some o, some t => toString (getTimeout o ((Gen.Util.MaxTimeout : Nat) * 1000000000) t)
    | _, _ => "bad-op"
  | "op" :: kind :: T :: d :: k :: fulls :: deliv :: ps =>
    match T.toNat?, d.toNat?, k.toNat?, hexList fulls, hexListList deliv with
    | some T, some d, some k, some fulls, some deliv =>
      match kind, ps with
      | "si", [depth, exact, strip, ret, cmd] =>
        match depth.toNat?, fromHex ret, fromHex cmd with
        | some dp, some ret, some cmd =>
          let cfg := rxCfg Gen.Rx.Channel.promptPattern dp (s2b exact) (s2b strip) ret
          showAns (answer .sendInput d (sendInputP cfg cmd T) fulls deliv k)
        | _, _, _ => "bad-op"
      | "sx", [depth, exact, strip, ret, cmd, interim, eager] =>
        -- SendInput with options: interim prompt (a literal; `-` = none), eager
        match depth.toNat?, fromHex ret, fromHex cmd, fromHex interim with
        | some dp, some ret, some cmd, some lit =>
          let cfg := rxCfg Gen.Rx.Channel.promptPattern dp (s2b exact) (s2b strip) ret
          let ip : List (Bytes → Bool) := if lit.isEmpty then [] else [fun w => isInfix lit w]
          showAns (answer .sendInput d (sendInputXP cfg cmd T ip (s2b eager)) fulls deliv k)
        | _, _, _, _ => "bad-op"
      | "ix", depth :: exact :: ret :: complete :: n :: rest =>
        -- SendInteractive with exact input matching and complete patterns (literals)
        match depth.toNat?, fromHex ret, hexList complete, n.toNat? with
        | some dp, some ret, some cps, some n =>
          match parseEvents n rest with
          | some (es, _) =>
            let cfg := rxCfg Gen.Rx.Channel.promptPattern dp (s2b exact) false ret
            let comp : List (Bytes → Bool) := cps.map fun lit => fun w => isInfix lit w
            showAns (answer .sendInteractive d (interactiveP cfg comp es (some T) []) fulls deliv k)
          | none => "bad-op"
        | _, _, _, _ => "bad-op"
      | "as", [depth, ret, pass, pp] =>
        -- in-channel SSH login
        match depth.toNat?, fromHex ret, fromHex pass, fromHex pp with
        | some dp, some ret, some p, some pp =>
          let cfg := rxCfg Gen.Rx.Channel.promptPattern dp false false ret
          let prog := authSSHP cfg sshErr (fun b => Rx.isMatch Gen.Rx.Channel.password b)
            (fun b => Rx.isMatch Gen.Rx.Channel.passphrase b) p pp
            Gen.Channel.passwordSeenMax Gen.Channel.passphraseSeenMax 16 [] 0 0 (some T)
          let a := answer .auth d prog fulls deliv k
          let strip (s : String) : String := if s.startsWith "ok:" then "ok:-" else s
          showAns { a with spec := strip a.spec, model := strip a.model }
        | _, _, _, _ => "bad-op"
      | "cx", ret :: input :: n :: rest =>
        match fromHex ret, fromHex input, n.toNat? with
        | some ret, some input, some n =>
          match parseCallbacksX n rest with
          | some cbs => showAns (answer .callbacks d (callbacksP cbs 8 [input, ret] [] [] T) fulls deliv k)
          | none => "bad-op"
        | _, _, _ => "bad-op"
      | "gp", [depth, ret] =>
        match depth.toNat?, fromHex ret with
        | some dp, some ret =>
          let cfg := rxCfg Gen.Rx.Channel.promptPattern dp false false ret
          showAns (answer .getPrompt d (getPromptP cfg (findWith Gen.Rx.Channel.promptPattern) T) fulls deliv k)
        | _, _ => "bad-op"
      | "ia", depth :: ret :: n :: rest =>
        match depth.toNat?, fromHex ret, n.toNat? with
        | some dp, some ret, some n =>
          match parseEvents n rest with
          | some (es, _) =>
            let cfg := rxCfg Gen.Rx.Channel.promptPattern dp false false ret
            showAns (answer .sendInteractive d (interactiveP cfg [] es (some T) []) fulls deliv k)
          | none => "bad-op"
        | _, _, _ => "bad-op"
      | "au", [depth, ret, user, pass] =>
        match depth.toNat?, fromHex ret, fromHex user, fromHex pass with
        | some dp, some ret, some u, some p =>
          let cfg := rxCfg Gen.Rx.Channel.promptPattern dp false false ret
          let prog := authTelnetP cfg (fun b => Rx.isMatch Gen.Rx.Channel.username b)
            (fun b => Rx.isMatch Gen.Rx.Channel.password b) u p
            Gen.Channel.usernameSeenMax Gen.Channel.passwordSeenMax 16 [] 0 0 [] (some T)
          let a := answer .auth d prog fulls deliv k
          -- the login's result is not observable through Open: only the class is compared
          let strip (s : String) : String := if s.startsWith "ok:" then "ok:-" else s
          showAns { a with spec := strip a.spec, model := strip a.model }
        | _, _, _, _ => "bad-op"
      | "he", [depth] =>
        match depth.toNat? with
        | some dp =>
          let cfg := rxCfg Gen.Rx.Netconf.v1Dot0Delim dp false false [10]
          showAns (answer .hello d (helloP cfg T) fulls deliv k)
        | none => "bad-op"
      | "rp", [ver] =>
        let re := if ver == "11" then Gen.Rx.Netconf.v1Dot1Delim else Gen.Rx.Netconf.v1Dot0Delim
        showAns (answer .rpc d (rpcP [] (fun rb => Rx.isMatch re rb) T) fulls deliv k)
      | "rq", [ver, src, perOp] =>
        -- a NETCONF operation of any kind: `T` is the connection-wide timeout (ms); `src` says how
        -- the call site builds its options (`n` = NewOperation, `l` = struct literal without
        -- Timeout), `perOp` the per-operation timeout passed by the caller (`-` = none)
        let re := if ver == "11" then Gen.Rx.Netconf.v1Dot1Delim else Gen.Rx.Netconf.v1Dot0Delim
        let source : OptSource :=
          if src == "l" then .literal 0 else .newOperation (if perOp == "-" then none else perOp.toInt?)
        let prog := rpcOpP [] (fun rb => Rx.isMatch re rb) (T : Nat) ((Gen.Util.MaxTimeout : Nat) * 1000)
          Gen.Netconf.defaultTimeout source
        showAns (answer .rpc d prog fulls deliv k)
      | "sg", depth :: ret :: nunits :: rest =>
        -- a scripted generic-driver operation (batches) under the default prompt pattern
        match depth.toNat?, fromHex ret, nunits.toNat? with
        | some dp, some ret, some n =>
          let cfg := rxCfg Gen.Rx.Channel.promptPattern dp false true ret
          match parseUnits cfg Gen.Rx.Channel.promptPattern n rest with
          | some us => showAns (answer .sendInput d (seqP us) fulls deliv k)
          | none => "bad-op"
        | _, _, _ => "bad-op"
      | "sq", depth :: ret :: wrap :: nunits :: rest =>
        -- a scripted network-driver operation over the three-level device: the first `wrap`
        -- units are an implicit acquire whose failure is reported as privilege error (0: none,
        -- errors pass through); `T` in the header is unused (every unit carries its own)
        match depth.toNat?, fromHex ret, wrap.toNat?, nunits.toNat? with
        | some dp, some ret, some w, some n =>
          let cfg := rxCfg Gen.Rx.C05.joinedThree dp false true ret
          match parseUnits cfg Gen.Rx.C05.joinedThree n rest with
          | some us =>
            if w == 0 then showAns (answer .sendInput d (seqP us) fulls deliv k)
            else
              let acq : Prog Unit := (seqP (us.take w)).bind fun _ => .ret ()
              let cmdP := seqP (us.drop w)
              let r := networkSendCommand d acq cmdP (mkSt deliv)
              let model := showExcept r.1
              let spec : Option String :=
                match specWalk acq fulls k with
                | none => none
                | some (.ok _, ss, k', _) =>
                  match specWalk cmdP ss k' with
                  | none => none
                  | some (o, _, _, _) => some (showExcept (wrapAcquire (.ok ()) (toPublic .sendInput o)))
                | some (o, _, _, _) =>
                  some (showExcept (wrapAcquire (toPublic .getPrompt o) (.error .other)))
              match spec with
              | none => showAns ⟨false, "-", model, r.2.now, r.2.deadline⟩
              | some sp => showAns ⟨true, sp, model, r.2.now, r.2.deadline⟩
          | none => "bad-op"
        | _, _, _, _ => "bad-op"
      | "cb", ret :: input :: n :: rest =>
        match fromHex ret, fromHex input, n.toNat? with
        | some ret, some input, some n =>
          match parseCallbacks n rest with
          | some cbs => showAns (answer .callbacks d (callbacksP cbs 8 [input, ret] [] [] T) fulls deliv k)
          | none => "bad-op"
        | _, _, _ => "bad-op"
      | "nw", [depth, ret, strip, esc, cmd, fuel, tcmd] =>
        match depth.toNat?, fromHex ret, fromHex esc, fromHex cmd, fuel.toNat?, tcmd.toNat? with
        | some dp, some ret, some esc, some cmd, some fuel, some tcmd =>
          let cfgA := rxCfg Gen.Rx.C05.joinedExecPriv dp false true ret
          let cfgC := rxCfg Gen.Rx.C05.joinedExecPriv dp false (s2b strip) ret
          let acq := acquireP cfgA (findWith Gen.Rx.C05.joinedExecPriv)
            (fun p => Rx.isMatch Gen.Rx.C05.privLevel p) esc T fuel
          let cmdP := sendInputP cfgC cmd tcmd
          let r := networkSendCommand d acq cmdP (mkSt deliv)
          let model := showExcept r.1
          let spec : Option String :=
            match specWalk acq fulls k with
            | none => none
            | some (.ok _, ss, k', _) =>
              match specWalk cmdP ss k' with
              | none => none
              | some (o, _, _, _) => some (showExcept (wrapAcquire (.ok ()) (toPublic .sendInput o)))
            | some (o, _, _, _) =>
              some (showExcept (wrapAcquire (toPublic .getPrompt o) (.error .other)))
          match spec with
          | none => showAns ⟨false, "-", model, r.2.now, r.2.deadline⟩
          | some s => showAns ⟨true, s, model, r.2.now, r.2.deadline⟩
        | _, _, _, _, _, _ => "bad-op"
      | _, _ => "bad-op"
    | _, _, _, _, _ => "bad-op"
  | _ => "bad-op"

end Driver.C05