import Driver.Proto
namespace Driver
open Scrapli

/-- line-protocol handler for property C18 (arguments after the leading `c18` token) -/
def handleC18 : List String → String
  | _ => "bad-op"

end Driver
