import Driver.Proto
import ScrapliModel.Close.Model
/-!
Line protocol for C07.

`c07 validate <nc> <mode> <twice> <cerr> <r> <o> <n> <w> <events>`
  * `<nc> <twice> <cerr>` 0/1 (`cerr`: the transport's `Close()` returns an error); `<mode>` 0 (blocked read returns EOF on close) / 1 (returns an error) /
    2 (stays blocked);
  * `<r> <o> <n> <w>`: where the read loop, the operation, the NETCONF read loop and the RPC waiter
    are when the harness takes control (labels as below; the closer is idle, the device quiet with
    two arrivals left);
  * `<events>`: comma separated `P:label` in the order the schedule controller observed them,
    `P ∈ R K O N W E`; a label is the name of the yield point the goroutine reached, `blocked`
    (it did not reach a yield point and cannot move), `dead` (goroutine gone), `ret` (call
    returned), and for `E` one of `data eof err` (`.` = no events).
  Answer: `dom=<0|1> valid=<0|1> at=<index of the first event the model cannot do, or -1>
  terminal=<0|1> quiet=<0|1 no library process can move> good=<0|1> final=<pcs of the possible end states> path=<state codes> n=<events>`.
  `dom` = the start state satisfies the proved invariant (`Sys.inv`) and the closer is idle, i.e.
  the theorems of `Props/C07.lean` apply to every continuation.

An observed event `P:label` is accepted from a model state iff process `P` can reach a position with
that label by one or more of its own steps, passing only through positions that have no yield
point (`blocked`, `~`) — possibly after one step of another process whose own report is still to
come (reports are logged in arrival order; a goroutine woken by a rendezvous or by a `close` may
report before the goroutine that woke it). `blocked` is advisory (a timing observation): the
process may have moved to a position without yield point or may just be slow.
-/
namespace Driver.C07
open Scrapli.Close Scrapli.Close.Sys

def c07Mode : String → Option Mode
  | "0" => some .eofOnClose | "1" => some .errOnClose | "2" => some .stay | _ => none

def rOfLabel : String → Option RPc
  | "chan.read.top" => some .top | "chan.read.pre" => some .pre | "blocked" => some .inRead
  | "chan.read.send" => some .send | "chan.read.exit" => some .exit | "dead" => some .dead
  | "never" => some .never | _ => none
def oOfLabel : String → Option OPc
  | "absent" => some .absent | "start" => some .start | _ => none
def nOfLabel : String → Option NPc
  | "absent" => some .absent | "nc.read.top" => some .top | "nc.read.pre" => some .pre
  | "chan.Read.errs" => some .cErrs | "chan.Read.flag" => some .cFlag | "chan.Read.deq" => some .cDeq
  | "dead" => some .dead | _ => none
def wOfLabel : String → Option WPc
  | "absent" => some .absent | "start" => some .start | _ => none

def procOf : String → Option Proc
  | "R" => some .R | "K" => some .K | "O" => some .O | "N" => some .N | "W" => some .W | "E" => some .E
  | _ => none

def labelOf (p : Proc) (s : St) : String :=
  match p with
  | .R => s.r.label | .K => s.k.label | .O => s.o.label | .N => s.n.label | .W => s.w.label
  | .E => match s.feed with | .quiet => "quiet" | .data => "data" | .eof => "eof" | .err => "err"

def c07Code (s : St) : Nat :=
  ((((((((((((b2n s.nc * 3 + s.mode.toNat) * 2 + b2n s.twice) * 13 + s.r.toNat) * 11 + s.k.toNat) * 2
    + b2n s.second) * 6 + s.o.toNat) * 2 + b2n s.oSecond) * 11 + s.n.toNat) * 6 + s.w.toNat) * 4
    + s.feed.toNat) * 3 + s.left.toNat) * 3 + s.panic.ctorIdx) * 4 + b2n s.closeErr * 2 + b2n s.lastErr

def dedup (l : List St) : List St :=
  l.foldl (fun acc s => if acc.any (fun t => c07Code t == c07Code s) then acc else acc ++ [s]) []

def silentLab (l : String) : Bool := l == "blocked" || l == "~"

/-- states in which process `p` is observed at `lab` after one or more of its own steps that pass
only through positions without a yield point -/
def ownMoves (p : Proc) (lab : String) (s : St) : List St :=
  if p == .E then (stepP .E s).filter fun t => labelOf .E t == lab
  else
    let silent (t : St) : Bool := silentLab (labelOf p t)
    let l1 := stepP p s
    let l2 := (l1.filter silent).flatMap (stepP p)
    let l3 := (l2.filter silent).flatMap (stepP p)
    let l4 := (l3.filter silent).flatMap (stepP p)
    (l1 ++ l2 ++ l3 ++ l4).filter fun t => labelOf p t == lab

/-- a tracked possibility: a model state plus the processes that have already made a move whose
report has not been seen yet (the controller logs reports in arrival order; a goroutine woken by
another one's step may report before the one that woke it) -/
structure Tr where
  s : St
  ahead : List Proc

def Tr.code (t : Tr) : Nat := c07Code t.s * 64 + t.ahead.foldl (fun a p => a + 2 ^ p.ctorIdx) 0

def dedupT (l : List Tr) : List Tr :=
  l.foldl (fun acc t => if acc.any (fun u => u.code == t.code) then acc else acc ++ [t]) []

def allProcs : List Proc := [.R, .K, .O, .N, .W]

def observeT (p : Proc) (lab : String) (t : Tr) : List Tr :=
  if lab == "blocked" then
    -- advisory ("did not reach a yield point within 40 ms"): the process may have moved on to a
    -- position without yield point, or may just be slow
    let moved := (ownMoves p "blocked" t.s).map fun s => { t with s := s }
    t :: moved
  else if t.ahead.contains p then
    if labelOf p t.s == lab then [{ t with ahead := t.ahead.erase p }] else []
  else
    let direct := (ownMoves p lab t.s).map fun s => { t with s := s }
    let viaOther :=
      if p == .E || t.ahead.length ≥ 2 then [] else
      allProcs.flatMap fun q =>
        if q == p || t.ahead.contains q then [] else
        (stepP q t.s).flatMap fun s1 =>
          let ahead' := if silentLab (labelOf q s1) then t.ahead else q :: t.ahead
          let joint := if labelOf p s1 == lab && labelOf p t.s != lab then [{ s := s1, ahead := ahead' : Tr }] else []
          joint ++ (ownMoves p lab s1).map fun s2 => { s := s2, ahead := ahead' }
    direct ++ viaOther

def showFinal (s : St) : String :=
  s!"r:{s.r.label};k:{s.k.label};second:{b2s s.second};o:{s.o.label};n:{s.n.label};w:{s.w.label};calls:{s.closeCalls};err:{b2s s.lastErr};panic:{s.panic.ctorIdx}"

def parseEvents (s : String) : Option (List (Proc × String)) :=
  if s == "." then some [] else
  (s.splitOn ",").mapM fun e =>
    match e.splitOn ":" with
    | [p, lab] => (procOf p).map fun p => (p, lab)
    | _ => none

def runEvents : List (Proc × String) → Nat → List Tr → List Nat → (Int × List Tr × List Nat)
  | [], _, cur, path => (-1, cur, path)
  | (p, lab) :: rest, i, cur, path =>
    let nxt := dedupT (cur.flatMap (observeT p lab))
    if nxt.isEmpty then (Int.ofNat i, cur, path)
    else runEvents rest (i + 1) nxt (path ++ (nxt.take 1).map fun t => c07Code t.s)

def handleC07 : List String → String
  | ["validate", nc, mode, twice, cerr, r, o, n, w, evs] =>
    match c07Mode mode, rOfLabel r, oOfLabel o, nOfLabel n, wOfLabel w, parseEvents evs with
    | some mode, some r, some o, some n, some w, some evs =>
      let s0 : St := { mkInit (s2b nc) mode (s2b twice) false (s2b cerr) with r := r, o := o, n := n, w := w }
      let dom := inv s0 && s0.k == .idle
      let (at_, curT, path) := runEvents evs 0 [{ s := s0, ahead := [] }] [c07Code s0]
      -- at the end every move must have been reported
      let done := curT.filter fun t => t.ahead.isEmpty
      let cur := dedup ((if done.isEmpty then curT else done).map (·.s))
      let terminal := cur.all fun s => (next s).isEmpty
      let quiet := cur.all fun s =>
        (stepP .R s).isEmpty && (stepP .K s).isEmpty && (stepP .O s).isEmpty && (stepP .N s).isEmpty
          && (stepP .W s).isEmpty
      let good_ := cur.all good
      let fin := "|".intercalate (cur.map showFinal)
      let pathS := ".".intercalate (path.map toString)
      s!"dom={b2s dom} valid={b2s (at_ == -1)} at={at_} terminal={b2s terminal} quiet={b2s quiet} good={b2s good_} final={fin} path={pathS} n={evs.length}"
    | _, _, _, _, _, _ => "bad-op"
  | _ => "bad-op"

end Driver.C07