import Driver.Proto
namespace Driver.C07
open Scrapli

/-- line-protocol handler for property C07 (arguments after the leading `c07` token) -/
def handleC07 : List String → String
  | _ => "bad-op"

end Driver.C07