import Driver.Proto
namespace Driver.C10
open Scrapli

/-- line-protocol handler for property C10 (arguments after the leading `c10` token) -/
def handleC10 : List String → String
  | _ => "bad-op"

end Driver.C10