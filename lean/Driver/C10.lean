import Driver.Proto
import Driver.C01
import Driver.Rx
import ScrapliModel.Auth
import ScrapliModel.AuthTable
import ScrapliModel.Generated.Patterns
import ScrapliModel.Generated.Consts
import ScrapliModel.Generated.AuthPool
namespace Driver.C10
open Driver.C01
open Scrapli Scrapli.Chan Scrapli.Auth

/-- the named field of `sshErrorMessagePatterns`, run by the regex engine -/
def c10rx (name : String) (b : Bytes) : Bool :=
  match lookupRe ("Channel." ++ name) with
  | some re => Rx.isMatch re b
  | none => false

/-- the matchers of the code: extracted patterns (or the custom set `ps` of the generated pool, as
    set through options / a platform definition) + extracted ssh failure table; `nc`: the netconf
    driver replaces the prompt pattern by the 1.0 end-of-message delimiter -/
def c10pats (ps : Nat) (nc : Bool) : Pats :=
  let (u, p, f, pr) := match Gen.AuthPool.pool[ps]? with
    | some (_, u, p, f, pr) => (u, p, f, pr)
    | none => (none, none, none, none)
  let prompt := if nc then Gen.Rx.Netconf.v1Dot0Delim else pr.getD Gen.Rx.Channel.promptPattern
  { promptP := fun b => Rx.isMatch prompt b,
    userP := fun b => Rx.isMatch (u.getD Gen.Rx.Channel.username) b,
    passP := fun b => Rx.isMatch (p.getD Gen.Rx.Channel.password) b,
    phraseP := fun b => Rx.isMatch (f.getD Gen.Rx.Channel.passphrase) b,
    sshErr := sshErrGen c10rx }

def c10prompt (ps : Nat) (nc : Bool) : Rx.Re :=
  if nc then Gen.Rx.Netconf.v1Dot0Delim else
  match Gen.AuthPool.pool[ps]? with
  | some (_, _, _, _, some pr) => pr
  | _ => Gen.Rx.Channel.promptPattern

def c10cfg (depth : Nat) (ret user pass phrase : Bytes) : Auth.Cfg :=
  { depth := depth, ret := ret, user := user, pass := pass, phrase := phrase,
    uMax := Gen.Channel.usernameSeenMax, pMax := Gen.Channel.passwordSeenMax,
    ppMax := Gen.Channel.passphraseSeenMax }

def kindOfStr : String → Option Kind
  | "q" => some .quiet | "e" => some .err | "p" => some .prompt
  | "u" => some .user | "w" => some .pass | "f" => some .phrase
  | _ => none

def outcomeStr : Outcome → String
  | .ok => "nil" | .auth => "auth" | .connection => "connection" | .timeout => "timeout"
  | .stuck => "stuck"

def whatStr : What → String
  | .user => "u" | .pass => "w" | .phrase => "f" | .ret => "r"

def parseStages : List String → Option (List Stage)
  | [] => some []
  | k :: c :: t => do
    let kind ← kindOfStr k
    let chunks ← hexList c
    let rest ← parseStages t
    pure (⟨kind, chunks.map (normalizeChunk stripAnsi)⟩ :: rest)
  | _ => none

def showLines (l : List (What × Bytes)) : String :=
  if l.isEmpty then "." else ",".intercalate (l.map fun (w, d) => whatStr w ++ ":" ++ toHex d)

def writesOf : List Ev → List Bytes
  | [] => []
  | .write _ d _ :: t => d :: writesOf t
  | _ :: t => writesOf t

def redactedOk : List Ev → Bool
  | [] => true
  | .write w _ r :: t => (r == (w != .ret)) && redactedOk t
  | _ :: t => redactedOk t

/-- `c10 open <s|t> <depth> <user> <pass> <phrase> <ret> (<kind> <chunks>)+` →
    `<dom> <spec> <speclines> <outcome> <closed> <writes> <credlines> <buf> <first> <found> <paired>`
    `c10 ssherr <hex>` → 0/1; `c10 consts` → the three extracted limits -/
def handleC10 : List String → String
  | "open" :: fl :: pset :: depth :: user :: pass :: phrase :: ret :: st =>
    match pset.toNat?, depth.toNat?, fromHex user, fromHex pass, fromHex phrase, fromHex ret, parseStages st with
    | some ps, some d, some user, some pass, some phrase, some ret, some (first :: rest) =>
      -- flavours: s ssh, t telnet, n ssh login of the netconf driver, b no in-channel authentication
      let nc := fl == "n"
      let flv : Flavour := if fl == "s" || nc then .ssh else .telnet
      let cfg := c10cfg d ret user pass phrase
      let P := c10pats ps nc
      let noAuth := fl == "b"
      let dom := noAuth || match flv with
        | .ssh => wfSSH P first rest
        | .telnet => wfTel P cfg.depth first rest
      let kinds := rest.map (·.kind)
      -- the specification uses the limits the PROPERTY fixes ("at most twice"), the model those of the code
      let pcfg := { cfg with uMax := 2, pMax := 2, ppMax := 2 }
      let sp := if noAuth then .ok else spec pcfg 0 0 0 first.kind kinds
      let sl := if noAuth then [] else specLines pcfg 0 0 0 first.kind kinds
      let r := if noAuth then openNoAuth (rest.map (·.chunks)) (first.chunks ++ (rest.map (·.chunks)).flatten)
               else openScript flv P cfg first rest
      let lg := login flv P cfg scriptReact (rest.map (·.chunks)) first.chunks
      let firstRead := readUntil (fun rb => P.promptP (window rb cfg.depth)) r.queue []
      let (fst, found) := match firstRead with
        | none => ("none", "none")
        | some (b, _) => (toHex b, match Rx.findBytes (c10prompt ps nc) b with
            | some m => toHex m
            | none => "none")
      let buf := if r.outcome == .ok && !noAuth then toHex lg.buf else "none"
      s!"{b2s dom} {outcomeStr sp} {showLines sl} {outcomeStr r.outcome} {b2s r.closed} {showHexList (writesOf r.trace)} {showLines (credLines r.trace)} {buf} {fst} {found} {b2s (paired P cfg none r.trace && redactedOk r.trace)}"
    | _, _, _, _, _, _, _ => "bad-op"
  | ["consts"] =>
    s!"{Gen.Channel.usernameSeenMax} {Gen.Channel.passwordSeenMax} {Gen.Channel.passphraseSeenMax}"
  | ["ssherr", h] =>
    match fromHex h with
    | some b => b2s ((c10pats 0 false).sshErr b)
    | none => "bad-op"
  | _ => "bad-op"

end Driver.C10