import Driver.Proto
import Driver.C01
import Driver.Rx
import ScrapliModel.Loss
import ScrapliModel.Generated.C06Patterns
namespace Driver.C06
open Driver.C01
open Scrapli Scrapli.Chan Scrapli.Loss

/-! line-protocol handler for property C06 (arguments after the leading `c06` token)

`c06 cli <depth> <exact> <kind> <ks> <stale> <phase>*`
  kind ∈ eof|err|werr; ks = comma separated loss points (bytes delivered / written before the loss);
  stale = chunks in the queue when the operation starts; phase =
  `w;<hex>;<react-chunks>` | `r;e;<cmdhex>` (echo, fuzzy/exact per <exact>) | `r;p;<name+name…>`
  (any of the named patterns on the search window).
  → `<exact> <need> <wneed> <maxAdj> <res>;<res>;…` with res = `<dom>/<outcomes>/<timeok>`;
  outcomes = `|`-joined set over four canonical schedules of `ok:<hexlist>` / `err:<class>` / `run`.
`c06 nc <pattern> <kind> <ks> <nb> <mid> <write>*` with write = `<hex>;<react-chunks>`
  → `<res>;<res>;…` with res = `<dom>/<outcomes>/<timeok>`.
`c06 rx <name> <hex>` → 0/1 (isMatch). -/

def lookupRe6 (name : String) : Option Rx.Re :=
  match (Gen.Rx.C06.all.find? fun (n, _, _) => n == name) with
  | some (_, r, _) => some r
  | none => lookupRe name

def anyPred (res : List Rx.Re) (depth : Nat) (rb : Bytes) : Bool :=
  let w := window rb depth
  res.any fun re => Rx.isMatch re w

def parsePhase (cfg : Cfg) (f : String) : Option Phase :=
  match f.splitOn ";" with
  | ["w", b, react] => do
    let b ← fromHex b
    let react ← hexList react
    pure (.write b react)
  | ["r", "e", cmd] => do
    let cmd ← fromHex cmd
    pure (.read (echoPred cfg cmd))
  | ["r", "p", names] => do
    let res ← (names.splitOn "+").mapM lookupRe6
    pure (.read (anyPred res cfg.depth))
  | _ => none

def exactB : Bytes → List Phase → Bool
  | _, [] => true
  | U, .write _ r :: rest => exactB (U ++ r.flatten) rest
  | U, .read P :: rest => exactAtB P U && exactB [] rest

/-- direct Boolean reading of `Doomed` -/
def doomedB : Bytes → Nat → List Phase → Bool
  | _, _, [] => false
  | U, B, .write _ r :: rest => doomedB (U ++ r.flatten) B rest
  | U, B, .read P :: rest =>
    ((List.range (min B U.length + 1)).all fun j => !P (U.take j)) ||
      (exactAtB P U && U.length ≤ B && doomedB [] (B - U.length) rest)

/-- per read phase of the lossless walk: (length of its unread stream, first prefix length at which
    its predicate fires, whether that is exactly the end) — computed once per sweep -/
def fireTable : Bytes → List Phase → List (Nat × Option Nat × Bool)
  | _, [] => []
  | U, .write _ r :: rest => fireTable (U ++ r.flatten) rest
  | U, .read P :: rest =>
    let ff := (List.range (U.length + 1)).find? fun j => P (U.take j)
    (U.length, ff, ff == some U.length) :: fireTable [] rest

/-- `Doomed` evaluated from the table (same recursion as `doomedB`) -/
def doomedT : Nat → List (Nat × Option Nat × Bool) → Bool
  | _, [] => false
  | B, (len, ff, ex) :: rest =>
    (match ff with | none => true | some f => B < f) || (ex && len ≤ B && doomedT (B - len) rest)

def errName : Err → String
  | .transport => "transport"
  | .connection => "connection"
  | .write => "write"

def resName : Res → String
  | .ok outs => "ok:" ++ showHexList outs
  | .error e => "err:" ++ errName e

/-- repeat `pat` until the operation returns; reports the result, the step index at which the loss
    was first reported and the step index of the return (in units of `pat` repetitions) -/
def simulate (pat : List Actor) : Nat → Nat → St → Op → Option Nat → (Option Res × Option Nat × Nat)
  | 0, t, _, _, tl => (none, tl, t)
  | fuel + 1, t, s, o, tl =>
    match run pat s o with
    | (s', .inr r) =>
      let tl' := match tl with | some x => some x | none => if s'.lost then some t else none
      (some r, tl', t)
    | (s', .inl o') =>
      let tl' := match tl with | some x => some x | none => if s'.lost then some t else none
      simulate pat fuel (t + 1) s' o' tl'

def schedules : List (List Actor) :=
  [[.rdr, .op], [.op, .rdr], [.rdr, .rdr, .rdr, .op], [.op, .op, .op, .rdr],
   [.rdr, .rdr, .rdr, .rdr, .rdr, .rdr, .rdr, .rdr, .op]]

def addSet (l : List String) (x : String) : List String := if l.contains x then l else l ++ [x]

def cliCase (prog : List Phase) (stale : List Bytes) (kind : String) (k : Nat)
    (table : List (Nat × Option Nat × Bool)) (fuel : Nat) : String :=
  let total := prog.foldl (fun acc p => match p with | .write _ r => acc + r.flatten.length | _ => acc) 0
  let s0 : St :=
    if kind == "both" then
      { pending := [], left := k, kind := .eof, wleft := some k, q := stale, rd := .running, lost := false }
    else if kind == "werr" then
      { pending := [], left := total + stale.flatten.length + 1, kind := .eof, wleft := some k, q := stale, rd := .running, lost := false }
    else
      { pending := [], left := k, kind := if kind == "eof" then .eof else .err, wleft := none, q := stale, rd := .running, lost := false }
  let o0 : Op := { prog := prog, rb := [], outs := [] }
  let dom :=
    if kind == "werr" then k < wneed prog
    else if kind == "both" then k < wneed prog || doomedT (k + stale.flatten.length) table
    else doomedT (k + stale.flatten.length) table
  let rs := schedules.map fun pat => simulate pat fuel 0 s0 o0 none
  let outs := rs.foldl (fun acc (r, _, _) => addSet acc (match r with | some r => resName r | none => "run")) []
  -- model time: under the two tick schedules the return comes at most maxAdj+1 ticks after the loss
  let bound := maxAdjWrites prog + 1
  let timeok := (rs.take 2).all fun (r, tl, t) =>
    match r, tl with
    | some (.error e), some tl => e == .write || t ≤ tl + bound
    | _, _ => true
  s!"{b2s dom}/{"|".intercalate outs}/{b2s timeok}"

/-- idle loss: the transport died (after delivering `stale`, still unread in the queue) and the read
    goroutine has noticed (`settle` iterations) before the operation starts -/
def idleCase (prog : List Phase) (stale : List Bytes) (kind : String) (settle : Nat) (fuel : Nat) : String :=
  let s0 : St := { pending := [], left := 0, kind := if kind == "eof" then .eof else .err, wleft := none,
                   q := stale, rd := .running, lost := false }
  let s1 := (List.range settle).foldl (fun s _ => rstep s) s0
  let o0 : Op := { prog := prog, rb := [], outs := [] }
  let dom := (s1.rd == .handing || s1.rd == .exited) && hasRead prog
  let rs := schedules.map fun pat => simulate pat fuel 0 s1 o0 none
  let outs := rs.foldl (fun acc (r, _, _) => addSet acc (match r with | some r => resName r | none => "run")) []
  let bound := maxAdjWrites prog + 1
  let timeok := (rs.take 2).all fun (r, _, t) =>
    match r with
    | some (.error _) => t < bound
    | _ => false
  s!"{b2s dom}/{"|".intercalate outs}/{b2s timeok}"

def parseNats (s : String) : Option (List Nat) :=
  if s == "." then some [] else (s.splitOn ",").mapM String.toNat?

/-! NETCONF -/

def parseWrite (f : String) : Option (Bytes × List Bytes) :=
  match f.splitOn ";" with
  | [b, react] => do
    let b ← fromHex b
    let react ← hexList react
    pure (b, react)
  | _ => none

def nsimulate (msgP : Bytes → Bool) (idOf : Bytes → Nat) (echoRest : Bytes → Option Bytes) (pat : List NActor) :
    Nat → Nat → NSt → Rpc → Option Nat → (Option Res × Option Nat × Nat)
  | 0, t, _, _, tl => (none, tl, t)
  | fuel + 1, t, n, r, tl =>
    match nrun msgP idOf echoRest pat n r with
    | (n', .inr res) =>
      let tl' := match tl with | some x => some x | none => if n'.ch.lost then some t else none
      (some res, tl', t)
    | (n', .inl r') =>
      let tl' := match tl with | some x => some x | none => if n'.ch.lost then some t else none
      nsimulate msgP idOf echoRest pat fuel (t + 1) n' r' tl'

def nschedules : List (List NActor) :=
  [ntick 0, ntick 5, ntick 9, [.rdr, .rdr, .rdr, .fwd, .fwd, .rpc true], [.rpc false, .rpc false, .fwd, .rdr],
   [.rdr, .rdr, .rdr, .rdr, .rdr, .rdr, .rdr, .rdr, .fwd, .rpc false]]

def nofireB (msgP : Bytes → Bool) (n : NSt) (r : Rpc) : Bool :=
  (List.range (nbudget n + 1)).all fun j => !msgP ((nunread n r).take j)

def ncCase (msgP : Bytes → Bool) (idOf : Bytes → Nat) (echoRest : Bytes → Option Bytes) (nb : Bytes) (mid : Nat)
    (ws : List (Bytes × List Bytes)) (kind : String) (k : Nat) (fuel : Nat) : String :=
  let total := ws.foldl (fun acc w => acc + w.2.flatten.length) 0
  let ch : St :=
    if kind == "both" then
      { pending := [], left := k, kind := .eof, wleft := some k, q := [], rd := .running, lost := false }
    else if kind == "werr" then
      { pending := [], left := total + 1, kind := .eof, wleft := some k, q := [], rd := .running, lost := false }
    else
      { pending := [], left := k, kind := if kind == "eof" then .eof else .err, wleft := none, q := [], rd := .running, lost := false }
  let n0 : NSt := { ch := ch, nb := nb, fwd := none, store := [] }
  let r0 : Rpc := { writes := ws, mid := mid }
  let wtotal := ws.foldl (fun acc w => acc + w.1.length) 0
  -- in the domain: fed byte by byte (every prefix is tested), the deliverable part of the reply
  -- stream never makes `Driver.read` store a message (an echoed request is discarded, not stored)
  let deliverable := ((ws.map (·.2.flatten)).flatten.take k).map fun b => [b]
  let dom := if kind == "werr" then k < wtotal
    else if kind == "both" then k < wtotal || feedSafe msgP echoRest nb deliverable
    else feedSafe msgP echoRest nb deliverable
  let rs := nschedules.map fun pat => nsimulate msgP idOf echoRest pat fuel 0 n0 r0 none
  let outs := rs.foldl (fun acc (r, _, _) => addSet acc (match r with | some r => resName r | none => "run")) []
  let bound := ws.length + 2
  let timeok := (rs.take 3).all fun (r, tl, t) =>
    match r, tl with
    | some (.error e), some tl => e == .write || t ≤ tl + bound
    | _, _ => true
  s!"{b2s dom}/{"|".intercalate outs}/{b2s timeok}"

def midOf (b : Bytes) : Nat :=
  match Rx.findGroup Gen.Rx.Netconf.messageID b 1 with
  | some d => (parseDec d).getD 0
  | none => 0

def handleC06 : List String → String
  | "cli" :: depth :: exact :: kind :: ks :: stale :: phases =>
    match depth.toNat?, parseNats ks, hexList stale with
    | some d, some ks, some stale =>
      let cfg := mkCfg d (s2b exact) true [10]
      match phases.mapM (parsePhase cfg) with
      | some prog =>
        let table := fireTable stale.flatten prog
        let ex := table.all fun (_, _, e) => e
        let chunks := prog.foldl (fun acc p => match p with | .write _ r => acc + r.length + 1 | _ => acc + 1) 0
        let fuel := 4 * (chunks + stale.length) + 24
        let rs := ks.map fun k => cliCase prog stale kind k table fuel
        -- the table evaluation of `Doomed` agrees with its direct reading (spot check)
        let spot := [ks.head?, ks[ks.length / 2]?].all fun
          | some k => kind == "werr" || doomedT (k + stale.flatten.length) table == doomedB stale.flatten (k + stale.flatten.length) prog
          | none => true
        if !spot then "bad-dom-table" else
        s!"{b2s ex} {need stale.flatten.length prog} {wneed prog} {maxAdjWrites prog} {";".intercalate rs}"
      | none => "bad-op"
    | _, _, _ => "bad-op"
  | "idle" :: depth :: exact :: kind :: settle :: stale :: phases =>
    match depth.toNat?, settle.toNat?, hexList stale with
    | some d, some st, some stale =>
      let cfg := mkCfg d (s2b exact) true [10]
      match phases.mapM (parsePhase cfg) with
      | some prog => idleCase prog stale kind st (4 * (prog.length + stale.length) + 24)
      | none => "bad-op"
    | _, _, _ => "bad-op"
  | "nc" :: pat :: kind :: ks :: nb :: mid :: writes =>
    match lookupRe6 pat, parseNats ks, fromHex nb, mid.toNat?, writes.mapM parseWrite with
    | some re, some ks, some nb, some mid, some ws =>
      let msgP : Bytes → Bool := fun b => Rx.isMatch re b
      let echoRest : Bytes → Option Bytes := fun b =>
        if isInfix [60, 47, 114, 112, 99, 62] b then (Rx.split2 re b).map (·.2) else none   -- "</rpc>"
      let chunks := ws.foldl (fun acc w => acc + w.2.length + 1) 0
      let fuel := 4 * chunks + 24
      let rs := ks.map fun k => ncCase msgP midOf echoRest nb mid ws kind k fuel
      ";".intercalate rs
    | _, _, _, _, _ => "bad-op"
  | ["rx", name, h] =>
    match lookupRe6 name, fromHex h with
    | some re, some s => b2s (Rx.isMatch re s)
    | _, _ => "bad-op"
  | _ => "bad-op"

end Driver.C06