import Driver.Proto
namespace Driver
open Scrapli

/-- line-protocol handler for property C06 (arguments after the leading `c06` token) -/
def handleC06 : List String → String
  | _ => "bad-op"

end Driver
