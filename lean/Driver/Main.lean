import Driver.C01
import Driver.C02
import Driver.C03
import Driver.C04
import Driver.C05
import Driver.C06
import Driver.C07
import Driver.C08
import Driver.C09
import Driver.C10
import Driver.C11
import Driver.C12
import Driver.C13
import Driver.C14
import Driver.C15
import Driver.C16
import Driver.C17
import Driver.C18
import Driver.C19
import Driver.C20
import Driver.Rx
open Scrapli Driver

/-- one request line in, one answer line out; the first token selects the property handler -/
def handle (line : String) : String :=
  match (line.splitOn " ") with
  | "c01" :: rest => Driver.C01.handleC01 rest
  | "c02" :: rest => Driver.C02.handleC02 rest
  | "c03" :: rest => Driver.C03.handleC03 rest
  | "c04" :: rest => Driver.C04.handleC04 rest
  | "c05" :: rest => Driver.C05.handleC05 rest
  | "c06" :: rest => Driver.C06.handleC06 rest
  | "c07" :: rest => Driver.C07.handleC07 rest
  | "c08" :: rest => Driver.C08.handleC08 rest
  | "c09" :: rest => Driver.C09.handleC09 rest
  | "c10" :: rest => Driver.C10.handleC10 rest
  | "c11" :: rest => Driver.C11.handleC11 rest
  | "c12" :: rest => Driver.C12.handleC12 rest
  | "c13" :: rest => Driver.C13.handleC13 rest
  | "c14" :: rest => Driver.C14.handleC14 rest
  | "c15" :: rest => Driver.C15.handleC15 rest
  | "c16" :: rest => Driver.C16.handleC16 rest
  | "c17" :: rest => Driver.C17.handleC17 rest
  | "c18" :: rest => Driver.C18.handleC18 rest
  | "c19" :: rest => Driver.C19.handleC19 rest
  | "c20" :: rest => Driver.C20.handleC20 rest
  | "rx" :: rest => handleRx rest
  | ["echo", h] => match fromHex h with
    | some b => toHex b
    | none => "bad-op"
  | _ => "bad-op"

partial def loop (h : IO.FS.Stream) (out : IO.FS.Stream) : IO Unit := do
  let line ← h.getLine
  if line.isEmpty then return ()
  let l := (line.trimAsciiEnd).toString
  out.putStrLn (handle l)
  loop h out

def main : IO Unit := do
  let out ← IO.getStdout
  loop (← IO.getStdin) out
  out.flush
