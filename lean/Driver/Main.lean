import Driver.C01
import Driver.C02
import Driver.C03
import Driver.C04
import Driver.C05
import Driver.C06
import Driver.C07
import Driver.C08
import Driver.C09
import Driver.C10
import Driver.C11
import Driver.C12
import Driver.C13
import Driver.C14
import Driver.C15
import Driver.C16
import Driver.C17
import Driver.C18
import Driver.C19
import Driver.C20
import Driver.Rx
open Scrapli Driver

/-- one request line in, one answer line out; the first token selects the property handler -/
def handle (line : String) : String :=
  match (line.splitOn " ") with
  | "c01" :: rest => handleC01 rest
  | "c02" :: rest => handleC02 rest
  | "c03" :: rest => handleC03 rest
  | "c04" :: rest => handleC04 rest
  | "c05" :: rest => handleC05 rest
  | "c06" :: rest => handleC06 rest
  | "c07" :: rest => handleC07 rest
  | "c08" :: rest => handleC08 rest
  | "c09" :: rest => handleC09 rest
  | "c10" :: rest => handleC10 rest
  | "c11" :: rest => handleC11 rest
  | "c12" :: rest => handleC12 rest
  | "c13" :: rest => handleC13 rest
  | "c14" :: rest => handleC14 rest
  | "c15" :: rest => handleC15 rest
  | "c16" :: rest => handleC16 rest
  | "c17" :: rest => handleC17 rest
  | "c18" :: rest => handleC18 rest
  | "c19" :: rest => handleC19 rest
  | "c20" :: rest => handleC20 rest
  | "rx" :: rest => handleRx rest
  | ["echo", h] => match fromHex h with
    | some b => toHex b
    | none => "bad-op"
  | _ => "bad-op"

partial def loop (h : IO.FS.Stream) (out : IO.FS.Stream) : IO Unit := do
  let line ← h.getLine
  if line.isEmpty then return ()
  let l := (line.trimAsciiEnd).toString
  out.putStrLn (handle l)
  loop h out

def main : IO Unit := do
  let out ← IO.getStdout
  loop (← IO.getStdin) out
  out.flush
