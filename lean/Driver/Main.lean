import Driver.C02
open Scrapli Driver

def handle (line : String) : String :=
  match (line.splitOn " ") with
  | "c02" :: rest => handleC02 rest
  | ["echo", h] => match fromHex h with
    | some b => toHex b
    | none => "bad-op"
  | _ => "bad-op"

partial def loop (h : IO.FS.Stream) (out : IO.FS.Stream) : IO Unit := do
  let line ← h.getLine
  if line.isEmpty then return ()
  let l := (line.trimAsciiEnd).toString
  out.putStrLn (handle l)
  loop h out

def main : IO Unit := do
  let out ← IO.getStdout
  loop (← IO.getStdin) out
  out.flush
