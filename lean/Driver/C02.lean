import Driver.Proto
import ScrapliModel.Netconf.Decode
import ScrapliModel.Generated.Patterns
namespace Driver.C02
open Scrapli Scrapli.Netconf

def markers : List Bytes := Gen.Response.netconfFailedWhenContains

def allSpace (ws : Bytes) : Bool := ws.all isSpaceB
def legalChunks (cs : List Bytes) : Bool :=
  cs.all fun c => !c.isEmpty && c.length < 2 ^ 32

def showRec (r : Recorded) : String := s!"{b2s r.failed} {b2s r.parseErr} {toHex r.result}"

def ver (s : String) : Option Version :=
  if s == "1.0" then some .v10 else if s == "1.1" then some .v11 else none

/-- ASCII-edge domain restriction: Go's TrimSpace is Unicode aware, the model's is ASCII; they agree
when the trimmed text neither starts nor ends with a non-ASCII byte. -/
def asciiEdges (b : Bytes) : Bool :=
  match trimSpace b with
  | [] => true
  | x :: t => x < 128 && ((x :: t).getLast?.getD 0) < 128

def frame10 (decl p w2 w1 : String) : String :=
  match fromHex p, fromHex w2, fromHex w1 with
  | some p, some ws2, some ws1 =>
    let hdr := if decl == "1" then Gen.Response.xmlHeader else []
    let raw := ws1 ++ hdr ++ p ++ Gen.Response.v1Dot0Delim ++ ws2
    let payload := trimSpace p
    let dom := allSpace ws1 && allSpace ws2 && asciiEdges p &&
      (decl == "1" || !hasPrefix (trimLeft isSpaceB p ++ Gen.Response.v1Dot0Delim) Gen.Response.xmlHeader)
    let thm := dom
    s!"{b2s dom} {toHex raw} {b2s (containsAny markers payload)} {toHex payload} {b2s thm}"
  | _, _, _ => "bad-op"

def handleC02 : List String → String
  | ["raw", v, h] =>
    match ver v, fromHex h with
    | some v, some raw => showRec (record markers v raw)
    | _, _ => "bad-op"
  -- frame: spec side. answers: dom raw spec_failed spec_result
  | ["frame", "1.1", w1, cs, w2] =>
    match fromHex w1, hexList cs, fromHex w2 with
    | some ws1, some cs, some ws2 =>
      let raw := ws1 ++ frame11 cs ++ ws2
      let payload := finish cs.flatten
      let dom := allSpace ws1 && allSpace ws2 && legalChunks cs && asciiEdges (trimPrefix cs.flatten Gen.Response.xmlHeader)
      s!"{b2s dom} {toHex raw} {b2s (containsAny markers payload)} {toHex payload}"
    | _, _, _ => "bad-op"
  | ["frame", "1.0", decl, p, w2] => frame10 decl p w2 "-"
  -- with white space in front of the message as well (the LF that real servers send behind the
  -- previous message's delimiter): answers dom raw spec_failed spec_result thm, where thm says
  -- whether a proved theorem covers the case (decode10_frame10 / decode10_frame10_decl: since fix
  -- 72d4808 of finding C02-F21 every case in the domain)
  | ["frame", "1.0", decl, p, w2, w1] => frame10 decl p w2 w1
  -- ErrorMessages / WarningErrorMessages of Record(raw): hand-written scan, and whether the regex
  -- engine on the extracted pattern rpcSingleErrors finds the same blocks
  | ["msgs", h] =>
    match fromHex h with
    | some raw =>
      let (e, w) := messages markers raw
      let blocks := errorBlocks (raw.length + 1) raw
      let rx := (Rx.findAll Gen.Rx.Response.«rpcSingleErrors» raw).map fun (a, z, _) => (raw.drop a).take (z - a)
      s!"{showHexList e} {showHexList w} {b2s (blocks == rx)}"
    | none => "bad-op"
  | _ => "bad-op"

end Driver.C02