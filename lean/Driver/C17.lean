import Driver.Proto
import ScrapliModel.Generated.Platforms
import ScrapliModel.PlatformPriv
namespace Driver.C17
open Scrapli Scrapli.Rx Scrapli.Platform Scrapli.Gen.Platforms

/-! Line protocol of property C17 (arguments after the leading `c17` token). Strings travel as hex
of their UTF-8 bytes (`-` = empty).

* `names` → `adv=<hex,…> files=<hex,…> loaded=<file:variant,…>`
* `adv <name>` → `dom=<advertised?> spec=<NewPlatform(name) must succeed: file embedded, parses, has default>`
* `def <file> <variant>` → `kind=<network|generic|none> err=<ok|badoption> loads=<constructs> ` ++ `Def.canon` of what
  `NewPlatform` (variant `-`) / `NewPlatformVariant` hands to `setDriver`; `none` when unknown
* `wit <file> <variant>` → `lv=<key:witness:authWitness:targetable:unambiguous,…> cls=<key+key|key…> checks=<bits> c04=<ok|exempt:tag|broken>`
* `match <file> <variant> <key> <subject>` → `<levelMatches> <find span of the level pattern>`
* `jfind <file> <variant> <key,key,…> <subject>` → find span of the joined pattern in that order
* `onx <file> <variant> <user default|~>` → `open=<actions> close=<actions>` of the network on-X lists run against a
  driver whose default desired level is the user's (`~`: the definition's): `a<level>` acquire, `c<cmd>`, `w<input>`, `r`
* `onxraw <g|n> <run-time default> <steps>` → actions of the generic / network interpreter on a step list in canonical text
* `opts <name=value,…>` → `per=<outcome per option> all=<outcome of the block>` (`l<field>` lands, `p` panics, `b` ErrBadOption)
* `graph <key/name/previous,…>` → `graph=<buildPrivGraph does not panic> tree=<singleTree> keyname=<keyEqName>`
* `merge <9 base fields> <9 variant fields>` → the nine merged fields + ` kind= err=` (sections are
  opaque tokens; only presence matters to `mergeVariant`)
-/

def unhexS (h : String) : Option String :=
  (fromHex h).bind fun b => String.fromUTF8? (ByteArray.mk b.toArray)

def kindS : DriverKind → String
  | .generic => "generic" | .network => "network" | .none => "none"
def errS : LoadErr → String
  | .ok => "ok" | .badoption => "badoption"

def lookupHex (hf hv : String) : Option Loaded :=
  match unhexS hf, unhexS hv with
  | some f, some v => lookupLoaded files f v
  | _, _ => none

def spanS : Option (Nat × Nat × Caps) → String
  | none => "-"
  | some (a, e, _) => s!"{a}:{e}"

def parseSteps (s : String) : Option (List String) :=
  if s == "nil" then none else if s == "[]" then some [] else some (s.splitOn ";")
def showSteps : Option (List String) → String
  | none => "nil" | some [] => "[]" | some l => ";".intercalate l
def parseList (s : String) : List String := if s == "." then [] else s.splitOn ","
def showList (l : List String) : String := if l.isEmpty then "." else ",".intercalate l

def parseSections : List String → Option (Sections String String String)
  | [dt, fw, oo, oc, pl, dd, noo, noc, opt] =>
    match unhexS dt, unhexS dd with
    | some dt, some dd =>
      some { driverType := dt, failedWhen := parseList fw, onOpen := parseSteps oo, onClose := parseSteps oc,
             levels := parseList pl, defaultLevel := dd, netOnOpen := parseSteps noo, netOnClose := parseSteps noc,
             options := parseList opt }
    | _, _ => none
  | _ => none

def showSections (p : Sections String String String) : String :=
  " ".intercalate [hexS p.driverType, showList p.failedWhen, showSteps p.onOpen, showSteps p.onClose,
    showList p.levels, hexS p.defaultLevel, showSteps p.netOnOpen, showSteps p.netOnClose, showList p.options]

def checksS (d : Def) : String :=
  String.join ([driverTypeValid d, defaultLevelExists d, singleTree d, keyEqName d, patternsCompile d,
    witnessesOk d, authEdgesOk d, onxWellformed d, allReachable d, transitionsUnambiguous d].map b2s)

def parseVal (s : String) : Option Val :=
  match s.toList with
  | 'n' :: [] => some .null
  | 's' :: t => (unhexS (String.ofList t)).map .str
  | 'b' :: '1' :: [] => some (.bool true)
  | 'b' :: '0' :: [] => some (.bool false)
  | 'i' :: t => (String.ofList t).toInt?.map .int
  | 'f' :: t => (unhexS (String.ofList t)).map .float
  | 'l' :: t => if t.isEmpty then some (.strList []) else (((String.ofList t).splitOn "+").mapM unhexS).map .strList
  | 'o' :: t => (unhexS (String.ofList t)).map .other
  | _ => none

def parseKV (kv : String) : Option (String × Val) :=
  match kv.splitOn "=" with
  | [k, v] => match unhexS k, parseVal v with
    | some k, some v => some (k, v)
    | _, _ => none
  | _ => none

def parseStepsCanon (s : String) : Option (List Step) :=
  if s == "nil" || s == "[]" then some [] else
  (s.splitOn ";").mapM fun st =>
    if st == "{}" then some ⟨[]⟩ else ((st.splitOn "&").mapM parseKV).map fun f => ⟨f⟩

def showAct : OnxAction → String
  | .write i => "w" ++ hexS i
  | .ret => "r"
  | .acquire t => "a" ++ hexS t
  | .sendCommand c => "c" ++ hexS c
  | .badValue => "e"
  | .skip => "s"
  | .panic => "p"

def showOutcome : OptOutcome → String
  | .lands f => "l" ++ hexS f
  | .panics => "p"
  | .badoption => "b"

/-- line-protocol handler for property C17 (arguments after the leading `c17` token) -/
def handleC17 : List String → String
  | ["names"] =>
    "adv=" ++ showList (advertised.map hexS) ++ " files=" ++ showList (embeddedFiles.map hexS)
      ++ " loaded=" ++ showList ((allLoaded files).map fun l => hexS l.file ++ ":" ++ hexS l.variant)
  | ["adv", hn] =>
    match unhexS hn with
    | none => "bad-op"
    | some n =>
      let ok := embeddedFiles.contains (n ++ ".yaml") &&
        files.any fun f => f.file == n ++ ".yaml" && f.parses && f.hasDefault && constructs f.default
      s!"dom={b2s (advertised.contains n)} spec={b2s ok}"
  | ["def", hf, hv] =>
    match lookupHex hf hv with
    | none => "none"
    | some l =>
      let r := setDriver l.d
      s!"kind={kindS r.1} err={errS r.2} loads={b2s (constructs l.d)} " ++ l.d.canon
  | ["wit", hf, hv] =>
    match lookupHex hf hv with
    | none => "none"
    | some l =>
      "lv=" ++ showList (l.d.levels.map fun x =>
          ":".intercalate [hexS x.key, toHex x.witness, toHex x.authWitness, b2s (targetable x), b2s (unambStart l.d x)])
        ++ " cls=" ++ "|".intercalate ((promptClasses l.d).map fun c => "+".intercalate (c.map hexS))
        ++ " checks=" ++ checksS l.d
        ++ " c04=" ++ (match exemptTag c04Exempt l with
            | some t => "exempt:" ++ t
            | none => if c04Checks l.d then "ok" else "broken")
  | ["match", hf, hv, hk, hs] =>
    match lookupHex hf hv, unhexS hk, fromHex hs with
    | some l, some k, some s =>
      match findLevel l.d k with
      | none => "none"
      | some x => s!"{b2s (levelMatches x s)} {spanS (find x.pattern s)}"
    | _, _, _ => "bad-op"
  | ["jfind", hf, hv, order, hs] =>
    match lookupHex hf hv, (parseList order).mapM unhexS, fromHex hs with
    | some l, some ks, some s => spanS (find (joinedInOrder l.d ks) s)
    | _, _, _ => "bad-op"
  | ["onx", hf, hv, hu] =>
    match lookupHex hf hv, (if hu == "~" then some none else (unhexS hu).map some) with
    | some l, some user =>
      let r := runtimeDefault l.d user
      let showA : OnxAction → String
        | .write i => "w" ++ hexS i
        | .ret => "r"
        | .acquire t => "a" ++ hexS t
        | .sendCommand c => "c" ++ hexS c
        | .badValue => "e"
        | .skip => "s"
        | .panic => "p"
      "open=" ++ showList ((runNetworkOnX r (l.d.netOnOpen.getD [])).map showA)
        ++ " close=" ++ showList ((runNetworkOnX r (l.d.netOnClose.getD [])).map showA)
    | _, _ => "bad-op"
  | ["onxraw", flavour, hr, steps] =>
    match unhexS hr, parseStepsCanon steps with
    | some r, some st =>
      showList ((if flavour == "g" then runGenericOnX st else runNetworkOnX r st).map showAct)
    | _, _ => "bad-op"
  | ["opts", os] =>
    match (parseList os).mapM parseKV with
    | some kvs =>
      let ods := kvs.map fun kv => (⟨kv.1, kv.2⟩ : OptionDef)
      "per=" ++ showList (ods.map fun o => showOutcome (optionOutcome o)) ++ " all=" ++ showOutcome (optionsOutcome ods)
    | none => "bad-op"
  | ["graph", lv] =>
    let ls : Option (List Level) := (parseList lv).mapM fun e =>
      match (e.splitOn "/").mapM unhexS with
      | some [k, n, p] => some { key := k, name := n, previous := p }
      | _ => none
    match ls with
    | none => "bad-op"
    | some ls =>
      let d : Def := { driverType := "network", levels := ls }
      s!"graph={b2s (graphBuildable d)} tree={b2s (singleTree d)} keyname={b2s (keyEqName d)}"
  | "merge" :: rest =>
    if rest.length != 18 then "bad-op" else
    match parseSections (rest.take 9), parseSections (rest.drop 9) with
    | some p, some v =>
      let m := mergeVariant p v
      let r := setDriver m
      showSections m ++ s!" kind={kindS r.1} err={errS r.2}"
    | _, _ => "bad-op"
  | _ => "bad-op"

end Driver.C17