import Driver.Proto
namespace Driver
open Scrapli

/-- line-protocol handler for property C17 (arguments after the leading `c17` token) -/
def handleC17 : List String → String
  | _ => "bad-op"

end Driver
