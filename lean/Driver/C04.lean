import Driver.Proto
namespace Driver
open Scrapli

/-- line-protocol handler for property C04 (arguments after the leading `c04` token) -/
def handleC04 : List String → String
  | _ => "bad-op"

end Driver
