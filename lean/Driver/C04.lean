import Driver.Proto
import ScrapliModel.Lemmas.PrivSession
import ScrapliModel.PrivFault
import ScrapliModel.PrivOptions
import ScrapliModel.PrivScript
namespace Driver.C04
namespace C04
open Scrapli Scrapli.Priv

/-! line protocol of property C04

`sess <levels> <default> <secret> <start> <ordseed> <ops>`
  levels: records joined by `,`; record = `name:prev:esc:deesc:auth:asks:prompt:matchrow` (hex
  fields, `-` empty; `matchrow` = one `0/1` per level *m* in list order: does this level's
  not-contains + pattern accept the prompt of *m* — evaluated by Go's regexp on the real patterns)
  ops: joined by `,` (`.` = none): `cmd:<hex>`, `cmds:<list>`, `cfgs:<list>:<priv>`,
  `cfg:<hex>:<priv>`, `acq:<hex>`, `int:<list>:<priv>`; list = items joined by `+`, `_` = empty
answer: `<dom> <model errs> <model modes> <model log> <spec errs> <spec modes> <spec log> <model caches>`

`fsess <levels> <default> <secret> <start> <ordseed> <ops> <faultTick> <resetBefore>` — a session in
which the navigation step issued in loop iteration `faultTick` fails after the device moved →
`<dom> <model errs> <model modes> <model log> <model caches>`

`script <records> <bits> <default> <secret> <start> <ordseed> <items>` — `records` = every level the
DEVICE has, `bits` = which of them the driver is configured with; items: the operation tokens, `gp`
(GetPrompt), `ref` (an operation refused before anything is sent), `mc` (SendCommandsFromFile on an
unreadable file), `upd:<bits>` (levels edited + UpdatePrivileges), `def:<hex>` (DefaultDesiredPriv
assigned) → the same eight answer fields as `sess`, one entry per item

`path <levels> <cur> <tgt> <ordseed>` → `<dom> <model path> <spec path>`
`proc <levels> <cache> <tgt> <mode> <ordseed>` → `<dom> <action> <next> <cache'>`
-/

structure LvRec where
  lv : Level
  asks : Bool
  prompt : Bytes
  row : List Bool

def parseBits (s : String) : List Bool := if s == "-" then [] else s.toList.map (· == '1')

def parseLevel (s : String) : Option LvRec :=
  match s.splitOn ":" with
  | [n, p, e, d, au, ak, pr, row] => do
    let n ← fromHex n; let p ← fromHex p; let e ← fromHex e; let d ← fromHex d
    let pr ← fromHex pr
    some { lv := { name := n, previous := p, escalate := e, deescalate := d, escalateAuth := s2b au },
           asks := s2b ak, prompt := pr, row := parseBits row }
  | _ => none

def parseLevels (s : String) : Option (List LvRec) :=
  if s == "." then some [] else (s.splitOn ",").mapM parseLevel

def parseList (s : String) : Option (List Bytes) :=
  if s == "_" then some [] else (s.splitOn "+").mapM fromHex

/-- an option list: tokens joined by `/`: `i` = an option of another layer (ignored by
`network.NewOperation`), `l<hex>` = `WithPrivilegeLevel`; `n` = no options -/
def parseOpts (s : String) : Option (List Opt) :=
  if s == "n" then some [] else
    (s.splitOn "/").mapM fun t =>
      if t == "i" then some Opt.ignored
      else if t.startsWith "l" then (fromHex (t.drop 1).toString).map Opt.level
      else none

/-- the privilege-level field of an operation: plain hex, or an option list. `spec = false`: what
the code's `NewOperation` loop (as regenerated from the source) makes of the list; `spec = true`:
what the property demands — the explicit level wherever it stands (the last one given) -/
def parsePriv (spec : Bool) (s : String) : Option Bytes :=
  if s == "n" || s.startsWith "i" || s.startsWith "l" then do
    let opts ← parseOpts s
    if spec then
      some ((opts.filterMap fun o => match o with | .level x => some x | _ => none).getLast?.getD [])
    else
      match newOperation opts with
      | .ok p => some p
      | .error _ => none
  else fromHex s

def parseOp (spec : Bool) (s : String) : Option Op :=
  match s.splitOn ":" with
  | ["cmd", a] => do some (.sendCommand (← fromHex a))
  | ["cmds", l] => do some (.sendCommands (← parseList l))
  | ["cfgs", l, p] => do some (.sendConfigs (← parseList l) (← parsePriv spec p))
  | ["cfg", a, p] => do some (.sendConfig (← fromHex a) (← parsePriv spec p))
  | ["acq", a] => do some (.acquirePriv (← fromHex a))
  | ["int", l, p] => do some (.sendInteractive (← parseList l) (← parsePriv spec p))
  | _ => none

def parseOps (spec : Bool) (s : String) : Option (List Op) :=
  if s == "." then some [] else (s.splitOn ",").mapM (parseOp spec)

def rotate {α : Type} (l : List α) (k : Nat) : List α :=
  if l.isEmpty then l else l.drop (k % l.length) ++ l.take (k % l.length)

/-- a family of valid map-iteration oracles selected by a seed: rotations and reversals that
differ per tick and per working-steps length -/
def seedOrders (seed : Nat) (t : Nat) : Orders where
  nbr := fun ws l =>
    let r := rotate l (seed + 3 * t + ws.length)
    if (seed / 7 + t + ws.length) % 2 == 0 then r else r.reverse
  lv := fun l =>
    let r := rotate l (seed / 3 + t)
    if (seed / 5 + t) % 2 == 0 then r else r.reverse

def mkCfg (rs : List LvRec) (default secret : Bytes) (seed : Nat) : Cfg where
  L := rs.map (·.lv)
  default := default
  secret := secret
  asks := fun x => (rs.find? (·.lv.name == x)).map (·.asks) |>.getD false
  promptOf := fun m => (rs.find? (·.lv.name == m)).map (·.prompt) |>.getD []
  matchP := fun l p =>
    -- the level's row, at the index of the level whose prompt this is
    match rs.find? (·.lv.name == l.name) with
    | none => false
    | some r => ((rs.zip r.row).find? (fun x => x.1.prompt == p)).map (·.2) |>.getD false
  orc := seedOrders seed

def errName : Option Err → String
  | none => "nil" | some .privilege => "privilege" | some .timeout => "timeout"
  | some .noop => "noop" | some .panic => "panic"

def showLog (l : List (Bytes × Bytes)) : String :=
  if l.isEmpty then "." else ",".intercalate (l.map fun e => toHex e.1 ++ ":" ++ toHex e.2)

def showList (l : List String) : String := if l.isEmpty then "." else ",".intercalate l

/-- the model of the code: run the operations one by one, record error and device mode after each -/
def modelRun (c : Cfg) : Sess → List Op → List String × List String × List String × Sess
  | s, [] => ([], [], [], s)
  | s, op :: ops =>
    let (e, s1) := runOp c s op
    let (es, ms, cs, s2) := modelRun c s1 ops
    (errName e :: es, toHex s1.dev.mode :: ms, toHex s1.cache :: cs, s2)

/-- the property's demand, computed without the search and without the loop: refused when the
level is unknown; otherwise (unless `SendCommand(s)` finds the default cached) the acquisition log
along `treePath`, then the payload lines in the level -/
def specRun (c : Cfg) : Bytes → Bytes → List Op → List String × List String × List (Bytes × Bytes)
  | _, _, [] => ([], [], [])
  | mode, cache, op :: ops =>
    let lvl := opLevel c op
    let skip := opSkips c { dev := { mode := mode, awaiting := none, log := [] }, cache := cache, tick := 0 } op
    if !skip && !(names c.L).contains lvl then
      let (es, ms, lg) := specRun c mode cache ops
      ("privilege" :: es, toHex mode :: ms, lg)
    else
      let entries := (if skip then [] else expectedLog c (treePath c.L mode lvl)) ++
        (opLines op).map fun l => (lvl, l)
      let (es, ms, lg) := specRun c lvl lvl ops
      (errName (opErr op) :: es, toHex lvl :: ms, entries ++ lg)

/-- the fault-aware model, operation by operation -/
def modelRunF (c : Cfg) (rb : Bool) (faults : Nat → Bool) :
    Sess → List Op → List String × List String × List String × Sess
  | s, [] => ([], [], [], s)
  | s, op :: ops =>
    let (e, s1) := runOpF c rb faults s op
    let (es, ms, cs, s2) := modelRunF c rb faults s1 ops
    (errName e :: es, toHex s1.dev.mode :: ms, toHex s1.cache :: cs, s2)

/-- the scenario with only the records selected by `bits` configured in the driver (prompts, asks
and match rows still cover every device level) -/
def mkCfgSub (rs : List LvRec) (bits : List Bool) (default secret : Bytes) (seed : Nat) : Cfg :=
  { mkCfg rs default secret seed with L := ((rs.zip bits).filter (·.2)).map (·.1.lv) }

inductive Tok
  | item (model spec : Item)
  | upd (bits : List Bool)
  | dflt (d : Bytes)

def parseTok (s : String) : Option Tok :=
  if s == "gp" then some (.item .getPrompt .getPrompt)
  else if s == "ref" then some (.item .refused .refused)
  else if s == "mc" then some (.item (.op (.sendCommands [])) (.op (.sendCommands [])))
  else match s.splitOn ":" with
    | ["upd", b] => some (.upd (parseBits b))
    | ["def", d] => (fromHex d).map .dflt
    | _ => do
      let m ← parseOp false s
      let sp ← parseOp true s
      some (.item (.op m) (.op sp))

def parseToks (s : String) : Option (List Tok) :=
  if s == "." then some [] else (s.splitOn ",").mapM parseTok

def domB (c : Cfg) : Bool :=
  isTree c.L && recognises c && ambigLeaf c && cmdsOK c.L && asksOK c && (names c.L).contains c.default

def invB (c : Cfg) (s : Sess) : Bool :=
  s.dev.awaiting.isNone && (names c.L).contains s.dev.mode &&
  (!(names c.L).contains s.cache || s.cache == s.dev.mode) &&
  (unambB c s.dev.mode || s.cache == s.dev.mode)

/-- the state is described by the scenario: the invariant holds, or the device shows a prompt no
configured level accepts (every acquisition is refused: `undeterminable_prompt_refused`) -/
def stateOK (c : Cfg) (s : Sess) : Bool :=
  invB c s || (s.dev.awaiting.isNone && undeterminable c s.dev.mode && !(names c.L).contains s.cache)

/-- model run of a script, with the decidable side conditions of `script_coherent` evaluated along
the way; `mk` builds the scenario from (bits, default) -/
def scriptRun (mk : List Bool → Bytes → Cfg) :
    List Bool → Bytes → Sess → List Tok → Bool × List String × List String × List String × Sess
  | _, _, s, [] => (true, [], [], [], s)
  | bits, d, s, t :: rest =>
    let c := mk bits d
    match t with
    | .item m _ =>
      let ok := match m with
        | .op o => (opLines o).all fun l => l.isEmpty || isPayload c.L l
        | _ => true
      let r := runItem c s m
      let (ok', es, ms, cs, s2) := scriptRun mk bits d r.2.2 rest
      (ok && ok', errName r.1 :: es, toHex r.2.2.dev.mode :: ms, toHex r.2.2.cache :: cs, s2)
    | .upd bits' =>
      let c' := mk bits' d
      let (ok', es, ms, cs, s2) := scriptRun mk bits' d s rest
      (domB c' && stateOK c' s && ok', "nil" :: es, toHex s.dev.mode :: ms, toHex s.cache :: cs, s2)
    | .dflt d' =>
      let c' := mk bits d'
      let (ok', es, ms, cs, s2) := scriptRun mk bits d' s rest
      (domB c' && stateOK c' s && ok', "nil" :: es, toHex s.dev.mode :: ms, toHex s.cache :: cs, s2)

/-- the property's demand for a script, computed without search and without the loop -/
def scriptSpec (mk : List Bool → Bytes → Cfg) :
    List Bool → Bytes → Bytes → Bytes → List Tok → List String × List String × List (Bytes × Bytes)
  | _, _, _, _, [] => ([], [], [])
  | bits, d, mode, cache, t :: rest =>
    let c := mk bits d
    match t with
    | .upd bits' =>
      let (es, ms, lg) := scriptSpec mk bits' d mode cache rest
      ("nil" :: es, toHex mode :: ms, lg)
    | .dflt d' =>
      let (es, ms, lg) := scriptSpec mk bits d' mode cache rest
      ("nil" :: es, toHex mode :: ms, lg)
    | .item _ .getPrompt =>
      let (es, ms, lg) := scriptSpec mk bits d mode cache rest
      ("nil" :: es, toHex mode :: ms, (mode, []) :: lg)
    | .item _ .refused =>
      let (es, ms, lg) := scriptSpec mk bits d mode cache rest
      ("noop" :: es, toHex mode :: ms, lg)
    | .item _ (.reconfig _) =>
      let (es, ms, lg) := scriptSpec mk bits d mode cache rest
      ("nil" :: es, toHex mode :: ms, lg)
    | .item _ (.op op) =>
      let lvl := opLevel c op
      let skip := opSkips c { dev := { mode := mode, awaiting := none, log := [] }, cache := cache, tick := 0 } op
      if !skip && !(names c.L).contains lvl then
        let (es, ms, lg) := scriptSpec mk bits d mode cache rest
        ("privilege" :: es, toHex mode :: ms, lg)
      else if !skip && undeterminable c mode then
        -- the prompt is read (one bare return) and no level accepts it: refused, nothing else sent
        let (es, ms, lg) := scriptSpec mk bits d mode cache rest
        ("privilege" :: es, toHex mode :: ms, (mode, []) :: lg)
      else
        let entries := (if skip then [] else expectedLog c (treePath c.L mode lvl)) ++
          (opLines op).map fun l => (lvl, l)
        let (es, ms, lg) := scriptSpec mk bits d lvl lvl rest
        (errName (opErr op) :: es, toHex lvl :: ms, entries ++ lg)

def showPath : Option (List Bytes) → String
  | none => "none"
  | some p => if p.isEmpty then "_" else "+".intercalate (p.map toHex)

end C04
open Scrapli Scrapli.Priv C04

def handleC04 : List String → String
  | ["sess", lv, dflt, sec, start, seed, ops] =>
    match parseLevels lv, fromHex dflt, fromHex sec, fromHex start, seed.toNat?, parseOps false ops,
      parseOps true ops with
    | some rs, some dflt, some sec, some start, some seed, some ops, some sops =>
      let c := mkCfg rs dflt sec seed
      let payloadOK := ops.all fun op => (opLines op).all fun l => l.isEmpty || isPayload c.L l
      let dom := isTree c.L && recognises c && ambigLeaf c && cmdsOK c.L && asksOK c &&
        (names c.L).contains dflt && (names c.L).contains start && unambB c start && payloadOK
      let s0 : Sess := { dev := { mode := start, awaiting := none, log := [] }, cache := [], tick := 0 }
      let (mes, mms, mcs, s1) := modelRun c s0 ops
      let (ses, sms, slog) := specRun c start [] sops
      s!"{b2s dom} {showList mes} {showList mms} {showLog s1.dev.log} {showList ses} {showList sms} {showLog slog} {showList mcs}"
    | _, _, _, _, _, _, _ => "bad-op"
  | ["script", lv, bits, dflt, sec, start, seed, items] =>
    match parseLevels lv, fromHex dflt, fromHex sec, fromHex start, seed.toNat?, parseToks items with
    | some rs, some dflt, some sec, some start, some seed, some toks =>
      let mk := fun (b : List Bool) (d : Bytes) => mkCfgSub rs b d sec seed
      let bits := parseBits bits
      let c0 := mk bits dflt
      let s0 : Sess := { dev := { mode := start, awaiting := none, log := [] }, cache := [], tick := 0 }
      let (ok, mes, mms, mcs, s1) := scriptRun mk bits dflt s0 toks
      let dom := domB c0 && stateOK c0 s0 && ok
      let (ses, sms, slog) := scriptSpec mk bits dflt start [] toks
      s!"{b2s dom} {showList mes} {showList mms} {showLog s1.dev.log} {showList ses} {showList sms} {showLog slog} {showList mcs}"
    | _, _, _, _, _, _ => "bad-op"
  | ["fsess", lv, dflt, sec, start, seed, ops, ftick, rb] =>
    match parseLevels lv, fromHex dflt, fromHex sec, fromHex start, seed.toNat?, parseOps false ops, ftick.toNat? with
    | some rs, some dflt, some sec, some start, some seed, some ops, some ftick =>
      let c := mkCfg rs dflt sec seed
      let payloadOK := ops.all fun op => (opLines op).all fun l => l.isEmpty || isPayload c.L l
      let dom := isTree c.L && recognises c && allUnamb c && cmdsOK c.L && asksOK c &&
        (names c.L).contains dflt && (names c.L).contains start && payloadOK
      let s0 : Sess := { dev := { mode := start, awaiting := none, log := [] }, cache := [], tick := 0 }
      let (mes, mms, mcs, s1) := modelRunF c (s2b rb) (fun t => t == ftick) s0 ops
      s!"{b2s dom} {showList mes} {showList mms} {showLog s1.dev.log} {showList mcs}"
    | _, _, _, _, _, _, _ => "bad-op"
  | ["path", lv, cur, tgt, seed] =>
    match parseLevels lv, fromHex cur, fromHex tgt, seed.toNat? with
    | some rs, some cur, some tgt, some seed =>
      let c := mkCfg rs [] [] seed
      let dom := isTree c.L && (names c.L).contains cur && (names c.L).contains tgt
      s!"{b2s dom} {showPath (pathDFS c.L (c.orc 0) cur tgt)} {showPath (some (treePath c.L cur tgt))}"
    | _, _, _, _ => "bad-op"
  | ["proc", lv, cache, tgt, mode, seed] =>
    match parseLevels lv, fromHex cache, fromHex tgt, fromHex mode, seed.toNat? with
    | some rs, some cache, some tgt, some mode, some seed =>
      let c := mkCfg rs [] [] seed
      let dom := isTree c.L && recognises c && ambigLeaf c && (names c.L).contains mode &&
        (names c.L).contains tgt &&
        (unambB c mode || cache == mode || (mode == tgt && !(names c.L).contains cache))
      match processAcquire c.matchP (c.orc 0) c.L cache tgt (c.promptOf mode) with
      | .error e => s!"{b2s dom} error {errName (some e)} -"
      | .ok st =>
        let a := match st.action with
          | .noAction => "noAction" | .escalate => "escalateAction" | .deescalate => "deescalateAction"
        s!"{b2s dom} {a} {toHex st.next} {toHex st.cache}"
    | _, _, _, _, _ => "bad-op"
  | _ => "bad-op"

end Driver.C04