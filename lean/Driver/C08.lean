import Driver.Proto
namespace Driver
open Scrapli

/-- line-protocol handler for property C08 (arguments after the leading `c08` token) -/
def handleC08 : List String → String
  | _ => "bad-op"

end Driver
