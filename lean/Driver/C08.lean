import Driver.Proto
import ScrapliModel.Netconf.Store
import ScrapliModel.Netconf.StoreTimed
import ScrapliModel.Netconf.StoreSubs
namespace Driver.C08
open Scrapli Scrapli.Netconf.Store

/-! Line protocol for property C08 (arguments after the leading `c08` token)

* `scan <hex>` → `m10 m11 after10 after11 rpc id` : the scanners on one byte string
  (`after*` and `id` are `N` when there is no match) — diffed against Go `regexp` by the harness.
* `sess <1.0|1.1> <script>` → `dom reasons model pending spec subs` where the script is a `;`-separated list of
  `C` (call) `C<n>` (call whose timer is armed with n ticks) `T<n>` (n ticks pass) `P` (poll) `X` (expire) `R<hex>` (one read) `Z` (counterfactual: empty the buffer) and deliveries
  `D|E:<body>:<tail>|<chunks>`, `D|R:<to>:<body>:<tail>|<chunks>`,
  `D|ER:<ebody>:<etail>:<to>:<body>:<tail>|<chunks>` (chunks: comma separated hex, `.` = none).
  `dom` = every delivery satisfies `Delivery.valid` and there are no reads outside deliveries;
  `reasons` = per delivery the first failing hypothesis (`ok` if none); `model` / `spec` = completed calls as
  `id:hex` / `id:T` joined by `,` (`.` = none). `model` carries the raw message the model's call
  returned; `spec` the reply the server framed (body only) that the property says must come back.
-/

def c08ver (s : String) : Option Ver :=
  if s == "1.0" then some .v10 else if s == "1.1" then some .v11 else none

inductive Item
  | ev (e : Ev)
  | dlv (d : Delivery)
  /-- counterfactual only (`Z`): empty the read loop's buffer here. Used by the harness to decide
  whether an anomaly of a later call is explained by bytes a known finding left in the buffer. -/
  | reset
  /-- `C<n>`: a call whose timer is armed with `n` ticks (timed layer) -/
  | tcall (timeout : Nat)
  /-- `T<n>`: `n` ticks pass -/
  | ticks (n : Nat)
  /-- a delivery whose message may be a reply, a notification or both (`D|M:…`, `D|EM:…`) -/
  | dlv2 (d : Delivery2)
  /-- `G<id>`: `GetSubscriptionMessages(id)` -/
  | get (id : Nat)

def parseUnit (s : String) : Option Burst :=
  match s.splitOn ":" with
  | ["E", b, t] => do pure (.echoOnly ⟨← fromHex b, ← fromHex t⟩)
  | ["R", to, b, t] => do pure (.replyOnly ⟨← to.toNat?, ← fromHex b, ← fromHex t⟩)
  | ["ER", eb, et, to, b, t] => do
    pure (.echoReply ⟨← fromHex eb, ← fromHex et⟩ ⟨← to.toNat?, ← fromHex b, ← fromHex t⟩)
  | _ => none

def parseBurst2 (s : String) : Option Burst2 :=
  match s.splitOn ":" with
  | ["M", to, sub, b, t] => do pure (.msgOnly ⟨← to.toNat?, ← sub.toNat?, ← fromHex b, ← fromHex t⟩)
  | ["EM", eb, et, to, sub, b, t] => do
    pure (.echoMsg ⟨← fromHex eb, ← fromHex et⟩ ⟨← to.toNat?, ← sub.toNat?, ← fromHex b, ← fromHex t⟩)
  | _ => none

def parseItem (s : String) : Option Item :=
  if s == "C" then some (.ev .call)
  else if s == "P" then some (.ev .poll)
  else if s == "X" then some (.ev .expire)
  else if s == "Z" then some .reset
  else if s.startsWith "C" then ((s.drop 1).toString.toNat?).map .tcall
  else if s.startsWith "T" then ((s.drop 1).toString.toNat?).map .ticks
  else if s.startsWith "G" then ((s.drop 1).toString.toNat?).map .get
  else if s.startsWith "R" then (fromHex (s.drop 1).toString).map fun b => .ev (.read b)
  else match s.splitOn "|" with
    | ["D", u, cs] =>
      if u.startsWith "M:" || u.startsWith "EM:" then do pure (.dlv2 ⟨← parseBurst2 u, ← hexList cs⟩)
      else do pure (.dlv ⟨← parseUnit u, ← hexList cs⟩)
    | _ => none

def itemEvents : Item → List Ev
  | .ev e => [e]
  | .dlv d => d.chunks.map .read
  | .dlv2 d => d.chunks.map .read
  | _ => []

def runItem (v : Ver) (t : TClient) : Item → TClient
  | .reset => { t with c := { t.c with st := { t.c.st with buf := [] } } }
  | .tcall d => tstep v t (.call d)
  | .ticks n => trun v t (List.replicate n .tick)
  | it => { t with c := run v t.c (itemEvents it) }

def showResults (rs : List (Nat × Option Bytes)) : String :=
  if rs.isEmpty then "." else
  ",".intercalate (rs.map fun (id, o) => match o with
    | some m => s!"{id}:{toHex m}"
    | none => s!"{id}:T")

/-- what the property demands, computed from the server's side of the story only: a call whose
reply (the reply whose `to` is the call's id) has been delivered in full returns that reply at its
next poll; a call that expires returns an error. -/
structure SpecSt where
  nextId : Nat
  pending : Option Nat
  /-- ticks left on the timer of the call in flight (armed when that call started) -/
  left : Nat := 0
  delivered : List Reply
  results : List (Nat × Option Bytes)

def specStep (s : SpecSt) : Item → SpecSt
  | .tcall d => match s.pending with
    | some _ => s
    | none => { s with pending := some s.nextId, nextId := s.nextId + 1, left := d }
  | .ticks n => match s.pending with
    | none => s
    | some id =>
      if s.left ≤ n then { s with pending := none, results := s.results ++ [(id, none)] }
      else { s with left := s.left - n }
  | .ev .call => match s.pending with
    | some _ => s
    | none => { s with pending := some s.nextId, nextId := s.nextId + 1 }
  | .ev (.read _) => s
  | .ev .poll => match s.pending with
    | none => s
    | some id => match s.delivered.find? (fun r => r.to == id) with
      | some r => { s with pending := none, results := s.results ++ [(id, some r.body)] }
      | none => s
  | .ev .expire => match s.pending with
    | none => s
    | some id => { s with pending := none, results := s.results ++ [(id, none)] }
  | .dlv d => { s with delivered := s.delivered ++ d.burst.replies }
  | .reset => s
  | .dlv2 d => { s with delivered := s.delivered ++
      (d.burst.msgs.filter (fun m => m.to != 0)).map fun m => ⟨m.to, m.body, m.tail⟩ }
  | .get _ => s

/-- the hypotheses of `goodReply` / `goodEcho` / `Delivery.valid` that fail, joined by `+`
(`ok` if none) -/
def joinReasons (l : List (Bool × String)) : String :=
  let bad := (l.filter (·.1)).map (·.2)
  if bad.isEmpty then "ok" else "+".intercalate bad

def replyReason (v : Ver) (r : Reply) : String :=
  joinReasons [(!allLF r.tail, "tail"), (containsRpcClose (r.body ++ r.tail), "rpc"),
    (!delimMatch v r.body, "nofire"), (!noEarlyFire v r.body, "early"),
    (!(firstId r.body == some r.to && r.to != 0), "id"),
    (!(v == .v10 || startsLFOrEmpty r.body), "start")]

def echoReason (v : Ver) (e : Echo) : String :=
  joinReasons [(!allLF e.tail, "etail"), (!containsRpcClose e.body, "erpc"),
    (!delimMatch v e.body, "enofire"), (!noEarlyFire v e.body, "eearly"),
    (!(afterFirstOpt v e.body == some []), "eafter")]

def msgReason (v : Ver) (m : Msg) : String :=
  joinReasons [(!allLF m.tail, "tail"), (containsRpcClose (m.body ++ m.tail), "rpc"),
    (!delimMatch v m.body, "nofire"), (!noEarlyFire v m.body, "early"),
    (m.to != 0 && msgKey m.body != m.to, "id"),
    (m.to == 0 && msgKey m.body != 0, "nid"),
    (subKey m.body != m.sub, "sub"),
    (!(v == .v10 || startsLFOrEmpty m.body), "start")]

def delivery2Reason (v : Ver) (d : Delivery2) : String :=
  let r := match d.burst with
    | .echoOnly e => echoReason v e
    | .msgOnly m => msgReason v m
    | .echoMsg e m => if echoReason v e != "ok" then echoReason v e else msgReason v m
  if r != "ok" then r
  else if !(d.chunks.flatten == d.burst.bytes) then "seg"
  else if !d.valid v then "idle"
  else "ok"

/-- the subscription side of a session: reads of every item, `G<id>` = GetSubscriptionMessages -/
def subEvents : Item → List SEv
  | .ev (.read c) => [.read c]
  | .dlv d => d.chunks.map .read
  | .dlv2 d => d.chunks.map .read
  | .get id => [.get id]
  | _ => []

def showGot (g : List (Nat × List Bytes)) : String :=
  if g.isEmpty then "." else
  ";".intercalate (g.map fun (id, ms) => s!"{id}={showHexList ms}")

/-- linear-time stand-in for `!noEarlyFire` used only to CLASSIFY messages too large for the
quadratic predicate (their hypotheses are never claimed to hold): some proper prefix ends right
after the first end-of-message marker -/
def early11From (ls : Bool) : Bytes → Bool
  | [] => false
  | c :: t =>
    (ls && (match c :: t with | a :: b :: _ :: _ => a == HASH && b == HASH | _ => false))
      || early11From (c == LF) t

def earlyFast (v : Ver) (body : Bytes) : Bool :=
  match v with
  | .v10 => match afterFirstOpt .v10 body with | some r => !r.isEmpty | none => false
  | .v11 => early11From true body

def bigReason (v : Ver) (to : Nat) (isNotif : Bool) (body tail : Bytes) : String :=
  joinReasons [(true, "big"), (!allLF tail, "tail"), (containsRpcClose (body ++ tail), "rpc"),
    (!delimMatch v body, "nofire"), (earlyFast v body, "early"),
    (!isNotif && !(firstId body == some to && to != 0), "id"),
    (isNotif && msgKey body != 0, "nid")]

def bigBurstReason (v : Ver) : Burst → String
  | .echoOnly _ => "big"
  | .replyOnly r => bigReason v r.to false r.body r.tail
  | .echoReply _ r => bigReason v r.to false r.body r.tail

def bigBurst2Reason (v : Ver) : Burst2 → String
  | .echoOnly _ => "big"
  | .msgOnly m => bigReason v m.to (m.to == 0) m.body m.tail
  | .echoMsg _ m => bigReason v m.to (m.to == 0) m.body m.tail

def deliveryReason (v : Ver) (d : Delivery) : String :=
  let r := match d.burst with
    | .echoOnly e => echoReason v e
    | .replyOnly r => replyReason v r
    | .echoReply e r => if echoReason v e != "ok" then echoReason v e else replyReason v r
  if r != "ok" then r
  else if !(d.chunks.flatten == d.burst.bytes) then "seg"
  else if !d.valid v then "idle"
  else "ok"

def showOptBytes : Option Bytes → String
  | some b => toHex b
  | none => "N"

def handleC08 : List String → String
  | ["scan", h] =>
    match fromHex h with
    | some b =>
      let id := match firstId b with | some n => toString n | none => "N"
      s!"{b2s (delimMatch .v10 b)} {b2s (delimMatch .v11 b)} {showOptBytes (afterFirstOpt .v10 b)} {showOptBytes (afterFirstOpt .v11 b)} {b2s (containsRpcClose b)} {id} {b2s (containsSubClose b)} {match firstSubId b with | some n => toString n | none => "N"}"
    | none => "bad-op"
  | ["sess", v, script] =>
    match c08ver v, (script.splitOn ";").mapM parseItem with
    | some v, some items =>
      -- `noEarlyFire` tries every prefix (quadratic): hypotheses of messages beyond 2600 bytes are not
      -- evaluated, the session then counts as outside the theorems' domain (reason `big`); the
      -- model run and the server-side oracle still apply to it
      let big := fun (it : Item) => match it with
        | .dlv d => decide (d.burst.bytes.length > 2600)
        | .dlv2 d => decide (d.burst.bytes.length > 2600)
        | _ => false
      let dom := items.all fun it => !big it && match it with
        | .dlv d => d.valid v | .dlv2 d => d.valid v | .ev (.read _) => false | .reset => false | _ => true
      let rs := items.filterMap fun it => match it with
        | .dlv d => some (if big it then bigBurstReason v d.burst else deliveryReason v d)
        | .dlv2 d => some (if big it then bigBurst2Reason v d.burst else delivery2Reason v d) | _ => none
      let sc := srun v sinit (items.flatMap subEvents)
      let reasons := if rs.isEmpty then "." else ",".intercalate rs
      let c := (items.foldl (runItem v) tinit).c
      let sp := items.foldl specStep ⟨Gen.Netconf.initialMessageID, none, 0, [], []⟩
      let pend := match c.pending with | some id => toString id | none => "-"
      s!"{b2s dom} {reasons} {showResults c.results} {pend} {showResults sp.results} {showGot sc.got}"
    | _, _ => "bad-op"
  | _ => "bad-op"

end Driver.C08