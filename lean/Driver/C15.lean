import Driver.Proto
import ScrapliModel.Telnet
namespace Driver.C15
open Scrapli Scrapli.Telnet

def showSt (s : St) : String := s!"{toHex s.ctrl} {toHex s.data} {showHexList s.replies}"

/-- line-protocol handler for property C15 (arguments after the leading `c15` token)

* `step <ctrl> <byte>` → `<ctrl' data' replies'>` of the repaired model, then of the as-is model
  (one parser step from `ctrlBuf = ctrl`, empty `initialBuf`)
* `open <bytes>` → `dom pending spec_data spec_replies  model(ctrl data replies)  asis(ctrl data replies)`
  where `dom` = the stream is a complete RFC 854 token stream of data, negotiations, two-byte
  commands 241–249 and escaped IAC (the property's quantifier), `spec_*` come from the tokenizer
* `reads <initialBuf> <sock chunks> <n>` → the results of the first `n` `Telnet.Read` calls -/
def handleC15 : List String → String
  | ["step", ctrl, b] =>
    match fromHex ctrl, fromHex b with
    | some ctrl, some [c] =>
      let s : St := { ctrl := ctrl }
      s!"{showSt (step s c)} {showSt (stepAsIs s c)}"
    | _, _ => "bad-op"
  | ["open", h] =>
    match fromHex h with
    | some bs =>
      let r := tokenize bs
      s!"{b2s (inDomain bs)} {toHex r.2} {toHex (delivered r.1)} {showHexList (answers r.1)} {showSt (openWith bs)} {showSt (negotiateAsIs {} bs)}"
    | none => "bad-op"
  -- specification only (linear time; for very long openings): `dom pending spec_data spec_replies`
  | ["spec", h] =>
    match fromHex h with
    | some bs =>
      let r := tokenize bs
      s!"{b2s (inDomain bs)} {toHex r.2} {toHex (delivered r.1)} {showHexList (answers r.1)}"
    | none => "bad-op"
  | ["reads", buf, sock, n] =>
    match fromHex buf, hexList sock, n.toNat? with
    | some buf, some sock, some n => showHexList (Conn.reads n ⟨buf, sock⟩)
    | _, _, _ => "bad-op"
  -- `Read(n)` with a read size: policy `w` = the code (whole buffer first), `k` = at most n bytes and
  -- keep the rest, `d` = copy n bytes and drop the rest
  | ["readsn", pol, size, buf, sock, k] =>
    match fromHex buf, hexList sock, size.toNat?, k.toNat? with
    | some buf, some sock, some size, some k =>
      let p := if pol == "k" then BufPolicy.keepRest else if pol == "d" then BufPolicy.dropRest else BufPolicy.whole
      showHexList (Conn.readsN p size k ⟨buf, sock⟩)
    | _, _, _, _ => "bad-op"
  -- consecutive openings of one transport object: `flags` has one `1`/`0` per opening (the caller
  -- read after it / nobody read), `ops` the bytes of each negotiation phase
  | ["history", flags, ops] =>
    match hexList ops with
    | some ops =>
      let fl := flags.toList.map (· == '1')
      if fl.length != ops.length then "bad-op" else
      let os := (ops.zip fl).map fun (b, d) => ({ bytes := b, drained := d } : Opening)
      " ".intercalate ((history [] os).map fun s => s!"{toHex s.ctrl}/{toHex s.data}/{showHexList s.replies}")
    | none => "bad-op"
  | _ => "bad-op"

end Driver.C15