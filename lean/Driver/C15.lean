import Driver.Proto
namespace Driver
open Scrapli

/-- line-protocol handler for property C15 (arguments after the leading `c15` token) -/
def handleC15 : List String → String
  | _ => "bad-op"

end Driver
