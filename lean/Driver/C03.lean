import Driver.Proto
namespace Driver.C03
open Scrapli

/-- line-protocol handler for property C03 (arguments after the leading `c03` token) -/
def handleC03 : List String → String
  | _ => "bad-op"

end Driver.C03