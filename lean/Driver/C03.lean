import Driver.Proto
import ScrapliModel.Netconf.Request
namespace Driver.C03
open Scrapli Scrapli.Netconf Scrapli.Netconf.Req

namespace C03

def ver (s : String) : Option Version :=
  if s == "1.0" then some .v10 else if s == "1.1" then some .v11 else none

/-- decidable form of `Legal11` (Lemmas/Request.lean) -/
def legal11 (rs : List Bytes) : Bool := rs.all fun r => !r.isEmpty && r.length < 2 ^ 32

def startsNonWsB : Bytes → Bool
  | [] => false
  | b :: _ => !isXmlWs b

/-- decidable form of `Legal10 delim` -/
def legal10 (rs : List Bytes) : Bool :=
  rs.all fun r => startsNonWsB r &&
    !isInfix Gen.Netconf.v1Dot0Delim (r ++ Gen.Netconf.v1Dot0Delim.dropLast)

def legal (v : Version) (rs : List Bytes) : Bool :=
  match v with
  | .v10 => legal10 rs
  | .v11 => legal11 rs

/-- hypothesis of `header_only_prefix` -/
def startsTag : Bytes → Bool
  | 60 :: c :: _ => c != 47
  | _ => false

/-- `body = rpcBody id inner` for some `inner`? -/
def stripRpc (id : Nat) (body : Bytes) : Option Bytes :=
  let pre := rpcOpenPrefix ++ (decDigits id ++ [34, GTc])
  if hasPrefix body pre && hasPrefix body.reverse rpcClose.reverse
      && pre.length + rpcClose.length ≤ body.length then
    some ((body.drop pre.length).take (body.length - pre.length - rpcClose.length))
  else none

/-- the session byte stream with the self-closing rewrite of the code AS IT IS (only used to
classify a disagreement as the recorded defect) -/
def wireAsIs (v : Version) (sc nh : Bool) (bodies : List Bytes) : Bytes :=
  let raw (body : Bytes) : Bytes :=
    let msg := if nh then body else Gen.Netconf.xmlHeader ++ body
    if sc then forceSelfClosingGo Match.eligibleAsIs msg else msg
  let framed (msg : Bytes) : Bytes :=
    match v with
    | .v10 => msg ++ Gen.Netconf.v1Dot0Delim
    | .v11 => HASH :: (decDigits msg.length ++ LF :: (msg ++ [LF, HASH, HASH]))
  clientHello v ++ ret ++
    (bodies.map fun b => framed (raw b) ++ ret ++ (match v with | .v10 => [] | .v11 => ret)).flatten

end C03

open C03 in
/-- line-protocol handler for property C03 (arguments after the leading `c03` token)

* `fsc <hex>` → `dom scanner go asis`: the single-pass scanner (the model the theorems are about),
  the statement-by-statement model of the repaired Go function, the same for the code as it is;
  `dom` = scanner and statement-by-statement model agree on this input
* `chk <in> <out>` → `1` iff the proved checker accepts `Rewrites in out`
* `session <v> <sc> <nh> <inners>` → `dom wire raws framed spec` : the model's byte stream of a
  session whose k-th marshalled payload is `inners[k]` (message-ids from `initialMessageID`),
  the reported inputs, the framed inputs, and whether the strict decoder recovers the inputs
  from the model wire (theorem `session_decodes`, evaluated)
* `session-asis <v> <sc> <nh> <inners>` → the wire with the rewrite of the code as it is
* `wire <v> <sc> <nh> <bodies>` → same for explicit marshalled rpc bodies
* `decode <v> <wire>` → `none` | `some <hello> <msgs>` (strict RFC decoder on observed bytes)
* `body <id> <hex>` → `1 <inner>` if the bytes are `rpcBody id inner`, else `0 -`
* `embed subtree <filter>` / `embed edit <target> <config>` → the marshalled element that carries the
  caller's fragment (model of the `,innerxml` embedding)
* `msgid <hex>` → message-id read back by `msgIdOf` (`-` if none)
-/
def handleC03 : List String → String
  | ["fsc", h] =>
    match fromHex h with
    | some b =>
      let sc := forceSelfClosing b
      let go := forceSelfClosingGo Match.eligible b
      s!"{b2s (sc == go)} {toHex sc} {toHex go} {toHex (forceSelfClosingGo Match.eligibleAsIs b)}"
    | none => "bad-op"
  | ["chk", a, b] =>
    match fromHex a, fromHex b with
    | some x, some y => b2s (checkRewrite (x.length + y.length + 1) x y)
    | _, _ => "bad-op"
  | ["session", v, sc, nh, inners] =>
    match ver v, hexList inners with
    | some v, some inners =>
      let sc := s2b sc
      let nh := s2b nh
      let bodies := sessionBodies Gen.Netconf.initialMessageID inners
      let ser := bodies.map (serialize v sc nh)
      let rs := ser.map (·.1)
      let w := session v sc nh inners
      let dom := legal v rs
      let spec := strictDecode v w == some rs
      s!"{b2s dom} {toHex w} {showHexList rs} {showHexList (ser.map (·.2))} {b2s spec}"
    | _, _ => "bad-op"
  | ["session-asis", v, sc, nh, inners] =>
    match ver v, hexList inners with
    | some v, some inners =>
      toHex (wireAsIs v (s2b sc) (s2b nh) (sessionBodies Gen.Netconf.initialMessageID inners))
    | _, _ => "bad-op"
  | ["wire", v, sc, nh, bodies] =>
    match ver v, hexList bodies with
    | some v, some bodies =>
      let sc := s2b sc
      let nh := s2b nh
      let ser := bodies.map (serialize v sc nh)
      let rs := ser.map (·.1)
      let w := wire v sc nh bodies
      let dom := legal v rs && (!sc || nh || bodies.all startsTag)
      let spec := strictDecode v w == some rs
      s!"{b2s dom} {toHex w} {showHexList rs} {showHexList (ser.map (·.2))} {b2s spec}"
    | _, _ => "bad-op"
  | ["decode", v, w] =>
    match ver v, fromHex w with
    | some v, some w =>
      match strictDecodeFull v w with
      | none => "none"
      | some (hello, ms) => s!"some {toHex hello} {showHexList ms}"
    | _, _ => "bad-op"
  | ["body", id, h] =>
    match id.toNat?, fromHex h with
    | some id, some b =>
      match stripRpc id b with
      | some inner => s!"1 {toHex inner}"
      | none => "0 -"
    | _, _ => "bad-op"
  | ["embed", "subtree", h] =>
    match fromHex h with
    | some f => toHex (subtreeFilterElem f)
    | none => "bad-op"
  | ["embed", "defaults", h] =>
    match fromHex h with
    | some m =>
      match defaultsElem m with
      | some (some e) => "elem " ++ toHex e
      | some none => "absent -"
      | none => "error -"
    | none => "bad-op"
  | ["embed", "edit", t, h] =>
    match fromHex t, fromHex h with
    | some t, some c => toHex (editConfigElem t c)
    | _, _ => "bad-op"
  | ["msgid", h] =>
    match fromHex h with
    | some b =>
      match msgIdOf b with
      | some n => toString n
      | none => "-"
    | none => "bad-op"
  | _ => "bad-op"

end Driver.C03