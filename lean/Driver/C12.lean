import Driver.Proto
namespace Driver
open Scrapli

/-- line-protocol handler for property C12 (arguments after the leading `c12` token) -/
def handleC12 : List String → String
  | _ => "bad-op"

end Driver
