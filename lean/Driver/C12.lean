import Driver.Proto
import Driver.C01
import ScrapliModel.Interactive
import ScrapliModel.Generated.C12
namespace Driver.C12
open Driver.C01
open Scrapli Scrapli.Chan Scrapli.Inter

namespace C12

def pat (i : Nat) : Bytes → Bool :=
  match Gen.C12.patterns[i]? with
  | some re => fun w => Rx.isMatch re w
  | none => fun _ => false

def parseIdx (s : String) : Option (List Nat) :=
  if s == "." then some [] else (s.splitOn ",").mapM String.toNat?

/-- prompt field: `d` = the channel's default prompt pattern, otherwise an index list = the
    alternation of those table patterns (the network driver's joined level pattern) -/
def mkCfg12 (depth : Nat) (exact : Bool) (ret : Bytes) (prompt : String) : Option Cfg :=
  let base := mkCfg depth exact true ret
  if prompt == "d" then some base
  else (parseIdx prompt).map fun is =>
    { base with promptP := fun w => is.any fun i => pat i w, stripP := fun b => b }

def showTrace (t : List Ev) : String :=
  if t.isEmpty then "." else
  ",".intercalate (t.map fun
    | .deliver b => "d" ++ toHex b
    | .write b false => "w" ++ toHex b
    | .write b true => "r" ++ toHex b)

def exactAt12 (P : Bytes → Bool) (S : Bytes) : Bool :=
  P S && (List.range S.length).all fun k => !P (S.take k)

/-- every read of the run ended exactly at the end of what had been emitted: its predicate held of
    no proper byte prefix of what it consumed (so no segmentation could have ended it earlier) -/
def segExact (cfg : Cfg) (complete : List (Bytes → Bool)) (e : Event) (g : Seg) : Bool :=
  let echoOk :=
    if echoAwaited e && !echoImmediate cfg e.input then
      exactAt12 (echoPred cfg e.input) g.echo.flatten
    else true
  let prompts := complete ++ [e.resp.getD cfg.promptP]
  echoOk && g.ret.isSome && exactAt12 (anyPred prompts cfg) g.resp.flatten

/-- the `WindowSound` hypothesis, evaluated on the buffers of this run -/
def segWindowSound (cfg : Cfg) (complete : List (Bytes → Bool)) (g : Seg) : Bool :=
  complete.all fun p => !p (window g.resp.flatten cfg.depth) || p g.resp.flatten

def zipAll (cfg : Cfg) (complete : List (Bytes → Bool)) : List Event → List Seg → Bool
  | e :: es, g :: gs => segExact cfg complete e g && zipAll cfg complete es gs
  | _, [] => true
  | [], _ :: _ => false

/-- emitted bytes = consumed bytes: nothing of the dialogue was left in the queue -/
def drained (q0 : List Bytes) (reacts : List (List Bytes)) (r : Run (List (List Bytes))) : Bool :=
  let nw := (writesOf r.trace).length
  let emitted := (q0.flatten.length) + ((reacts.take nw).map fun c => c.flatten.length).sum
  emitted == (deliveredOf r.trace).length

def normChunks (cs : List Bytes) : List Bytes := cs.map (normalizeChunk stripAnsi)

def takeFields : Nat → List String → Option (List String × List String)
  | 0, l => some ([], l)
  | _ + 1, [] => none
  | n + 1, x :: t => (takeFields n t).map fun (a, b) => (x :: a, b)

def parseEvents : List String → Option (List Event)
  | [] => some []
  | i :: r :: h :: t => do
    let input ← fromHex i
    let resp ← if r == "-" then some none else r.toNat?.map fun k => some (pat k)
    let rest ← parseEvents t
    pure ({ input := input, resp := resp, hidden := s2b h } :: rest)
  | _ => none

def answer (cfg : Cfg) (dom : Bool) (ws : Bool) (r : Run (List (List Bytes))) : String :=
  let res := match r.res with
    | some b => s!"1 {toHex b}"
    | none => "0 -"
  s!"{b2s dom} {res} {showTrace r.trace} {b2s ws}"

end C12

namespace C12

abbrev SSt := St (List (List Bytes))

/-- `Channel.GetPrompt` (only used to replay what preceded the operation under test): write the
    return, read until the prompt -/
def getPrompt (cfg : Cfg) (s : SSt) : Run (List (List Bytes)) :=
  let s1 := s.write scriptDev cfg.ret
  let rr := readC (promptPred cfg) s1.q []
  { res := if rr.1 then some rr.2.1.flatten else none, st := { s1 with q := rr.2.2 },
    segs := [{ input := cfg.ret, hidden := false, echo := rr.2.1, ret := none, resp := [] }] }

structure Acc where
  st : SSt
  nw : Nat          -- writes so far
  nd : Nat          -- chunks delivered to operations so far
  out : List String

/-- what the harness observed at the transport: `eb[k]` = raw bytes the device had emitted when
    write `k` arrived (last entry: in total), `lens` = raw size of every read chunk in order -/
structure Obs where
  eb : List Nat
  lens : List Nat

def Obs.deliveredRaw (o : Obs) (nd : Nat) : Nat := (o.lens.take nd).sum

/-- at every write that follows a delivery (the end of a read) — and at the end of the operation
    when `checkEnd` — everything the device had emitted so far had been consumed -/
def drainedAt (o : Obs) (checkEnd : Bool) : List Ev → Nat → Nat → Bool → Bool
  | [], nw, nd, afterDel => !(afterDel && checkEnd) || o.eb.getD nw 0 == o.deliveredRaw nd
  | .deliver _ :: t, nw, nd, _ => drainedAt o checkEnd t nw (nd + 1) true
  | .write _ _ :: t, nw, nd, afterDel =>
    (!afterDel || o.eb.getD nw 0 == o.deliveredRaw nd) && drainedAt o checkEnd t (nw + 1) nd false

def countDel : List Ev → Nat
  | [] => 0
  | .deliver _ :: t => countDel t + 1
  | .write _ _ :: t => countDel t

def record (o : Obs) (a : Acc) (cfg : Cfg) (r : Run (List (List Bytes))) (exactOk ws : Bool)
    (checkEnd : Bool := true) : Acc :=
  let dom := r.res.isSome && exactOk && drainedAt o checkEnd r.trace a.nw a.nd false
  { st := r.st, nw := a.nw + (writesOf r.trace).length, nd := a.nd + countDel r.trace,
    out := a.out ++ [answer cfg dom ws r] }

/-- run the operations of a session one after the other on the scripted device -/
def runOps (cfg : Cfg) (o : Obs) :
    Nat → List String → Acc → Option Acc
  | 0, _, _ => none
  | _ + 1, [], a => some a
  | fuel + 1, "gp" :: rest, a =>
    let r := getPrompt cfg a.st
    runOps cfg o fuel rest (record o a cfg r true true)
  | fuel + 1, "inter" :: exact :: compl :: nev :: rest, a => do
    let cis ← parseIdx compl
    let n ← nev.toNat?
    let (evf, rest') ← takeFields (3 * n) rest
    let evs ← parseEvents evf
    let cfg' := { cfg with exact := s2b exact }
    let complete := cis.map pat
    let r := sendInteractive cfg' complete scriptDev evs a.st
    runOps cfg o fuel rest'
      (record o a cfg r (zipAll cfg' complete evs r.segs)
        (r.segs.all (segWindowSound cfg' complete)))
  | fuel + 1, "esc" :: prev :: target :: escp :: auth :: cmd :: secret :: rest, a => do
    let pi ← prev.toNat?
    let ti ← target.toNat?
    let cmd ← fromHex cmd
    let secret ← fromHex secret
    let ep : Option (Bytes → Bool) := if escp == "-" then none else escp.toNat?.map pat
    let prevL : Level := { pattern := pat pi, escalate := [], escalateAuth := false, escalatePrompt := none }
    let tgtL : Level := { pattern := pat ti, escalate := cmd, escalateAuth := s2b auth, escalatePrompt := ep }
    let r := escalate cfg prevL tgtL secret scriptDev a.st
    let authd := s2b auth && !secret.isEmpty
    let complete := if authd then escalateComplete prevL tgtL else []
    let evs := if authd then escalateEvents tgtL secret
               else [{ input := cmd, resp := some (escCfg cfg).promptP, hidden := false }]
    runOps cfg o fuel rest
      (record o a cfg r (zipAll (escCfg cfg) complete evs r.segs)
        (r.segs.all (segWindowSound (escCfg cfg) complete)))
  | fuel + 1, "send" :: exact :: eager :: interim :: cmd :: rest, a => do
    let cmd ← fromHex cmd
    let interim := (← parseIdx interim).map pat
    let cfg' := { cfg with exact := s2b exact, strip := false }
    let r := sendInput cfg' (s2b eager) interim scriptDev a.st cmd
    let g := r.segs.headD { input := [], hidden := false, echo := [], ret := none, resp := [] }
    let echoOk := echoImmediate cfg' cmd || exactAt12 (echoPred cfg' cmd) g.echo.flatten
    let respOk := s2b eager || exactAt12 (anyPred (cfg'.promptP :: interim) cfg') g.resp.flatten
    -- an eager send leaves the device's answer unread by design
    runOps cfg o fuel rest (record o a cfg r (echoOk && respOk) true (!s2b eager))
  | _, _, _ => none

end C12

open C12 in
/-- `c12 sess <depth> <ret> <prompt> <q0> <nwrites> <emitted-before list> <reaction chunks>{nwrites} <op>*` where an op is
      `gp` | `inter <exact> <complete-idx> <nev> (<input> <resp-idx|-> <hidden>)*`
      | `esc <prev-idx> <target-idx> <escprompt-idx|-> <auth> <cmd> <secret>` | `send <exact> <eager> <interim-idx> <cmd>`
    → per op `<dom> <ok> <result> <trace> <windowsound>`, joined by ` | `
    `c12 rx <idx> <hex>` → 0/1 (table pattern on a subject) -/
def handleC12 : List String → String
  | "sess" :: depth :: ret :: prompt :: q0 :: nw :: eb :: rest =>
    match depth.toNat?, fromHex ret, hexList q0, nw.toNat?, parseIdx eb with
    | some d, some ret, some q0, some n, some eb =>
      match mkCfg12 d false ret prompt, takeFields n rest with
      | some cfg, some (reactf, ops) =>
        match reactf.mapM hexList with
        | some reacts =>
          let obs : Obs := { eb := eb, lens := (q0 ++ reacts.flatten).map List.length }
          let reacts := reacts.map normChunks
          let q0 := normChunks q0
          match runOps cfg obs (ops.length + 1) ops
              { st := { q := q0, d := reacts }, nw := 0, nd := 0, out := [] } with
          | some a => if a.out.isEmpty then "none" else " | ".intercalate a.out
          | none => "bad-op"
        | none => "bad-op"
      | _, _ => "bad-op"
    | _, _, _, _, _ => "bad-op"
  | ["rx", idx, h] =>
    match idx.toNat?, fromHex h with
    | some i, some s => b2s (pat i s)
    | _, _ => "bad-op"
  | _ => "bad-op"

end Driver.C12