import Driver.Proto
namespace Driver.C12
open Scrapli

/-- line-protocol handler for property C12 (arguments after the leading `c12` token) -/
def handleC12 : List String → String
  | _ => "bad-op"

end Driver.C12