import Driver.Proto
namespace Driver.C16
open Scrapli

/-- line-protocol handler for property C16 (arguments after the leading `c16` token) -/
def handleC16 : List String → String
  | _ => "bad-op"

end Driver.C16