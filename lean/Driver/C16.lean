import Driver.Proto
import ScrapliModel.Pipe
import ScrapliModel.Generated.SshArgv
namespace Driver.C16
open Scrapli Scrapli.Pipe

/-! line protocol for C16

`c16 run <kind> <ib> <events>`: kind ∈ system|standard|telnet, `ib` hex, events = comma separated
tokens (`.` = none): `s<hex>` peer sends, `r<n>:<k>` client read of size n returning a prefix of
length k (clamped), `w<hex>` client write, `x` peer exit, `c` close.
answer: `<dom> <outcomes> <left> <out> <conserved> <outIsWritten>`; outcomes = comma separated
`d<hex>:<e>` (e ∈ n|eof|closed|other) or `b` (blocks); `conserved` = the model's own
`delivered ++ left = ib ++ sent` (the spec, evaluated on the model's run), `outIsWritten` = the bytes
handed to the peer are the successful writes in order.

`c16 wrap <kind> <n> <data> <err>`: the Read wrapper of that kind on one raw result.

`c16 argv <host> <port> <timeout ns> <user> <strict> <known hosts> <config> <key> <extra list> <netconf>`:
the argument vector of the ssh binary (hex, comma separated), computed by the generated
`buildOpenArgs`.

`c16 merge <a> <b> <m>`: is `m` a merge of writer A's bytes `a` (all < 0x80) and writer B's `b`
(all ≥ 0x80)? answer `1`/`0`.

`c16 lock <force> <rb> <wb> <schedule>`: schedule = string of `r`/`w`/`c` moves (reader, writer,
closer) from the state with a blocked read (`rb`) and/or a blocked write (`wb`);
answer `<reader pc> <writer pc> <closer pc> <closed>`.
-/

def c16Kind : String → Option Kind
  | "system" => some .system
  | "standard" => some .standard
  | "telnet" => some .telnet
  | _ => none

/-! megabyte payloads travel through this protocol: hex is decoded / encoded with loops over the
string's bytes instead of the generic character-list helpers -/

def c16Nib (c : UInt8) : Option Nat :=
  if 48 ≤ c && c ≤ 57 then some (c.toNat - 48)
  else if 97 ≤ c && c ≤ 102 then some (c.toNat - 87)
  else none

/-- decode `pairs` hex pairs of `a` starting at byte `lo`, last pair first, consing onto `acc` -/
def c16UnhexGo (a : ByteArray) (lo : Nat) : Nat → Bytes → Option Bytes
  | 0, acc => some acc
  | i + 1, acc =>
    match c16Nib (a.get! (lo + 2 * i)), c16Nib (a.get! (lo + 2 * i + 1)) with
    | some x, some y => c16UnhexGo a lo i (UInt8.ofNat (x * 16 + y) :: acc)
    | _, _ => none

/-- hex field starting at byte `lo` of `s` (`-` = empty) -/
def c16Unhex (s : String) (lo : Nat) : Option Bytes :=
  let a := s.toUTF8
  let len := a.size - lo
  if len == 1 && a.get! lo == 45 then some []
  else if len % 2 == 1 then none
  else c16UnhexGo a lo (len / 2) []

def c16HexChar (n : Nat) : Char := if n < 10 then Char.ofNat (48 + n) else Char.ofNat (87 + n)

def c16Hex (b : Bytes) : String :=
  if b.isEmpty then "-" else
  b.foldl (fun acc x => (acc.push (c16HexChar (x.toNat / 16))).push (c16HexChar (x.toNat % 16))) ""

def c16Ev (tok : String) : Option Ev :=
  match tok.front with
  | 's' => (c16Unhex tok 1).map Ev.send
  | 'w' => (c16Unhex tok 1).map Ev.write
  | 'x' => if tok == "x" then some .peerExit else none
  | 'c' => if tok == "c" then some .close else none
  | 'r' =>
    match tok.splitOn ":" with
    | [a, b] => do
      let n ← (a.drop 1).toNat?
      let k ← b.toNat?
      pure (Ev.read n k)
    | _ => none
  | _ => none

def c16Evs (s : String) : Option (List Ev) :=
  if s == "." then some [] else (s.splitOn ",").mapM c16Ev

def c16Err : Option RErr → String
  | none => "n"
  | some .eof => "eof"
  | some .closed => "closed"
  | some .other => "other"

def c16Outcome : Outcome → String
  | .block => "b"
  | .ret d e => s!"d{c16Hex d}:{c16Err e}"

def c16ReadsOk : List Ev → Bool
  | [] => true
  | .read n _ :: es => decide (1 ≤ n) && c16ReadsOk es
  | _ :: es => c16ReadsOk es

def c16Pc (r : RPc) : String :=
  match r with | .idle => "idle" | .waitLock => "waitLock" | .inRead => "inRead" | .done => "done"
def c16Wc (w : WPc) : String :=
  match w with | .idle => "idle" | .inWrite => "inWrite" | .done => "done"
def c16Cc (c : CPc) : String :=
  match c with | .idle => "idle" | .waitLock => "waitLock" | .closing => "closing" | .done => "done"

def handleC16 : List String → String
  | ["run", kd, ib, evs] =>
    match c16Kind kd, c16Unhex ib 0, c16Evs evs with
    | some kd, some ib, some evs =>
      let r := run kd (TState.init ib) evs
      let dom := (decide (kd = .telnet) || ib.isEmpty) && c16ReadsOk evs
      let outs := if r.2.isEmpty then "." else ",".intercalate (r.2.map c16Outcome)
      let conserved := delivered r.2 ++ r.1.left == ib ++ sentFrom false evs
      let outOk := r.1.out == writtenFrom false evs
      s!"{b2s dom} {outs} {c16Hex r.1.left} {c16Hex r.1.out} {b2s conserved} {b2s outOk}"
    | _, _, _ => "bad-op"
  | ["wrap", kd, n, d, e] =>
    -- the Read wrapper alone, on a raw result (data, error); answer `d<hex>:<e>`
    let err : Option (Option RErr) :=
      if e == "n" then some none else if e == "eof" then some (some .eof)
      else if e == "other" then some (some .other) else if e == "closed" then some (some .closed) else none
    match c16Kind kd, n.toNat?, c16Unhex d 0, err with
    | some kd, some n, some d, some err =>
      let r := if kd == Kind.telnet then telWrap n d err else sysWrap n d err
      s!"d{c16Hex r.1}:{c16Err r.2}"
    | _, _, _, _ => "bad-op"
  | ["argv", host, port, tns, user, strict, kh, cfg, key, extra, nc] =>
    -- the argv `System.open` / `openNetconf` hands to the ssh binary, from the regenerated body
    match c16Unhex host 0, port.toInt?, tns.toInt?, c16Unhex user 0, c16Unhex kh 0, c16Unhex cfg 0, c16Unhex key 0, hexList extra with
    | some host, some port, some tns, some user, some kh, some cfg, some key, some extra =>
      let a : SshCfg.Args := { host := host, port := port, user := user, timeoutNs := tns }
      let s : SshCfg.SSHArgs := { strictKey := s2b strict, knownHostsFile := kh, configFile := cfg, privateKeyPath := key }
      let argv := Gen.SshArgv.buildOpenArgs a s extra []
      let argv := if s2b nc then argv ++ [[45, 115], [110, 101, 116, 99, 111, 110, 102]] else argv
      if argv.isEmpty then "." else ",".intercalate (argv.map c16Hex)
    | _, _, _, _, _, _, _, _ => "bad-op"
  | ["merge", a, b, m] =>
    match c16Unhex a 0, c16Unhex b 0, c16Unhex m 0 with
    | some a, some b, some m => b2s (mergeVerdict a b m)
    | _, _, _ => "bad-op"
  | ["lock", force, rb, wb, sched] =>
    let moves := sched.toList.filterMap fun c =>
      if c == 'r' then some Who.reader else if c == 'w' then some Who.writer
      else if c == 'c' then some Who.closer else none
    let s := runSched (s2b force) (blocked (s2b rb) (s2b wb)) moves
    s!"{c16Pc s.r} {c16Wc s.w} {c16Cc s.c} {b2s s.closed}"
  | _ => "bad-op"

end Driver.C16