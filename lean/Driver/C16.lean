import Driver.Proto
import ScrapliModel.Pipe
namespace Driver
open Scrapli Scrapli.Pipe

/-! line protocol for C16

`c16 run <kind> <ib> <events>`: kind ∈ system|standard|telnet, `ib` hex, events = comma separated
tokens (`.` = none): `s<hex>` peer sends, `r<n>:<k>` client read of size n returning a prefix of
length k (clamped), `w<hex>` client write, `x` peer exit, `c` close.
answer: `<dom> <outcomes> <left> <out> <sent> <written>`; outcomes = comma separated `d<hex>:<e>`
(e ∈ n|eof|closed|other) or `b` (blocks).

`c16 lock <force> <schedule>`: schedule = string of `r`/`c` moves from the blocked-read state;
answer `<reader pc> <closer pc> <closed>`.
-/

def c16Kind : String → Option Kind
  | "system" => some .system
  | "standard" => some .standard
  | "telnet" => some .telnet
  | _ => none

def c16Ev (tok : String) : Option Ev :=
  match tok.toList with
  | 's' :: rest => (fromHex (String.ofList rest)).map Ev.send
  | 'w' :: rest => (fromHex (String.ofList rest)).map Ev.write
  | ['x'] => some .peerExit
  | ['c'] => some .close
  | 'r' :: rest =>
    match (String.ofList rest).splitOn ":" with
    | [a, b] => do
      let n ← a.toNat?
      let k ← b.toNat?
      pure (Ev.read n k)
    | _ => none
  | _ => none

def c16Evs (s : String) : Option (List Ev) :=
  if s == "." then some [] else (s.splitOn ",").mapM c16Ev

def c16Err : Option RErr → String
  | none => "n"
  | some .eof => "eof"
  | some .closed => "closed"
  | some .other => "other"

def c16Outcome : Outcome → String
  | .block => "b"
  | .ret d e => s!"d{toHex d}:{c16Err e}"

def c16ReadsOk : List Ev → Bool
  | [] => true
  | .read n _ :: es => decide (1 ≤ n) && c16ReadsOk es
  | _ :: es => c16ReadsOk es

def c16Pc (r : RPc) : String :=
  match r with | .idle => "idle" | .waitLock => "waitLock" | .inRead => "inRead" | .done => "done"
def c16Cc (c : CPc) : String :=
  match c with | .idle => "idle" | .waitLock => "waitLock" | .closing => "closing" | .done => "done"

def handleC16 : List String → String
  | ["run", kd, ib, evs] =>
    match c16Kind kd, fromHex ib, c16Evs evs with
    | some kd, some ib, some evs =>
      let r := run kd (TState.init ib) evs
      let dom := (decide (kd = .telnet) || ib.isEmpty) && c16ReadsOk evs
      let outs := if r.2.isEmpty then "." else ",".intercalate (r.2.map c16Outcome)
      s!"{b2s dom} {outs} {toHex r.1.left} {toHex r.1.out} {toHex (ib ++ sentFrom false evs)} {toHex (writtenFrom false evs)}"
    | _, _, _ => "bad-op"
  | ["lock", force, sched] =>
    let moves := sched.toList.filterMap fun c => if c == 'r' then some true else if c == 'c' then some false else none
    let s := runSched (s2b force) blockedRead moves
    s!"{c16Pc s.r} {c16Cc s.c} {b2s s.closed}"
  | _ => "bad-op"

end Driver
