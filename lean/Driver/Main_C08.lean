import Driver.C08
import Driver.Rx
open Scrapli Driver

/-- driver for C08 alone (see bin/ns-driver) -/
def handle (line : String) : String :=
  match (line.splitOn " ") with
  | "c08" :: rest => Driver.C08.handleC08 rest
  | "rx" :: rest => handleRx rest
  | ["echo", h] => match fromHex h with
    | some b => toHex b
    | none => "bad-op"
  | _ => "bad-op"

partial def loop (h : IO.FS.Stream) (out : IO.FS.Stream) : IO Unit := do
  let line ← h.getLine
  if line.isEmpty then return ()
  let l := (line.trimAsciiEnd).toString
  out.putStrLn (handle l)
  loop h out

def main : IO Unit := do
  let out ← IO.getStdout
  loop (← IO.getStdin) out
  out.flush
