import Driver.Proto
import ScrapliModel.OptionsSpec
namespace Driver.C19
open Scrapli Scrapli.Options Scrapli.Gen.Options

namespace C19

def optOfName (s : String) : Option Opt := allOpts.find? (fun o => (spec o).name == s)

/-- `Name:envOk:env:arg1:arg2…` (env and args are hex lists) -/
def parseOpt (s : String) : Option OptInst := do
  match s.splitOn ":" with
  | name :: ok :: env :: args =>
    let o ← optOfName name
    let e ← hexList env
    let a ← args.mapM hexList
    some { opt := o, args := a, env := e, envOk := s2b ok }
  | _ => none

def parseOpts (s : String) : Option (List OptInst) :=
  if s == "_" then some [] else (s.splitOn "|").mapM parseOpt

def tailS (s : String) : String := String.ofList (s.toList.drop 1)

def parseY (s : String) : Option YVal :=
  match s.toList.head? with
  | some 'i' => (fromHex (tailS s)).map .int
  | some 's' => (fromHex (tailS s)).map .str
  | some 'f' =>
    let t := tailS s
    if t.toList.head? == some '-' then (tailS t).toNat?.map (.flt true) else t.toNat?.map (.flt false)
  | some 'l' => (hexList (tailS s)).map .lst
  | some 'b' => some (.bool (tailS s == "1"))
  | some 'n' => some .null
  | _ => none

def parseTok (s : String) : Option (Option Bytes) :=
  if s == "_" then some none else (fromHex s).map some

def parsePlatOpts (s : String) : Option (List (Bytes × YVal)) :=
  if s == "_" then some [] else
    (s.splitOn "|").mapM fun it =>
      match it.splitOn ":" with
      | [n, v] => do
        let n ← fromHex n
        let v ← parseY v
        some (n, v)
      | _ => none

def applyPlatField (p : PlatformDef) (kv : String) : Option PlatformDef :=
  match kv.splitOn "=" with
  | [k, v] =>
    if k == "fwc" then (hexList v).map fun x => { p with failedWhenContains := x }
    else if k == "oo" then (parseTok v).map fun x => { p with onOpen := x }
    else if k == "oc" then (parseTok v).map fun x => { p with onClose := x }
    else if k == "noo" then (parseTok v).map fun x => { p with networkOnOpen := x }
    else if k == "noc" then (parseTok v).map fun x => { p with networkOnClose := x }
    else if k == "pl" then (hexList v).map fun x => { p with privilegeLevels := x }
    else if k == "ddp" then (fromHex v).map fun x => { p with defaultDesiredPriv := x }
    else if k == "opts" then (parsePlatOpts v).map fun x => { p with options := x }
    else none
  | _ => none

def parsePlat (s : String) : Option (Option PlatformDef) :=
  if s == "-" then some none else
    ((s.splitOn ";").foldlM applyPlatField ({} : PlatformDef)).map some

def parseCtor (s : String) : Option Ctor :=
  if s == "generic" then some .generic else if s == "network" then some .network
  else if s == "netconf" then some .netconf else if s == "logging" then some .logging else none

def showConfig (c : Config) : String :=
  ";".intercalate (allFields.map fun f => f.name ++ "=" ++ showHexList (c f))

def showRes : Except Err Config → String
  | .ok c => "ok:" ++ showConfig c
  | .error .badOption => "err:badoption"
  | .error .other => "err:other"

def construct (k : Ctor) (plat : Option PlatformDef) (user : List OptInst) : String :=
  let poModel : Option (List OptInst) := match plat with
    | none => some []
    | some p => platformAsOptions p
  let poSpec : Option (List OptInst) := match plat with
    | none => some []
    | some p => platformAsOptionsSpec p
  let model := match poModel with
    | none => "panic"
    | some po => showRes (Scrapli.Options.construct k (po ++ user) defaults)
  match poSpec with
  | none => s!"dom=0 model={model} spec=-"
  | some po =>
    let opts := po ++ user
    let eff := Scrapli.Options.effective k opts
    let dom := validOnB (Scrapli.Options.reached k opts defaults) eff
    let s := Scrapli.Options.specConfig k opts defaults
    -- hypotheses of `invalid_is_badoption` / `invalid_log_level_is_badoption`
    let badArg := fun (o : OptInst) => !argValid (spec o.opt) o
    let invDriver := k != .logging &&
      opts.any (fun o => (o.opt == .WithTransportType || o.opt == .WithNetconfPreferredVersion) && badArg o) &&
      opts.all (fun o => o.opt != .WithDefaultLogger || o.envOk)
    let invLog := k == .logging && opts.any (fun o => o.opt == .logging_WithLevel && badArg o) &&
      opts.all (fun o => (failsOn .logging_Instance o).isNone || (o.opt == .logging_WithLevel && badArg o))
    if dom then s!"dom=1 model={model} spec={showRes s}"
    else if invDriver || invLog then s!"dom=1 model={model} spec=err:badoption"
    else s!"dom=0 model={model} spec=-"

end C19

/-- line-protocol handler for property C19 (arguments after the leading `c19` token)

* `construct <ctor> <platform|-> <opts|_>` → `dom=… model=… spec=…`
* `compat <ctor> <opts>` → `1` when the (effective) option list is pairwise compatible
  (hypothesis of `options_commute`), else `0` -/
def handleC19 : List String → String
  | ["construct", k, plat, opts] =>
    match C19.parseCtor k, C19.parsePlat plat, C19.parseOpts opts with
    | some k, some p, some o => C19.construct k p o
    | _, _, _ => "bad-op"
  | ["constructv", k, plat, variant, opts] =>
    match C19.parseCtor k, C19.parsePlat plat, C19.parsePlat variant, C19.parseOpts opts with
    | some k, some (some p), some (some v), some o => C19.construct k (some (mergeVariant p v)) o
    | _, _, _, _ => "bad-op"
  | ["argv", k, host, plat, opts] =>
    -- argv of the system transport of the constructed driver (`-` when construction fails)
    match C19.parseCtor k, fromHex host, C19.parsePlat plat, C19.parseOpts opts with
    | some k, some h, some p, some o =>
      let po : Option (List OptInst) := match p with
        | none => some []
        | some p => platformAsOptions p
      match po with
      | none => "-"
      | some po =>
        match Scrapli.Options.construct k (po ++ o) defaults with
        | .ok c => "argv=" ++ showHexList (argvOfConfig h c)
        | .error _ => "-"
    | _, _, _, _ => "bad-op"
  | ["names"] =>
    ",".intercalate (Scrapli.Gen.PlatformOptions.entries.map fun e =>
      toHex e.name ++ ":" ++ toHex (ofStr e.documented))
  | ["rowdiff"] =>
    "opts=" ++ ",".intercalate (changedOptionRows.map fun o => (spec o).name) ++
    " plat=" ++ ",".intercalate changedPlatformRows
  | ["compat", k, opts] =>
    match C19.parseCtor k, C19.parseOpts opts with
    | some k, some o => b2s (pairwiseB compatB (Scrapli.Options.effective k o))
    | _, _ => "bad-op"
  | _ => "bad-op"

end Driver.C19