import Driver.Proto
namespace Driver
open Scrapli

/-- line-protocol handler for property C19 (arguments after the leading `c19` token) -/
def handleC19 : List String → String
  | _ => "bad-op"

end Driver
