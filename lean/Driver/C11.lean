import Driver.Proto
namespace Driver.C11
open Scrapli

/-- line-protocol handler for property C11 (arguments after the leading `c11` token) -/
def handleC11 : List String → String
  | _ => "bad-op"

end Driver.C11