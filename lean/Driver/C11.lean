import Driver.Proto
import ScrapliModel.Logs
namespace Driver.C11
open Scrapli Scrapli.Logs

def lvlOfWord : String → Option Lvl
  | "debug" => some .debug
  | "info" => some .info
  | "critical" => some .critical
  | _ => none

def showLvl : Lvl → String
  | .debug => "debug" | .info => "info" | .critical => "critical" | .other => "other"

/-- line-protocol handler for property C11 (arguments after the leading `c11` token)

* `shouldlog <nLoggers> <hex of Instance.Level> <debug|info|critical>` → `emit=<n>`: how many
  logger calls one message of that level causes
* `withlevel <hex>` → `dom=<0|1> level=<debug|info|critical|error>` (dom: the word is ASCII) -/
def handleC11 : List String → String
  | ["shouldlog", n, inst, msg] =>
    match n.toNat?, fromHex inst, lvlOfWord msg with
    | some n, some i, some m =>
      "emit=" ++ toString (if shouldLog n (levelOfField i) m then n else 0)
    | _, _, _ => "bad-args"
  | ["withlevel", h] =>
    match fromHex h with
    | some s =>
      let dom := s.all fun b => b.toNat < 128
      "dom=" ++ b2s dom ++ " level=" ++ (match withLevel s with | some l => showLvl l | none => "error")
    | none => "bad-args"
  | _ => "bad-op"

end Driver.C11
