import Driver.Proto
import ScrapliModel.Netconf.Hello
import ScrapliModel.Netconf.HelloState
namespace Driver.C09
open Scrapli Scrapli.Chan Scrapli.Netconf.Hello

namespace C09

def stripAnsi (b : Bytes) : Bytes := Rx.replaceAll Gen.Rx.Util.ansiPattern b []
def delimRx (b : Bytes) : Bool := Rx.isMatch Gen.Rx.Netconf.v1Dot0Delim b
def D : Bytes := Gen.Netconf.v1Dot0Delim

/-- is the extracted delimiter pattern a plain literal, and which -/
def reLiteral : Rx.Re → Option (List Nat)
  | .lit r => some [r]
  | .cat a b => do
    let x ← reLiteral a
    let y ← reLiteral b
    pure (x ++ y)
  | .empty => some []
  | _ => none

def delimIsLiteral : Bool :=
  reLiteral Gen.Rx.Netconf.v1Dot0Delim == some (D.map (·.toNat))

def optHex (s : String) : Option (Option Bytes) :=
  if s == "~" then some none else (fromHex s).map some

def verStr : Ver → String
  | .v10 => "1.0"
  | .v11 => "1.1"

def showRes : Res → String
  | .err .timeout => "timeout - . 0 -"
  | .err .netconf => "netconf - . 0 -"
  | .err .transport => "transport - . 0 -"
  | .ok o => s!"ok {verStr o.ver} {showHexList o.caps} {o.sid} {toHex o.sent}"

def prefOf (b : Bytes) : Option Pref :=
  if b.isEmpty then some .none
  else if b == Gen.Netconf.V1Dot0 then some .p10
  else if b == Gen.Netconf.V1Dot1 then some .p11
  else none

def zipCaps : List Bytes → List Bytes → List (Bytes × Bytes)
  | u :: us, w :: ws => (u, w) :: zipCaps us ws
  | _, _ => []

def normLayout (L : Layout) : Layout :=
  { L with decl := L.decl.map dropCR, attrs := dropCR L.attrs, ws0 := dropCR L.ws0,
           pre := dropCR L.pre, ws1 := dropCR L.ws1, ws2 := dropCR L.ws2, ws3 := dropCR L.ws3, ws4 := dropCR L.ws4,
           caps := L.caps.map fun (u, w) => (u, dropCR w) }

def ret : Bytes := Gen.Channel.DefaultReturnChar

/-- no accumulated buffer of the login loop matches the password or passphrase pattern (the
patterns are only run on buffers that hold the words at all) -/
def noLoginPrompt (chunks : List Bytes) : Bool :=
  let whole := (chunks.flatten).map toLowerB
  if !(isInfix (ofStr "password:") whole) && !(isInfix (ofStr "passphrase") whole) then true
  else
    let rec go (acc : Bytes) : List Bytes → Bool
      | [] => true
      | c :: cs =>
        let b := acc ++ c
        if Rx.isMatch Gen.Rx.Netconf.v1Dot0Delim b then true
        else !(Rx.isMatch Gen.Rx.Channel.password b) && !(Rx.isMatch Gen.Rx.Channel.passphrase b) && go b cs
    go [] chunks

/-! history requests: `hist <pref> <depth> <event>…` with events `p<cap hex>` (probe), `c` (close),
`o<chunks>` (Open; the reads of that session as the transport delivered them). Answer: the
observation of every event under the as-built model (channel single-use) and, after ` | `, under
the re-openable variant. -/

def parseEv (pref : Bytes) (depth : Nat) (tok : String) : Option Ev :=
  if tok == "c" then some .close
  else if tok.startsWith "p" then (fromHex (tok.drop 1).toString).map Ev.probe
  else if tok.startsWith "o" then
    (hexList (tok.drop 1).toString).map fun chunks =>
      let chunksN := chunks.map (normalizeChunk stripAnsi)
      match readUntil (fun rb => delimRx (window rb depth)) chunksN [] with
      | none => Ev.openNoHello
      | some (b, _) => Ev.openHello (parseHello b) pref
  else none

def showObs : Obs → String
  | .probed has caps sid sel => s!"P:{b2s has}:{showHexList caps}:{sid}:{toHex sel}"
  | .opened v => s!"O:{verStr v}"
  | .openErr .netconf => "E:netconf"
  | .openErr .timeout => "E:timeout"
  | .openErr .transport => "E:transport"
  | .openDead => "E:dead"
  | .closed => "C"

def handleHist (pref depth : String) (evs : List String) : String :=
  match fromHex pref, depth.toNat?, evs.mapM (fun t => (fromHex pref).bind fun p => depth.toNat?.bind fun d => parseEv p d t) with
  | some _, some _, some evs =>
    let a := run false false DState.init evs
    let b := run false true DState.init evs
    let sh := fun (l : List Obs) => if l.isEmpty then "." else ";".intercalate (l.map showObs)
    s!"{sh a} | {sh b}"
  | _, _, _ => "bad-op"

def handle : List String → String
  | "hist" :: pref :: depth :: evs => handleHist pref depth evs
  -- flags: `a` = in-channel authentication precedes (chunks = reads after the password), `w` = the
  -- transport fails the write of the client hello, `-` = none
  | ["open", pref, depth, flags, pre, decl, pfx, attrs, w0, w1, w2, w3, w4, uris, wss, sid, suffix, chunks] =>
    match fromHex pref, depth.toNat?, fromHex pre, optHex decl, fromHex pfx, fromHex attrs, fromHex w0, fromHex w1,
      fromHex w2, fromHex w3, fromHex w4, hexList uris, hexList wss, optHex sid, fromHex suffix,
      hexList chunks with
    | some pref, some depth, some pre, some decl, some pfx, some attrs, some w0, some w1, some w2, some w3,
      some w4, some uris, some wss, some sid, some suffix, some chunks =>
      let auth := flags.contains 'a'
      let wfail := flags.contains 'w'
      let L : Layout := { pre := pre, decl := decl, pfx := pfx, attrs := attrs, ws0 := w0, ws1 := w1, ws2 := w2,
                          ws3 := w3, ws4 := w4, caps := zipCaps uris wss, sid := sid }
      let Ln := normLayout L
      let chunksN := chunks.map (normalizeChunk stripAnsi)
      let noEsc := chunks.all fun c => !c.contains ESC
      let uriOK := uris.all fun u => !u.contains CR
      let suffixN := dropCR suffix
      let H := render Ln
      -- in the login loop no accumulated buffer may look like a password / passphrase prompt
      let loginQuiet := !auth || (noLoginPrompt chunksN)
      let dom := Ln.ok && noEsc && uriOK && uris.length == wss.length && noLT suffixN &&
        chunksN.flatten == H ++ D ++ suffixN && delimFirstAtEnd D H && windowOK D depth H suffixN &&
        delimIsLiteral && loginQuiet
      let spec : String :=
        let p := (prefOf pref).getD .none
        let caps := Ln.caps.map Prod.fst
        match sidValue Ln.sid, specVersion (hasCap caps Gen.Netconf.v1Dot0Cap) (hasCap caps Gen.Netconf.v1Dot1Cap) p with
        | some n, some v =>
          if wfail then "transport - . 0 -"
          else s!"ok {verStr v} {showHexList caps} {n} {toHex (clientHello v ++ ret)}"
        | _, _ => "netconf - . 0 -"
      let run := fun (parse : Bytes → Bool × List Bytes × Option Bytes) =>
        withWriteFailure wfail
          (if auth then openSessionAuth parse delimRx depth ret pref chunksN
           else openSession parse delimRx depth ret pref chunksN)
      s!"{b2s dom} {toHex (render L)} | {spec} | {showRes (run (parseHelloScan true))} | {showRes (run parseHello)}"
    | _, _, _, _, _, _, _, _, _, _, _, _, _, _, _, _ => "bad-op"
  -- arbitrary bytes as the server's first message: model of the code only
  | ["raw", pref, depth, chunks] =>
    match fromHex pref, depth.toNat?, hexList chunks with
    | some pref, some depth, some chunks =>
      let chunksN := chunks.map (normalizeChunk stripAnsi)
      let scan := openSession (parseHelloScan true) delimRx depth ret pref chunksN
      let rx := openSession parseHello delimRx depth ret pref chunksN
      s!"{showRes scan} | {showRes rx}"
    | _, _, _ => "bad-op"
  -- version decision alone: `ver <caps> <pref>` → optionOK result
  | ["ver", caps, pref] =>
    match hexList caps, fromHex pref with
    | some caps, some pref =>
      let r := match determineVersion caps pref with
        | none => "err"
        | some v => verStr v
      s!"{b2s (prefOptionOK pref)} {r}"
    | _, _ => "bad-op"
  -- everything the client writes up to and including its first request
  | ["wire", v, xml] =>
    match (if v == "1.0" then some Ver.v10 else if v == "1.1" then some Ver.v11 else none), fromHex xml with
    | some v, some xml =>
      let w := requestWire v ret xml
      let stream := ret ++ w
      let dec := match v with
        | .v10 => decodeOne10 stream
        | .v11 => decodeOne11 stream
      let decs := match dec with
        | some (x, rest) => s!"{toHex x} {toHex rest}"
        | none => "none -"
      s!"{toHex (clientHello v ++ ret ++ w)} {decs}"
    | _, _ => "bad-op"
  | _ => "bad-op"

end C09

/-- line-protocol handler for property C09 (arguments after the leading `c09` token) -/
def handleC09 (args : List String) : String := C09.handle args

end Driver.C09