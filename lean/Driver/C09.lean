import Driver.Proto
namespace Driver.C09
open Scrapli

/-- line-protocol handler for property C09 (arguments after the leading `c09` token) -/
def handleC09 : List String → String
  | _ => "bad-op"

end Driver.C09