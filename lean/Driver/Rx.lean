import Driver.Proto
import ScrapliModel.Generated.Patterns
namespace Driver
open Scrapli Scrapli.Rx

def lookupRe (name : String) : Option Re :=
  (Gen.Rx.all.find? fun (n, _, _) => n == name).map fun (_, r, _) => r

def showSpan (c : Caps) (i : Nat) : String :=
  match Caps.get c i with
  | some (a, e) => s!"{a}:{e}"
  | none => "-"

/-- `rx find <name> <hex>` → `1 start end g1 g2 g3 g4` | `0`;
    `rx del <name> <hex>` → ReplaceAll with the empty string;
    `rx all <name> <hex>` → spans of all matches `a:e,a:e,…` -/
def handleRx : List String → String
  | ["find", name, h] =>
    match lookupRe name, fromHex h with
    | some re, some s =>
      match find re s with
      | none => "0"
      | some (a, e, c) => s!"1 {a} {e} {showSpan c 1} {showSpan c 2} {showSpan c 3} {showSpan c 4}"
    | _, _ => "bad-op"
  | ["del", name, h] =>
    match lookupRe name, fromHex h with
    | some re, some s => toHex (replaceAll re s [])
    | _, _ => "bad-op"
  | ["all", name, h] =>
    match lookupRe name, fromHex h with
    | some re, some s =>
      let ms := findAll re s
      if ms.isEmpty then "." else ",".intercalate (ms.map fun (a, e, _) => s!"{a}:{e}")
    | _, _ => "bad-op"
  | ["names"] => " ".intercalate (Gen.Rx.all.map fun (n, _, _) => n)
  | _ => "bad-op"

end Driver
