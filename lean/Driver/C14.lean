import Driver.Proto
namespace Driver
open Scrapli

/-- line-protocol handler for property C14 (arguments after the leading `c14` token) -/
def handleC14 : List String → String
  | _ => "bad-op"

end Driver
