import Driver.Proto
import ScrapliModel.SshCfg
namespace Driver.C14
open Scrapli Scrapli.SshCfg

namespace C14

def showOpt : Option Bytes → String
  | none => "none"
  | some b => "some:" ++ toHex b

def showErr : Err → String
  | .badOption => "badoption"
  | .keyFile => "keyfile"
  | .knownHostsFile => "khfile"

def showMethod : AuthMethod → String
  | .publicKey p => "pk:" ++ toHex p
  | .password p => "pw:" ++ toHex p
  | .keyboardInteractive p => "ki:" ++ toHex p

def showAuth (l : List AuthMethod) : String :=
  if l.isEmpty then "." else ";".intercalate (l.map showMethod)

def showPolicy : HostKeyPolicy → String
  | .insecure => "insecure"
  | .knownHosts f => "kh:" ++ toHex f

def showOutcome : Outcome → String
  | .cfgError e => "cfgerr:" ++ showErr e
  | .hostKeyRejected => "hostkey"
  | .authFailed => "authfail"
  | .established u m => "est:" ++ toHex u ++ ":" ++ showMethod m

def showEff (e : Eff) : String :=
  s!"host={showOpt e.host} port={showOpt e.port} user={showOpt e.user} strict={showOpt e.strict} " ++
  s!"kh={showOpt e.knownHosts} cfg={showOpt e.cfg} ids={showHexList e.ids} sub={b2s e.subsystem} cmd={showHexList e.cmd}"

def verdict (s : String) : Option KhVerdict :=
  if s == "match" then some .matches else if s == "mismatch" then some .mismatch
  else if s == "unknown" then some .unknown else if s == "revoked" then some .revoked else none

end C14
open C14

/-- line-protocol handler for property C14 (arguments after the leading `c14` token)

* `sys host port user pw timeoutNs strict key pass cfg kh netconf extra override keyLoads`
  → `dom=<0|1> [pwdom=… pwfree=…] <ok bin argv | err e> | <meaning of the model argv>`
* `parse argv` → meaning of an argv under `sshParse`
* `std host port user pw timeoutNs strict key kh khLoads keyLoads verdict accKey accPw accKbd`
  → `<ok addr user policy auth | err e> <outcome> <credentials offered, in order>`
* `default` → the strict flag of `newSSHArgs` -/
def handleC14 : List String → String
  | ["default"] => b2s newSSHArgs.strictKey
  | ["parse", argv] =>
    match hexList argv with
    | some l => showEff (sshParse l)
    | none => "bad-op"
  | ["sys", host, port, user, pw, tmo, strict, key, pass, cfg, kh, nc, extra, ovr, keyLoads] =>
    match fromHex host, port.toInt?, fromHex user, fromHex pw, tmo.toInt?, fromHex key, fromHex pass,
          fromHex cfg, fromHex kh, hexList extra, hexList ovr with
    | some host, some port, some user, some pw, some tmo, some key, some pass, some cfg, some kh,
      some extra, some ovr =>
      let a : Args := { host := host, port := port, user := user, password := pw, timeoutNs := tmo }
      let s : SSHArgs := { strictKey := s2b strict, privateKeyPath := key, privateKeyPassPhrase := pass,
                           configFile := cfg, knownHostsFile := kh, netconf := s2b nc }
      let t : System := { ssh := s, extra := extra, override := ovr }
      -- `user@host` and `ssh://…` destination syntaxes are not modelled by sshParse: outside the domain
      let dom := hostOk host && ovr.isEmpty && !host.contains 64 && !hasPrefix host [115,115,104,58,47,47]
      match systemOpen a t (s2b keyLoads) with
      | .error e => s!"dom={b2s dom} err {showErr e}"
      | .ok (bin, argv) =>
        let pwdom := pw.any fun m => markerB m a t
        let pwfree := argv.all fun e => !isInfix pw e
        s!"dom={b2s dom} pwdom={b2s pwdom} pwfree={b2s pwfree} ok {toHex bin} {showHexList argv} | {showEff (sshParse argv)}"
    | _, _, _, _, _, _, _, _, _, _, _ => "bad-op"
  | ["std", host, port, user, pw, tmo, strict, key, kh, khLoads, keyLoads, v, accKey, accPw, accKbd] =>
    match fromHex host, port.toInt?, fromHex user, fromHex pw, tmo.toInt?, fromHex key, fromHex kh, verdict v with
    | some host, some port, some user, some pw, some tmo, some key, some kh, some v =>
      let a : Args := { host := host, port := port, user := user, password := pw, timeoutNs := tmo }
      let s : SSHArgs := { strictKey := s2b strict, privateKeyPath := key, knownHostsFile := kh }
      let acc : AuthMethod → Bool
        | .publicKey _ => s2b accKey
        | .password _ => s2b accPw
        | .keyboardInteractive _ => s2b accKbd
      let out := showOutcome (standardOpen a s (s2b khLoads) (s2b keyLoads) v acc)
      let att := showAuth (standardAttempts a s (s2b khLoads) (s2b keyLoads) v acc)
      match standardCfg a s (s2b khLoads) (s2b keyLoads) with
      | .error e => s!"err {showErr e} {out} {att}"
      | .ok c => s!"ok {toHex c.addr} {toHex c.user} {showPolicy c.policy} {showAuth c.auth} {out} {att}"
    | _, _, _, _, _, _, _, _ => "bad-op"
  | _ => "bad-op"

end Driver.C14