import Driver.Proto
import ScrapliModel.SshCfg
namespace Driver.C14
open Scrapli Scrapli.SshCfg

namespace C14

def showOpt : Option Bytes → String
  | none => "none"
  | some b => "some:" ++ toHex b

def showErr : Err → String
  | .badOption => "badoption"
  | .keyFile => "keyfile"
  | .knownHostsFile => "khfile"
  | .fileNotFound => "filenotfound"
  | .spawn => "spawn"

def showMethod : AuthMethod → String
  | .publicKey p => "pk:" ++ toHex p
  | .password p => "pw:" ++ toHex p
  | .keyboardInteractive p => "ki:" ++ toHex p

def showAuth (l : List AuthMethod) : String :=
  if l.isEmpty then "." else ";".intercalate (l.map showMethod)

def showPolicy : HostKeyPolicy → String
  | .insecure => "insecure"
  | .knownHosts f => "kh:" ++ toHex f

def showOutcome : Outcome → String
  | .cfgError e => "cfgerr:" ++ showErr e
  | .hostKeyRejected => "hostkey"
  | .authFailed => "authfail"
  | .established u m => "est:" ++ toHex u ++ ":" ++ showMethod m

def showEff (e : Eff) : String :=
  s!"host={showOpt e.host} port={showOpt e.port} user={showOpt e.user} strict={showOpt e.strict} " ++
  s!"kh={showOpt e.knownHosts} cfg={showOpt e.cfg} ids={showHexList e.ids} sub={b2s e.subsystem} cmd={showHexList e.cmd}"

def verdict (s : String) : Option KhVerdict :=
  if s == "match" then some .matches else if s == "mismatch" then some .mismatch
  else if s == "unknown" then some .unknown else if s == "revoked" then some .revoked else none

def content (khLoads v : String) : Option KhContent :=
  if khLoads == "missing" then some .missing
  else if khLoads == "0" then some .malformed
  else (verdict v).map .holds

/-- the 14 fields of one connection:
`host port user pw timeoutNs strict key kh khLoads(1|0|missing) keyLoads verdict accKey accPw accKbd`
(`accKbd = multi`: the two-step server policy key-then-password with `accKey`, `accPw`) -/
def parseConn : List String → Option Conn
  | [host, port, user, pw, tmo, strict, key, kh, khLoads, keyLoads, v, accKey, accPw, accKbd] =>
    match fromHex host, port.toInt?, fromHex user, fromHex pw, tmo.toInt?, fromHex key, fromHex kh, content khLoads v with
    | some host, some port, some user, some pw, some tmo, some key, some kh, some cont =>
      some { a := { host := host, port := port, user := user, password := pw, timeoutNs := tmo },
             s := { strictKey := s2b strict, privateKeyPath := key, knownHostsFile := kh },
             kh := cont, keyLoads := s2b keyLoads,
             multi := if accKbd == "multi" then some (s2b accKey, s2b accPw) else none,
             accepts := fun
               | .publicKey _ => s2b accKey
               | .password _ => s2b accPw
               | .keyboardInteractive _ => s2b accKbd }
    | _, _, _, _, _, _, _, _ => none
  | _ => none

def showConn (c : Conn) : String :=
  let out := showOutcome (standardConnP c).1
  let att := showAuth (standardConnP c).2
  match standardCfg c.a c.s c.kh.loads c.keyLoads with
  | .error e => s!"err {showErr e} {out} {att}"
  | .ok cfg => s!"ok {toHex cfg.addr} {toHex cfg.user} {showPolicy cfg.policy} {showAuth cfg.auth} {out} {att}"

def chunks (n : Nat) (l : List String) : Nat → List (List String)
  | 0 => []
  | fuel + 1 => if l.isEmpty then [] else l.take n :: chunks n (l.drop n) fuel

def sysAnswer (binRuns : Bool) : List String → String
  | [host, port, user, pw, tmo, strict, key, pass, cfg, kh, nc, extra, ovr, keyLoads] =>
    match fromHex host, port.toInt?, fromHex user, fromHex pw, tmo.toInt?, fromHex key, fromHex pass,
          fromHex cfg, fromHex kh, hexList extra, hexList ovr with
    | some host, some port, some user, some pw, some tmo, some key, some pass, some cfg, some kh,
      some extra, some ovr =>
      let a : Args := { host := host, port := port, user := user, password := pw, timeoutNs := tmo }
      let s : SSHArgs := { strictKey := s2b strict, privateKeyPath := key, privateKeyPassPhrase := pass,
                           configFile := cfg, knownHostsFile := kh, netconf := s2b nc }
      let t : System := { ssh := s, extra := extra, override := ovr }
      -- `user@host` and `ssh://…` destination syntaxes are not modelled by sshParse: outside the domain
      let dom := hostOk host && ovr.isEmpty && !host.contains 64 && !hasPrefix host [115,115,104,58,47,47]
      match systemOpenSpawn a t (s2b keyLoads) binRuns with
      | .error e => s!"dom={b2s dom} err {showErr e}"
      | .ok (bin, argv) =>
        let pwdom := pw.any fun m => markerB m a t
        let pwfree := argv.all fun e => !isInfix pw e
        s!"dom={b2s dom} pwdom={b2s pwdom} pwfree={b2s pwfree} ok {toHex bin} {showHexList argv} | {showEff (sshParse argv)}"
    | _, _, _, _, _, _, _, _, _, _, _ => "bad-op"
  | _ => "bad-op"

end C14
open C14

/-- line-protocol handler for property C14 (arguments after the leading `c14` token)

* `sys host port user pw timeoutNs strict key pass cfg kh netconf extra override keyLoads`
  → `dom=<0|1> [pwdom=… pwfree=…] <ok bin argv | err e> | <meaning of the model argv>`
* `parse argv` → meaning of an argv under `sshParse`
* `std host port user pw timeoutNs strict key kh khLoads keyLoads verdict accKey accPw accKbd`
  → `<ok addr user policy auth | err e> <outcome> <credentials offered, in order>`
* `hist <14 fields> <14 fields> …` → the same per connection of a history, joined by ` ;; `
* `default` → the strict flag of `newSSHArgs` -/
def handleC14 : List String → String
  | ["default"] => b2s newSSHArgs.strictKey
  | ["parse", argv] =>
    match hexList argv with
    | some l => showEff (sshParse l)
    | none => "bad-op"
  | "sys" :: f => sysAnswer true f
  -- sysbin binRuns <the 14 sys fields>: Open including the spawn of OpenBin
  | "sysbin" :: br :: f => sysAnswer (s2b br) f
  -- resolve mode(none|path|system) path found homeHas etcHas home etc
  | ["resolve", mode, p, found, homeHas, etcHas, home, etc] =>
    match fromHex p, fromHex home, fromHex etc with
    | some p, some home, some etc =>
      let o : Option FileOpt :=
        if mode == "none" then some .none else if mode == "path" then some (.path p (s2b found))
        else if mode == "system" then some (.system (s2b homeHas) (s2b etcHas)) else none
      match o with
      | some o => match resolveFileOpt home etc o with
        | .ok r => "ok " ++ toHex r
        | .error e => "err " ++ showErr e
      | none => "bad-op"
    | _, _, _ => "bad-op"
  -- resolvepath f asGiven underHome home
  | ["resolvepath", f, asGiven, underHome, home] =>
    match fromHex f, fromHex home with
    | some f, some home =>
      match resolvePath home f (s2b asGiven) (s2b underHome) with
      | .ok r => "ok " ++ toHex r
      | .error e => "err " ++ showErr e
    | _, _ => "bad-op"
  -- inchan sys|std user pw pass
  | ["inchan", kind, user, pw, pass] =>
    match fromHex user, fromHex pw, fromHex pass with
    | some user, some pw, some pass =>
      let k := if kind == "std" then TransportKind.standard else .system
      let d := inChannelAuthData k { host := [], port := 0, user := user, password := pw, timeoutNs := 0 }
        { strictKey := true, privateKeyPassPhrase := pass }
      let ty := match d.type with | .unsupported => "unsupported" | .ssh => "ssh"
      s!"{ty} {toHex d.user} {toHex d.password} {toHex d.passphrase}"
    | _, _, _ => "bad-op"
  | "std" :: f =>
    match parseConn f with
    | some c => showConn c
    | none => "bad-op"
  -- hist: any number of connections (14 fields each) opened one after the other in one process
  | "hist" :: f =>
    match (chunks 14 f (f.length + 1)).mapM parseConn with
    | some cs =>
      if cs.isEmpty then "bad-op" else
      -- the outcomes come from the history function; the per-connection details are printed alongside
      let outs := standardHistory cs
      " ;; ".intercalate ((cs.zip outs).map fun (c, o) => s!"{showConn c} hist={showOutcome o}")
    | none => "bad-op"
  | _ => "bad-op"

end Driver.C14