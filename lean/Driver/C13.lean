import Driver.Proto
import ScrapliModel.Failed
import ScrapliModel.FailedText
import ScrapliModel.FailedFault
import ScrapliModel.FileLines
import ScrapliModel.Generated.Platforms
/-!
Line protocol for C13.

request : `c13 <api> <drv> <op> <stop> <cmds> <outs> [ignored…]`
* `api`  : `g.cmd n.cmd` (SendCommand) | `n.cfg` (SendConfig) | `d.multi` (NewResponse/Record/AppendResponse
           directly) | anything else (SendCommands family)
* `drv`  : hex list, the driver-level failure strings
* `op`   : the operation options of the call in order, `/`-separated (`n` = none): `s<hexlist>`
           opoptions.WithFailedWhenContains (`s.` = given, empty), `t` WithStopOnFailed, `x…` an operation
           option of another layer (channel / network / netconf), `b` an option returning an error
* `stop` : `1` iff opoptions.WithStopOnFailed given
* `cmds` : hex list of commands (`g.cmd`/`n.cmd`: one element; `n.cfg`: one element, the config text)
* `outs` : hex list; the device answers the i-th transmitted line with `outs[i]` (empty beyond); `!` = never
           answers it (the channel returns an error)

request : `c13 platlist` → every embedded platform definition with its failed-when-contains list

answer  : `<dom> <nolf> <spec> <model> <agree>`
* `dom`   : `NoEmpty (effective op drv)` and the command list is non-empty
* `nolf`  : `NoLF (effective op drv)`
* `spec`  : what the property demands, computed declaratively (prefix rule on the device's answers)
* `model` : what the model of the code computes (`sendCommand` / `sendCommands` / `sendConfig`)
* `agree` : the model's outcome, projected to the spec's format, equals the spec (run-time echo of the theorems)
-/
namespace Driver.C13
open Scrapli Scrapli.Failed

namespace C13

def idxDev (outs : List Bytes) : Dev Nat := fun i _ => (i + 1, outs.getD i [])

def joinWith (sep : String) (l : List String) : String :=
  if l.isEmpty then "." else sep.intercalate l

/-- fields and `Error()` text of an `*OperationError` -/
def showErr (e : OpErr) : String := s!"{toHex e.input};{toHex e.output};{toHex e.errStr};{toHex e.text}"

def showFailure : Option Failure → String
  | none => "0"
  | some (.op e) => "1~" ++ showErr e
  | some (.multi es) => "2~" ++ joinWith "," (es.map showErr) ++ "~" ++ toHex (multiText es)

def showResp (r : Resp) : String :=
  s!"{toHex r.input};{toHex r.result};{joinWith "+" (r.fwc.map toHex)};{showFailure r.failed}"

def showSent (l : List Bytes) : String := "S" ++ joinWith "," (l.map toHex)

def bits (l : List Bool) : String := if l.isEmpty then "." else String.join (l.map b2s)

/-- inputs and outputs of the members an aggregate error must list -/
def showMembers (cmds outs : List Bytes) (flags : List Bool) : String :=
  joinWith "," (((cmds.zip outs).zip flags).filterMap fun ((c, o), f) =>
    if f then some s!"{toHex c};{toHex o}" else none)

/-- the property, declaratively, for the SendCommands family -/
def specMulti (eff : List Bytes) (stop : Bool) (cmds outs : List Bytes) : String :=
  if cmds.isEmpty then "Enoop" else
  let outs' := (List.range cmds.length).map fun i => outs.getD i []
  let flags := outs'.map (failedBy eff)
  let n := sentCount stop flags
  s!"{showSent (cmds.take n)}|B{bits (flags.take n)}|M{b2s ((flags.take n).any id)}|I{showMembers (cmds.take n) (outs'.take n) (flags.take n)}"

def showFailMembers : Option Failure → String
  | none => "."
  | some (.op e) => s!"?op{toHex e.input}"
  | some (.multi es) => joinWith "," (es.map fun e => s!"{toHex e.input};{toHex e.output}")

/-- the model's `SendCommands` outcome in the format of `specMulti` -/
def projMulti (m : Multi) (log : List Bytes) : String :=
  s!"{showSent log}|B{bits (m.responses.map (·.failed.isSome))}|M{b2s m.failed.isSome}|I{showFailMembers m.failed}"

/-- drop the per-member section (`SendConfig` hides the members) -/
def dropBits (s : String) : String := "|".intercalate ((s.splitOn "|").filter fun p => !p.startsWith "B")

/-- one token of the option list: `s<hexlist>` WithFailedWhenContains, `t` WithStopOnFailed,
`x…` an operation option of another layer, `b` an option that returns an error -/
def parseTok (s : String) : Option OpOpt :=
  if s == "t" then some .stop
  else if s == "b" then some .bad
  else if s.startsWith "x" then some .foreign
  else if s.startsWith "s" then (hexList (s.drop 1).toString).map OpOpt.fwc
  else none

/-- `n` = no options; otherwise tokens separated by `/`, in call order -/
def parseOpts (s : String) : Option (List OpOpt) :=
  if s == "n" then some [] else (s.splitOn "/").mapM parseTok

def handleOp (api : String) (drv : List Bytes) (opF : Option (List Bytes)) (stop : Bool) (op : Op)
    (cmds outs : List Bytes) : String :=
  -- the spec side uses what the caller asked for, not what `NewOperation` makes of it
  let eff := effective (opF.getD []) drv
  let nolf := b2s (decide (NoLF eff))
  let s0 : Sess Nat := { dev := 0, log := [] }
  if api == "g.cmd" || api == "n.cmd" then
    match cmds with
    | [c] =>
      let o := outs.getD 0 []
      let (r, _, s') := sendCommand (idxDev outs) drv op s0 c
      let spec := s!"{showSent [c]}|B{b2s (failedBy eff o)}"
      let proj := s!"{showSent s'.log}|B{b2s r.failed.isSome}"
      s!"{b2s (decide (NoEmpty eff))} {nolf} {spec} {showSent s'.log}|R{showResp r} {b2s (proj == spec)}"
    | _ => "bad-op"
  else if api == "n.cfg" then
    match cmds with
    | [config] =>
      let lines := splitLF config
      let spec := specMulti eff stop lines outs
      let res := sendConfig (idxDev outs) drv op s0 config
      let model := match res with
        | (some r, s') => s!"{showSent s'.log}|R{showResp r}"
        | (none, _) => "Enoop"
      let proj := match res with
        | (some r, s') => s!"{showSent s'.log}|M{b2s r.failed.isSome}|I{showFailMembers r.failed}"
        | (none, _) => "Enoop"
      s!"{b2s (decide (NoEmpty eff))} {nolf} {spec} {model} {b2s (proj == dropBits spec)}"
    | _ => "bad-op"
  else
    let spec := specMulti eff stop cmds outs
    let res := sendCommands (idxDev outs) drv op s0 cmds
    let model := match res with
      | (some m, s') => s!"{showSent s'.log}|R{joinWith "/" (m.responses.map showResp)}|F{showFailure m.failed}|J{toHex m.joinedResult}"
      | (none, _) => "Enoop"
    let proj := match res with
      | (some m, s') => projMulti m s'.log
      | (none, _) => "Enoop"
    s!"{b2s (decide (NoEmpty eff) && !cmds.isEmpty)} {nolf} {spec} {model} {b2s (proj == spec)}"

def idxDevE (outs : List (Option Bytes)) : DevE Nat := fun i _ => (i + 1, outs.getD i (some []))

/-- a device that leaves a command unanswered (`!` in the outs list): the channel returns an error.
Outside the property's statement (C05/C06 own the error itself); the model says what is transmitted
and that no response object comes back. -/
def handleFault (api : String) (drv : List Bytes) (op : Op) (cmds : List Bytes) (outs : List (Option Bytes)) : String :=
  let s0 : Sess Nat := { dev := 0, log := [] }
  let model :=
    if api == "g.cmd" || api == "n.cmd" then
      match cmds with
      | [c] =>
        (match sendCommandE (idxDevE outs) drv op s0 c with
         | (some r, _, s') => s!"{showSent s'.log}|R{showResp r}"
         | (none, _, s') => s!"Echan|{showSent s'.log}")
      | _ => "bad-op"
    else if api == "n.cfg" then
      match cmds with
      | [config] =>
        (match sendConfigE (idxDevE outs) drv op s0 config with
         | (some r, s') => s!"{showSent s'.log}|R{showResp r}"
         | (none, s') => s!"Echan|{showSent s'.log}")
      | _ => "bad-op"
    else
      match sendCommandsE (idxDevE outs) drv op s0 cmds with
      | (.ok m, s') => s!"{showSent s'.log}|R{joinWith "/" (m.responses.map showResp)}|F{showFailure m.failed}|J{toHex m.joinedResult}"
      | (.chanErr, s') => s!"Echan|{showSent s'.log}"
      | (.noop, _) => "Enoop"
  s!"0 1 - {model} 1"

/-- `!` = the device never answers this line -/
def hexListOpt (s : String) : Option (List (Option Bytes)) :=
  if s == "." then some [] else (s.splitOn ",").mapM fun x => if x == "!" then some none else (fromHex x).map some

/-- every embedded platform definition as loaded (`file:variant:failed-when-contains`), from the
translator's platform facts -/
def platList : String :=
  joinWith "|" ((Scrapli.Platform.allLoaded Scrapli.Gen.Platforms.files).map fun l =>
    s!"{l.file}:{toHex (ofStr l.variant)}:{joinWith "," (l.d.failedWhen.map fun x => toHex (ofStr x))}")

def handle (api : String) (drv : List Bytes) (opts : List OpOpt) (cmds outs : List Bytes) : String :=
  -- `d.multi` drives the response package alone: no operation options are involved
  if api == "d.multi" then handleOp api drv none false { fwc := [], stop := false } cmds outs
  else
    match newOperationL opts with
    | some op => handleOp api drv (lastFwc opts) (hasStop opts) op cmds outs
    -- an option returned an error: the call fails, nothing is sent; outside the property's domain
    | none => "0 1 Eother Eother 1"

end C13

/-- line-protocol handler for property C13 (arguments after the leading `c13` token); a `1` in the
`stop` field is the old spelling of a trailing `t` token -/
def handleC13 : List String → String
  | ["platlist"] => C13.platList
  -- `c13 f.lines <file content>` → `<every line fits> <lines util.LoadFileLines returns>`
  | ["f.lines", h] =>
    match fromHex h with
    | some b => s!"{b2s (decide (Scrapli.FileLines.AllFit b))} {showHexList (Scrapli.FileLines.fileLines b)}"
    | none => "bad-op"
  | api :: drv :: op :: stop :: cmds :: outs :: _ =>
    match hexList drv, C13.parseOpts op, hexList cmds, C13.hexListOpt outs with
    | some drv, some opts, some cmds, some outsE =>
      let opts := if s2b stop then opts ++ [.stop] else opts
      if outsE.any (·.isNone) then
        match newOperationL opts with
        | some op => C13.handleFault api drv op cmds outsE
        | none => "0 1 Eother Eother 1"
      else C13.handle api drv opts cmds (outsE.map (·.getD []))
    | _, _, _, _ => "bad-op"
  | _ => "bad-op"

end Driver.C13
