import Driver.Proto
namespace Driver
open Scrapli

/-- line-protocol handler for property C13 (arguments after the leading `c13` token) -/
def handleC13 : List String → String
  | _ => "bad-op"

end Driver
