import Driver.Proto
namespace Driver
open Scrapli

/-- line-protocol handler for property C20 (arguments after the leading `c20` token) -/
def handleC20 : List String → String
  | _ => "bad-op"

end Driver
