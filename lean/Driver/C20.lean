import Driver.Proto
import ScrapliModel.Queue
namespace Driver
open Scrapli Scrapli.Queue

/-! line protocol for C20

* `c20 seq <ops>` — `<ops>` is `.` (empty history) or comma separated tokens `e<hex>` (Enqueue),
  `r<hex>` (Requeue), `d` (Dequeue), `a` (DequeueAll), `g` (GetDepth).
  Answer: `<dom> <spec outs> <model outs> <model depth>:<model token>:<model slice length>`;
  outs are `.` or comma separated `u` (no result), `n` (nil), `b<hex>`, `i<int>`; a model run that
  faults ends its outs with `!panic` / `!deadlock`.
* `c20 fifo <rets> <produced>` — `<rets>` is `.` or comma separated consumer results in call order:
  `D<hex>` Dequeue→chunk, `n` Dequeue→nil, `A<hex>+<hex>+…` DequeueAll→these chunks, `N`
  DequeueAll→nil, `R<hex>` Requeue(chunk), `G` GetDepth; `<produced>` a hex list. Answer: `ok <hex of
  the remaining chunks, concatenated> <number remaining>` if the push-back reader `Conc.consume` of
  theorem `conc_fifo` accepts, else `bad`.
-/

def c20ParseOp (t : String) : Option Op :=
  match t.toList with
  | ['d'] => some .deq
  | ['a'] => some .deqAll
  | ['g'] => some .depth
  | 'e' :: h => (fromHex (String.ofList h)).map .enq
  | 'r' :: h => (fromHex (String.ofList h)).map .req
  | _ => none

def c20ParseOps (s : String) : Option (List Op) :=
  if s == "." then some [] else (s.splitOn ",").mapM c20ParseOp

def c20ShowOut : Out → String
  | .unit => "u"
  | .bytes none => "n"
  | .bytes (some b) => "b" ++ toHex b
  | .num d => "i" ++ toString d

def c20ShowOuts (l : List String) : String :=
  if l.isEmpty then "." else ",".intercalate l

/-- the sequential model run, keeping the results obtained before a fault -/
def c20Trace : List Op → Q → List String → List String × Q
  | [], q, acc => (acc.reverse, q)
  | o :: os, q, acc =>
    match Seq.apply o q with
    | .ok (r, q') => c20Trace os q' (c20ShowOut r :: acc)
    | .error .panic => (("!panic" :: acc).reverse, q)
    | .error .deadlock => (("!deadlock" :: acc).reverse, q)

def c20ParseRet (t : String) : Option Conc.Ret :=
  match t.toList with
  | ['n'] => some (.deq none)
  | ['N'] => some (.deqAll none)
  | ['G'] => some (.depth 0)
  | 'D' :: h => (fromHex (String.ofList h)).map fun b => .deq (some b)
  | 'R' :: h => (fromHex (String.ofList h)).map .req
  | 'A' :: h => (((String.ofList h).splitOn "+").mapM fromHex).map fun cs => .deqAll (some cs)
  | _ => none

def handleC20 : List String → String
  | ["seq", ops] =>
    match c20ParseOps ops with
    | some ops =>
      let spec := (Spec.run ops []).1.map c20ShowOut
      let (outs, q) := c20Trace ops Queue.new []
      let tok := match q.token with | some d => toString d | none => "none"
      s!"1 {c20ShowOuts spec} {c20ShowOuts outs} {q.depth}:{tok}:{q.queue.length}"
    | none => "bad-op"
  | ["fifo", rets, produced] =>
    let rs := if rets == "." then some [] else (rets.splitOn ",").mapM c20ParseRet
    match rs, hexList produced with
    | some rs, some prod =>
      match Conc.consume (rs.flatMap Conc.Ret.events) prod with
      | some rest => s!"ok {toHex rest.flatten} {rest.length}"
      | none => "bad"
    | _, _ => "bad-op"
  | _ => "bad-op"

end Driver
