import ScrapliModel.Close.Model
import Std.Data.HashSet
/-! Sanity exploration of the C07 model (development aid, not part of any proof):
`lake env lean --run scripts/C07Sanity.lean` -/
open Scrapli.Close Scrapli.Close.Sys

def enc (s : St) : Nat :=
  ((((((((((((b2n s.nc * 3 + s.mode.toNat) * 2 + b2n s.twice) * 13 + s.r.toNat) * 11 + s.k.toNat) * 2
    + b2n s.second) * 6 + s.o.toNat) * 2 + b2n s.oSecond) * 11 + s.n.toNat) * 6 + s.w.toNat) * 4
    + s.feed.toNat) * 3 + s.left.toNat) * 3 + s.panic.ctorIdx) * 4 + b2n s.closeErr * 2 + b2n s.lastErr

partial def explore (todo : List St) (seen : Std.HashSet Nat) (acc : Array St) : Array St :=
  match todo with
  | [] => acc
  | s :: rest =>
    let (seen', new) := (next s).foldl (fun (p : Std.HashSet Nat × List St) s' =>
      if p.1.contains (enc s') then p else (p.1.insert (enc s'), s' :: p.2)) (seen, [])
    explore (new ++ rest) seen' (acc.push s)

def main : IO Unit := do
  let seen0 := inits.foldl (fun (b : Std.HashSet Nat) s => b.insert (enc s)) {}
  let states := (explore inits seen0 #[]).toList
  let notInv := states.filter fun s => !inv s
  let term := states.filter fun s => (next s).isEmpty
  let badTerm := term.filter fun s => !good s
  let badRank := states.filter fun s => s.doneClosed && (next s).any fun s' => !(decide (rank s' < rank s))
  let badK := states.filter fun s => !s.doneClosed && (stepK s).isEmpty && s.panic = .none
  IO.println s!"reachable={states.length} notInv={notInv.length} terminal={term.length} badTerminal={badTerm.length} badRank={badRank.length} badK={badK.length}"
  for s in notInv.take 3 do IO.println s!"  notInv: {repr s}"
  for s in badTerm.take 3 do IO.println s!"  badterm: {repr s}"
  for s in badRank.take 3 do IO.println s!"  badRank: {repr s}"
