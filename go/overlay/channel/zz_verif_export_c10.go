package channel

// Export for the auxiliary internal tie of property C10 (injected with `go build -overlay`; this
// file is never written into the repository).

// VerifSSHMessageHandler reports whether sshMessageHandler turns the buffer into an error, and
// that error (nil otherwise).
func VerifSSHMessageHandler(b []byte) error { return (&Channel{}).sshMessageHandler(b) }
