package channel

// Exports for the auxiliary internal tie of the verification harness (injected with
// `go build -overlay`; this file is never written into the repository).

func VerifProcessReadBuf(rb []byte, searchDepth int) []byte { return processReadBuf(rb, searchDepth) }

func VerifSearchDepth(promptSearchDepth, inputLen int) int {
	return getProcessReadBufSearchDepth(promptSearchDepth, inputLen)
}

func (c *Channel) VerifProcessOut(b []byte, strip bool) []byte { return c.processOut(b, strip) }
