package network

// Exports for the auxiliary internal tie of the verification harness (injected with
// `go build -overlay`; this file is never written into the repository).

// VerifBuildPrivChangeMap runs the path search over the privilege graph.
func (d *Driver) VerifBuildPrivChangeMap(current, target string) []string {
	return d.buildPrivChangeMap(current, target, nil)
}

// VerifProcessAcquirePriv runs one decision of the acquire loop on a prompt.
func (d *Driver) VerifProcessAcquirePriv(target, prompt string) (action, next string, err error) {
	return d.processAcquirePriv(target, prompt)
}
