package generic

// Exports for the auxiliary internal tie of the verification harness (injected with
// `go build -overlay`; this file is never written into the repository).

// VerifCheck is Callback.check.
func (c *Callback) VerifCheck(b []byte) bool { return c.check(b) }
