package netconf

import "github.com/scrapli/scrapligo/channel"

// Export for the auxiliary internal tie of property C09 (injected with `go build -overlay`; this
// file is never written into the repository).

// VerifDetermineVersion runs determineVersion on a bare driver that holds the given server
// capabilities and preferred version; it returns the selected version, the prompt pattern the
// channel was switched to, and the error.
func VerifDetermineVersion(caps []string, pref string) (string, string, error) {
	d := &Driver{serverCapabilities: caps, PreferredVersion: pref, Channel: &channel.Channel{}}
	err := d.determineVersion()
	pp := ""
	if d.Channel.PromptPattern != nil {
		pp = d.Channel.PromptPattern.String()
	}
	return d.SelectedVersion, pp, err
}
