package transport

// VerifC14BuildOpenArgs exposes (*System).buildOpenArgs for the C14 internal tie: it runs the
// unexported function on a System value made of exactly the given parts and returns OpenArgs.
func VerifC14BuildOpenArgs(a *Args, s *SSHArgs, extra, pre []string) []string {
	t := &System{SSHArgs: s, ExtraArgs: extra, OpenArgs: pre}
	t.buildOpenArgs(a)

	return t.OpenArgs
}
