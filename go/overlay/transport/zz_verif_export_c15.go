package transport

import "net"

// VerifTelnetStep runs one step of the telnet negotiation parser (handleControlCharResponse) on
// a Telnet value whose connection is conn and whose initialBuf is initial; it returns the new
// ctrlBuf, the new initialBuf and the error. Injected with `go build -overlay` by the
// verification framework (property C15); nothing is written into the repository.
func VerifTelnetStep(conn net.Conn, ctrl, initial []byte, c byte) (ctrlOut, initialOut []byte, err error) {
	t := &Telnet{c: conn, initialBuf: initial}
	ctrlOut, err = t.handleControlCharResponse(ctrl, c)

	return ctrlOut, t.initialBuf, err
}
