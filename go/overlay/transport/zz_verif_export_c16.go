package transport

// Exports for the auxiliary internal tie of property C16 (injected with `go build -overlay`;
// nothing is written to the repository): transports whose raw reader / writer are supplied by the
// harness, so that the Read wrappers can be driven with scripted (data, error) results.

import (
	"io"
	"net"
)

// VerifC16Standard returns a Standard transport reading from r and writing to w.
func VerifC16Standard(r io.Reader, w io.WriteCloser) *Standard {
	return &Standard{SSHArgs: &SSHArgs{}, reader: r, writer: w}
}

// VerifC16Telnet returns a Telnet transport on connection c with the given initial buffer.
func VerifC16Telnet(c net.Conn, initial []byte) *Telnet {
	return &Telnet{TelnetArgs: &TelnetArgs{}, c: c, initialBuf: initial}
}
