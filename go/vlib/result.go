package vlib

import (
	"encoding/json"
	"fmt"
	"os"
	"sort"
)

// Finding is one failing case: a concrete input on which the property oracle fails on the
// implementation (Kind "oracle"), on which implementation and model disagree (Kind
// "correspondence"), or on which model and spec disagree (Kind "machinery").
type Finding struct {
	Kind      string `json:"kind"`
	Case      string `json:"case"`      // replayable case line
	Detail    string `json:"detail"`    // human readable
	Signature string `json:"signature"` // classification used to match known findings
}

// Result is what a harness subcommand hands to bin/check.
type Result struct {
	Property     string         `json:"property"`
	Evaluations  int            `json:"evaluations"`
	InDomain     int            `json:"in_domain"`
	Distinct     int            `json:"distinct_nontrivial"`
	Rule         string         `json:"rule"`
	Samples      []any          `json:"samples"`
	Distribution map[string]int `json:"distribution"`
	Exhaustive   bool           `json:"exhaustive"`
	ExhaustiveOf string         `json:"exhaustive_of,omitempty"`
	TracesVsImpl int            `json:"traces_validated_against_impl"`
	Findings     []Finding      `json:"findings"`
	Notes        []string       `json:"notes"`
	InternalTie  bool           `json:"internal_tie"`

	seen map[string]bool
}

func NewResult(prop string) *Result {
	return &Result{Property: prop, Distribution: map[string]int{}, seen: map[string]bool{}}
}

// Count bumps a distribution bucket.
func (r *Result) Count(bucket string) { r.Distribution[bucket]++ }

// Case records one evaluated case; key identifies it for distinctness, nontrivial says whether
// it is non-trivial by the property's stated rule.
func (r *Result) Case(key string, nontrivial bool) {
	r.Evaluations++
	if nontrivial && !r.seen[key] {
		r.seen[key] = true
		r.Distinct++
	}
}

func (r *Result) Sample(x any) {
	if len(r.Samples) < 6 {
		r.Samples = append(r.Samples, x)
	}
}

func (r *Result) Fail(kind, cas, detail, sig string) {
	key := "finding:" + kind + ":" + sig
	if r.Distribution[key] < 8 {
		if len(detail) > 1200 {
			detail = detail[:1200] + "…"
		}
		r.Findings = append(r.Findings, Finding{Kind: kind, Case: cas, Detail: detail, Signature: sig})
	}
	r.Count(key)
}

func (r *Result) Note(f string, a ...any) { r.Notes = append(r.Notes, fmt.Sprintf(f, a...)) }

func (r *Result) Write(path string) error {
	sort.SliceStable(r.Findings, func(i, j int) bool { return len(r.Findings[i].Case) < len(r.Findings[j].Case) })
	b, err := json.MarshalIndent(r, "", " ")
	if err != nil {
		return err
	}
	return os.WriteFile(path, b, 0o644)
}
