package vlib

import (
	"bufio"
	"encoding/hex"
	"fmt"
	"os"
	"os/exec"
	"strings"
)

// Hex encodes bytes for the line protocol ("-" is the empty string).
func Hex(b []byte) string {
	if len(b) == 0 {
		return "-"
	}
	return hex.EncodeToString(b)
}

// UnHex decodes a protocol field.
func UnHex(s string) ([]byte, error) {
	if s == "-" {
		return []byte{}, nil
	}
	return hex.DecodeString(s)
}

// HexList encodes a list of byte strings as one field: items joined by ',' ("." = empty list).
func HexList(bs [][]byte) string {
	if len(bs) == 0 {
		return "."
	}
	parts := make([]string, len(bs))
	for i, b := range bs {
		parts[i] = Hex(b)
	}
	return strings.Join(parts, ",")
}

// AskLean pipes the request lines to the compiled Lean model driver and returns one answer
// line per request line.
func AskLean(driver string, lines []string) ([]string, error) {
	if len(lines) == 0 {
		return nil, nil
	}
	in, err := os.CreateTemp("", "verif-lean-in-*")
	if err != nil {
		return nil, err
	}
	defer os.Remove(in.Name())
	w := bufio.NewWriter(in)
	for _, l := range lines {
		if strings.ContainsAny(l, "\n\r") {
			return nil, fmt.Errorf("request line contains newline: %q", l)
		}
		w.WriteString(l)
		w.WriteByte('\n')
	}
	w.Flush()
	in.Seek(0, 0)
	cmd := exec.Command(driver)
	cmd.Stdin = in
	cmd.Stderr = os.Stderr
	out, err := cmd.Output()
	in.Close()
	if err != nil {
		return nil, fmt.Errorf("lean driver: %w", err)
	}
	res := strings.Split(strings.TrimRight(string(out), "\n"), "\n")
	if len(res) != len(lines) {
		return nil, fmt.Errorf("lean driver answered %d lines for %d requests", len(res), len(lines))
	}
	return res, nil
}
