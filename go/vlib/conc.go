package vlib

import "runtime"

// Conc scales a degree of parallelism that was chosen for a 16-core machine to the CPUs this
// process may actually use (cgroup / affinity limits are reflected by runtime.NumCPU on Linux),
// so that timing-dependent sessions are not starved on a smaller or restricted host.
func Conc(n int) int {
	c := n * runtime.NumCPU() / 16
	if c < 1 {
		c = 1
	}
	if c > n {
		c = n
	}
	return c
}
