// Package vlib holds the shared plumbing of the correspondence harness: one PRNG, the
// line-protocol client for the Lean model driver and the result record bin/check consumes.
package vlib

// Rng is splitmix64; every random choice of a run derives from one seed so a case replays.
type Rng struct{ s uint64 }

// NewRng hashes the seed through the splitmix finalizer first, so that neighbouring seeds give
// unrelated streams (seed n+1 must not be the stream of seed n shifted by one output).
func NewRng(seed uint64) *Rng {
	z := seed + 0x1234567
	z = (z ^ (z >> 30)) * 0xBF58476D1CE4E5B9
	z = (z ^ (z >> 27)) * 0x94D049BB133111EB
	return &Rng{s: z ^ (z >> 31)}
}

func (r *Rng) U64() uint64 {
	r.s += 0x9E3779B97F4A7C15
	z := r.s
	z = (z ^ (z >> 30)) * 0xBF58476D1CE4E5B9
	z = (z ^ (z >> 27)) * 0x94D049BB133111EB
	return z ^ (z >> 31)
}

// Intn returns a value in [0,n).
func (r *Rng) Intn(n int) int {
	if n <= 0 {
		return 0
	}
	return int(r.U64() % uint64(n))
}

// Range returns a value in [lo,hi].
func (r *Rng) Range(lo, hi int) int { return lo + r.Intn(hi-lo+1) }

func (r *Rng) Bool() bool { return r.U64()&1 == 1 }

// Chance is true with probability num/den.
func (r *Rng) Chance(num, den int) bool { return r.Intn(den) < num }

func (r *Rng) Pick(xs []string) string { return xs[r.Intn(len(xs))] }

func (r *Rng) PickB(xs [][]byte) []byte { return xs[r.Intn(len(xs))] }

// Fork derives an independent stream (used to give each case its own replayable seed).
func (r *Rng) Fork() *Rng { return &Rng{s: r.U64()} }

// Bytes returns n bytes drawn from alphabet.
func (r *Rng) Bytes(n int, alphabet []byte) []byte {
	b := make([]byte, n)
	for i := range b {
		b[i] = alphabet[r.Intn(len(alphabet))]
	}
	return b
}

// Cuts partitions a length into positive pieces according to a segmentation class:
// 0 whole, 1 one byte each, 2 random geometric, 3 fixed size k.
func (r *Rng) Cuts(n, class int) []int {
	var out []int
	switch class {
	case 0:
		if n > 0 {
			out = []int{n}
		}
	case 1:
		for i := 0; i < n; i++ {
			out = append(out, 1)
		}
	case 3:
		k := r.Range(2, 9)
		for n > 0 {
			c := k
			if c > n {
				c = n
			}
			out = append(out, c)
			n -= c
		}
	default:
		for n > 0 {
			c := 1
			for c < n && r.Chance(3, 4) {
				c += r.Range(1, 6)
			}
			if c > n {
				c = n
			}
			out = append(out, c)
			n -= c
		}
	}
	return out
}
