package c20stress

// One producer and SEVERAL consumer goroutines on a real util.Queue. The library can get there by
// itself (Close running an on-close function that sends commands while an operation is in flight),
// so this is judged: no panic, no hang, every produced chunk delivered to exactly one consumer
// (none lost, none twice), every put-back chunk delivered exactly once, and what one consumer
// obtains is in stream order (theorems conc_no_panic_multi_consumer, multi_conservation,
// multi_per_consumer_subsequence).

import (
	"bytes"
	"fmt"
	"runtime"
	"sync"
	"sync/atomic"
	"time"

	"github.com/scrapli/scrapligo/util"
)

// MultiConfig is one run; everything random derives from Seed.
type MultiConfig struct {
	Seed      uint64
	Chunks    int
	Consumers int
	Procs     int
	Timeout   time.Duration
}

// MultiReport is the outcome. Violation == "" means clean.
type MultiReport struct {
	Violation string         `json:"violation"`
	Detail    string         `json:"detail"`
	Calls     map[string]int `json:"calls"`
	PerCons   []int          `json:"per_consumer"` // produced chunks each consumer obtained
	Putbacks  int            `json:"putbacks"`
	EmptyAll  int            `json:"dequeueall_empty_non_nil"` // DequeueAll that lost the race for the last chunks
	ElapsedMS int64          `json:"elapsed_ms"`
}

// mchunk: 4-byte length, tag, 4-byte number, filler — self-delimiting at any size.
func mchunk(seed uint64, n int, tag byte) []byte {
	h := rng{s: seed ^ (uint64(n)+3)*0xD1B54A32D192ED03 ^ uint64(tag)<<48}
	l := 9 + int(h.u64()%32)
	if h.u64()%500 == 0 {
		l = 70000 + int(h.u64()%5000)
	}
	b := make([]byte, l)
	b[0], b[1], b[2], b[3] = byte(l>>24), byte(l>>16), byte(l>>8), byte(l)
	b[4] = tag
	b[5], b[6], b[7], b[8] = byte(n>>24), byte(n>>16), byte(n>>8), byte(n)
	for k := 9; k < l; k++ {
		b[k] = byte(h.u64())
	}
	return b
}

func msplit(b []byte) ([][]byte, bool) {
	var out [][]byte
	for len(b) > 0 {
		if len(b) < 9 {
			return out, false
		}
		l := int(b[0])<<24 | int(b[1])<<16 | int(b[2])<<8 | int(b[3])
		if l < 9 || l > len(b) {
			return out, false
		}
		out = append(out, b[:l])
		b = b[l:]
	}
	return out, true
}

// RunMulti executes one run.
func RunMulti(cfg MultiConfig) MultiReport {
	if cfg.Timeout == 0 {
		cfg.Timeout = 45 * time.Second
	}
	if cfg.Procs > 0 {
		old := runtime.GOMAXPROCS(cfg.Procs)
		defer runtime.GOMAXPROCS(old)
	}
	t0 := time.Now()
	q := util.NewQueue()
	var mu sync.Mutex
	rep := MultiReport{Calls: map[string]int{}, PerCons: make([]int, cfg.Consumers)}
	var stop atomic.Bool
	fail := func(sig, format string, a ...any) {
		mu.Lock()
		if rep.Violation == "" {
			rep.Violation, rep.Detail = sig, fmt.Sprintf(format, a...)
		}
		mu.Unlock()
		stop.Store(true)
	}
	var takenP atomic.Int64   // produced chunks delivered so far (all consumers)
	var outstandR atomic.Int64 // put-back chunks not yet delivered again
	seenP := make([]atomic.Int32, cfg.Chunks)
	var wg sync.WaitGroup
	wg.Add(1 + cfg.Consumers)
	go func() {
		defer wg.Done()
		defer func() {
			if p := recover(); p != nil {
				fail("multi-panic", "producer goroutine panicked in Enqueue: %v", p)
			}
		}()
		pr := rng{s: cfg.Seed + 1}
		for i := 0; i < cfg.Chunks && !stop.Load(); i++ {
			q.Enqueue(mchunk(cfg.Seed, i, 'P'))
			if pr.intn(100) < 20 {
				runtime.Gosched()
			}
		}
	}()
	for c := 0; c < cfg.Consumers; c++ {
		go func(c int) {
			defer wg.Done()
			op := "-"
			defer func() {
				if p := recover(); p != nil {
					fail("multi-panic", "consumer %d of %d panicked in %s: %v", c, cfg.Consumers, op, p)
				}
			}()
			cr := rng{s: cfg.Seed*31 + uint64(c)*977 + 5}
			calls := map[string]int{}
			lastP := -1
			mine := 0
			rput := 0
			seenR := map[int]bool{}
			got := func(ch []byte) bool {
				if len(ch) < 9 {
					fail("multi-corrupt", "consumer %d obtained a malformed chunk of %d bytes", c, len(ch))
					return false
				}
				n := int(ch[5])<<24 | int(ch[6])<<16 | int(ch[7])<<8 | int(ch[8])
				switch ch[4] {
				case 'P':
					if n < 0 || n >= cfg.Chunks || !bytes.Equal(ch, mchunk(cfg.Seed, n, 'P')) {
						fail("multi-corrupt", "consumer %d obtained bytes that are no produced chunk (claims P#%d)", c, n)
						return false
					}
					if seenP[n].Add(1) != 1 {
						fail("multi-duplicate", "produced chunk P#%d was delivered twice (second time to consumer %d)", n, c)
						return false
					}
					if n <= lastP {
						fail("multi-order", "consumer %d obtained P#%d after P#%d: its chunks are not in stream order", c, n, lastP)
						return false
					}
					lastP = n
					mine++
					takenP.Add(1)
				case 'R':
					if !bytes.Equal(ch, mchunk(cfg.Seed, n, 'R')) || seenR[n] {
						fail("multi-corrupt", "consumer %d obtained a put-back chunk R#%d that is wrong or a repeat", c, n)
						return false
					}
					seenR[n] = true
					outstandR.Add(-1)
				default:
					fail("multi-corrupt", "consumer %d obtained a chunk with tag %q", c, ch[4])
					return false
				}
				return true
			}
			idle := 0
			for !stop.Load() && !(int(takenP.Load()) == cfg.Chunks && outstandR.Load() == 0) {
				switch k := cr.intn(100); {
				case k < 70:
					op = "Dequeue"
					calls[op]++
					b := q.Dequeue()
					if b == nil {
						calls["Dequeue->nil"]++
						idle++
						if idle%4 == 0 {
							runtime.Gosched()
						}
						continue
					}
					if !got(b) {
						return
					}
				case k < 84:
					op = "DequeueAll"
					calls[op]++
					b := q.DequeueAll()
					if b == nil {
						calls["DequeueAll->nil"]++
						continue
					}
					if len(b) == 0 {
						mu.Lock()
						rep.EmptyAll++ // another consumer emptied the queue between the depth test and the lock
						mu.Unlock()
						continue
					}
					cs, ok := msplit(b)
					if !ok {
						fail("multi-corrupt", "consumer %d: DequeueAll returned %d bytes that are not whole chunks", c, len(b))
						return
					}
					for _, ch := range cs {
						if !got(ch) {
							return
						}
					}
				case k < 95:
					op = "GetDepth"
					calls[op]++
					if d := q.GetDepth(); d < 0 {
						fail("multi-depth", "GetDepth returned %d", d)
						return
					}
				default:
					if outstandR.Load() > 8 {
						continue
					}
					op = "Requeue"
					calls[op]++
					outstandR.Add(1)
					q.Requeue(mchunk(cfg.Seed, c*1000000+rput, 'R'))
					rput++
				}
			}
			mu.Lock()
			for k, v := range calls {
				rep.Calls[k] += v
			}
			rep.PerCons[c] = mine
			rep.Putbacks += rput
			mu.Unlock()
		}(c)
	}
	done := make(chan struct{})
	go func() { wg.Wait(); close(done) }()
	finished := false
	limit := time.After(cfg.Timeout)
	var failedAt time.Time
wait:
	for {
		select {
		case <-done:
			finished = true
			break wait
		case <-limit:
			break wait
		case <-time.After(50 * time.Millisecond):
			if stop.Load() {
				if failedAt.IsZero() {
					failedAt = time.Now()
				} else if time.Since(failedAt) > 2*time.Second {
					break wait
				}
			}
		}
	}
	if !finished {
		fail("multi-deadlock", "no completion within %v with %d consumers: %d of %d produced chunks delivered, %d put-backs outstanding", cfg.Timeout, cfg.Consumers, takenP.Load(), cfg.Chunks, outstandR.Load())
	}
	mu.Lock()
	out := rep
	out.Calls = map[string]int{}
	for k, v := range rep.Calls {
		out.Calls[k] = v
	}
	mu.Unlock()
	if out.Violation == "" {
		func() {
			defer func() {
				if p := recover(); p != nil {
					out.Violation, out.Detail = "multi-panic", fmt.Sprintf("final calls panicked: %v", p)
				}
			}()
			for i := range seenP {
				if seenP[i].Load() != 1 {
					out.Violation, out.Detail = "multi-lost", fmt.Sprintf("produced chunk P#%d was delivered %d times (%d consumers)", i, seenP[i].Load(), cfg.Consumers)
					return
				}
			}
			if d := q.GetDepth(); d != 0 {
				out.Violation, out.Detail = "multi-depth", fmt.Sprintf("after everything was delivered GetDepth is %d", d)
				return
			}
			if b := q.Dequeue(); b != nil {
				out.Violation, out.Detail = "multi-duplicate", "Dequeue on the drained queue returned a chunk"
			}
		}()
	}
	out.ElapsedMS = time.Since(t0).Milliseconds()
	return out
}
