package c20stress

// Observations that are reported in the evidence but never judged: they are outside the property's
// quantifier (two consumer goroutines) or not about bytes at all (memory held by the backing slice).

import (
	"fmt"
	"runtime"
	"sync"
	"sync/atomic"
	"time"

	"github.com/scrapli/scrapligo/util"
)

// TwoConsumers runs one producer and TWO consumer goroutines (Dequeue only) on a real queue. The
// library itself never does this (every channel operation waits for its reader goroutine before it
// returns); the unlocked depth test in Dequeue is not sufficient for it. Returns how the rounds
// ended.
func TwoConsumers(seed uint64, rounds, chunks int) (panics, lost, clean, stuck int) {
	for r := 0; r < rounds; r++ {
		q := util.NewQueue()
		var got atomic.Int64
		var panicked atomic.Bool
		var stop atomic.Bool
		var wg sync.WaitGroup
		wg.Add(3)
		go func() {
			defer wg.Done()
			defer func() {
				if recover() != nil {
					panicked.Store(true)
				}
			}()
			for i := 0; i < chunks && !stop.Load(); i++ {
				q.Enqueue(Chunk(seed, i, 'P'))
			}
		}()
		for k := 0; k < 2; k++ {
			go func() {
				defer wg.Done()
				defer func() {
					if recover() != nil {
						panicked.Store(true)
						stop.Store(true)
					}
				}()
				idle := 0
				for !stop.Load() && int(got.Load()) < chunks && idle < 200000 {
					if b := q.Dequeue(); b != nil {
						got.Add(1)
						idle = 0
					} else {
						idle++
						runtime.Gosched()
					}
				}
			}()
		}
		done := make(chan struct{})
		go func() { wg.Wait(); close(done) }()
		select {
		case <-done:
			switch {
			case panicked.Load():
				panics++
			case int(got.Load()) != chunks:
				lost++
			default:
				clean++
			}
		case <-time.After(20 * time.Second):
			stop.Store(true)
			stuck++
		}
	}
	return
}

// HeadRetention: after Dequeue (`q.queue = q.queue[1:]`) the backing array still points at the
// chunk that was handed out; it stays reachable through the queue until an append reallocates the
// array. Observed with a finalizer on a large chunk: is it collectable while a younger chunk is
// still queued and nothing is enqueued (idle device)? And after further enqueues?
func HeadRetention() (heldWhileIdle, heldAfterMoreEnqueues bool) {
	q := util.NewQueue()
	var freed atomic.Bool
	func() {
		big := make([]byte, 8<<20)
		runtime.SetFinalizer(&big[0], func(*byte) { freed.Store(true) })
		q.Enqueue(big)
		q.Enqueue([]byte("small"))
		_ = q.Dequeue() // the big chunk leaves the queue; the caller drops it
	}()
	for i := 0; i < 5; i++ {
		runtime.GC()
		time.Sleep(2 * time.Millisecond)
	}
	heldWhileIdle = !freed.Load()
	for i := 0; i < 64; i++ {
		q.Enqueue([]byte("more"))
	}
	for i := 0; i < 5; i++ {
		runtime.GC()
		time.Sleep(2 * time.Millisecond)
	}
	heldAfterMoreEnqueues = !freed.Load()
	runtime.KeepAlive(q)
	return
}

// LongRun does ops Enqueue/Dequeue pairs (steady small depth, 1 KiB chunks, an occasional
// DequeueAll / Requeue) on one queue and samples the live heap: growth would mean the backing
// slice (or anything else) accumulates.
func LongRun(ops int) string {
	q := util.NewQueue()
	heap := func() uint64 {
		runtime.GC()
		var m runtime.MemStats
		runtime.ReadMemStats(&m)
		return m.HeapAlloc
	}
	h0 := heap()
	var samples []uint64
	r := rng{s: 99}
	depth := 0
	for i := 0; i < ops; i++ {
		switch k := r.intn(100); {
		case depth < 3 || k < 48:
			q.Enqueue(make([]byte, 1024))
			depth++
		case k < 94:
			if q.Dequeue() != nil {
				depth--
			}
		case k < 97:
			b := q.Dequeue()
			if b != nil {
				q.Requeue(b)
			}
		default:
			if depth > 64 {
				q.DequeueAll()
				depth = 0
			}
		}
		if depth > 256 {
			q.DequeueAll()
			depth = 0
		}
		if (i+1)%(ops/4) == 0 {
			samples = append(samples, heap())
		}
	}
	q.DequeueAll()
	end := heap()
	runtime.KeepAlive(q)
	s := fmt.Sprintf("live heap before %d KiB", h0>>10)
	for i, v := range samples {
		s += fmt.Sprintf(", after %d%% of %d calls %d KiB", (i+1)*25, ops, v>>10)
	}
	return s + fmt.Sprintf(", drained %d KiB", end>>10)
}
