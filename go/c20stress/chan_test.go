package c20stress

import (
	"sync"
	"testing"
)

func TestChanKinds(t *testing.T) {
	var wg sync.WaitGroup
	sem := make(chan struct{}, 8)
	for seed := uint64(1); seed <= 10; seed++ {
		for _, k := range ChanKinds {
			wg.Add(1)
			sem <- struct{}{}
			go func(seed uint64, k string) {
				defer wg.Done()
				defer func() { <-sem }()
				rep := RunChan(ChanConfig{Seed: seed, Kind: k, Record: true, Huge: seed%10 == 0})
				if rep.Violation != "" {
					t.Errorf("seed %d kind %s: %s: %s", seed, k, rep.Violation, rep.Detail)
				}
			}(seed, k)
		}
	}
	wg.Wait()
}
