package c20stress

// Integration layer of the C20 check: a real channel.Channel over a scripted stream transport. The
// channel's read goroutine (channel/read.go) is the queue's producer, the channel operations
// (Read, ReadAll, ReadUntilPrompt / Explicit / Fuzzy, GetPrompt, and the login code with its Requeue
// of leftover bytes in channel/channel.go) are its consumer. The oracle is the property's, end to
// end and at byte level: normalised bytes delivered by the transport = bytes the operations obtained
// ++ bytes still queued, in order (put-backs first). The Go side of the oracle lives here (so that it
// also runs in the -race child); the harness additionally replays every in-process run through the
// Lean reader `Chan.consumeB` with the model's own normalisation.

import (
	"bytes"
	"context"
	"errors"
	"fmt"
	"io"
	"runtime"
	"strings"
	"sync"
	"time"

	"github.com/scrapli/scrapligo/channel"
	"github.com/scrapli/scrapligo/driver/options"
	"github.com/scrapli/scrapligo/logging"
	"github.com/scrapli/scrapligo/transport"
	"github.com/scrapli/scrapligo/util"
)

// ---- scripted stream transport ----

var errTransient = errors.New("c20: transient read error")

type writeRec struct {
	data        []byte
	readsBefore int
}

// Stream implements transport.Implementation: it hands out the pushed items one per Read (an item
// longer than the read size is cut), in push order, and records what it handed out.
type Stream struct {
	mu        sync.Mutex
	cond      *sync.Cond
	pending   [][]byte
	delivered [][]byte
	writes    []writeRec
	closed    bool
	feeding   int  // feeders still running
	reuseBuf  bool   // io.Reader style: every Read returns a view of ONE buffer that the next Read overwrites
	rbuf      []byte
	rlast     int    // length of the view handed out last
	idleEmpty bool // nothing to deliver: return a read of length 0 after a short pause instead of blocking
	errAt     int  // index of the read before which one transient error is returned (-1 never)
	errFired  bool
	eofAtEnd  bool // once everything pushed has been handed out the device hangs up: io.EOF without Close
	onWrite   func(s *Stream, b []byte) // device logic, called with mu held
	line      []byte
}

func newStream() *Stream {
	s := &Stream{errAt: -1}
	s.cond = sync.NewCond(&s.mu)
	return s
}

func (s *Stream) pushLocked(b []byte) {
	s.pending = append(s.pending, b)
	s.cond.Broadcast()
}

func (s *Stream) Push(b []byte) {
	s.mu.Lock()
	s.pushLocked(b)
	s.mu.Unlock()
}

func (s *Stream) Open(_ *transport.Args) error { return nil }

func (s *Stream) Close() error {
	s.mu.Lock()
	s.closed = true
	s.cond.Broadcast()
	s.mu.Unlock()
	return nil
}

func (s *Stream) IsAlive() bool {
	s.mu.Lock()
	defer s.mu.Unlock()
	return !s.closed
}

func (s *Stream) Read(n int) ([]byte, error) {
	s.mu.Lock()
	if s.reuseBuf {
		// the caller asked for the next read: the buffer is the transport's again
		for k := 0; k < s.rlast && k < len(s.rbuf); k++ {
			s.rbuf[k] = 0xEE
		}
		s.rlast = 0
	}
	for {
		if s.closed {
			s.mu.Unlock()
			return nil, io.EOF
		}
		if s.errAt >= 0 && !s.errFired && len(s.delivered) >= s.errAt {
			s.errFired = true
			s.mu.Unlock()
			return nil, errTransient
		}
		if len(s.pending) > 0 {
			break
		}
		if s.eofAtEnd && s.feeding == 0 {
			s.mu.Unlock()
			return nil, io.EOF
		}
		if s.idleEmpty {
			s.mu.Unlock()
			time.Sleep(100 * time.Microsecond)
			return []byte{}, nil
		}
		s.cond.Wait()
	}
	it := s.pending[0]
	var out []byte
	if n > 0 && len(it) > n {
		out = append([]byte{}, it[:n]...)
		s.pending[0] = it[n:]
	} else {
		out = append([]byte{}, it...)
		s.pending = s.pending[1:]
	}
	s.delivered = append(s.delivered, append([]byte{}, out...))
	if s.reuseBuf {
		if cap(s.rbuf) < len(out) {
			s.rbuf = make([]byte, len(out), 2*len(out)+64)
		}
		s.rbuf = s.rbuf[:cap(s.rbuf)]
		copy(s.rbuf, out)
		s.rlast = len(out)
		out = s.rbuf[:len(out):len(out)]
	}
	s.mu.Unlock()
	return out, nil
}

func (s *Stream) Write(b []byte) error {
	s.mu.Lock()
	defer s.mu.Unlock()
	if s.closed {
		return errors.New("c20: write on closed stream")
	}
	s.writes = append(s.writes, writeRec{append([]byte{}, b...), len(s.delivered)})
	if s.onWrite != nil {
		s.onWrite(s, b)
	}
	return nil
}

// snapshot returns the reads handed out so far and whether everything pushed has been handed out.
func (s *Stream) snapshot() (reads [][]byte, quiet bool) {
	s.mu.Lock()
	defer s.mu.Unlock()
	return s.delivered[:len(s.delivered):len(s.delivered)], len(s.pending) == 0 && s.feeding == 0
}

type streamTelnet struct{ *Stream }

func (streamTelnet) GetInChannelAuthType() transport.InChannelAuthType {
	return transport.InChannelAuthTelnet
}

type streamSSH struct{ *Stream }

func (streamSSH) GetInChannelAuthType() transport.InChannelAuthType { return transport.InChannelAuthSSH }
func (streamSSH) GetSSHArgs() *transport.SSHArgs                     { return &transport.SSHArgs{} }

// NormRead is the reference for what Channel.read enqueues for one transport read: nothing for a
// read of length 0, otherwise the read without CR, ANSI-stripped when it contains ESC (with the
// library's own util.StripANSI; the Lean side of the check uses the extracted pattern instead).
func NormRead(b []byte) ([]byte, bool) {
	if len(b) == 0 {
		return nil, false
	}
	b = bytes.ReplaceAll(b, []byte("\r"), nil)
	if bytes.Contains(b, []byte("\x1b")) {
		b = util.StripANSI(b)
	}
	return b, true
}

// ---- scenarios ----

// ChanKinds are the consumer kinds of the integration layer.
var ChanKinds = []string{"read", "readall", "mixed", "prompt", "explicit", "fuzzy", "getprompt", "login-ssh", "login-telnet", "read-err", "eof"}

// ChanConfig is one integration run; every choice derives from Seed.
type ChanConfig struct {
	Seed    uint64
	Kind    string
	Huge    bool // allow reads of 64 KiB .. 300 KiB
	Record  bool // keep reads and events for the Lean reader
	Timeout time.Duration
}

// ChanReport is the outcome of one integration run.
type ChanReport struct {
	Kind      string            `json:"kind"`
	Dims      map[string]string `json:"dims"`
	Violation string            `json:"violation"`
	Detail    string            `json:"detail"`
	Reads     int               `json:"reads"`
	EmptyRead int               `json:"empty_reads"`
	NilChunks int               `json:"nil_chunks"` // reads that normalise to a nil chunk (Enqueue(nil))
	Bytes     int               `json:"bytes"`
	Ops       int               `json:"ops"`
	ReadsHex  string            `json:"reads_hex,omitempty"`
	Events    []string          `json:"events,omitempty"`
	Rest      []byte            `json:"rest,omitempty"`
	Stream    []byte            `json:"stream,omitempty"`
	ElapsedMS int64             `json:"elapsed_ms"`
}

var words = []string{"interface", "up", "line", "protocol", "is", "down", "vlan", "mtu", "bytes", "input", "output", "errors", "ge", "xe", "lo", "description", "uplink", "to", "core", "a", "b", "zz"}

type lockedBuf struct {
	mu sync.Mutex
	b  []byte
}

func (l *lockedBuf) Write(p []byte) (int, error) {
	l.mu.Lock()
	l.b = append(l.b, p...)
	l.mu.Unlock()
	return len(p), nil
}
func (l *lockedBuf) bytes() []byte {
	l.mu.Lock()
	defer l.mu.Unlock()
	return append([]byte{}, l.b...)
}

type failWriter struct{}

func (failWriter) Write(p []byte) (int, error) { return 0, errors.New("c20: channel log is full") }

type chanRun struct {
	cfg      ChanConfig
	r        rng
	s        *Stream
	c        *channel.Channel
	rep      *ChanReport
	consumed []byte // bytes the operations obtained (net of put-backs: what the reader has passed)
	normed   []byte // normalised stream of reads[:normedN]
	normedN  int
	events   []string
	deadline time.Time
	failed   bool
}

func (x *chanRun) fail(sig, format string, a ...any) {
	if !x.failed {
		x.failed = true
		x.rep.Violation = sig
		x.rep.Detail = fmt.Sprintf(format, a...)
	}
}

// stream brings the normalised stream up to date with what the transport has handed out.
func (x *chanRun) stream() (d []byte, quiet bool) {
	reads, quiet := x.s.snapshot()
	for ; x.normedN < len(reads); x.normedN++ {
		if nb, ok := NormRead(reads[x.normedN]); ok {
			x.normed = append(x.normed, nb...)
			if nb == nil {
				x.rep.NilChunks++
			}
		} else {
			x.rep.EmptyRead++
		}
	}
	return x.normed, quiet
}

func clip(b []byte) string {
	if len(b) > 48 {
		return fmt.Sprintf("%q…(%d bytes)", b[:48], len(b))
	}
	return fmt.Sprintf("%q", b)
}

// obtain records bytes an operation returned and checks that they continue the stream.
func (x *chanRun) obtain(op string, b []byte) bool {
	x.rep.Ops++
	if x.cfg.Record {
		x.events = append(x.events, "G"+hexOrDash(b))
	}
	at := len(x.consumed)
	x.consumed = append(x.consumed, b...)
	d, _ := x.stream()
	if len(x.consumed) > len(d) || !bytes.Equal(d[at:len(x.consumed)], b) {
		want := d[minInt(at, len(d)):minInt(len(d), at+len(b))]
		sig := "chan-wrong-bytes"
		switch {
		case len(b) > 0 && bytes.Contains(d[minInt(at, len(d)):], b):
			sig = "chan-lost-bytes" // what arrived is further down the stream: something in between was skipped
		case len(b) > 0 && bytes.Contains(d[:minInt(at, len(d))], b):
			sig = "chan-duplicated-bytes"
		}
		x.fail(sig, "%s returned %s at stream offset %d, the transport delivered %s there (kind %s, %v)", op, clip(b), at, clip(want), x.cfg.Kind, x.rep.Dims)
		return false
	}
	return true
}

func (x *chanRun) late() bool {
	if time.Now().After(x.deadline) {
		d, quiet := x.stream()
		x.fail("chan-timeout", "run did not finish in time: %d of %d delivered bytes obtained, transport quiet=%v (kind %s, %v)", len(x.consumed), len(d), quiet, x.cfg.Kind, x.rep.Dims)
		return true
	}
	return false
}

// drain reads whatever is left (randomly with Read / ReadAll) until everything the transport handed
// out has been obtained; tolerate is the number of transient errors that may still surface.
func (x *chanRun) drain(tolerate int) (errsSeen int) {
	for !x.failed {
		d, quiet := x.stream()
		if quiet && len(x.consumed) >= len(d) {
			// one more poll: nothing may be left
			if b, err := x.c.ReadAll(); err == nil && len(b) > 0 {
				x.obtain("ReadAll", b)
			}
			return errsSeen
		}
		if x.late() {
			return errsSeen
		}
		var b []byte
		var err error
		op := "Read"
		if x.cfg.Kind == "readall" || (x.cfg.Kind != "read" && x.r.intn(3) == 0) {
			op = "ReadAll"
			b, err = x.c.ReadAll()
		} else {
			b, err = x.c.Read()
		}
		if err != nil {
			errsSeen++
			if !errors.Is(err, errTransient) || errsSeen > tolerate {
				x.fail("chan-unexpected-error", "%s returned error %v (kind %s, %v)", op, err, x.cfg.Kind, x.rep.Dims)
			}
			continue
		}
		if b == nil {
			if x.r.intn(2) == 0 {
				time.Sleep(x.c.ReadDelay)
			} else {
				runtime.Gosched()
			}
			continue
		}
		x.obtain(op, b)
	}
	return errsSeen
}

// eof: the device hangs up after its last byte. Operations read until the channel reports the lost
// connection (Read / ReadAll refuse once the read loop has exited — what they make of it is C06's
// business); whatever they had not taken by then must still be in the queue, in order.
func (x *chanRun) eof() {
	for !x.failed {
		if x.late() {
			return
		}
		var b []byte
		var err error
		op := "Read"
		if x.r.intn(3) == 0 {
			op = "ReadAll"
			b, err = x.c.ReadAll()
		} else {
			b, err = x.c.Read()
		}
		if err != nil {
			break
		}
		if b == nil {
			time.Sleep(x.c.ReadDelay)
			continue
		}
		if !x.obtain(op, b) {
			return
		}
		if x.r.intn(4) == 0 {
			time.Sleep(time.Duration(x.r.intn(300)) * time.Microsecond) // fall behind the producer
		}
	}
	rest := x.c.Q.DequeueAll()
	x.rep.Dims["left-at-eof"] = fmt.Sprint(len(rest) > 0)
	if len(rest) > 0 {
		x.obtain("Q.DequeueAll after the connection was lost", rest)
	}
}

func (x *chanRun) junkLine() []byte {
	n := 1 + x.r.intn(7)
	var b []byte
	for i := 0; i < n; i++ {
		if i > 0 {
			b = append(b, ' ')
		}
		b = append(b, words[x.r.intn(len(words))]...)
	}
	return append(b, '.')
}

var ansiSeqs = []string{"\x1b[0m", "\x1b[1;32m", "\x1b[K", "\x1b[2J", "\x1b[?25l", "\x1b[10;20H", "\x1b7"}

// text builds n bytes (about) of junk lines for the content class.
func (x *chanRun) text(lines int, content int) []byte {
	var b []byte
	for i := 0; i < lines; i++ {
		b = append(b, x.junkLine()...)
		switch content {
		case 1: // CR heavy
			switch x.r.intn(3) {
			case 0:
				b = append(b, "\r\n"...)
			case 1:
				b = append(b, "\r\r\n"...)
			default:
				b = append(b, '\n')
			}
		case 2, 3: // ANSI
			if x.r.intn(2) == 0 {
				b = append(b, ansiSeqs[x.r.intn(len(ansiSeqs))]...)
			}
			b = append(b, "\r\n"...)
		default:
			b = append(b, '\n')
		}
	}
	return b
}

// cut segments data into items according to the size class; extra items that normalise to nothing
// (reads of length 0, lone CR, a lone ANSI sequence) are mixed in for some classes.
func (x *chanRun) cut(data []byte, size int, content int) [][]byte {
	var out [][]byte
	for len(data) > 0 {
		n := len(data)
		switch size {
		case 0:
			n = 1
		case 1:
			n = 1 + x.r.intn(16)
		case 2:
			n = 1 + x.r.intn(200)
		case 4:
			n = 1 + x.r.intn(40)
		}
		if n > len(data) {
			n = len(data)
		}
		out = append(out, data[:n])
		data = data[n:]
		if size == 4 || content == 3 {
			switch x.r.intn(8) {
			case 0:
				out = append(out, []byte{}) // a read of length 0
			case 1:
				out = append(out, []byte("\r")) // normalises to an empty (non-nil) chunk
			case 2:
				if content >= 2 {
					out = append(out, []byte(ansiSeqs[x.r.intn(len(ansiSeqs))])) // normalises to a nil chunk
				}
			}
		}
	}
	return out
}

func (x *chanRun) feed(items [][]byte, mode int) {
	x.s.mu.Lock()
	x.s.feeding++
	x.s.mu.Unlock()
	go func() {
		fr := rng{s: x.cfg.Seed ^ 0x5bd1e995}
		for i, it := range items {
			x.s.Push(it)
			switch mode {
			case 1: // trickle
				time.Sleep(time.Duration(20+fr.intn(200)) * time.Microsecond)
			case 2: // bursts
				if i%(3+fr.intn(9)) == 0 {
					time.Sleep(time.Duration(100+fr.intn(900)) * time.Microsecond)
				}
			}
		}
		x.s.mu.Lock()
		x.s.feeding--
		x.s.cond.Broadcast()
		x.s.mu.Unlock()
	}()
}

// RunChan executes one integration scenario.
func RunChan(cfg ChanConfig) (rep ChanReport) {
	if cfg.Timeout == 0 {
		cfg.Timeout = 12 * time.Second
	}
	t0 := time.Now()
	rep = ChanReport{Kind: cfg.Kind, Dims: map[string]string{}}
	done := make(chan struct{})
	x := &chanRun{cfg: cfg, r: rng{s: cfg.Seed*0x9E3779B97F4A7C15 + 77}, rep: &rep, deadline: t0.Add(cfg.Timeout * 3 / 4)}
	go func() {
		defer close(done)
		defer func() {
			if p := recover(); p != nil {
				x.fail("chan-panic", "panic in the consumer goroutine: %v (kind %s, %v)", p, cfg.Kind, rep.Dims)
			}
		}()
		x.run()
	}()
	select {
	case <-done:
	case <-time.After(cfg.Timeout):
		// the consumer goroutine is stuck inside a channel call
		return ChanReport{Kind: cfg.Kind, Violation: "chan-deadlock",
			Detail: fmt.Sprintf("scenario stuck for %v inside a channel call (kind %s)", cfg.Timeout, cfg.Kind), ElapsedMS: time.Since(t0).Milliseconds()}
	}
	rep.ElapsedMS = time.Since(t0).Milliseconds()
	return rep
}

func (x *chanRun) run() {
	cfg, rep := x.cfg, x.rep
	size := x.r.intn(5) // 0: 1 byte, 1: ≤16, 2: ≤200, 3: whole, 4: ≤40 with empties
	content := x.r.intn(4)
	feedMode := x.r.intn(3)
	logMode := []int{1, 1, 0, 2}[x.r.intn(4)]
	delay := []time.Duration{time.Microsecond, 20 * time.Microsecond, 250 * time.Microsecond}[x.r.intn(3)]
	readSize := []int{0, 0, 64, 1 << 20}[x.r.intn(4)]
	idle := x.r.intn(3) == 0
	login := strings.HasPrefix(cfg.Kind, "login")
	if login && readSize == 64 {
		readSize = 0 // login prompts are delivered whole (see below)
	}
	if cfg.Huge {
		readSize = 1 << 20
	}
	rep.Dims = map[string]string{"size": fmt.Sprint(size), "content": fmt.Sprint(content), "feed": fmt.Sprint(feedMode),
		"log": fmt.Sprint(logMode), "delay": delay.String(), "readsize": fmt.Sprint(readSize), "idle-empty-reads": fmt.Sprint(idle), "huge": fmt.Sprint(cfg.Huge)}

	s := newStream()
	s.idleEmpty = idle
	s.reuseBuf = x.r.intn(2) == 0 // the interface does not promise a fresh slice per Read
	rep.Dims["transport-reuses-read-buffer"] = fmt.Sprint(s.reuseBuf)
	x.s = s
	var impl transport.Implementation = s
	switch cfg.Kind {
	case "login-ssh":
		impl = streamSSH{s}
	case "login-telnet":
		impl = streamTelnet{s}
	}
	lg, _ := logging.NewInstance()
	topts := []util.Option{options.WithCustomTransport(impl), options.WithAuthUsername("admin"), options.WithAuthPassword("s3cret")}
	if readSize > 0 {
		topts = append(topts, options.WithTransportReadSize(readSize))
	}
	tr, err := transport.NewTransport(lg, "c20", "custom", topts...)
	if err != nil {
		x.fail("chan-setup", "NewTransport: %v", err)
		return
	}
	clog := &lockedBuf{}
	copts := []util.Option{options.WithReadDelay(delay), options.WithTimeoutOps(8 * time.Second)}
	bypass := !login && x.r.intn(3) != 0
	if bypass {
		// without it Open asks the transport for in-channel auth data; a plain transport answers
		// "unsupported" and nothing is read or put back
		copts = append(copts, options.WithAuthBypass())
	}
	rep.Dims["auth-bypass"] = fmt.Sprint(bypass)
	switch logMode {
	case 1:
		copts = append(copts, options.WithChannelLog(clog))
	case 2:
		copts = append(copts, options.WithChannelLog(failWriter{}))
	}
	c, err := channel.NewChannel(lg, tr, copts...)
	if err != nil {
		x.fail("chan-setup", "NewChannel: %v", err)
		return
	}
	x.c = c
	defer func() {
		cd := make(chan struct{})
		go func() { _ = c.Close(); close(cd) }()
		select {
		case <-cd:
		case <-time.After(5 * time.Second):
		}
	}()

	ctxFor := func() (context.Context, context.CancelFunc) {
		return context.WithDeadline(context.Background(), x.deadline)
	}
	opErr := func(op string, err error) {
		sig := "chan-unexpected-error"
		if errors.Is(err, context.DeadlineExceeded) {
			sig = "chan-timeout"
		}
		d, quiet := x.stream()
		x.fail(sig, "%s failed: %v; %d of %d delivered bytes obtained, transport quiet=%v (kind %s, %v)", op, err, len(x.consumed), len(d), quiet, cfg.Kind, rep.Dims)
	}
	hugeItem := func() []byte {
		n := 65536 + x.r.intn(240000)
		b := make([]byte, n)
		for i := range b {
			b[i] = "abcdefghijklmnopqrstuvwxyz \n"[x.r.intn(28)]
		}
		return b
	}
	tolerate := 0

	switch cfg.Kind {
	case "read", "readall", "mixed", "read-err", "eof":
		data := x.text(10+x.r.intn(60), content)
		items := x.cut(data, size, content)
		if cfg.Huge {
			items = append(items, hugeItem())
			items = append(items, x.cut(x.text(5, content), size, content)...)
			if x.r.intn(2) == 0 {
				items = append(items, hugeItem())
			}
		}
		if cfg.Kind == "read-err" {
			s.errAt = x.r.intn(len(items)) // strictly before a data item: the consumer has to pass the error to get the rest
			tolerate = 1
			rep.Dims["err-at"] = fmt.Sprint(s.errAt)
		}
		if err := c.Open(); err != nil {
			opErr("Open", err)
			return
		}
		if cfg.Kind == "eof" {
			s.mu.Lock()
			s.eofAtEnd = true
			s.mu.Unlock()
			x.feed(items, feedMode)
			x.eof()
			break
		}
		x.feed(items, feedMode)
		seen := x.drain(tolerate)
		if cfg.Kind == "read-err" && !x.failed && seen != 1 {
			x.fail("chan-error-lost", "the transport returned one transient read error before read %d; Read surfaced %d error(s) (%v)", s.errAt, seen, rep.Dims)
		}

	case "prompt", "explicit", "fuzzy":
		nseg := 2 + x.r.intn(7)
		var items [][]byte
		var marks [][]byte
		long := x.r.intn(3) == 0 // segments longer than the prompt search depth (1000 bytes)
		rep.Dims["long-segments"] = fmt.Sprint(long)
		if long {
			// keep the number of reads (each costs a ReadDelay sleep) bounded
			if size < 2 || size == 4 {
				size = 2
			}
			if nseg > 4 {
				nseg = 4
			}
		}
		for i := 1; i <= nseg; i++ {
			lines := 1 + x.r.intn(8)
			if long {
				lines = 40 + x.r.intn(60)
			}
			seg := x.text(lines, content)
			var m []byte
			if cfg.Kind == "prompt" {
				m = []byte(fmt.Sprintf("r%d#", i))
				seg = append(append(seg, m...), []string{"", " ", "\n"}[x.r.intn(3)]...)
				if !bytes.HasSuffix(seg, []byte("\n")) {
					seg = append(seg, '\n')
				}
			} else {
				m = []byte(fmt.Sprintf("show mark %d now", i))
				if long && i%2 == 0 {
					// an input longer than half the search depth widens the search window
					m = append(m, bytes.Repeat([]byte(" and then some more words"), 25)...)
				}
				seg = append(append(seg, m...), '\n')
			}
			marks = append(marks, m)
			items = append(items, x.cut(seg, size, content)...)
			if cfg.Huge && i == 1 {
				items = append(items, hugeItem(), []byte("\n"))
			}
		}
		if err := c.Open(); err != nil {
			opErr("Open", err)
			return
		}
		x.feed(items, feedMode)
		for i := 0; i < nseg && !x.failed; i++ {
			if bytes.Contains(x.consumed, marks[i]) {
				continue
			}
			ctx, cancel := ctxFor()
			var b []byte
			var err error
			op := ""
			switch cfg.Kind {
			case "prompt":
				op = "ReadUntilPrompt"
				b, err = c.ReadUntilPrompt(ctx)
			case "explicit":
				op = "ReadUntilExplicit"
				b, err = c.ReadUntilExplicit(ctx, marks[i])
			default:
				op = "ReadUntilFuzzy"
				if x.r.intn(4) == 0 {
					// an empty input returns at once and must not consume anything
					if eb, eerr := c.ReadUntilFuzzy(ctx, nil); eb != nil || eerr != nil {
						x.fail("chan-wrong-bytes", "ReadUntilFuzzy with an empty input returned %s, %v", clip(eb), eerr)
					}
				}
				b, err = c.ReadUntilFuzzy(ctx, marks[i])
			}
			cancel()
			if err != nil {
				opErr(op, err)
				return
			}
			if !x.obtain(op, b) {
				return
			}
			if cfg.Kind == "fuzzy" && !bytes.Contains(x.consumed, marks[i]) && !endsWithPrefixOf(x.consumed, marks[i]) {
				// a fuzzy match may fire early (subsequence): the mark itself is still to come, ask
				// again — unless the early return cut the mark in two (then a new call, which starts
				// with an empty buffer, could never see it whole: go on with the next mark)
				i--
			}
		}
		x.drain(0)

	case "getprompt":
		n := 2 + x.r.intn(8)
		asked := 0
		s.onWrite = func(s *Stream, b []byte) {
			for _, ch := range b {
				if ch != '\n' {
					continue
				}
				asked++
				reply := append([]byte("\n"), x.text(x.r.intn(3), content)...)
				reply = append(reply, fmt.Sprintf("r%d#", asked)...)
				reply = append(reply, []string{"", " "}[x.r.intn(2)]...)
				for _, it := range x.cut(reply, size, 0) {
					s.pushLocked(it)
				}
			}
		}
		if err := c.Open(); err != nil {
			opErr("Open", err)
			return
		}
		// unsolicited output arrives at any time between the replies
		var junk [][]byte
		for i := 0; i < 5+x.r.intn(40); i++ {
			junk = append(junk, append(append([]byte("\n"), x.junkLine()...), '\n'))
		}
		x.feed(junk, 1+x.r.intn(2))
		for i := 1; i <= n && !x.failed; i++ {
			p, err := c.GetPrompt()
			x.rep.Ops++
			if err != nil {
				opErr("GetPrompt", err)
				return
			}
			want := fmt.Sprintf("r%d#", i)
			if string(bytes.TrimSpace(p)) != want {
				x.fail("chan-getprompt-wrong", "GetPrompt call %d returned %q, the device's prompt after that return key is %q (%v)", i, p, want, rep.Dims)
				return
			}
		}
		// GetPrompt hands out only the prompt; what it consumed is everything up to the read that
		// completed the last prompt
		d, _ := x.stream()
		reads, _ := s.snapshot()
		last := []byte(fmt.Sprintf("r%d#", n))
		end := bytes.Index(d, last)
		if end < 0 {
			x.fail("chan-getprompt-wrong", "GetPrompt returned %q before the transport delivered it", last)
			return
		}
		end += len(last)
		off := 0
		for _, rd := range reads {
			if nb, ok := NormRead(rd); ok {
				off += len(nb)
			}
			if off >= end {
				break
			}
		}
		if x.cfg.Record {
			x.events = append(x.events, "G"+hexOrDash(d[:off]))
		}
		x.consumed = append(x.consumed, d[:off]...)
		x.drain(0)

	case "login-ssh", "login-telnet":
		banner := x.text(x.r.intn(5), content)
		state := "pass"
		if cfg.Kind == "login-telnet" {
			state = "user"
		}
		pwReads := -1
		var post [][]byte
		afterPrompt := 5 + x.r.intn(60)
		s.onWrite = func(s *Stream, b []byte) {
			s.line = append(s.line, b...)
			for {
				i := bytes.IndexByte(s.line, '\n')
				if i < 0 {
					return
				}
				s.line = s.line[i+1:]
				switch state {
				case "user":
					state = "pass"
					s.pushLocked([]byte("Password: "))
				case "pass":
					state = "shell"
					pwReads = len(s.delivered)
					pre := append([]byte("\n"), x.text(1+x.r.intn(4), content)...)
					pre = append(pre, "\nr1#"...)
					for _, it := range x.cut(pre, size, 0) {
						s.pushLocked(it)
					}
					// the device keeps talking (netconf hello, log messages) while the login code
					// finds the prompt and puts its buffer back
					burst := x.r.intn(afterPrompt + 1)
					for k := 0; k < afterPrompt; k++ {
						it := append(append([]byte("\n"), x.junkLine()...), '\n')
						if k < burst {
							s.pushLocked(it)
						} else {
							post = append(post, it)
						}
					}
				}
			}
		}
		for _, it := range x.cut(banner, size, 0) {
			s.Push(it)
		}
		if cfg.Kind == "login-telnet" {
			s.Push([]byte("Username: "))
		} else {
			s.Push([]byte("admin@c20's password: "))
		}
		// feed the rest once the password has been received
		s.mu.Lock()
		s.feeding++ // the post-login feeder counts as running from the start
		s.mu.Unlock()
		go func() {
			defer func() {
				s.mu.Lock()
				s.feeding--
				s.mu.Unlock()
			}()
			for {
				s.mu.Lock()
				ok, closed := pwReads >= 0, s.closed
				p := post
				s.mu.Unlock()
				if closed {
					return
				}
				if ok {
					fr := rng{s: cfg.Seed ^ 0xabcdef}
					for _, it := range p {
						s.Push(it)
						time.Sleep(time.Duration(20+fr.intn(200)) * time.Microsecond)
					}
					return
				}
				time.Sleep(50 * time.Microsecond)
			}
		}()
		if err := c.Open(); err != nil {
			opErr("Open (in-channel login)", err)
			return
		}
		x.rep.Ops++
		// what the login consumed before the password went out is dropped by design
		reads, _ := s.snapshot()
		s.mu.Lock()
		pw := pwReads
		s.mu.Unlock()
		if pw < 0 || pw > len(reads) {
			x.fail("chan-setup", "login finished but the device saw no password")
			return
		}
		var pre []byte
		for _, rd := range reads[:pw] {
			if nb, ok := NormRead(rd); ok {
				pre = append(pre, nb...)
			}
		}
		x.consumed = append(x.consumed, pre...)
		if x.cfg.Record {
			x.events = append(x.events, "G"+hexOrDash(pre))
		}
		// the buffer the login put back: the chunks from the password on, up to the one that
		// completed the prompt (decided with the channel's own prompt pattern)
		var back []byte
		found := false
		for _, rd := range reads[pw:] {
			if nb, ok := NormRead(rd); ok {
				back = append(back, nb...)
				if c.PromptPattern.Match(back) {
					found = true
					break
				}
			}
		}
		if !found {
			x.fail("chan-setup", "login returned before the prompt was delivered")
			return
		}
		if x.cfg.Record {
			x.events = append(x.events, "G"+hexOrDash(back), "B"+hexOrDash(back))
		}
		// the first chunk an operation sees must be exactly that buffer (put-backs first)
		for !x.failed {
			if x.late() {
				return
			}
			b, err := c.Read()
			if err != nil {
				opErr("Read", err)
				return
			}
			if b == nil {
				time.Sleep(c.ReadDelay)
				continue
			}
			if !bytes.Equal(b, back) {
				x.fail("chan-login-putback-not-first", "first Read after the in-channel login returned %s; the login had read %s since the password and put it back, it must come first (%v)", clip(b), clip(back), rep.Dims)
				return
			}
			x.obtain("Read", b)
			break
		}
		x.drain(0)
	default:
		x.fail("chan-setup", "unknown kind %q", cfg.Kind)
		return
	}
	if x.failed {
		return
	}
	d, _ := x.stream()
	reads, _ := s.snapshot()
	rep.Reads = len(reads)
	rep.Bytes = len(d)
	rep.Stream = d
	if !bytes.Equal(x.consumed, d) {
		x.fail("chan-lost-bytes", "at the end the operations had obtained %d bytes, the transport had delivered %d (normalised) (kind %s, %v)", len(x.consumed), len(d), cfg.Kind, rep.Dims)
		return
	}
	if logMode == 1 {
		// the channel log sees every enqueued chunk: it must be the whole stream, in order
		var lb []byte
		for i := 0; i < 200; i++ {
			lb = clog.bytes()
			if len(lb) >= len(d) {
				break
			}
			time.Sleep(time.Millisecond) // the log write follows the enqueue in the read goroutine
		}
		if !bytes.Equal(lb, d) {
			x.fail("chan-log-mismatch", "the channel log holds %d bytes, the transport delivered %d (normalised); first difference at %d (kind %s, %v)", len(lb), len(d), firstDiff(lb, d), cfg.Kind, rep.Dims)
			return
		}
	}
	if cfg.Record {
		parts := make([]string, len(reads))
		for i, rd := range reads {
			parts[i] = hexOrDash(rd)
		}
		rep.ReadsHex = strings.Join(parts, ",")
		if len(parts) == 0 {
			rep.ReadsHex = "."
		}
		rep.Events = x.events
	}
}

// endsWithPrefixOf: does b end with a non-empty proper prefix of m?
func endsWithPrefixOf(b, m []byte) bool {
	for k := minInt(len(m)-1, len(b)); k > 0; k-- {
		if bytes.Equal(b[len(b)-k:], m[:k]) {
			return true
		}
	}
	return false
}

func minInt(a, b int) int {
	if a < b {
		return a
	}
	return b
}

func firstDiff(a, b []byte) int {
	n := minInt(len(a), len(b))
	for i := 0; i < n; i++ {
		if a[i] != b[i] {
			return i
		}
	}
	return n
}


// ChanViolation is one failed scenario of a batch.
type ChanViolation struct {
	Seed      uint64 `json:"seed"`
	Kind      string `json:"kind"`
	Huge      bool   `json:"huge"`
	Violation string `json:"violation"`
	Detail    string `json:"detail"`
}

// ChanBatch is the outcome of RunChanBatch.
type ChanBatch struct {
	Runs       int             `json:"runs"`
	Skipped    int             `json:"skipped"` // not run after six scenarios had hit their watchdog
	Violations []ChanViolation `json:"violations"`
}

// RunChanBatch runs n scenarios (kinds in turn, seeds derived from seed), par at a time. With
// only = "kind" or "kind:true" it runs that one scenario with seed itself (a replay).
func RunChanBatch(seed uint64, n, par int, only string) ChanBatch {
	var cfgs []ChanConfig
	if only != "" {
		p := strings.SplitN(only, ":", 2)
		cfg := ChanConfig{Seed: seed, Kind: p[0], Huge: len(p) == 2 && p[1] == "true"}
		for i := 0; i < 3; i++ {
			cfgs = append(cfgs, cfg)
		}
	} else {
		r := rng{s: seed*0x9E3779B97F4A7C15 + 5}
		for i := 0; i < n; i++ {
			cfgs = append(cfgs, ChanConfig{Seed: r.u64() >> 1, Kind: ChanKinds[i%len(ChanKinds)], Huge: i%40 == 39})
		}
	}
	if par < 1 {
		par = 1
	}
	out := ChanBatch{Runs: len(cfgs)}
	var mu sync.Mutex
	var wg sync.WaitGroup
	sem := make(chan struct{}, par)
	stuck := 0
	for _, cfg := range cfgs {
		mu.Lock()
		enough := stuck >= 6 // every further scenario would wait for its watchdog too
		mu.Unlock()
		if enough {
			out.Skipped++
			continue
		}
		wg.Add(1)
		sem <- struct{}{}
		go func(cfg ChanConfig) {
			defer wg.Done()
			defer func() { <-sem }()
			rep := RunChan(cfg)
			if rep.Violation != "" {
				mu.Lock()
				out.Violations = append(out.Violations, ChanViolation{cfg.Seed, cfg.Kind, cfg.Huge, rep.Violation, rep.Detail})
				if rep.Violation == "chan-timeout" || rep.Violation == "chan-deadlock" {
					stuck++
				}
				mu.Unlock()
			}
		}(cfg)
	}
	wg.Wait()
	return out
}
