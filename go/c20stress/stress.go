// Package c20stress is the concurrent part of the C20 check: one producer goroutine and one
// consumer goroutine hammer a real util.Queue; the consumer verifies on the fly that what it
// obtains is the producer's chunk stream read through a push-back stack (each chunk once, in
// order, put-back chunks first), that an available chunk is never reported as "nothing", that
// GetDepth stays within the bounds implied by the calls that have started / returned, and that
// nothing panics or hangs. It is used in-process by the harness and, built with -race, as a child
// process (cmd/c20stress).
package c20stress

import (
	"bytes"
	"encoding/hex"
	"fmt"
	"runtime"
	"strings"
	"sync"
	"sync/atomic"
	"time"

	"github.com/scrapli/scrapligo/util"
)

// Config is one stress run. Everything random derives from Seed.
type Config struct {
	Seed      uint64
	Chunks    int           // chunks the producer enqueues
	Procs     int           // GOMAXPROCS during the run (0 = unchanged)
	StopAfter int           // consumer stops once it has taken this many produced chunks (0 = all)
	Record    bool          // keep the consumer's call log (protocol tokens) for the Lean reader
	Timeout   time.Duration // watchdog for the whole run
}

// Report is the outcome. Violation == "" means clean.
type Report struct {
	Violation string         `json:"violation"` // signature: conc-panic, conc-deadlock, conc-skip, ...
	Detail    string         `json:"detail"`
	Calls     map[string]int `json:"calls"`
	Taken     int            `json:"taken"`    // produced chunks the consumer took
	Putbacks  int            `json:"putbacks"` // chunks put back
	StackLeft int            `json:"stack_left"` // put-back chunks the consumer had not re-read when it stopped
	Rets      []string       `json:"rets,omitempty"`
	Rest      []byte         `json:"rest,omitempty"` // what a final DequeueAll returned (Record mode)
	RestWant  []byte         `json:"rest_want,omitempty"`
	ElapsedMS int64          `json:"elapsed_ms"`
}

type rng struct{ s uint64 }

func (r *rng) u64() uint64 {
	r.s += 0x9E3779B97F4A7C15
	z := r.s
	z = (z ^ (z >> 30)) * 0xBF58476D1CE4E5B9
	z = (z ^ (z >> 27)) * 0x94D049BB133111EB
	return z ^ (z >> 31)
}
func (r *rng) intn(n int) int { return int(r.u64() % uint64(n)) }

// Chunk is the i-th chunk of a stream: self-delimiting (byte 0 is the total length), tagged
// ('P' produced, 'R' put back by the consumer), numbered, then seed-dependent filler.
func Chunk(seed uint64, i int, tag byte) []byte {
	h := rng{s: seed ^ (uint64(i)+1)*0xD1B54A32D192ED03 ^ uint64(tag)<<56}
	// sizes: mostly a few bytes up to a few dozen, some single bytes, a few KiB-sized and an
	// occasional chunk larger than a transport read (64 KiB+)
	var n int
	switch k := h.u64() % 1000; {
	case k < 150:
		n = 1
	case k < 250:
		n = 2 + int(h.u64()%4)
	case k < 955:
		n = 6 + int(h.u64()%21)
	case k < 997:
		n = 200 + int(h.u64()%1800)
	default:
		n = 65536 + int(h.u64()%4096)
	}
	b := make([]byte, n)
	if n >= 6 {
		b[0] = byte(n)
		b[1] = tag
		b[2], b[3], b[4], b[5] = byte(i>>24), byte(i>>16), byte(i>>8), byte(i)
		for k := 6; k < n; k++ {
			b[k] = byte(h.u64())
		}
	} else {
		for k := range b {
			b[k] = byte(h.u64())
		}
	}
	return b
}

func describe(c []byte) string {
	if len(c) >= 6 && int(c[0]) == len(c)&0xff && (c[1] == 'P' || c[1] == 'R') {
		return fmt.Sprintf("%c#%d", c[1], int(c[2])<<24|int(c[3])<<16|int(c[4])<<8|int(c[5]))
	}
	s := hex.EncodeToString(c)
	if len(s) > 40 {
		s = s[:40] + "…"
	}
	return "bytes:" + s
}

type run struct {
	cfg      Config
	q        *util.Queue
	started  atomic.Int64 // Enqueue calls started
	returned atomic.Int64 // Enqueue calls returned
	stop     atomic.Bool
	mu       sync.Mutex
	rep      Report
	lastOp   atomic.Value
}

func (r *run) fail(sig, format string, a ...any) {
	r.mu.Lock()
	if r.rep.Violation == "" {
		r.rep.Violation = sig
		r.rep.Detail = fmt.Sprintf(format, a...)
	}
	r.mu.Unlock()
	r.stop.Store(true)
}

func (r *run) producer(wg *sync.WaitGroup) {
	defer wg.Done()
	defer func() {
		if p := recover(); p != nil {
			r.fail("conc-panic", "producer goroutine panicked in Enqueue: %v", p)
		}
	}()
	pr := rng{s: r.cfg.Seed*0x9E3779B97F4A7C15 + 11}
	for i := 0; i < r.cfg.Chunks && !r.stop.Load(); i++ {
		c := Chunk(r.cfg.Seed, i, 'P')
		r.started.Add(1)
		r.q.Enqueue(c)
		r.returned.Add(1)
		switch k := pr.intn(100); {
		case k < 25:
			runtime.Gosched()
		case k < 26:
			time.Sleep(time.Duration(1+pr.intn(20)) * time.Microsecond)
		}
	}
}

func (r *run) consumer(wg *sync.WaitGroup) {
	defer wg.Done()
	defer func() {
		if p := recover(); p != nil {
			r.fail("conc-panic", "consumer goroutine panicked in %v: %v", r.lastOp.Load(), p)
		}
	}()
	cfg := r.cfg
	cr := rng{s: cfg.Seed*0xBF58476D1CE4E5B9 + 29}
	var stack [][]byte // put-back chunks, top last
	next := 0          // next produced chunk the consumer must see
	rseq := 0
	calls := map[string]int{}
	var rets []string
	var last []byte // last chunk obtained (candidate for a put-back)
	putbacks := 0
	want := cfg.Chunks
	if cfg.StopAfter > 0 && cfg.StopAfter < want {
		want = cfg.StopAfter
	}
	// take checks one obtained chunk against the push-back reader.
	take := func(c []byte, op string) bool {
		if len(stack) > 0 {
			top := stack[len(stack)-1]
			stack = stack[:len(stack)-1]
			if !bytes.Equal(c, top) {
				r.fail("conc-putback-not-first", "%s returned %s but the chunk put back last, %s, had to come first (after %d produced chunks taken)", op, describe(c), describe(top), next)
				return false
			}
			return true
		}
		exp := Chunk(cfg.Seed, next, 'P')
		if !bytes.Equal(c, exp) {
			sig := "conc-corrupt"
			for j := next - 64; j <= next+64; j++ {
				if j >= 0 && j != next && bytes.Equal(c, Chunk(cfg.Seed, j, 'P')) {
					if j < next {
						sig = "conc-duplicate-or-reorder"
					} else {
						sig = "conc-lost-or-reorder"
					}
					r.fail(sig, "%s returned produced chunk P#%d (%s), expected produced chunk P#%d", op, j, describe(c), next)
					return false
				}
			}
			r.fail(sig, "%s returned %s, expected produced chunk P#%d (%s)", op, describe(c), next, describe(exp))
			return false
		}
		next++
		return true
	}
	for !r.stop.Load() && (next < want || (cfg.StopAfter == 0 && len(stack) > 0)) {
		k := cr.intn(100)
		switch {
		case k < 55:
			r.lastOp.Store("Dequeue")
			calls["Dequeue"]++
			avail := len(stack) + int(r.returned.Load()) - next
			b := r.q.Dequeue()
			if b == nil {
				calls["Dequeue->nil"]++
				if cfg.Record {
					rets = append(rets, "n")
				}
				if avail > 0 {
					r.fail("conc-nothing-but-nonempty", "Dequeue returned nil although at least %d chunk(s) were held (put back and unread: %d; produced chunks taken so far: %d)", avail, len(stack), next)
					return
				}
				if cfg.Procs == 1 || cr.intn(2) == 0 {
					runtime.Gosched()
				}
				continue
			}
			if cfg.Record {
				rets = append(rets, "D"+hexOrDash(b))
			}
			if !take(b, "Dequeue") {
				return
			}
			last = b
		case k < 70:
			r.lastOp.Store("DequeueAll")
			calls["DequeueAll"]++
			availP := int(r.returned.Load()) - next
			nstack := len(stack)
			b := r.q.DequeueAll()
			if b == nil {
				calls["DequeueAll->nil"]++
				if cfg.Record {
					rets = append(rets, "N")
				}
				if nstack+availP > 0 {
					r.fail("conc-nothing-but-nonempty", "DequeueAll returned nil although %d chunk(s) were held", nstack+availP)
					return
				}
				continue
			}
			if len(b) == 0 {
				// non-nil but empty: the depth test passed although the slice held nothing (the
				// stress never enqueues empty chunks). No byte is wrong, but the model says this
				// cannot happen (Conc.CInv at `lock`): reported as a model mismatch.
				r.fail("conc-model-mismatch:dequeueall-passed-depth-test-on-empty-slice", "DequeueAll returned a non-nil empty slice: the unlocked depth test saw a non-zero depth while no chunk was held")
				return
			}
			// cut the result along the chunks the reader expects next (put-backs, top first, then
			// the produced sequence); every expected chunk is non-empty, so the cut is unique
			before := next
			var cs [][]byte
			for rest := b; len(rest) > 0; {
				var exp []byte
				if len(stack) > 0 {
					exp = stack[len(stack)-1]
				} else {
					exp = Chunk(cfg.Seed, next, 'P')
				}
				if len(rest) < len(exp) {
					if bytes.Equal(rest, exp[:len(rest)]) {
						r.fail("conc-corrupt", "DequeueAll returned bytes that end in the middle of a chunk: %d of the %d bytes of %s", len(rest), len(exp), describe(exp))
						return
					}
					exp = exp[:0] // let take classify what is there instead
				}
				n := len(exp)
				if n == 0 {
					n = len(rest)
				}
				if !take(rest[:n], "DequeueAll") {
					return
				}
				cs = append(cs, rest[:n])
				rest = rest[n:]
			}
			if cfg.Record {
				parts := make([]string, len(cs))
				for i, c := range cs {
					parts[i] = hexOrDash(c)
				}
				rets = append(rets, "A"+strings.Join(parts, "+"))
			}
			if len(stack) > 0 {
				r.fail("conc-lost-or-reorder", "DequeueAll left %d put-back chunk(s) behind", len(stack))
				return
			}
			if next-before < availP {
				r.fail("conc-lost-or-reorder", "DequeueAll returned %d produced chunk(s) although %d Enqueue calls had already returned", next-before, availP)
				return
			}
			if len(cs) > 0 {
				last = cs[len(cs)-1]
			}
		case k < 85:
			r.lastOp.Store("GetDepth")
			calls["GetDepth"]++
			lo := len(stack) + int(r.returned.Load()) - next
			d := r.q.GetDepth()
			hi := len(stack) + int(r.started.Load()) - next
			if cfg.Record {
				rets = append(rets, "G")
			}
			if d < lo || d > hi {
				r.fail("conc-depth", "GetDepth returned %d, but between %d and %d chunks were held during the call", d, lo, hi)
				return
			}
		default:
			if len(stack) >= 4 {
				continue
			}
			r.lastOp.Store("Requeue")
			calls["Requeue"]++
			var c []byte
			if last != nil && cr.intn(2) == 0 {
				c = last // put back what was just read (what channel.go does with leftover bytes)
			} else {
				c = Chunk(cfg.Seed, rseq, 'R')
				rseq++
			}
			r.q.Requeue(c)
			stack = append(stack, c)
			putbacks++
			if cfg.Record {
				rets = append(rets, "R"+hexOrDash(c))
			}
		}
	}
	r.mu.Lock()
	r.rep.Calls = calls
	r.rep.Taken = next
	r.rep.Putbacks = putbacks
	r.rep.StackLeft = len(stack)
	r.rep.Rets = rets
	for i := len(stack) - 1; i >= 0; i-- {
		r.rep.RestWant = append(r.rep.RestWant, stack[i]...)
	}
	r.mu.Unlock()
}

func hexOrDash(b []byte) string {
	if len(b) == 0 {
		return "-"
	}
	return hex.EncodeToString(b)
}

// Run executes one stress run against a fresh util.Queue.
func Run(cfg Config) Report {
	if cfg.Timeout == 0 {
		cfg.Timeout = 60 * time.Second
	}
	if cfg.Procs > 0 {
		old := runtime.GOMAXPROCS(cfg.Procs)
		defer runtime.GOMAXPROCS(old)
	}
	t0 := time.Now()
	r := &run{cfg: cfg, q: util.NewQueue()}
	r.lastOp.Store("-")
	var wg sync.WaitGroup
	wg.Add(2)
	go r.producer(&wg)
	go r.consumer(&wg)
	done := make(chan struct{})
	go func() { wg.Wait(); close(done) }()
	finished := false
	limit := time.After(cfg.Timeout)
	var failedAt time.Time
wait:
	for {
		select {
		case <-done:
			finished = true
			break wait
		case <-limit:
			break wait
		case <-time.After(50 * time.Millisecond):
			// once one side has reported a violation the other may be stuck behind it (a panic with
			// the lock held): do not wait for the watchdog then
			if r.stop.Load() {
				if failedAt.IsZero() {
					failedAt = time.Now()
				} else if time.Since(failedAt) > 2*time.Second {
					break wait
				}
			}
		}
	}
	if !finished {
		r.fail("conc-deadlock", "no completion within %v: Enqueue calls started %d, returned %d; consumer's last call: %v", cfg.Timeout, r.started.Load(), r.returned.Load(), r.lastOp.Load())
		r.mu.Lock()
		rep := r.rep
		r.mu.Unlock()
		rep.ElapsedMS = time.Since(t0).Milliseconds()
		return rep
	}
	r.mu.Lock()
	rep := r.rep
	r.mu.Unlock()
	if rep.Violation == "" {
		// both goroutines are done: the struct must be consistent and hold exactly the rest
		func() {
			defer func() {
				if p := recover(); p != nil {
					rep.Violation, rep.Detail = "conc-panic", fmt.Sprintf("final calls panicked: %v", p)
				}
			}()
			held := rep.StackLeft
			for i := rep.Taken; i < cfg.Chunks; i++ {
				rep.RestWant = append(rep.RestWant, Chunk(cfg.Seed, i, 'P')...)
				held++
			}
			if d := r.q.GetDepth(); d != held {
				rep.Violation, rep.Detail = "conc-depth", fmt.Sprintf("after both goroutines finished GetDepth is %d, %d chunk(s) are held", d, held)
				return
			}
			rest := r.q.DequeueAll()
			rep.Rest = rest
			if !bytes.Equal(rest, rep.RestWant) {
				rep.Violation, rep.Detail = "conc-lost-or-reorder", fmt.Sprintf("after both goroutines finished the queue holds %d bytes, expected %d bytes (the unread put-backs, then the untaken produced chunks)", len(rest), len(rep.RestWant))
				return
			}
			if b := r.q.Dequeue(); b != nil {
				rep.Violation, rep.Detail = "conc-duplicate-or-reorder", "Dequeue on the drained queue returned "+describe(b)
				return
			}
			if d := r.q.GetDepth(); d != 0 {
				rep.Violation, rep.Detail = "conc-depth", fmt.Sprintf("GetDepth on the drained queue is %d", d)
			}
		}()
	}
	rep.ElapsedMS = time.Since(t0).Milliseconds()
	return rep
}
