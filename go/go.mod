module verifgo

go 1.20

require github.com/scrapli/scrapligo v0.0.0

require (
	github.com/creack/pty v1.1.23 // indirect
	github.com/sirikothe/gotextfsm v1.0.1-0.20200816110946-6aa2cfd355e4 // indirect
	golang.org/x/crypto v0.26.0 // indirect
)

replace github.com/scrapli/scrapligo => /repo
