package facts

import (
	"fmt"
	"go/ast"
	"go/token"
	"path/filepath"
	"strconv"
	"strings"
)

// SshErrRow is one case of the `switch` in channel.sshMessageHandler: the row is selected when the
// (lower-cased) buffer contains any of Triggers; it yields an error when its message is non-empty:
// Msg (unconditional assignment), or the message of the first matching Sub case, or the text
// appended when the pattern AppendRx matches the raw buffer.
type SshErrRow struct {
	Triggers []string
	Msg      string
	Sub      []SshErrSub
	AppendRx string // field name of sshErrorMessagePatterns ("" = none)
}

type SshErrSub struct{ Trigger, Msg string }

// SshErrFacts is everything the model needs to know about sshMessageHandler.
type SshErrFacts struct {
	Rows     []SshErrRow
	ErrClass string   // util.Err* wrapped by the returned error
	Lowered  bool     // the switch tests bytes.ToLower(b)
	Unparsed []string // statements / conditions of a shape the extractor does not understand
}

// containsLit recognises `bytes.Contains(<ident>, []byte("lit"))`.
func containsLit(e ast.Expr) (subject, lit string, ok bool) {
	c, isCall := e.(*ast.CallExpr)
	if !isCall || len(c.Args) != 2 {
		return "", "", false
	}
	sel, isSel := c.Fun.(*ast.SelectorExpr)
	if !isSel || sel.Sel.Name != "Contains" {
		return "", "", false
	}
	if pk, isID := sel.X.(*ast.Ident); !isID || pk.Name != "bytes" {
		return "", "", false
	}
	id, isID := c.Args[0].(*ast.Ident)
	if !isID {
		return "", "", false
	}
	conv, isConv := c.Args[1].(*ast.CallExpr)
	if !isConv || len(conv.Args) != 1 {
		return "", "", false
	}
	bl, isLit := conv.Args[0].(*ast.BasicLit)
	if !isLit || bl.Kind != token.STRING {
		return "", "", false
	}
	s, err := strconv.Unquote(bl.Value)
	if err != nil {
		return "", "", false
	}
	return id.Name, s, true
}

// orLits flattens `a || b || c` of containsLit terms.
func orLits(e ast.Expr, subject string) ([]string, bool) {
	if p, ok := e.(*ast.ParenExpr); ok {
		return orLits(p.X, subject)
	}
	if b, ok := e.(*ast.BinaryExpr); ok && b.Op == token.LOR {
		l, ok1 := orLits(b.X, subject)
		r, ok2 := orLits(b.Y, subject)
		return append(l, r...), ok1 && ok2
	}
	s, lit, ok := containsLit(e)
	if !ok || s != subject {
		return nil, false
	}
	return []string{lit}, true
}

func exprString(n ast.Node) string {
	switch x := n.(type) {
	case *ast.Ident:
		return x.Name
	case *ast.SelectorExpr:
		return exprString(x.X) + "." + x.Sel.Name
	case *ast.CallExpr:
		return exprString(x.Fun) + "(…)"
	}
	return fmt.Sprintf("%T", n)
}

// assignsMsg recognises `errorMessage = "lit"`.
func assignsMsg(s ast.Stmt) (string, bool) {
	a, ok := s.(*ast.AssignStmt)
	if !ok || a.Tok != token.ASSIGN || len(a.Lhs) != 1 || len(a.Rhs) != 1 {
		return "", false
	}
	if id, ok := a.Lhs[0].(*ast.Ident); !ok || id.Name != "errorMessage" {
		return "", false
	}
	bl, ok := a.Rhs[0].(*ast.BasicLit)
	if !ok || bl.Kind != token.STRING {
		return "", false
	}
	v, err := strconv.Unquote(bl.Value)
	return v, err == nil
}

// SshErrors extracts the table from channel/auth.go.
func SshErrors() SshErrFacts {
	var f SshErrFacts
	files := ParseDir(filepath.Join(Repo, "channel"))
	var fd *ast.FuncDecl
	for _, fn := range SortedNames(files) {
		for _, d := range files[fn].Decls {
			if x, ok := d.(*ast.FuncDecl); ok && x.Name.Name == "sshMessageHandler" {
				fd = x
			}
		}
	}
	if fd == nil || fd.Body == nil {
		f.Unparsed = append(f.Unparsed, "func sshMessageHandler not found")
		return f
	}
	subject := "b"
	sawSwitch := false
	for _, st := range fd.Body.List {
		switch x := st.(type) {
		case *ast.DeclStmt: // var errorMessage string
		case *ast.AssignStmt:
			// normalizedB := bytes.ToLower(b)
			if len(x.Lhs) == 1 && len(x.Rhs) == 1 {
				if c, ok := x.Rhs[0].(*ast.CallExpr); ok && exprString(c.Fun) == "bytes.ToLower" {
					if id, ok := x.Lhs[0].(*ast.Ident); ok {
						subject = id.Name
						f.Lowered = true
						continue
					}
				}
			}
			f.Unparsed = append(f.Unparsed, "assignment "+exprString(x.Lhs[0]))
		case *ast.SwitchStmt:
			if x.Tag != nil || sawSwitch {
				f.Unparsed = append(f.Unparsed, "unexpected switch")
				continue
			}
			sawSwitch = true
			for _, cs := range x.Body.List {
				cc := cs.(*ast.CaseClause)
				var row SshErrRow
				if len(cc.List) != 1 {
					f.Unparsed = append(f.Unparsed, "case with != 1 condition")
					continue
				}
				lits, ok := orLits(cc.List[0], subject)
				if !ok {
					f.Unparsed = append(f.Unparsed, "case condition is not an || of bytes.Contains("+subject+", literal)")
				}
				row.Triggers = lits
				for _, bs := range cc.Body {
					if m, ok := assignsMsg(bs); ok {
						row.Msg = m
						continue
					}
					switch y := bs.(type) {
					case *ast.SwitchStmt:
						for _, scs := range y.Body.List {
							scc := scs.(*ast.CaseClause)
							if len(scc.List) != 1 || len(scc.Body) != 1 {
								f.Unparsed = append(f.Unparsed, "nested case shape")
								continue
							}
							sl, ok1 := orLits(scc.List[0], subject)
							m, ok2 := assignsMsg(scc.Body[0])
							if !ok1 || !ok2 || len(sl) != 1 {
								f.Unparsed = append(f.Unparsed, "nested case shape")
								continue
							}
							row.Sub = append(row.Sub, SshErrSub{sl[0], m})
						}
					case *ast.AssignStmt:
						// patterns := getSSHErrorMessagePatterns()  |  x := patterns.NAME.FindSubmatch(b)
						if len(y.Rhs) == 1 {
							if c, ok := y.Rhs[0].(*ast.CallExpr); ok {
								fn := exprString(c.Fun)
								if fn == "getSSHErrorMessagePatterns" {
									continue
								}
								if strings.HasPrefix(fn, "patterns.") && strings.HasSuffix(fn, ".FindSubmatch") &&
									len(c.Args) == 1 && exprString(c.Args[0]) == "b" {
									row.AppendRx = strings.TrimSuffix(strings.TrimPrefix(fn, "patterns."), ".FindSubmatch")
									continue
								}
							}
						}
						f.Unparsed = append(f.Unparsed, "assignment in case body")
					case *ast.IfStmt:
						// if len(x) > 0 { errorMessage += ... }
						okIf := false
						if be, ok := y.Cond.(*ast.BinaryExpr); ok && be.Op == token.GTR && len(y.Body.List) == 1 && y.Else == nil {
							if a, ok := y.Body.List[0].(*ast.AssignStmt); ok && a.Tok == token.ADD_ASSIGN {
								if id, ok := a.Lhs[0].(*ast.Ident); ok && id.Name == "errorMessage" {
									okIf = true
								}
							}
						}
						if !okIf {
							f.Unparsed = append(f.Unparsed, "if in case body")
						}
					default:
						f.Unparsed = append(f.Unparsed, fmt.Sprintf("statement %T in case body", bs))
					}
				}
				f.Rows = append(f.Rows, row)
			}
		case *ast.IfStmt:
			// if errorMessage != "" { return fmt.Errorf("%w: …", util.ErrX, errorMessage) }
			ok := false
			if be, isB := x.Cond.(*ast.BinaryExpr); isB && be.Op == token.NEQ && exprString(be.X) == "errorMessage" {
				if bl, isL := be.Y.(*ast.BasicLit); isL && bl.Value == `""` && len(x.Body.List) == 1 {
					if r, isR := x.Body.List[0].(*ast.ReturnStmt); isR && len(r.Results) == 1 {
						if c, isC := r.Results[0].(*ast.CallExpr); isC && exprString(c.Fun) == "fmt.Errorf" && len(c.Args) >= 2 {
							if bl, isL := c.Args[0].(*ast.BasicLit); isL && strings.HasPrefix(bl.Value, `"%w`) {
								cls := exprString(c.Args[1])
								if strings.HasPrefix(cls, "util.") {
									f.ErrClass = strings.TrimPrefix(cls, "util.")
									ok = true
								}
							}
						}
					}
				}
			}
			if !ok {
				f.Unparsed = append(f.Unparsed, "if statement after the switch")
			}
		case *ast.ReturnStmt:
			if len(x.Results) != 1 || exprString(x.Results[0]) != "nil" {
				f.Unparsed = append(f.Unparsed, "final return is not nil")
			}
		default:
			f.Unparsed = append(f.Unparsed, fmt.Sprintf("statement %T", st))
		}
	}
	if !sawSwitch {
		f.Unparsed = append(f.Unparsed, "no switch found")
	}
	return f
}

func c10leanStr(s string) string { return strconv.Quote(s) }

// GenSshErrors renders Generated/SshErrors.lean.
func GenSshErrors() string {
	f := SshErrors()
	var b strings.Builder
	b.WriteString("-- GENERATED by go/cmd/extract from /repo's working tree (channel/auth.go sshMessageHandler); do not edit.\n")
	b.WriteString("import ScrapliModel.Bytes\nnamespace Scrapli.Gen.SshErrors\n\n")
	b.WriteString("/-- one case of the switch: selected when the (lower-cased) buffer contains any of `triggers`;\n")
	b.WriteString("    message = `msg`, else the first matching `sub` case, plus text appended when `appendRx` matches -/\n")
	b.WriteString("structure Row where\n  triggers : List Bytes\n  msg : Bytes\n  sub : List (Bytes × Bytes)\n  appendRx : Option String\n\n")
	b.WriteString("def table : List Row := [\n")
	for i, r := range f.Rows {
		var ts, ss []string
		for _, t := range r.Triggers {
			ts = append(ts, LeanBytes(t))
		}
		for _, s := range r.Sub {
			ss = append(ss, "("+LeanBytes(s.Trigger)+", "+LeanBytes(s.Msg)+")")
		}
		rx := "none"
		if r.AppendRx != "" {
			rx = "some " + c10leanStr(r.AppendRx)
		}
		sep := ","
		if i == len(f.Rows)-1 {
			sep = ""
		}
		fmt.Fprintf(&b, "  -- %s\n  ⟨[%s], %s, [%s], %s⟩%s\n", strings.Join(r.Triggers, " | "), strings.Join(ts, ", "), LeanBytes(r.Msg), strings.Join(ss, ", "), rx, sep)
	}
	b.WriteString("]\n\n")
	fmt.Fprintf(&b, "/-- the `util.Err*` value the returned error wraps -/\ndef errClass : String := %s\n\n", c10leanStr(f.ErrClass))
	fmt.Fprintf(&b, "/-- the switch tests `bytes.ToLower(b)` -/\ndef lowered : Bool := %v\n\n", f.Lowered)
	var us []string
	for _, u := range f.Unparsed {
		us = append(us, c10leanStr(u))
	}
	fmt.Fprintf(&b, "/-- parts of the function the extractor did not understand (must be empty) -/\ndef unparsed : List String := [%s]\n", strings.Join(us, ", "))
	b.WriteString("\nend Scrapli.Gen.SshErrors\n")
	return b.String()
}
