package facts

import (
	"os"
	"path/filepath"
	"strings"
	"testing"
)

// The translator's contract: inside the subset → a definition without `unsupported_`; outside →
// at least one `unsupported_<kind>` identifier (so the generated file cannot compile).

const fixture = `package util

import "bytes"

const k = 3
const sep = byte(7)

type T struct{ n int; buf []byte }

func ok1(a, b int) int {
	x := a
	if a > b {
		x = b
	} else if a == k {
		x++
	}
	return x * 2
}

func ok2(b []byte) ([]byte, bool) {
	if len(b) == 0 || b[0] != sep {
		return nil, false
	}
	c := b[0]
	switch c {
	case 1, 2:
		return b[1:], true
	default:
		b = append(b, 'x')
	}
	return bytes.TrimSpace(b), bytes.Contains(b, []byte("ab"))
}

func ok3(xs [][]byte) int {
	n := 0
	for _, x := range xs {
		if len(x) == 0 {
			continue
		}
		if len(x) > 9 {
			break
		}
		n += len(x)
	}
	return n
}

func (t *T) ok4(c byte) {
	t.buf = append(t.buf, c)
	t.n = len(t.buf)
}

func badGo(a int) int      { go ok1(a, a); return a }
func badDefer(a int) int   { defer ok1(a, a); return a }
func ok5(a int) int     { for i := 0; i < a; i++ { a-- }; return a }
func ok6(a int) int   { for a > 0 { a-- }; return a }
func ok7(a int) int { for { a--; if a < 0 { break } }; return a }
type result struct { b []byte; err error }
func okIdiom(x []byte) ([]byte, error) {
	cr := make(chan *result)
	go func() {
		if len(x) == 0 {
			cr <- &result{b: nil, err: nil}

			return
		}
		cr <- &result{b: x, err: nil}
	}()
	r := <-cr
	return r.b, r.err
}
func badIdiomTwoSends(x []byte) ([]byte, error) {
	cr := make(chan *result)
	go func() {
		cr <- &result{b: x, err: nil}
		cr <- &result{b: x, err: nil}
	}()
	r := <-cr
	return r.b, r.err
}
func badIdiomNoReturn(x []byte) ([]byte, error) {
	cr := make(chan *result)
	go func() {
		if len(x) == 0 {
			cr <- &result{b: nil, err: nil}
		}
		cr <- &result{b: x, err: nil}
	}()
	r := <-cr
	return r.b, r.err
}
func badIdiomNoFinalSend(x []byte) ([]byte, error) {
	cr := make(chan *result)
	go func() {
		if len(x) == 0 {
			cr <- &result{b: nil, err: nil}

			return
		}
	}()
	r := <-cr
	return r.b, r.err
}
func badIdiomChanElsewhere(x []byte) ([]byte, error) {
	cr := make(chan *result)
	go func() {
		cr <- &result{b: x, err: nil}
	}()
	r := <-cr
	close(cr)
	return r.b, r.err
}
func badIdiomLate(x []byte) ([]byte, error) {
	cr := make(chan *result)
	go func() {
		cr <- &result{b: x, err: nil}
	}()
	y := len(x)
	r := <-cr
	_ = y
	return r.b, r.err
}
func badSelect(c chan int) int { select { case <-c: return 1; default: }; return 0 }
func badShadow(a int) int  { if a > 0 { a := 1; return a }; return a }
func badFall(a int) int    { switch a { case 1: a = 2; fallthrough; case 2: a = 3 }; return a }
func badCall(a int) int    { return ok1(a, a) }
func badDiv(a int) int     { return a / 2 }
func badMap(a int) int     { m := map[int]int{}; return m[a] }
func badFloat(a float64) float64 { return a }
func badClosure(a int) int { f := func() int { return a }; return f() }
func badLabel(xs []byte) int { n := 0
L:
	for _, x := range xs { if x == 0 { break L }; n++ }; return n }
func badSlice3(b []byte) []byte { return b[0:1:2] }
func badField(t *T) int    { return t.n }
func badNamed() (r int)    { r = 1; return }
func badVariadic(a ...int) int { return len(a) }
`

func TestBodySubset(t *testing.T) {
	dir := t.TempDir()
	if err := os.MkdirAll(filepath.Join(dir, "util"), 0o755); err != nil {
		t.Fatal(err)
	}
	if err := os.WriteFile(filepath.Join(dir, "util", "fx.go"), []byte(fixture), 0o644); err != nil {
		t.Fatal(err)
	}
	old := Repo
	Repo = dir
	defer func() { Repo = old }()

	for _, name := range []string{"ok1", "ok2", "ok3", "ok5", "ok6", "ok7"} {
		out := GenBody(&FnSpec{Dir: "util", Name: name, Lean: name})
		if strings.Contains(out, "unsupported_") {
			t.Errorf("%s: inside the subset but rendered with an unsupported marker:\n%s", name, out)
		}
	}
	out := GenBody(&FnSpec{Dir: "util", Recv: "T", Name: "ok4", Lean: "ok4",
		State: []StateVar{{Key: "recv.buf", Lean: "buf", Ty: "bytes"}, {Key: "recv.n", Lean: "cnt", Ty: "int"}}})
	if strings.Contains(out, "unsupported_") || !strings.Contains(out, "(buf, cnt)") {
		t.Errorf("ok4:\n%s", out)
	}
	if dump := os.Getenv("GOBODY_DUMP"); dump != "" {
		// for a manual `lean` run over the in-subset renderings
		f := &BodyFile{GeneratedBy: "gobody_test.go", Imports: []string{"ScrapliModel.Bytes"}, Namespace: "Scrapli.Gen.Bodies.Fixture",
			Fns: []*FnSpec{{Dir: "util", Name: "ok1", Lean: "ok1"}, {Dir: "util", Name: "ok2", Lean: "ok2"}, {Dir: "util", Name: "ok3", Lean: "ok3"}, {Dir: "util", Name: "ok5", Lean: "ok5"}, {Dir: "util", Name: "ok6", Lean: "ok6"},
				{Dir: "util", Recv: "T", Name: "ok4", Lean: "ok4",
					State: []StateVar{{Key: "recv.buf", Lean: "buf", Ty: "bytes"}, {Key: "recv.n", Lean: "cnt", Ty: "int"}}}}}
		_ = os.WriteFile(dump, []byte(GenBodies(f)), 0o644)
	}
	// the synchronous-goroutine idiom: exactly the shape, or an unsupported marker
	idiom := func(name string) string {
		return GenBody(&FnSpec{Dir: "util", Name: name, Lean: name,
			Go:   &GoIdiom{ResultType: "result", Fields: map[string]string{"b": "bytes", "err": "error"}},
			Vals: map[string]Val{"r.b": {Lean: "r_b", Ty: "bytes"}, "r.err": {Lean: "r_err", Ty: "error"}}})
	}
	if out := idiom("okIdiom"); strings.Contains(out, "unsupported_") || !strings.Contains(out, "let r_b : Bytes := x") {
		t.Errorf("okIdiom:\n%s", out)
	}
	for _, name := range []string{"badIdiomTwoSends", "badIdiomNoReturn", "badIdiomNoFinalSend", "badIdiomChanElsewhere", "badIdiomLate"} {
		if out := idiom(name); !strings.Contains(out, "unsupported_goroutine_idiom") {
			t.Errorf("%s: deviates from the idiom but rendered without unsupported_goroutine_idiom:\n%s", name, out)
		}
	}
	// an indexing body has an Option result and carries its bounds tests
	out = GenBody(&FnSpec{Dir: "util", Name: "ok2", Lean: "ok2"})
	for _, want := range []string{"Option (Bytes × Bool)", "Go.idxOK", "Go.sliceOK", "then none else"} {
		if !strings.Contains(out, want) {
			t.Errorf("ok2: missing %q in\n%s", want, out)
		}
	}
	for _, name := range []string{"badGo", "badDefer", "badSelect", "badShadow", "badFall", "badCall", "badDiv",
		"badMap", "badFloat", "badClosure", "badLabel", "badSlice3", "badField", "badNamed", "badVariadic", "doesNotExist"} {
		out := GenBody(&FnSpec{Dir: "util", Name: name, Lean: name})
		if !strings.Contains(out, "unsupported_") {
			t.Errorf("%s: outside the subset but rendered without an unsupported marker:\n%s", name, out)
		}
	}
}
