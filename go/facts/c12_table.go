package facts

// C12Pattern is one entry of the fixed pattern table the C12 harness draws per-case patterns from
// (expected responses of interactive events, complete patterns, privilege-level patterns, escalate
// prompts). The translator renders the same table as Lean `Rx.Re` terms
// (Generated/C12.lean), so implementation and model run the same pattern by index.
type C12Pattern struct{ Name, Src string }

var C12Patterns = []C12Pattern{
	{"confirm", `\[confirm\]`},
	{"yesno", `(?i)\(yes/no\)\??\s?$`},
	{"password", `(?im)^password:\s?$`},
	{"destfile", `(?im)^destination filename \[[\w.\-]+\]\?\s?$`},
	{"newsecret", `(?m)^New secret:\s?$`},
	{"doneprompt", `(?im)^[\w.\-@/:]{1,63}\(done\)#$`},
	{"abortprompt", `(?im)^[\w.\-@/:]{1,63}\(abort\)>$`},
	{"exec", `(?im)^[\w.\-@/:]{1,63}>$`},
	{"privexec", `(?im)^[\w.\-@/:]{1,63}#$`},
	{"configuration", `(?im)^[\w.\-@/:]{1,63}\([\+\w.\-@/:+]{0,32}\)#$`},
	{"enablepass", `(?im)^(?:enable\s){0,1}password:\s?$`},
	{"hashsuffix", `#$`},
	// ios tclsh level; junos-like tree (patterns as in assets/platforms/juniper_junos.yaml)
	{"tclsh", `(?im)^([\w.\-@/+>:]+\(tcl\)[>#]|\+>)$`},
	{"jexec", `(?im)^({\w+:\d}\n){0,1}[\w\-@()/:\.]{1,63}>\s?$`},
	{"jconf", `(?im)^({\w+:\d}\[edit\]\n){0,1}[\w\-@()/:\.]{1,63}#\s?$`},
	{"jshell", `(?im)^.*[%$]\s?$`},
	{"jroot", `(?im)^.*root@[[:ascii:]]*?:?[[:ascii:]]*?[%#]\s?$`},
	{"jpass", `(?im)^[pP]assword:\s?$`},
	// an interim prompt (WithInterimPromptPattern) of a multi-line input
	{"interim", `(?m)^\.\.\.$`},
}

// C12Index returns the table index of a pattern name (-1 when absent).
func C12Index(name string) int {
	for i, p := range C12Patterns {
		if p.Name == name {
			return i
		}
	}
	return -1
}
