package facts

// C01Pattern is one entry of the fixed table of interim prompt patterns the C01 harness hands to
// opoptions.WithInterimPromptPattern. The translator renders the same table as Lean `Rx.Re` terms
// (Generated/C01.lean), so implementation and model run the same pattern by index. Text is what the
// simulated device prints when it stops at that interim prompt.
type C01Pattern struct{ Name, Src, Text string }

var C01Interim = []C01Pattern{
	{"ellipsis", `(?m)^\.\.\.\s?$`, "..."},
	{"confirm", `(?im)^[a-z ]{1,40}\? \[y/n\]:\s?$`, "Proceed? [y/n]:"},
	{"more", `(?m)^--More--\s?$`, "--More--"},
	{"listprompt", `(?m)^[a-z\d.\-@()/:]{1,48}\(list\)\.\.\.$`, "router(list)..."},
}
