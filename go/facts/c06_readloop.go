package facts

import (
	"bytes"
	"fmt"
	"go/ast"
	"go/printer"
	"go/token"
	"path/filepath"
	"sort"
	"strconv"
	"strings"
)

// ReadLoopException is one condition under which (*Channel).read does NOT hand a transport read
// error over through Errs, and what it does instead ("exit": return, "retry": continue, "other").
type ReadLoopException struct{ Cond, Action string }

func nodeSrc(n ast.Node) string {
	var b bytes.Buffer
	_ = printer.Fprint(&b, token.NewFileSet(), n)
	return strings.Join(strings.Fields(b.String()), " ")
}

func blockAction(body []ast.Stmt) string {
	if len(body) == 0 {
		return "other"
	}
	switch s := body[len(body)-1].(type) {
	case *ast.ReturnStmt:
		return "exit"
	case *ast.BranchStmt:
		if s.Tok == token.CONTINUE {
			return "retry"
		}
	}
	return "other"
}

func isErrsSend(s ast.Stmt) bool {
	snd, ok := s.(*ast.SendStmt)
	return ok && strings.HasSuffix(nodeSrc(snd.Chan), ".Errs")
}

// FindReadLoopExceptions walks the `if err != nil { … }` block of (*Channel).read in
// channel/read.go in statement order up to the hand-over (`c.Errs <- err`, bare or as a select
// arm) and lists every branch that leaves before it. handOver says whether the send exists.
func FindReadLoopExceptions() (exc []ReadLoopException, handOver bool) {
	files := ParseDir(filepath.Join(Repo, "channel"))
	for _, fn := range SortedNames(files) {
		for _, decl := range files[fn].Decls {
			fd, ok := decl.(*ast.FuncDecl)
			if !ok || fd.Body == nil || fd.Name.Name != "read" || fd.Recv == nil {
				continue
			}
			var errBlock *ast.BlockStmt
			ast.Inspect(fd.Body, func(n ast.Node) bool {
				if is, ok := n.(*ast.IfStmt); ok && errBlock == nil && nodeSrc(is.Cond) == "err != nil" {
					errBlock = is.Body
					return false
				}
				return true
			})
			if errBlock == nil {
				return nil, false
			}
			seen := map[string]bool{}
			add := func(c, a string) {
				if !seen[c+"|"+a] {
					seen[c+"|"+a] = true
					exc = append(exc, ReadLoopException{c, a})
				}
			}
			for _, st := range errBlock.List {
				switch s := st.(type) {
				case *ast.SendStmt:
					if isErrsSend(s) {
						return exc, true
					}
				case *ast.IfStmt:
					cond := nodeSrc(s.Cond)
					if s.Init != nil {
						cond = nodeSrc(s.Init) + "; " + cond
					}
					add(cond, blockAction(s.Body.List))
				case *ast.SelectStmt:
					sends := false
					for _, cc := range s.Body.List {
						c := cc.(*ast.CommClause)
						if c.Comm != nil && isErrsSend(c.Comm) {
							sends = true
						}
					}
					for _, cc := range s.Body.List {
						c := cc.(*ast.CommClause)
						if c.Comm == nil || isErrsSend(c.Comm) {
							continue
						}
						add(nodeSrc(c.Comm), blockAction(c.Body))
					}
					if sends {
						return exc, true
					}
				}
			}
			return exc, false
		}
	}
	return nil, false
}

// ReadOrder lists, in statement order, what (*Channel).<name> consults: "errs" (a select arm
// receiving from c.Errs that returns the error), "exited" (an if on readLoopExited that returns an
// error), "dequeue" / "dequeue-all" (the first call of c.Q.Dequeue / c.Q.DequeueAll). Anything after
// the dequeue is not listed.
func ReadOrder(name string) []string {
	files := ParseDir(filepath.Join(Repo, "channel"))
	var out []string
	for _, fn := range SortedNames(files) {
		for _, decl := range files[fn].Decls {
			fd, ok := decl.(*ast.FuncDecl)
			if !ok || fd.Body == nil || fd.Name.Name != name || fd.Recv == nil {
				continue
			}
			done := false
			var walk func(list []ast.Stmt)
			walk = func(list []ast.Stmt) {
				for _, st := range list {
					if done {
						return
					}
					src := nodeSrc(st)
					switch s := st.(type) {
					case *ast.SelectStmt:
						for _, cc := range s.Body.List {
							c := cc.(*ast.CommClause)
							if c.Comm != nil && strings.Contains(nodeSrc(c.Comm), "<-c.Errs") && blockAction(c.Body) == "exit" {
								out = append(out, "errs")
							}
						}
						continue
					case *ast.IfStmt:
						if strings.Contains(nodeSrc(s.Cond), "readLoopExited") && blockAction(s.Body.List) == "exit" &&
							!strings.Contains(nodeSrc(s.Cond), "!") {
							out = append(out, "exited")
							continue
						}
					}
					if strings.Contains(src, "c.Q.DequeueAll(") {
						out = append(out, "dequeue-all")
						done = true
					} else if strings.Contains(src, "c.Q.Dequeue(") {
						out = append(out, "dequeue")
						done = true
					}
				}
			}
			walk(fd.Body.List)
		}
	}
	return out
}

// ReadSources lists, per ReadUntil* loop, every call it makes that takes bytes off the channel:
// c.Read(), c.ReadAll(), c.Q.Dequeue…().
func ReadSources() [][2]string {
	files := ParseDir(filepath.Join(Repo, "channel"))
	var out [][2]string
	for _, fn := range SortedNames(files) {
		for _, decl := range files[fn].Decls {
			fd, ok := decl.(*ast.FuncDecl)
			if !ok || fd.Body == nil || fd.Recv == nil || !strings.HasPrefix(fd.Name.Name, "ReadUntil") {
				continue
			}
			var calls []string
			ast.Inspect(fd.Body, func(n ast.Node) bool {
				if ce, ok := n.(*ast.CallExpr); ok {
					f := nodeSrc(ce.Fun)
					if f == "c.Read" || f == "c.ReadAll" || strings.HasPrefix(f, "c.Q.") {
						calls = append(calls, f)
					}
				}
				return true
			})
			out = append(out, [2]string{fd.Name.Name, strings.Join(calls, ",")})
		}
	}
	sort.Slice(out, func(i, j int) bool { return out[i][0] < out[j][0] })
	return out
}

// FlagStore is one `readLoopExited.Store(v)` call site of package channel: the function, the stored
// value and where the call sits: "deferred" (in a deferred closure: runs when the function returns),
// and for Open: "before-transport-open" / "after-transport-open" / "after-loop-start" relative to
// `c.t.Open()` and `go c.read(…)` among Open's top-level statements; "body" otherwise.
type FlagStore struct{ Func, Value, Where string }

func FindFlagStores() []FlagStore {
	files := ParseDir(filepath.Join(Repo, "channel"))
	var out []FlagStore
	for _, fn := range SortedNames(files) {
		for _, decl := range files[fn].Decls {
			fd, ok := decl.(*ast.FuncDecl)
			if !ok || fd.Body == nil {
				continue
			}
			iOpen, iGo := -1, -1
			for i, st := range fd.Body.List {
				src := nodeSrc(st)
				if iOpen < 0 && strings.Contains(src, "c.t.Open()") {
					iOpen = i
				}
				if iGo < 0 && strings.Contains(src, "go c.read(") {
					iGo = i
				}
			}
			for i, st := range fd.Body.List {
				_, isDefer := st.(*ast.DeferStmt)
				ast.Inspect(st, func(n ast.Node) bool {
					ce, ok := n.(*ast.CallExpr)
					if !ok || !strings.HasSuffix(nodeSrc(ce.Fun), "readLoopExited.Store") || len(ce.Args) != 1 {
						return true
					}
					where := "body"
					switch {
					case isDefer:
						where = "deferred"
					case fd.Name.Name == "Open" && iOpen >= 0 && i <= iOpen:
						where = "before-transport-open"
					case fd.Name.Name == "Open" && iGo >= 0 && i > iGo:
						where = "after-loop-start"
					case fd.Name.Name == "Open" && iOpen >= 0:
						where = "after-transport-open"
					}
					out = append(out, FlagStore{fd.Name.Name, nodeSrc(ce.Args[0]), where})
					return true
				})
			}
		}
	}
	return out
}

// OnXLoop describes one on-X step loop of platform/onx.go: the case arms in which the step's error is
// bound with `:=` (a new variable that shadows the loop's `err`, so the test after the switch never
// sees it), and whether `if err != nil { return err }` follows the switch.
type OnXLoop struct {
	Func        string
	Shadows     []string
	TestedAfter bool
}

func FindOnXLoops() []OnXLoop {
	files := ParseDir(filepath.Join(Repo, "platform"))
	var out []OnXLoop
	for _, fn := range SortedNames(files) {
		for _, decl := range files[fn].Decls {
			fd, ok := decl.(*ast.FuncDecl)
			if !ok || fd.Body == nil || !strings.HasSuffix(fd.Name.Name, "OnX") {
				continue
			}
			l := OnXLoop{Func: fd.Name.Name}
			ast.Inspect(fd.Body, func(n ast.Node) bool {
				fs, ok := n.(*ast.RangeStmt)
				if !ok {
					return true
				}
				for i, st := range fs.Body.List {
					sw, ok := st.(*ast.SwitchStmt)
					if !ok {
						continue
					}
					for _, cc := range sw.Body.List {
						arm := cc.(*ast.CaseClause)
						ast.Inspect(arm, func(m ast.Node) bool {
							as, ok := m.(*ast.AssignStmt)
							if ok && as.Tok == token.DEFINE {
								for _, lhs := range as.Lhs {
									if id, ok := lhs.(*ast.Ident); ok && id.Name == "err" {
										l.Shadows = append(l.Shadows, nodeSrc(arm.List[0]))
									}
								}
							}
							return true
						})
					}
					if i+1 < len(fs.Body.List) {
						if is, ok := fs.Body.List[i+1].(*ast.IfStmt); ok && nodeSrc(is.Cond) == "err != nil" && blockAction(is.Body.List) == "exit" {
							l.TestedAfter = true
						}
					}
				}
				return false
			})
			out = append(out, l)
		}
	}
	sort.Slice(out, func(i, j int) bool { return out[i].Func < out[j].Func })
	return out
}

func c06StrList(xs []string) string {
	q := make([]string, len(xs))
	for i, x := range xs {
		q[i] = strconv.Quote(x)
	}
	return "[" + strings.Join(q, ", ") + "]"
}

// GenC06ReadLoop renders Generated/C06ReadLoop.lean.
func GenC06ReadLoop() string {
	exc, hand := FindReadLoopExceptions()
	var b strings.Builder
	b.WriteString("-- GENERATED by go/cmd/extract from channel/read.go (*Channel).read; do not edit.\n")
	b.WriteString("namespace Scrapli.Gen.C06ReadLoop\n\n")
	b.WriteString("/-- in statement order: (condition, action) of every branch of the `if err != nil` block that\n    leaves before the error is handed over through `Errs` (`exit` = return, `retry` = continue) -/\n")
	var items []string
	for _, e := range exc {
		items = append(items, fmt.Sprintf("(%s, %s)", strconv.Quote(e.Cond), strconv.Quote(e.Action)))
	}
	b.WriteString("def exceptions : List (String × String) := [" + strings.Join(items, ", ") + "]\n\n")
	b.WriteString("/-- the block contains the hand-over `c.Errs <- err` -/\n")
	fmt.Fprintf(&b, "def handOverPresent : Bool := %v\n\n", hand)
	b.WriteString("/-- what `Channel.Read` consults, in order, up to and including the dequeue -/\n")
	b.WriteString("def readOrder : List String := " + c06StrList(ReadOrder("Read")) + "\n\n")
	b.WriteString("/-- the same for `Channel.ReadAll` -/\n")
	b.WriteString("def readAllOrder : List String := " + c06StrList(ReadOrder("ReadAll")) + "\n\n")
	b.WriteString("/-- per `ReadUntil*` loop: the calls that take bytes off the channel -/\n")
	var src []string
	for _, p := range ReadSources() {
		src = append(src, fmt.Sprintf("(%s, %s)", strconv.Quote(p[0]), strconv.Quote(p[1])))
	}
	b.WriteString("def readSources : List (String × String) := [" + strings.Join(src, ", ") + "]\n\n")
	b.WriteString("/-- every `readLoopExited.Store(v)` site of package channel: (function, v, where) -/\n")
	var fs []string
	for _, f := range FindFlagStores() {
		fs = append(fs, fmt.Sprintf("(%s, %s, %s)", strconv.Quote(f.Func), strconv.Quote(f.Value), strconv.Quote(f.Where)))
	}
	b.WriteString("def flagStores : List (String × String × String) := [" + strings.Join(fs, ", ") + "]\n\n")
	b.WriteString("/-- platform/onx.go: per on-X step loop, the case arms that bind the step's error with `:=` (shadowing\n    the loop's `err`), and whether `if err != nil { return err }` follows the switch -/\n")
	var ox []string
	for _, l := range FindOnXLoops() {
		ox = append(ox, fmt.Sprintf("(%s, %s, %v)", strconv.Quote(l.Func), c06StrList(l.Shadows), l.TestedAfter))
	}
	b.WriteString("def onxLoops : List (String × List String × Bool) := [" + strings.Join(ox, ", ") + "]\n\nend Scrapli.Gen.C06ReadLoop\n")
	return b.String()
}
