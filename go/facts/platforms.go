package facts

// Platform definition facts (property C17): advertised names from platform/definition.go, the
// directory listing of assets/platforms, and every embedded YAML parsed with gopkg.in/yaml.v3 (the
// library the code uses) into mirror structures with the same yaml tags as platform.Definition /
// platform.Platform / network.PrivilegeLevel. One witness prompt per privilege level is drawn from
// the level's pattern by a sampler over the regexp/syntax tree and checked with Go's regexp.
// GenPlatforms renders all of it as lean/ScrapliModel/Generated/Platforms.lean.

import (
	"fmt"
	"go/ast"
	"os"
	"path/filepath"
	"reflect"
	"regexp"
	"regexp/syntax"
	"sort"
	"strconv"
	"strings"

	"gopkg.in/yaml.v3"
)

// PlatLevel mirrors network.PrivilegeLevel.
type PlatLevel struct {
	Name           string   `yaml:"name"`
	Pattern        string   `yaml:"pattern"`
	NotContains    []string `yaml:"not-contains"`
	PreviousPriv   string   `yaml:"previous-priv"`
	Deescalate     string   `yaml:"deescalate"`
	Escalate       string   `yaml:"escalate"`
	EscalateAuth   bool     `yaml:"escalate-auth"`
	EscalatePrompt string   `yaml:"escalate-prompt"`

	Key         string `yaml:"-"`
	Witness     []byte `yaml:"-"` // canonical prompt; nil when the sampler found none
	AuthWitness []byte `yaml:"-"` // canonical escalate prompt (auth edges)
}

// PlatOption mirrors platform.optionDefinition.
type PlatOption struct {
	Option string      `yaml:"option"`
	Value  interface{} `yaml:"value"`
}

// PlatSteps mirrors platform.onXDefinitions (nil = section absent).
type PlatSteps []map[string]interface{}

// PlatSections mirrors platform.Platform.
type PlatSections struct {
	DriverType         string                `yaml:"driver-type"`
	FailedWhenContains []string              `yaml:"failed-when-contains"`
	OnOpen             PlatSteps             `yaml:"on-open"`
	OnClose            PlatSteps             `yaml:"on-close"`
	PrivilegeLevels    map[string]*PlatLevel `yaml:"privilege-levels"`
	DefaultDesired     string                `yaml:"default-desired-privilege-level"`
	NetworkOnOpen      PlatSteps             `yaml:"network-on-open"`
	NetworkOnClose     PlatSteps             `yaml:"network-on-close"`
	Options            []*PlatOption         `yaml:"options"`
}

// PlatDef mirrors platform.Definition.
type PlatDef struct {
	PlatformType string                   `yaml:"platform-type"`
	Default      *PlatSections            `yaml:"default"`
	Variants     map[string]*PlatSections `yaml:"variants"`

	File string `yaml:"-"`
}

// ExamplePlatformFile is the documentation-only definition the property excludes.
const ExamplePlatformFile = "example.yaml"

// AdvertisedPlatforms evaluates the list returned by platform.GetPlatformNames (go/ast; the
// elements are package constants). Without that function every exported string constant of
// platform/definition.go is taken as advertised.
func AdvertisedPlatforms() []string {
	files := ParseDir(filepath.Join(Repo, "platform"))
	env, _ := PkgConsts("platform")
	for _, fn := range SortedNames(files) {
		for _, d := range files[fn].Decls {
			fd, ok := d.(*ast.FuncDecl)
			if !ok || fd.Name.Name != "GetPlatformNames" || fd.Body == nil {
				continue
			}
			var out []string
			found := false
			ast.Inspect(fd.Body, func(n ast.Node) bool {
				cl, ok := n.(*ast.CompositeLit)
				if !ok || found {
					return true
				}
				found = true
				for _, e := range cl.Elts {
					if v, ok := EvalConst(e, env); ok && v.IsStr {
						out = append(out, v.S)
					} else {
						out = append(out, "?unresolved")
					}
				}
				return false
			})
			if found {
				return out
			}
		}
	}
	var out []string
	if f, ok := files["definition.go"]; ok {
		for _, d := range f.Decls {
			gd, ok := d.(*ast.GenDecl)
			if !ok {
				continue
			}
			for _, sp := range gd.Specs {
				vs, ok := sp.(*ast.ValueSpec)
				if !ok {
					continue
				}
				for _, n := range vs.Names {
					if v, ok := env[n.Name]; ok && v.IsStr && ast.IsExported(n.Name) {
						out = append(out, v.S)
					}
				}
			}
		}
	}
	return out
}

// EmbeddedPlatformFiles lists assets/platforms (what `//go:embed platforms/*` embeds).
func EmbeddedPlatformFiles() []string {
	ents, err := os.ReadDir(filepath.Join(Repo, "assets", "platforms"))
	if err != nil {
		return nil
	}
	var out []string
	for _, e := range ents {
		// go:embed with a glob skips nothing that matches the pattern except directories' dot/underscore files
		if !e.IsDir() {
			out = append(out, e.Name())
		}
	}
	sort.Strings(out)
	return out
}

// LoadPlatformBytes parses one definition and fills keys and witnesses.
func LoadPlatformBytes(file string, b []byte) (*PlatDef, error) {
	pd := &PlatDef{}
	if err := yaml.Unmarshal(b, pd); err != nil {
		return nil, err
	}
	pd.File = file
	fill := func(s *PlatSections) {
		if s == nil {
			return
		}
		for k, l := range s.PrivilegeLevels {
			if l == nil {
				l = &PlatLevel{}
				s.PrivilegeLevels[k] = l
			}
			l.Key = k
		}
		SampleWitnesses(s.PrivilegeLevels)
	}
	fill(pd.Default)
	for _, v := range pd.Variants {
		fill(v)
	}
	return pd, nil
}

func LoadPlatformFile(file string) (*PlatDef, error) {
	b, err := os.ReadFile(filepath.Join(Repo, "assets", "platforms", file))
	if err != nil {
		return nil, err
	}
	return LoadPlatformBytes(file, b)
}

// SortedLevelKeys returns the map keys in order.
func SortedLevelKeys(m map[string]*PlatLevel) []string {
	var ks []string
	for k := range m {
		ks = append(ks, k)
	}
	sort.Strings(ks)
	return ks
}

// ---- witness sampler ---------------------------------------------------------------------------

type wrng struct{ s uint64 }

func (r *wrng) next() uint64 {
	r.s += 0x9E3779B97F4A7C15
	z := r.s
	z = (z ^ (z >> 30)) * 0xBF58476D1CE4E5B9
	z = (z ^ (z >> 27)) * 0x94D049BB133111EB
	return z ^ (z >> 31)
}
func (r *wrng) intn(n int) int { return int(r.next() % uint64(n)) }

func classHas(cls []rune, c rune) bool {
	for i := 0; i+1 < len(cls); i += 2 {
		if cls[i] <= c && c <= cls[i+1] {
			return true
		}
	}
	return false
}

// pickRune chooses a readable member of a rune class. r == nil: the canonical choice.
func pickRune(cls []rune, r *wrng) rune {
	prefs := []rune("ar1A@:/.-_ %$#>")
	if r != nil && r.intn(3) > 0 {
		var cand []rune
		for c := rune(33); c < 127; c++ {
			if classHas(cls, c) {
				cand = append(cand, c)
			}
		}
		if len(cand) > 0 {
			return cand[r.intn(len(cand))]
		}
	}
	for _, c := range prefs {
		if classHas(cls, c) {
			return c
		}
	}
	for c := rune(33); c < 127; c++ {
		if classHas(cls, c) {
			return c
		}
	}
	for _, c := range []rune{' ', '\t', '\n'} {
		if classHas(cls, c) {
			return c
		}
	}
	if len(cls) > 0 {
		return cls[0]
	}
	return 'a'
}

// sampleWitness draws a short member of the language of re (anchors contribute nothing; they are
// re-checked by the match afterwards). r == nil gives the canonical minimal sample.
func sampleWitness(re *syntax.Regexp, r *wrng) []byte {
	switch re.Op {
	case syntax.OpLiteral:
		if re.Flags&syntax.FoldCase != 0 {
			return []byte(strings.ToLower(string(re.Rune))) // the parser stores folded literals in upper case
		}
		return []byte(string(re.Rune))
	case syntax.OpCharClass:
		return []byte(string(pickRune(re.Rune, r)))
	case syntax.OpAnyCharNotNL, syntax.OpAnyChar:
		if r != nil {
			return []byte{"ar1@:-/"[r.intn(7)]}
		}
		return []byte("a")
	case syntax.OpCapture:
		return sampleWitness(re.Sub[0], r)
	case syntax.OpStar, syntax.OpPlus, syntax.OpQuest, syntax.OpRepeat:
		lo, hi := 0, 2
		switch re.Op {
		case syntax.OpPlus:
			lo = 1
		case syntax.OpQuest:
			hi = 1
		case syntax.OpRepeat:
			lo, hi = re.Min, re.Max
			if hi < 0 || hi > lo+2 {
				hi = lo + 2
			}
		}
		k := lo
		if r != nil && r.intn(3) == 0 {
			k = lo + r.intn(hi-lo+1)
		}
		var out []byte
		for ; k > 0; k-- {
			out = append(out, sampleWitness(re.Sub[0], r)...)
		}
		return out
	case syntax.OpConcat:
		var out []byte
		for _, s := range re.Sub {
			out = append(out, sampleWitness(s, r)...)
		}
		return out
	case syntax.OpAlternate:
		if r != nil {
			return sampleWitness(re.Sub[r.intn(len(re.Sub))], r)
		}
		return sampleWitness(re.Sub[0], r)
	}
	return nil
}

// LevelMatches is determineCurrentPriv's per-level test: not-contains first, then the pattern.
func LevelMatches(l *PlatLevel, re *regexp.Regexp, prompt []byte) bool {
	for _, nc := range l.NotContains {
		if strings.Contains(string(prompt), nc) {
			return false
		}
	}
	return re.Match(prompt)
}

// SampleWitnesses fills Witness / AuthWitness of every level: among the canonical sample and 300
// seeded samples it keeps those the level accepts (pattern after not-contains) and that the
// joined pattern finds as a whole after a newline, and prefers the one accepted by the fewest
// other levels, then the shortest. Deterministic.
func SampleWitnesses(levels map[string]*PlatLevel) {
	keys := SortedLevelKeys(levels)
	res := map[string]*regexp.Regexp{}
	var pats []string
	for _, k := range keys {
		re, err := regexp.Compile(levels[k].Pattern)
		if err != nil {
			continue
		}
		res[k] = re
		pats = append(pats, levels[k].Pattern)
	}
	joined, jerr := regexp.Compile(strings.Join(pats, "|"))
	for _, k := range keys {
		l := levels[k]
		l.Witness, l.AuthWitness = nil, nil
		re := res[k]
		if re == nil {
			continue
		}
		syn, err := syntax.Parse(l.Pattern, syntax.Perl)
		if err != nil {
			continue
		}
		r := &wrng{s: 0xC17}
		best, bestScore := []byte(nil), [2]int{1 << 30, 0}
		for i := 0; i <= 300; i++ {
			var w []byte
			if i == 0 {
				w = sampleWitness(syn, nil)
			} else {
				w = sampleWitness(syn, r)
			}
			if len(w) == 0 || len(w) > 40 || !LevelMatches(l, re, w) {
				continue
			}
			if jerr == nil {
				if f := joined.Find(append([]byte("\n"), w...)); string(f) != string(w) {
					continue
				}
			}
			conf := 0
			for _, k2 := range keys {
				if k2 != k && res[k2] != nil && LevelMatches(levels[k2], res[k2], w) {
					conf++
				}
			}
			sc := [2]int{conf, len(w)}
			if sc[0] < bestScore[0] || (sc[0] == bestScore[0] && sc[1] < bestScore[1]) {
				best, bestScore = w, sc
			}
		}
		l.Witness = best
		if l.EscalatePrompt != "" {
			if are, err := regexp.Compile(l.EscalatePrompt); err == nil {
				if asyn, err := syntax.Parse(l.EscalatePrompt, syntax.Perl); err == nil {
					ar := &wrng{s: 0xA17}
					for i := 0; i <= 100 && l.AuthWitness == nil; i++ {
						var w []byte
						if i == 0 {
							w = sampleWitness(asyn, nil)
						} else {
							w = sampleWitness(asyn, ar)
						}
						// the device shows it on a line of its own, the channel reads up to it
						if len(w) > 0 && are.Match(append([]byte("\n"), w...)) {
							l.AuthWitness = w
						}
					}
				}
			}
		}
	}
}

// PromptClasses partitions the level keys into classes of levels whose canonical prompts do not
// tell them apart (a's witness is accepted by b or b's by a; transitive closure), evaluated with
// Go's regexp. Classes are in key order and listed by first member (same shape as the Lean
// `promptClasses`).
func PromptClasses(levels map[string]*PlatLevel) [][]string {
	keys := SortedLevelKeys(levels)
	res := map[string]*regexp.Regexp{}
	for _, k := range keys {
		if re, err := regexp.Compile(levels[k].Pattern); err == nil {
			res[k] = re
		}
	}
	acc := func(a, b string) bool { // b accepts a's witness
		return res[b] != nil && LevelMatches(levels[b], res[b], levels[a].Witness)
	}
	parent := map[string]string{}
	var find func(string) string
	find = func(k string) string {
		if parent[k] == k {
			return k
		}
		r := find(parent[k])
		parent[k] = r
		return r
	}
	for _, k := range keys {
		parent[k] = k
	}
	for i, a := range keys {
		for _, b := range keys[i+1:] {
			if acc(a, b) || acc(b, a) {
				ra, rb := find(a), find(b)
				if ra != rb {
					if ra < rb {
						parent[rb] = ra
					} else {
						parent[ra] = rb
					}
				}
			}
		}
	}
	var out [][]string
	idx := map[string]int{}
	for _, k := range keys {
		r := find(k)
		i, ok := idx[r]
		if !ok {
			i = len(out)
			idx[r] = i
			out = append(out, nil)
		}
		out[i] = append(out[i], k)
	}
	return out
}

// C04Exemption evaluates the decidable hypotheses of C04's acquire theorem (Priv.isTree,
// recognises, ambigLeaf, cmdsOK; lean/ScrapliModel/Priv.lean) on a level map with Go's regexp and
// names the first one that fails, with the reason. tag == "" means the definition meets them all.
// The Lean side re-evaluates the named check in the kernel (c04_exempt_justified), so a wrong
// answer here breaks a proof instead of hiding a platform.
func C04Exemption(levels map[string]*PlatLevel) (tag, reason string) {
	keys := SortedLevelKeys(levels)
	byName := map[string]*PlatLevel{}
	roots := 0
	for _, k := range keys {
		l := levels[k]
		if l.Name == "" || l.Name == "UNKNOWN" {
			return "isTree", fmt.Sprintf("level %s has the name %q", k, l.Name)
		}
		if byName[l.Name] != nil {
			return "isTree", "two levels are named " + l.Name
		}
		byName[l.Name] = l
		if l.PreviousPriv == "" {
			roots++
		}
	}
	if roots != 1 {
		return "isTree", fmt.Sprintf("%d levels have no previous-priv", roots)
	}
	for _, k := range keys {
		l, n := levels[k], 0
		for l != nil && l.PreviousPriv != "" && n <= len(keys) {
			l = byName[l.PreviousPriv]
			n++
		}
		if l == nil || n > len(keys) {
			return "isTree", "level " + k + " does not reach the root along previous-priv links"
		}
	}
	res := map[string]*regexp.Regexp{}
	for _, k := range keys {
		re, err := regexp.Compile(levels[k].Pattern)
		if err != nil || levels[k].Witness == nil || !LevelMatches(levels[k], re, levels[k].Witness) {
			return "recognises", "level " + k + " has no canonical prompt its own pattern accepts"
		}
		res[k] = re
	}
	for _, k := range keys {
		m := levels[k]
		amb := ""
		for _, k2 := range keys {
			if levels[k2].Name != m.Name && LevelMatches(levels[k2], res[k2], m.Witness) {
				amb = k2
			}
		}
		if amb == "" {
			continue
		}
		nb := map[string]bool{}
		if m.PreviousPriv != "" {
			nb[m.PreviousPriv] = true
		}
		for _, k2 := range keys {
			if levels[k2].PreviousPriv == m.Name {
				nb[levels[k2].Name] = true
			}
		}
		if len(nb) > 1 {
			return "ambigLeaf", fmt.Sprintf("the prompt of level %s is also accepted by level %s, and %s is an interior node of the tree (%d neighbours)", k, amb, k, len(nb))
		}
	}
	for _, k := range keys {
		l := levels[k]
		if l.PreviousPriv == "" {
			continue
		}
		if l.Escalate == "" || l.Deescalate == "" {
			return "cmdsOK", fmt.Sprintf("level %s is not the root and has an empty escalate or deescalate command (escalate %q, deescalate %q): it can only be a starting point", k, l.Escalate, l.Deescalate)
		}
		for _, k2 := range keys {
			m := levels[k2]
			if m.Name != l.Name && m.PreviousPriv == l.PreviousPriv && m.Escalate == l.Escalate {
				return "cmdsOK", fmt.Sprintf("levels %s and %s share the parent and the escalate command %q", k, k2, l.Escalate)
			}
			if l.PreviousPriv == m.Name && m.PreviousPriv != "" && l.Escalate == m.Deescalate {
				return "cmdsOK", fmt.Sprintf("the escalate command of %s equals the deescalate command of its parent %s", k, k2)
			}
		}
	}
	return "", ""
}

// PlatformPackageState lists package-level variables of package platform (non-test files) that
// can carry state from one load to the next: variables holding a map, slice, pointer, channel,
// sync primitive or made / composite value, and variables assigned (directly, by index or by
// field) inside a function body. Constants and variables initialised by a plain call such as
// errors.New are not state. The current tree has none: a load reads the embedded bytes and parses
// them afresh.
func PlatformPackageState() []string {
	files := ParseDir(filepath.Join(Repo, "platform"))
	vars := map[string]string{} // name -> reason ("" = harmless so far)
	mutableType := func(e ast.Expr) string {
		switch t := e.(type) {
		case *ast.MapType:
			return "map"
		case *ast.ArrayType:
			if t.Len == nil {
				return "slice"
			}
		case *ast.StarExpr:
			return "pointer"
		case *ast.ChanType:
			return "channel"
		case *ast.SelectorExpr:
			if id, ok := t.X.(*ast.Ident); ok && id.Name == "sync" {
				return "sync." + t.Sel.Name
			}
		}
		return ""
	}
	mutableValue := func(e ast.Expr) string {
		switch v := e.(type) {
		case *ast.CompositeLit:
			if r := mutableType(v.Type); r != "" {
				return r + " literal"
			}
			return "composite literal"
		case *ast.UnaryExpr:
			return "address of a value"
		case *ast.CallExpr:
			if id, ok := v.Fun.(*ast.Ident); ok && (id.Name == "make" || id.Name == "new") {
				return id.Name + "(…)"
			}
		}
		return ""
	}
	for _, fn := range SortedNames(files) {
		for _, d := range files[fn].Decls {
			gd, ok := d.(*ast.GenDecl)
			if !ok || gd.Tok.String() != "var" {
				continue
			}
			for _, sp := range gd.Specs {
				vs := sp.(*ast.ValueSpec)
				for i, n := range vs.Names {
					if n.Name == "_" {
						continue
					}
					reason := ""
					if vs.Type != nil {
						reason = mutableType(vs.Type)
					}
					if reason == "" && i < len(vs.Values) {
						reason = mutableValue(vs.Values[i])
					}
					vars[n.Name] = reason
				}
			}
		}
	}
	root := func(e ast.Expr) string {
		for {
			switch x := e.(type) {
			case *ast.Ident:
				return x.Name
			case *ast.IndexExpr:
				e = x.X
			case *ast.SelectorExpr:
				e = x.X
			case *ast.StarExpr:
				e = x.X
			case *ast.ParenExpr:
				e = x.X
			default:
				return ""
			}
		}
	}
	for _, fn := range SortedNames(files) {
		for _, d := range files[fn].Decls {
			fd, ok := d.(*ast.FuncDecl)
			if !ok || fd.Body == nil {
				continue
			}
			ast.Inspect(fd.Body, func(n ast.Node) bool {
				mark := func(e ast.Expr) {
					if r := root(e); r != "" {
						if reason, isVar := vars[r]; isVar && !strings.Contains(reason, "assigned in") {
							if reason != "" {
								reason += ", "
							}
							vars[r] = reason + "assigned in " + fd.Name.Name
						}
					}
				}
				switch st := n.(type) {
				case *ast.AssignStmt:
					if st.Tok.String() != ":=" {
						for _, l := range st.Lhs {
							mark(l)
						}
					}
				case *ast.IncDecStmt:
					mark(st.X)
				}
				return true
			})
		}
	}
	var out []string
	for n, reason := range vars {
		if reason != "" {
			out = append(out, n+": "+reason)
		}
	}
	sort.Strings(out)
	return out
}

// LoadLookupOrder is the order in which platform.loadPlatformDefinition consults its sources, read
// off the function body: "assets" for loadPlatformDefinitionFromAssets, "file-or-url" for
// util.ResolveAtFileOrURL, in source order of the first call of each.
func LoadLookupOrder() []string {
	var out []string
	seen := map[string]bool{}
	for _, f := range ParseDir(filepath.Join(Repo, "platform")) {
		for _, d := range f.Decls {
			fd, ok := d.(*ast.FuncDecl)
			if !ok || fd.Name.Name != "loadPlatformDefinition" || fd.Body == nil {
				continue
			}
			type hit struct {
				pos  int
				name string
			}
			var hits []hit
			ast.Inspect(fd.Body, func(n ast.Node) bool {
				c, ok := n.(*ast.CallExpr)
				if !ok {
					return true
				}
				name := ""
				switch fn := c.Fun.(type) {
				case *ast.Ident:
					if fn.Name == "loadPlatformDefinitionFromAssets" {
						name = "assets"
					}
				case *ast.SelectorExpr:
					if fn.Sel.Name == "ResolveAtFileOrURL" {
						name = "file-or-url"
					}
				}
				if name != "" {
					hits = append(hits, hit{int(c.Pos()), name})
				}
				return true
			})
			sort.Slice(hits, func(i, j int) bool { return hits[i].pos < hits[j].pos })
			for _, h := range hits {
				if !seen[h.name] {
					seen[h.name] = true
					out = append(out, h.name)
				}
			}
		}
	}
	return out
}

// ---- struct-tag agreement ----------------------------------------------------------------------

// repoStructTags reads `yaml:"..."` tags of a struct type from the source.
func repoStructTags(dir, typ string) map[string]string {
	out := map[string]string{}
	for _, f := range ParseDir(filepath.Join(Repo, dir)) {
		for _, d := range f.Decls {
			gd, ok := d.(*ast.GenDecl)
			if !ok {
				continue
			}
			for _, sp := range gd.Specs {
				ts, ok := sp.(*ast.TypeSpec)
				if !ok || ts.Name.Name != typ {
					continue
				}
				st, ok := ts.Type.(*ast.StructType)
				if !ok {
					continue
				}
				for _, fl := range st.Fields.List {
					if fl.Tag == nil {
						continue
					}
					raw, err := strconv.Unquote(fl.Tag.Value)
					if err != nil {
						continue
					}
					tag := reflect.StructTag(raw).Get("yaml")
					for _, n := range fl.Names {
						out[n.Name] = tag
					}
				}
			}
		}
	}
	return out
}

func mirrorTags(v interface{}) map[string]string {
	out := map[string]string{}
	t := reflect.TypeOf(v)
	for i := 0; i < t.NumField(); i++ {
		if tag := t.Field(i).Tag.Get("yaml"); tag != "-" {
			out[t.Field(i).Name] = tag
		}
	}
	return out
}

// TagMismatches lists yaml tags on which the source structs and the translator's mirror structs
// differ (the mirror decodes with the same library, so equal tags = equal decoding).
func TagMismatches() []string {
	var bad []string
	cmp := func(dir, typ string, mirror interface{}, rename map[string]string) {
		src := repoStructTags(dir, typ)
		mt := mirrorTags(mirror)
		for f, tag := range mt {
			sf := f
			if r, ok := rename[f]; ok {
				sf = r
			}
			if src[sf] != tag {
				bad = append(bad, fmt.Sprintf("%s.%s: source %q mirror %q", typ, sf, src[sf], tag))
			}
		}
		for sf, tag := range src {
			f := sf
			for a, b := range rename {
				if b == sf {
					f = a
				}
			}
			if _, ok := mt[f]; !ok {
				bad = append(bad, fmt.Sprintf("%s.%s: source tag %q has no mirror field", typ, sf, tag))
			}
		}
	}
	cmp("platform", "Definition", PlatDef{}, nil)
	cmp("platform", "Platform", PlatSections{}, map[string]string{"DefaultDesired": "DefaultDesiredPrivilegeLevel"})
	cmp("platform", "optionDefinition", PlatOption{}, nil)
	cmp("driver/network", "PrivilegeLevel", PlatLevel{}, nil)
	sort.Strings(bad)
	return bad
}

// ---- Lean rendering ----------------------------------------------------------------------------

func leanStr(s string) string {
	var b strings.Builder
	b.WriteByte('"')
	for _, r := range s {
		switch {
		case r == '"':
			b.WriteString(`\"`)
		case r == '\\':
			b.WriteString(`\\`)
		case r == '\n':
			b.WriteString(`\n`)
		case r == '\t':
			b.WriteString(`\t`)
		case r == '\r':
			b.WriteString(`\r`)
		case r < 32 || r == 127:
			b.WriteString(fmt.Sprintf(`\x%02x`, r))
		default:
			b.WriteRune(r)
		}
	}
	b.WriteByte('"')
	return b.String()
}

func leanStrList(l []string) string {
	parts := make([]string, len(l))
	for i, s := range l {
		parts[i] = leanStr(s)
	}
	return "[" + strings.Join(parts, ", ") + "]"
}

func leanBytesList(l []string) string {
	parts := make([]string, len(l))
	for i, s := range l {
		parts[i] = LeanBytes(s)
	}
	return "[" + strings.Join(parts, ", ") + "]"
}

// PlatVal renders a YAML value (as yaml.v3 decodes it into interface{}) as a `Platform.Val`.
func PlatVal(v interface{}) string {
	switch x := v.(type) {
	case nil:
		return ".null"
	case string:
		return ".str " + leanStr(x)
	case bool:
		return fmt.Sprintf(".bool %v", x)
	case int:
		if x < 0 {
			return fmt.Sprintf(".int (%d)", x)
		}
		return fmt.Sprintf(".int %d", x)
	case float64:
		return ".float " + leanStr(strconv.FormatFloat(x, 'g', -1, 64))
	case []interface{}:
		var ss []string
		for _, e := range x {
			s, ok := e.(string)
			if !ok {
				return `.other "list"`
			}
			ss = append(ss, s)
		}
		return ".strList " + leanStrList(ss)
	case map[string]interface{}:
		return `.other "map"`
	}
	return fmt.Sprintf(".other %s", leanStr(fmt.Sprintf("%T", v)))
}

// PlatValCanon is the canonical text of a value used in the model driver's dumps
// (must agree with `Val.canon` in lean/ScrapliModel/Platform.lean).
func PlatValCanon(v interface{}) string {
	hex := func(s string) string {
		if s == "" {
			return "-"
		}
		return fmt.Sprintf("%x", s)
	}
	switch x := v.(type) {
	case nil:
		return "n"
	case string:
		return "s" + hex(x)
	case bool:
		if x {
			return "b1"
		}
		return "b0"
	case int:
		return fmt.Sprintf("i%d", x)
	case float64:
		return "f" + hex(strconv.FormatFloat(x, 'g', -1, 64))
	case []interface{}:
		var ss []string
		for _, e := range x {
			s, ok := e.(string)
			if !ok {
				return "o" + hex("list")
			}
			ss = append(ss, hex(s))
		}
		return "l" + strings.Join(ss, "+")
	case map[string]interface{}:
		return "o" + hex("map")
	}
	return "o" + hex(fmt.Sprintf("%T", v))
}

type reHoist struct {
	names map[string]string
	defs  []string
}

// hoist replaces every `.cls [...]` sub-term by a shared definition `kN` (the bounded repeats of
// the prompt patterns expand to dozens of copies of one class).
func (h *reHoist) hoist(term string) string {
	var b strings.Builder
	for {
		i := strings.Index(term, ".cls [")
		if i < 0 {
			b.WriteString(term)
			break
		}
		j := strings.Index(term[i:], "]")
		cls := term[i : i+j+1]
		name, ok := h.names[cls]
		if !ok {
			name = fmt.Sprintf("k%d", len(h.names))
			h.names[cls] = name
			h.defs = append(h.defs, fmt.Sprintf("def %s : Re := %s", name, cls))
		}
		b.WriteString(term[:i])
		b.WriteString(name)
		term = term[i+j+1:]
	}
	return b.String()
}

func renderSteps(s PlatSteps) string {
	if s == nil {
		return "none"
	}
	var steps []string
	for _, m := range s {
		var ks []string
		for k := range m {
			ks = append(ks, k)
		}
		sort.Strings(ks)
		var fs []string
		for _, k := range ks {
			fs = append(fs, fmt.Sprintf("(%s, %s)", leanStr(k), PlatVal(m[k])))
		}
		steps = append(steps, "⟨["+strings.Join(fs, ", ")+"]⟩")
	}
	return "some [" + strings.Join(steps, ", ") + "]"
}

func renderClasses(s *PlatSections) string {
	if s == nil {
		return "[]"
	}
	var cs []string
	for _, c := range PromptClasses(s.PrivilegeLevels) {
		cs = append(cs, leanStrList(c))
	}
	return "[" + strings.Join(cs, ", ") + "]"
}

func renderSections(b *strings.Builder, h *reHoist, name string, s *PlatSections) {
	if s == nil {
		s = &PlatSections{}
	}
	var lv []string
	for _, k := range SortedLevelKeys(s.PrivilegeLevels) {
		l := s.PrivilegeLevels[k]
		pat, pok := PatternToLean(l.Pattern)
		ep, eok := ".empty", true
		if l.EscalatePrompt != "" {
			ep, eok = PatternToLean(l.EscalatePrompt)
		}
		lv = append(lv, fmt.Sprintf(`  { key := %s, name := %s, patternSrc := %s, patternOk := %v,
    pattern := %s,
    notContains := %s, notContainsB := %s,
    previous := %s, deescalate := %s, escalate := %s, escalateAuth := %v,
    escalatePromptSrc := %s, escalatePromptOk := %v, escalatePrompt := %s,
    witnessFound := %v, witness := %s, authWitness := %s }`,
			leanStr(k), leanStr(l.Name), leanStr(l.Pattern), pok, h.hoist(pat),
			leanStrList(l.NotContains), leanBytesList(l.NotContains),
			leanStr(l.PreviousPriv), leanStr(l.Deescalate), leanStr(l.Escalate), l.EscalateAuth,
			leanStr(l.EscalatePrompt), eok, h.hoist(ep),
			l.Witness != nil, LeanBytes(string(l.Witness)), LeanBytes(string(l.AuthWitness))))
	}
	var opts []string
	for _, o := range s.Options {
		if o == nil {
			opts = append(opts, `⟨"", .null⟩`)
			continue
		}
		opts = append(opts, fmt.Sprintf("⟨%s, %s⟩", leanStr(o.Option), PlatVal(o.Value)))
	}
	fmt.Fprintf(b, "def %s : Def := {\n  driverType := %s,\n  failedWhen := %s,\n  onOpen := %s,\n  onClose := %s,\n  levels := [\n%s],\n  defaultLevel := %s,\n  netOnOpen := %s,\n  netOnClose := %s,\n  options := [%s] }\n",
		name, leanStr(s.DriverType), leanStrList(s.FailedWhenContains), renderSteps(s.OnOpen), renderSteps(s.OnClose),
		strings.Join(lv, ",\n"), leanStr(s.DefaultDesired), renderSteps(s.NetworkOnOpen), renderSteps(s.NetworkOnClose),
		strings.Join(opts, ", "))
}

// GenPlatforms renders Generated/Platforms.lean.
func GenPlatforms() string {
	var body strings.Builder
	h := &reHoist{names: map[string]string{}}
	files := EmbeddedPlatformFiles()
	var fileTerms, classTab, exemptTab []string
	for _, f := range files {
		if f == ExamplePlatformFile || !strings.HasSuffix(f, ".yaml") {
			continue
		}
		id := strings.TrimSuffix(f, ".yaml")
		pd, err := LoadPlatformFile(f)
		if err != nil {
			fmt.Fprintf(&body, "/-- %s does not parse: %s -/\ndef %s : PlatformFile := { file := %s, parses := false, platformType := \"\", hasDefault := false, default := {}, variants := [] }\n",
				f, strings.ReplaceAll(err.Error(), "-/", "- /"), LeanIdent("file_"+id), leanStr(f))
			fileTerms = append(fileTerms, LeanIdent("file_"+id))
			continue
		}
		renderSections(&body, h, LeanIdent(id), pd.Default)
		classTab = append(classTab, fmt.Sprintf("(%s, \"\", %s)", leanStr(f), renderClasses(pd.Default)))
		exempt := func(variant string, lv map[string]*PlatLevel) {
			if tag, why := C04Exemption(lv); tag != "" {
				exemptTab = append(exemptTab, fmt.Sprintf("(%s, %s, %s, %s)", leanStr(f), leanStr(variant), leanStr(tag), leanStr(why)))
			}
		}
		if pd.Default != nil && pd.Default.DriverType == "network" {
			exempt("", pd.Default.PrivilegeLevels)
		}
		var vs []string
		var vks []string
		for k := range pd.Variants {
			vks = append(vks, k)
		}
		sort.Strings(vks)
		for _, k := range vks {
			vn := LeanIdent(id + "__" + k)
			renderSections(&body, h, vn, pd.Variants[k])
			vs = append(vs, fmt.Sprintf("(%s, %s)", leanStr(k), vn))
			classTab = append(classTab, fmt.Sprintf("(%s, %s, %s)", leanStr(f), leanStr(k), renderClasses(pd.Variants[k])))
			if v := pd.Variants[k]; v != nil && pd.Default != nil {
				lv, dt := pd.Default.PrivilegeLevels, pd.Default.DriverType
				if len(v.PrivilegeLevels) > 0 { // what mergeVariant keeps
					lv = v.PrivilegeLevels
				}
				if v.DriverType != "" {
					dt = v.DriverType
				}
				if dt == "network" {
					exempt(k, lv)
				}
			}
		}
		fmt.Fprintf(&body, "def %s : PlatformFile := { file := %s, parses := true, platformType := %s, hasDefault := %v, default := %s, variants := [%s] }\n\n",
			LeanIdent("file_"+id), leanStr(f), leanStr(pd.PlatformType), pd.Default != nil, LeanIdent(id), strings.Join(vs, ", "))
		fileTerms = append(fileTerms, LeanIdent("file_"+id))
	}
	var b strings.Builder
	b.WriteString("-- GENERATED by go/cmd/extract from /repo's working tree; do not edit.\n")
	b.WriteString("import ScrapliModel.Platform\nnamespace Scrapli.Gen.Platforms\nopen Scrapli.Rx Scrapli.Platform\n\n")
	b.WriteString("/-- names returned by `platform.GetPlatformNames` -/\n")
	b.WriteString("def advertised : List String := " + leanStrList(AdvertisedPlatforms()) + "\n")
	b.WriteString("/-- directory listing of assets/platforms (`//go:embed platforms/*`) -/\n")
	b.WriteString("def embeddedFiles : List String := " + leanStrList(files) + "\n")
	b.WriteString("/-- the documentation-only definition, excluded from `files` -/\n")
	b.WriteString("def exampleFile : String := " + leanStr(ExamplePlatformFile) + "\n")
	mm := TagMismatches()
	b.WriteString("/-- yaml struct tags on which platform.Definition / Platform / optionDefinition / network.PrivilegeLevel\n    differ from the translator's mirror structs (empty = the YAML below was decoded as the code decodes it) -/\n")
	b.WriteString("def tagMismatches : List String := " + leanStrList(mm) + "\n")
	b.WriteString("/-- the sources `loadPlatformDefinition` consults, in source order (go/ast) -/\n")
	b.WriteString("def loadLookupOrder : List String := " + leanStrList(LoadLookupOrder()) + "\n")
	b.WriteString("/-- package-level variables of package platform that can carry state from one load to the next\n    (map / slice / pointer / sync values, or assigned inside a function); go/ast over platform/*.go -/\n")
	b.WriteString("def packageState : List String := " + leanStrList(PlatformPackageState()) + "\n\n")
	b.WriteString("-- rune classes shared by the pattern terms\n")
	b.WriteString(strings.Join(h.defs, "\n"))
	b.WriteString("\n\n")
	b.WriteString(body.String())
	b.WriteString("/-- every embedded definition except the example file -/\n")
	b.WriteString("def files : List PlatformFile := [" + strings.Join(fileTerms, ", ") + "]\n")
	b.WriteString("/-- prompt classes of each section's own privilege levels as Go's regexp sees them (file, variant or \"\", classes) -/\n")
	b.WriteString("def goPromptClasses : List (String × String × List (List String)) := [\n  " + strings.Join(classTab, ",\n  ") + "]\n")
	b.WriteString("/-- definitions (file, variant) that do not meet a decidable hypothesis of C04's acquire theorem: (failing check, reason).\n    `platform_acquire_reaches_target` leaves exactly these out; `c04_exempt_justified` re-evaluates the named check. -/\n")
	b.WriteString("def c04Exempt : List (String × String × String × String) := [\n  " + strings.Join(exemptTab, ",\n  ") + "]\n")
	b.WriteString("\nend Scrapli.Gen.Platforms\n")
	return b.String()
}
