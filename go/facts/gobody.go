package facts

// gobody.go — a deliberately small Go→Lean *body translator* (go/ast only, no type checker).
//
// Purpose: the hand-written Lean models mirror Go functions statement by statement. For every
// function listed in a BodyFile the translator renders the function's body, as it stands in the
// source tree NOW, as a pure Lean definition; the property file of the owning property proves
// `generated_<fn>_eq : ∀ inputs, translated body = hand-written model`. A source change therefore
// re-checks every theorem about the model against what the code says now — or breaks the
// obligation when the two no longer agree.
//
// THE RULE: whatever is outside the subset below is rendered as an undefined identifier
// `unsupported_<kind>_<n>`, so the generated file does not compile and the obligation is reported
// broken. Nothing is ever skipped silently.
//
// # Supported subset
//
// Types         int, time.Duration → Int;  bool → Bool;  byte/uint8 → UInt8;
//               []byte, string → Bytes;  [][]byte, []string → List Bytes;  error → Go.Error;
//               [][][]byte → List (List Bytes) (only as the operand of `range`).
//               (machine-integer overflow and the nil/empty distinction of slices are not modelled)
// Statements    x := e, x = e, x op= e, x++/x-- (each a shadowing `let`); `var x T`;
//               a, b := f(…) / a, b = e1, e2;  _ = e;
//               if / else if / else (with optional init);  switch with or without tag, no
//               fallthrough, no break;  return;  nested blocks;
//               for k, v := range xs { … } with break / continue / return → `Go.forRange`;
//               calls listed as Effects in the FnSpec (e.g. `t.c.Write(b)` appends b to a state
//               variable).
// Expressions   literals (ints, chars, strings → `List UInt8` literals), true/false/nil,
//               locals, parameters, package constants (→ `Gen.<Pkg>.«name»`, which Consts.lean
//               regenerates), time.Second & co, receiver fields named in the FnSpec,
//               ! && || == != < <= > >= + - * (ints; + also on strings), len, append, make(T, 0),
//               []byte(x) / string(x) / byte(lit) / int(x), []byte{…}, [][]byte{…}, []string{…},
//               x[i], x[i:j], make([]T, n), x[i] = e (→ `Go.set`), copy(dst, src), fmt.Sprintf with
//               %d / %s, for init; cond; post { … } and for cond { … } (→ `Go.forLoop` with a `fuel`
//               parameter; the loop step / post become auxiliary definitions), and calls of the library table
//               below or of the FnSpec's own table.
// Control flow  `if` whose branches neither return nor index is rendered as a join
//               (`let (a, b) := if c then … else …`) over the variables assigned in it; any other
//               `if` duplicates the continuation into both branches (early return).
// Panics        every x[i] / x[i:j] / make(T, n) is preceded by its bounds test (short-circuit aware); if it
//               fails the body yields `none`. A body that indexes therefore has type `Option _`.
// Steps         statements with effects outside the pure subset (mutex Lock/Unlock, channel send and
//               receive, `defer`, calls of sibling methods that can fail) are accepted only where the
//               FnSpec lists them as a Step with a Lean template (see Step); with FnSpec.Fail the
//               body lives in `Except <fault>` (a failed bounds test = the panic fault).
// Scoping       a `:=` that shadows a visible local is `unsupported_shadowing` (the rendering
//               relies on Lean's `let` shadowing only for re-assignment).
//
// The receiver is always called `recv` in FnSpec keys, whatever its name in the source.

import (
	"fmt"
	"go/ast"
	"go/token"
	"path/filepath"
	"sort"
	"strconv"
	"strings"
)

// Val is a rendered Lean expression with its translator type:
// int | bool | byte | bytes | list | error | unit | opaque:<LeanType>.
type Val struct{ Lean, Ty string }

// LibFn maps a Go call to a Lean function. Tmpl uses %0 … %9 for the rendered arguments.
// Lits pins argument positions to a literal string value (`bytes.Index(x, []byte("\n"))`): such an
// argument must be that literal (as "…", []byte("…") or []byte{…} of constants) and is not rendered.
// Partial marks a generated function whose Lean type is `Option _` (it may panic): it can only be
// called at statement level (`a, b = f(…)`).
type LibFn struct {
	Args    []string
	Ret     []string
	Tmpl    string
	Lits    map[int]string
	Partial bool
	// AnyArgs: the arguments are neither typed nor rendered (error constructors whose message does
	// not matter); what they would evaluate — including a panic inside them — is not modelled.
	AnyArgs bool
	// Check: a Lean Bool over the same %i that must hold, else the call panics (nil map entry
	// dereferenced, …); it is emitted with the bounds tests of the statement.
	Check string
}

// StateVar is a mutable receiver field (or other assignable path): a parameter of the Lean function
// (value on entry) that is also part of its result (value on exit).
type StateVar struct{ Key, Lean, Ty string }

// Effect: a call that appends its single argument to the state variable `State` and returns Ret.
type Effect struct {
	State string // Lean name of a StateVar of type list
	ArgTy string
	Ret   []Val // %0 = the rendered argument
}

// Step: a statement with an effect outside the pure subset (lock, channel operation, call of a
// sibling method that can fail), rendered from a template. Keys are statement keys:
//
//	recv.lock.Lock()          expression statement (call or channel receive `<-recv.ch`)
//	defer recv.lock.Unlock()  deferred call: Pre is emitted before every return that follows
//	recv.ch <- %0             send statement; %0 = the rendered value (type ArgTy)
//	%v := <-recv.ch           definition from a receive or call; %v = the bound name (type BindTy)
//
// Pre lines are emitted at the current indentation, then the rest of the function, then Post
// (which closes what Pre opened). A step may leave the function (`.error …`), so it is only
// accepted outside loops, and an `if` containing one is never rendered as a join.
// `if CALL == e {…}` with a `%v := CALL` step is first rewritten to `h := CALL; if h == e {…}`.
type Step struct {
	Pre    []string
	Post   string
	ArgTy  string
	BindTy string
	Defer  bool
	// BindTys: types of the names bound by `%v0, %v1 := CALL` (several results); %v0 … in Pre
	BindTys []string
	// Assigns: the state variables (Lean names) the step assigns — needed when the step stands
	// inside a loop, whose state is the set of assigned variables. A step without Assigns is not
	// (nil, as opposed to empty) is not accepted inside a loop.
	Assigns []string
	// In Pre, `%PANIC` is "leave the function with the panic / out-of-events value" and
	// `%RETURN{e1; e2}` is "return e1, e2" (packaged with the state) in the enclosing context.
}

// StructLit: a composite literal `&T{F1: e1, …}` / `T{…}` (key = the printed type, with the `&`)
// rendered through a template; every listed field must be given exactly once, by name. %F1 … are the
// rendered field values.
type StructLit struct {
	Fields map[string]string // field → translator type
	Tmpl   string
	Ty     string
}

// ECall: a call with an effect on the state that returns values (`err = c.Write(b, false)`,
// `nb, err := c.ReadUntilPrompt(ctx)`), accepted as the single right-hand side of an assignment
// (or as an expression statement). Key = the printed callee (`recv.Write`). ArgTys gives the
// translator type of each argument ("skip" = not rendered: contexts, flags). Pre is emitted before
// the assignment of the results, with %0… = arguments, %r0… = fresh names the template must bind to
// the results (types Ret), %PANIC / %RETURN{…} as in Step; Post closes what Pre opened, after the
// rest of the function. Assigns = the state variables the template assigns.
type ECall struct {
	ArgTys  []string
	Ret     []string
	Pre     []string
	Post    string
	Assigns []string
}

// GoIdiom switches on the recognition of the "synchronous goroutine" idiom:
//
//	cr := make(chan *result)            one unbuffered result channel made in the function
//	go func() { …; cr <- &result{b: e1, err: e2}; return; … }()   one goroutine literal, no arguments
//	r := <-cr                            the parent receives once, right after the go statement
//
// with the checks: the channel is used for nothing else (a leading `defer close(cr)` in the
// goroutine is allowed); every send is the last statement of the goroutine body or is directly
// followed by `return`; there is no other `return` and no send inside a loop; the body ends in a
// send. Then every path of the goroutine sends exactly once and the parent, which blocks on the
// receive, observes a synchronous call: the body is rendered sequentially, each send binding
// `<r>_b` / `<r>_err` (what `r.b` / `r.err` read) and continuing with the rest of the parent.
// That the two goroutines share no other state while the parent is blocked, and that nothing else
// receives from the channel, is the trusted part. Anything else renders `unsupported_goroutine_idiom`.
type GoIdiom struct {
	ResultType string            // e.g. "result"
	Fields     map[string]string // field → translator type, e.g. b: bytes, err: error
}

// FailMode: the function's Lean type is `Except Ty _`; Panic is the value of a failed bounds test.
type FailMode struct{ Ty, Panic string }

type FnSpec struct {
	Dir     string // package directory, e.g. "channel"
	Recv    string // receiver type name, "" for a plain function
	Name    string // Go name
	Lean    string // Lean name of the generated definition
	Doc     string
	Binders string            // extra Lean binders, placed first, e.g. "(cb : Cb.Callback)"
	// InlineInvariant: a local defined once by a pure, total expression over variables that are
	// never assigned (`d := f(c.X, len(b))`) is substituted at its uses instead of being bound, so
	// hoisting such a definition out of a loop (or back in) does not change the rendering.
	InlineInvariant bool
	// Partial: the Lean result is `Option _` even if the body neither indexes nor loops (its Steps can
	// yield `none`)
	Partial bool
	// Captures: Go locals (loop variables) that Vals / Funcs templates refer to on purpose
	Captures []string
	// SkipParams: Go parameters of a type outside the subset that Binders / Vals stand in for
	SkipParams []string
	// Results overrides the translator types of the Go results (e.g. "unit" for a pointer to a struct
	// whose fields are modelled as State)
	Results []string
	// BinderArgs: the names bound by Binders, space separated (passed on to the auxiliary loop definitions)
	BinderArgs string
	Vals    map[string]Val    // expression key → Lean value (read-only receiver fields, abstracted terms)
	Funcs   map[string]LibFn  // call key → Lean function (method calls, sibling functions)
	State   []StateVar        // mutable fields
	Effects map[string]Effect // call key → effect
	Steps   map[string]Step   // statement key → templated step
	Structs map[string]StructLit
	ECalls  map[string]ECall
	Go      *GoIdiom
	// IgnoreCalls: expression-statement calls whose printed callee starts with one of these prefixes
	// (loggers) are declared not modelled and rendered as a comment
	IgnoreCalls []string
	// IgnoreAssign: assignment targets (keys) whose statements are declared not modelled (time stamps);
	// they are rendered as a Lean comment
	IgnoreAssign []string
	Fail    *FailMode         // nil: `Option _` when the body indexes, plain otherwise
	// NilResult: a []byte result is rendered as `Option Bytes` (`return nil` = none)
	NilResult bool
}

type BodyFile struct {
	GeneratedBy string
	Imports     []string
	Namespace   string // e.g. "Scrapli.Gen.Bodies.Channel"
	Fns         []*FnSpec
}

// the library table: Go standard-library / util calls → existing Lean model functions.
var bodyLib = map[string][]LibFn{
	"bytes.Index": {
		{Args: []string{"bytes", "bytes"}, Ret: []string{"int"}, Lits: map[int]string{1: "\n"}, Tmpl: "(Go.optIdx (Chan.indexLF %0))"},
	},
	"bytes.Contains": {{Args: []string{"bytes", "bytes"}, Ret: []string{"bool"}, Tmpl: "(isInfix %1 %0)"}},
	"bytes.ReplaceAll": {
		{Args: []string{"bytes", "bytes", "bytes"}, Ret: []string{"bytes"}, Lits: map[int]string{1: "\r", 2: ""}, Tmpl: "(Chan.dropCR %0)"},
	},
	"strings.Contains": {{Args: []string{"bytes", "bytes"}, Ret: []string{"bool"}, Tmpl: "(isInfix %1 %0)"}},
	"bytes.Equal":      {{Args: []string{"bytes", "bytes"}, Ret: []string{"bool"}, Tmpl: "(%0 == %1)"}},
	"bytes.HasSuffix":  {{Args: []string{"bytes", "bytes"}, Ret: []string{"bool"}, Tmpl: "(hasPrefix (List.reverse %0) (List.reverse %1))"}},
	"bytes.HasPrefix":  {{Args: []string{"bytes", "bytes"}, Ret: []string{"bool"}, Tmpl: "(hasPrefix %0 %1)"}},
	"bytes.TrimPrefix": {{Args: []string{"bytes", "bytes"}, Ret: []string{"bytes"}, Tmpl: "(trimPrefix %0 %1)"}},
	"bytes.TrimSuffix": {{Args: []string{"bytes", "bytes"}, Ret: []string{"bytes"}, Tmpl: "(trimSuffix %0 %1)"}},
	"bytes.TrimSpace":  {{Args: []string{"bytes"}, Ret: []string{"bytes"}, Tmpl: "(trimSpace %0)"}},
	"bytes.Split": {
		{Args: []string{"bytes", "bytes"}, Ret: []string{"list"}, Lits: map[int]string{1: "\n"}, Tmpl: "(splitLF %0)"},
	},
	"bytes.Join": {
		{Args: []string{"list", "bytes"}, Ret: []string{"bytes"}, Lits: map[int]string{1: "\n"}, Tmpl: "(joinLF %0)"},
		{Args: []string{"list", "bytes"}, Ret: []string{"bytes"}, Lits: map[int]string{1: ""}, Tmpl: "(List.flatten %0)"},
	},
	"bytes.TrimRight": {
		{Args: []string{"bytes", "bytes"}, Ret: []string{"bytes"}, Lits: map[int]string{1: " "}, Tmpl: "(Chan.rstripSpaces %0)"},
	},
	"bytes.Trim": {{Args: []string{"bytes", "bytes"}, Ret: []string{"bytes"}, Tmpl: "(Chan.trimSet %1 %0)"}},
	// ASCII model of bytes.ToLower (ScrapliModel/Callbacks.lean)
	"bytes.ToLower":  {{Args: []string{"bytes"}, Ret: []string{"bytes"}, Tmpl: "(Cb.fold %0)"}},
	// model of strconv.Atoi for inputs short enough not to overflow (ScrapliModel/GoSem.lean)
	"strconv.Atoi":   {{Args: []string{"bytes"}, Ret: []string{"int", "error"}, Tmpl: "(Go.atoi %0)"}},
	"util.ByteIsAny": {{Args: []string{"byte", "bytes"}, Ret: []string{"bool"}, Tmpl: "(List.contains %1 %0)"}},
}

// time unit names, in nanoseconds
var bodyTimeUnits = map[string]string{
	"Nanosecond": "1", "Microsecond": "1000", "Millisecond": "1000000", "Second": "1000000000",
	"Minute": "60000000000", "Hour": "3600000000000",
}

var leanKeywords = map[string]bool{}

func init() {
	for _, k := range strings.Fields("at do end from have show then fun let in if else match with open by def theorem " +
		"namespace section variable where at this from using mutual instance structure inductive class deriving " +
		"import export universe axiom example macro syntax notation infix prefix postfix set_option attribute " +
		"private protected partial unsafe noncomputable local scoped for unless return mut try catch finally " +
		"nomatch nofun calc suffices obtain exact fix Type Prop Sort abbrev opaque") {
		leanKeywords[k] = true
	}
}

func leanLocal(name string) string {
	if leanKeywords[name] || strings.Contains(name, "_") && strings.HasPrefix(name, "unsupported") {
		return "«" + name + "»"
	}
	return name
}

func leanTy(ty string) string {
	switch ty {
	case "int":
		return "Int"
	case "bool":
		return "Bool"
	case "byte":
		return "UInt8"
	case "bytes":
		return "Bytes"
	case "list":
		return "List Bytes"
	case "list2":
		return "List (List Bytes)"
	case "error":
		return "Go.Error"
	case "unit":
		return "Unit"
	case "optbytes":
		return "Option Bytes"
	}
	if strings.HasPrefix(ty, "opaque:") {
		return strings.TrimPrefix(ty, "opaque:")
	}
	if strings.HasPrefix(ty, "olist:") {
		// a slice or a map ranged over in an order the FnSpec supplies; elements are opaque
		return "List (" + strings.TrimPrefix(ty, "olist:") + ")"
	}
	return "unsupported_type"
}

// ---------------------------------------------------------------------------------------------
// scopes (persistent, so that a duplicated continuation is rendered in the scope of its `if`)

type benv struct {
	parent *benv
	name   string
	ty     string
	depth  int
}

type bscope struct {
	env   *benv
	depth int
}

func (s bscope) lookup(name string) (string, int, bool) {
	for e := s.env; e != nil; e = e.parent {
		if e.name == name {
			return e.ty, e.depth, true
		}
	}
	return "", 0, false
}
func (s bscope) declare(name, ty string) bscope {
	return bscope{&benv{s.env, name, ty, s.depth}, s.depth}
}
func (s bscope) push() bscope { return bscope{s.env, s.depth + 1} }

// ---------------------------------------------------------------------------------------------

type bodyTr struct {
	spec     *FnSpec
	recvName string
	imports  map[string]string // import alias → package dir relative to the repo ("" = not ours)
	n        int
	checks   []string // bounds tests collected while rendering the expressions of one statement
	guards   []string // short-circuit guards in force
	reserved map[string]bool
	resTys   []string // Go result types
	mayPanic bool
	fnResTy  string // Lean result type
	consts   map[string]map[string]Val
	synth    map[*ast.BadStmt]*ifNode // else-parts of a switch rewritten as an if-chain
	parentBody []ast.Stmt
	goChan   string                   // GoIdiom: name of the result channel, once made
	goBody   []ast.Stmt               // GoIdiom: the goroutine body, once the go statement was seen
	ecallN   int
	inl      map[string]Val           // inlined invariant locals (FnSpec.InlineInvariant)
	mutated  map[string]bool          // names assigned anywhere in the body other than by their one `:=`
	hasFuel  bool                     // the function has a `for` loop with a condition: extra `fuel` parameter
	loopN    int
	aux      []string // auxiliary definitions (loop steps), innermost first
}

func (t *bodyTr) unsupported(kind string) string {
	t.n++
	return fmt.Sprintf("unsupported_%s_%d", kind, t.n)
}

// exprKey prints the expressions FnSpec keys are written in: identifiers, selectors, calls,
// literals, unary/binary operators. The receiver is printed as `recv`.
func (t *bodyTr) exprKey(e ast.Expr) string {
	switch x := e.(type) {
	case *ast.Ident:
		if t.recvName != "" && x.Name == t.recvName {
			return "recv"
		}
		if x.Name == "recv" {
			return "«recv»" // some other identifier that happens to be called recv
		}
		return x.Name
	case *ast.SelectorExpr:
		return t.exprKey(x.X) + "." + x.Sel.Name
	case *ast.ParenExpr:
		return "(" + t.exprKey(x.X) + ")"
	case *ast.BasicLit:
		return x.Value
	case *ast.UnaryExpr:
		return x.Op.String() + t.exprKey(x.X)
	case *ast.BinaryExpr:
		return t.exprKey(x.X) + " " + x.Op.String() + " " + t.exprKey(x.Y)
	case *ast.CallExpr:
		args := make([]string, len(x.Args))
		for i, a := range x.Args {
			args[i] = t.exprKey(a)
		}
		return t.exprKey(x.Fun) + "(" + strings.Join(args, ", ") + ")"
	case *ast.StarExpr:
		return "*" + t.exprKey(x.X)
	case *ast.ChanType:
		if x.Dir == ast.SEND|ast.RECV {
			return "chan " + t.exprKey(x.Value)
		}
	case *ast.IndexExpr:
		return t.exprKey(x.X) + "[" + t.exprKey(x.Index) + "]"
	case *ast.ArrayType:
		if x.Len == nil {
			return "[]" + t.exprKey(x.Elt)
		}
	case *ast.CompositeLit:
		els := make([]string, len(x.Elts))
		for i, a := range x.Elts {
			els[i] = t.exprKey(a)
		}
		return t.exprKey(x.Type) + "{" + strings.Join(els, ", ") + "}"
	case *ast.KeyValueExpr:
		return t.exprKey(x.Key) + ": " + t.exprKey(x.Value)
	}
	return "?"
}

func goTypeOf(e ast.Expr) string {
	switch x := e.(type) {
	case *ast.Ident:
		switch x.Name {
		case "int":
			return "int"
		case "bool":
			return "bool"
		case "byte", "uint8":
			return "byte"
		case "string":
			return "bytes"
		case "error":
			return "error"
		}
	case *ast.SelectorExpr:
		if id, ok := x.X.(*ast.Ident); ok && id.Name == "time" && x.Sel.Name == "Duration" {
			return "int"
		}
	case *ast.ArrayType:
		if x.Len != nil {
			return ""
		}
		switch goTypeOf(x.Elt) {
		case "byte":
			return "bytes"
		case "bytes":
			return "list"
		case "list":
			return "list2"
		}
	}
	return ""
}

// ---------------------------------------------------------------------------------------------
// constants

func (t *bodyTr) pkgConst(dir, name string) (Val, bool) {
	if t.consts == nil {
		t.consts = map[string]map[string]Val{}
	}
	if _, ok := t.consts[dir]; !ok {
		m := map[string]Val{}
		ns := ""
		for _, p := range ConstPkgs {
			if p.Dir == dir {
				ns = p.Ns
			}
		}
		if ns != "" {
			env, _ := PkgConsts(dir)
			byteTyped := map[string]bool{}
			files := ParseDir(filepath.Join(Repo, dir))
			for _, fn := range SortedNames(files) {
				for _, d := range files[fn].Decls {
					gd, ok := d.(*ast.GenDecl)
					if !ok || gd.Tok != token.CONST {
						continue
					}
					for _, sp := range gd.Specs {
						vs := sp.(*ast.ValueSpec)
						for i, nm := range vs.Names {
							if vs.Type != nil && goTypeOf(vs.Type) == "byte" {
								byteTyped[nm.Name] = true
							}
							if i < len(vs.Values) {
								if c, ok := vs.Values[i].(*ast.CallExpr); ok && goTypeOf(c.Fun) == "byte" {
									byteTyped[nm.Name] = true
								}
							}
						}
					}
				}
			}
			for nm, v := range env {
				q := "Gen." + ns + "." + LeanIdent(nm)
				switch {
				case v.IsStr:
					m[nm] = Val{q, "bytes"}
				case v.IsBool:
					m[nm] = Val{q, "bool"}
				case byteTyped[nm]:
					m[nm] = Val{"(UInt8.ofNat " + q + ")", "byte"}
				default:
					m[nm] = Val{"(" + q + " : Int)", "int"}
				}
			}
		}
		t.consts[dir] = m
	}
	v, ok := t.consts[dir][name]
	return v, ok
}

// literalString evaluates "…", []byte("…"), []byte{…consts…}, []byte{} as a Go string.
func (t *bodyTr) literalString(e ast.Expr) (string, bool) {
	switch x := e.(type) {
	case *ast.ParenExpr:
		return t.literalString(x.X)
	case *ast.BasicLit:
		if x.Kind == token.STRING {
			s, err := strconv.Unquote(x.Value)
			return s, err == nil
		}
	case *ast.CallExpr:
		if len(x.Args) == 1 && goTypeOf(x.Fun) == "bytes" {
			return t.literalString(x.Args[0])
		}
	case *ast.CompositeLit:
		if goTypeOf(x.Type) == "bytes" {
			var b []byte
			for _, el := range x.Elts {
				v, ok := EvalConst(el, nil)
				if !ok || v.IsStr || v.IsBool || v.N < 0 || v.N > 255 {
					return "", false
				}
				b = append(b, byte(v.N))
			}
			return string(b), true
		}
	case *ast.BinaryExpr:
		// "…" + "…"
		if v, ok := EvalConst(x, nil); ok && v.IsStr {
			return v.S, true
		}
	case *ast.Ident:
		if x.Name == "nil" {
			return "", true
		}
	}
	return "", false
}

// ---------------------------------------------------------------------------------------------
// expressions

func (t *bodyTr) guarded(c string) string {
	if len(t.guards) == 0 {
		return c
	}
	return "(!(" + strings.Join(t.guards, " && ") + ") || " + c + ")"
}

func (t *bodyTr) stateByKey(key string) (StateVar, bool) {
	for _, s := range t.spec.State {
		if s.Key == key {
			return s, true
		}
	}
	return StateVar{}, false
}

func isUntypedConst(e ast.Expr) bool {
	switch x := e.(type) {
	case *ast.ParenExpr:
		return isUntypedConst(x.X)
	case *ast.BasicLit:
		return x.Kind == token.INT || x.Kind == token.CHAR
	case *ast.UnaryExpr:
		return x.Op == token.SUB && isUntypedConst(x.X)
	case *ast.Ident:
		return x.Name == "nil"
	}
	return false
}

// expr renders e; want is the type the context asks for ("" = none), used for untyped constants.
func (t *bodyTr) expr(e ast.Expr, sc bscope, want string) Val {
	if p, ok := e.(*ast.ParenExpr); ok {
		return t.expr(p.X, sc, want)
	}
	key := t.exprKey(e)
	if s, ok := t.stateByKey(key); ok {
		return Val{s.Lean, s.Ty}
	}
	if v, ok := t.spec.Vals[key]; ok {
		return v
	}
	if v, ok := t.structLit(e, sc); ok {
		return v
	}
	switch x := e.(type) {
	case *ast.Ident:
		switch x.Name {
		case "true", "false":
			return Val{x.Name, "bool"}
		case "nil":
			switch want {
			case "error":
				return Val{"(none : Go.Error)", "error"}
			case "bytes":
				return Val{"([] : Bytes)", "bytes"}
			case "list":
				return Val{"([] : List Bytes)", "list"}
			case "unit":
				return Val{"()", "unit"} // a pointer result the FnSpec declares as not modelled
			}
			return Val{t.unsupported("nil"), want}
		}
		if ty, _, ok := sc.lookup(x.Name); ok {
			if v, ok := t.inl[x.Name]; ok {
				return v
			}
			return Val{leanLocal(x.Name), ty}
		}
		if v, ok := t.pkgConst(t.spec.Dir, x.Name); ok {
			return v
		}
		return Val{t.unsupported("ident_" + LeanIdentPlain(x.Name)), want}
	case *ast.SelectorExpr:
		if ix, ok := x.X.(*ast.IndexExpr); ok {
			// field of a map entry, e.g. `recv.PrivilegeLevels[k].Name`: FnSpec.Funcs key `recv.PrivilegeLevels[_].Name`
			if f, ok := t.spec.Funcs[t.exprKey(ix.X)+"[_]."+x.Sel.Name]; ok && len(f.Args) == 1 && len(f.Ret) == 1 {
				k := t.expr(ix.Index, sc, f.Args[0])
				if k.Ty != f.Args[0] {
					k.Lean = t.unsupported("map_key_type")
				}
				if f.Check != "" {
					t.checks = append(t.checks, t.guarded(strings.ReplaceAll(f.Check, "%0", k.Lean)))
				}
				return Val{strings.ReplaceAll(f.Tmpl, "%0", k.Lean), f.Ret[0]}
			}
		}
		if id, ok := x.X.(*ast.Ident); ok {
			if _, _, local := sc.lookup(id.Name); !local {
				if id.Name == "time" {
					if ns, ok := bodyTimeUnits[x.Sel.Name]; ok {
						return Val{"(" + ns + " : Int)", "int"}
					}
				}
				if dir, ok := t.imports[id.Name]; ok && dir != "" {
					if v, ok := t.pkgConst(dir, x.Sel.Name); ok {
						return v
					}
				}
			}
		}
		return Val{t.unsupported("selector_" + LeanIdentPlain(key)), want}
	case *ast.BasicLit:
		switch x.Kind {
		case token.INT, token.CHAR:
			v, ok := EvalConst(x, nil)
			if !ok {
				break
			}
			if want == "byte" {
				if v.N < 0 || v.N > 255 {
					break
				}
				return Val{fmt.Sprintf("(%d : UInt8)", v.N), "byte"}
			}
			if want == "" || want == "int" {
				return Val{fmt.Sprintf("(%d : Int)", v.N), "int"}
			}
		case token.STRING:
			if s, err := strconv.Unquote(x.Value); err == nil {
				return Val{"(" + LeanBytes(s) + " : Bytes)", "bytes"}
			}
		}
		return Val{t.unsupported("literal"), want}
	case *ast.UnaryExpr:
		switch x.Op {
		case token.NOT:
			v := t.expr(x.X, sc, "bool")
			if v.Ty == "bool" {
				return Val{"(!" + v.Lean + ")", "bool"}
			}
		case token.SUB:
			v := t.expr(x.X, sc, "int")
			if v.Ty == "int" {
				return Val{"(-" + v.Lean + ")", "int"}
			}
		}
		return Val{t.unsupported("unary"), want}
	case *ast.BinaryExpr:
		return t.binary(x, sc, want)
	case *ast.CallExpr:
		return t.call(x, sc, want)
	case *ast.CompositeLit:
		switch goTypeOf(x.Type) {
		case "bytes":
			els := make([]string, len(x.Elts))
			for i, el := range x.Elts {
				v := t.expr(el, sc, "byte")
				if v.Ty != "byte" {
					return Val{t.unsupported("byte_element"), "bytes"}
				}
				els[i] = v.Lean
			}
			return Val{"([" + strings.Join(els, ", ") + "] : Bytes)", "bytes"}
		case "list":
			els := make([]string, len(x.Elts))
			for i, el := range x.Elts {
				v := t.expr(el, sc, "bytes")
				if v.Ty != "bytes" {
					return Val{t.unsupported("list_element"), "list"}
				}
				els[i] = v.Lean
			}
			return Val{"([" + strings.Join(els, ", ") + "] : List Bytes)", "list"}
		}
		return Val{t.unsupported("composite"), want}
	case *ast.IndexExpr:
		b := t.expr(x.X, sc, "")
		i := t.expr(x.Index, sc, "int")
		if i.Ty != "int" || (b.Ty != "bytes" && b.Ty != "list") {
			return Val{t.unsupported("index"), want}
		}
		t.checks = append(t.checks, t.guarded("Go.idxOK (Go.len "+b.Lean+") "+i.Lean))
		if b.Ty == "bytes" {
			return Val{"(Go.at " + b.Lean + " " + i.Lean + ")", "byte"}
		}
		return Val{"(Go.at " + b.Lean + " " + i.Lean + ")", "bytes"}
	case *ast.SliceExpr:
		if x.Slice3 {
			return Val{t.unsupported("slice3"), want}
		}
		b := t.expr(x.X, sc, "")
		if b.Ty != "bytes" && b.Ty != "list" {
			return Val{t.unsupported("slice"), want}
		}
		lo, hi := Val{"(0 : Int)", "int"}, Val{"(Go.len " + b.Lean + ")", "int"}
		if x.Low != nil {
			lo = t.expr(x.Low, sc, "int")
		}
		if x.High != nil {
			hi = t.expr(x.High, sc, "int")
		}
		if lo.Ty != "int" || hi.Ty != "int" {
			return Val{t.unsupported("slice_bound"), b.Ty}
		}
		t.checks = append(t.checks, t.guarded("Go.sliceOK (Go.len "+b.Lean+") "+lo.Lean+" "+hi.Lean))
		return Val{"(Go.slice " + b.Lean + " " + lo.Lean + " " + hi.Lean + ")", b.Ty}
	}
	return Val{t.unsupported("expression"), want}
}

// invariantExpr: pure, total, and built only from things that are never assigned: literals,
// constants, FnSpec.Vals, unassigned locals / parameters, len, conversions, arithmetic and
// comparison operators, and non-partial table functions.
func (t *bodyTr) invariantExpr(e ast.Expr, sc bscope) bool {
	ok := true
	var walk func(e ast.Expr)
	walk = func(e ast.Expr) {
		if !ok || e == nil {
			return
		}
		key := t.exprKey(e)
		if _, isState := t.stateByKey(key); isState {
			ok = false
			return
		}
		if _, isVal := t.spec.Vals[key]; isVal {
			return
		}
		switch x := e.(type) {
		case *ast.ParenExpr:
			walk(x.X)
		case *ast.BasicLit:
		case *ast.Ident:
			if _, _, local := sc.lookup(x.Name); local && t.mutated[x.Name] {
				ok = false
			}
		case *ast.SelectorExpr:
			if id, isId := x.X.(*ast.Ident); isId {
				if _, _, local := sc.lookup(id.Name); !local {
					return // package constant / time unit: resolved (or rejected) by expr
				}
			}
			ok = false
		case *ast.UnaryExpr:
			if x.Op == token.ARROW || x.Op == token.AND {
				ok = false
			}
			walk(x.X)
		case *ast.BinaryExpr:
			walk(x.X)
			walk(x.Y)
		case *ast.CallExpr:
			k := t.exprKey(x.Fun)
			if _, eff := t.spec.Effects[k]; eff {
				ok = false
				return
			}
			if _, st := t.spec.Steps["%v := "+key]; st {
				ok = false
				return
			}
			fs := t.libFns(k)
			isBuiltin := k == "len" || goTypeOf(x.Fun) != ""
			if !isBuiltin && (len(fs) == 0 || fs[0].Partial) {
				ok = false
				return
			}
			for _, a := range x.Args {
				walk(a)
			}
		default:
			ok = false
		}
	}
	walk(e)
	return ok
}

// structLit renders `&T{…}` / `T{…}` listed in FnSpec.Structs
func (t *bodyTr) structLit(e ast.Expr, sc bscope) (Val, bool) {
	prefix := ""
	if u, ok := e.(*ast.UnaryExpr); ok && u.Op == token.AND {
		prefix, e = "&", u.X
	}
	cl, ok := e.(*ast.CompositeLit)
	if !ok || cl.Type == nil {
		return Val{}, false
	}
	sl, ok := t.spec.Structs[prefix+t.exprKey(cl.Type)]
	if !ok {
		return Val{}, false
	}
	out := sl.Tmpl
	seen := map[string]bool{}
	for _, el := range cl.Elts {
		kv, ok := el.(*ast.KeyValueExpr)
		if !ok {
			return Val{t.unsupported("struct_positional_field"), sl.Ty}, true
		}
		name := t.exprKey(kv.Key)
		ty, ok := sl.Fields[name]
		if !ok || seen[name] {
			return Val{t.unsupported("struct_field_" + LeanIdentPlain(name)), sl.Ty}, true
		}
		seen[name] = true
		v := t.expr(kv.Value, sc, ty)
		if v.Ty != ty {
			v.Lean = t.unsupported("struct_field_type")
		}
		out = strings.ReplaceAll(out, "%"+name, v.Lean)
	}
	if len(seen) != len(sl.Fields) {
		return Val{t.unsupported("struct_field_missing"), sl.Ty}, true
	}
	return Val{out, sl.Ty}, true
}

// LeanIdentPlain: ASCII letters/digits/underscore only, no quotes (for use inside unsupported_… names)
func LeanIdentPlain(s string) string {
	return strings.Trim(LeanIdent(s), "«»")
}

func (t *bodyTr) binary(x *ast.BinaryExpr, sc bscope, want string) Val {
	switch x.Op {
	case token.LAND, token.LOR:
		a := t.expr(x.X, sc, "bool")
		g := a.Lean
		if x.Op == token.LOR {
			g = "(!" + a.Lean + ")"
		}
		t.guards = append(t.guards, g)
		b := t.expr(x.Y, sc, "bool")
		t.guards = t.guards[:len(t.guards)-1]
		if a.Ty != "bool" || b.Ty != "bool" {
			return Val{t.unsupported("logical"), "bool"}
		}
		op := " && "
		if x.Op == token.LOR {
			op = " || "
		}
		return Val{"(" + a.Lean + op + b.Lean + ")", "bool"}
	}
	// operands: render the typed side first so that an untyped constant takes its type
	var a, b Val
	switch {
	case isUntypedConst(x.X) && !isUntypedConst(x.Y):
		b = t.expr(x.Y, sc, "")
		a = t.expr(x.X, sc, b.Ty)
	case isUntypedConst(x.X) && isUntypedConst(x.Y):
		a = t.expr(x.X, sc, "int")
		b = t.expr(x.Y, sc, "int")
	default:
		a = t.expr(x.X, sc, "")
		b = t.expr(x.Y, sc, a.Ty)
	}
	if a.Ty != b.Ty || a.Ty == "" {
		return Val{t.unsupported("operand_types"), want}
	}
	switch x.Op {
	case token.EQL, token.NEQ:
		switch a.Ty {
		case "int", "bool", "byte", "bytes", "error":
			op := " == "
			if x.Op == token.NEQ {
				op = " != "
			}
			return Val{"(" + a.Lean + op + b.Lean + ")", "bool"}
		}
	case token.LSS, token.LEQ, token.GTR, token.GEQ:
		if a.Ty == "int" {
			return Val{"(decide (" + a.Lean + " " + x.Op.String() + " " + b.Lean + "))", "bool"}
		}
	case token.ADD, token.SUB, token.MUL:
		if a.Ty == "int" {
			return Val{"(" + a.Lean + " " + x.Op.String() + " " + b.Lean + ")", "int"}
		}
		if a.Ty == "bytes" && x.Op == token.ADD {
			return Val{"(" + a.Lean + " ++ " + b.Lean + ")", "bytes"}
		}
	}
	return Val{t.unsupported("operator_" + LeanIdentPlain(x.Op.String())), want}
}

func (t *bodyTr) libFns(key string) []LibFn {
	if f, ok := t.spec.Funcs[key]; ok {
		return []LibFn{f}
	}
	return bodyLib[key]
}

// applyLib renders a table call; ok=false when no entry fits.
func (t *bodyTr) applyLib(key string, args []ast.Expr, sc bscope, allowPartial bool) (Val, []string, bool) {
	for _, f := range t.libFns(key) {
		if f.AnyArgs {
			ty := "unit"
			if len(f.Ret) == 1 {
				ty = f.Ret[0]
			}
			return Val{f.Tmpl, ty}, f.Ret, true
		}
		if len(f.Args) != len(args) || (f.Partial && !allowPartial) {
			continue
		}
		fits := true
		for i, lit := range f.Lits {
			if s, ok := t.literalString(args[i]); !ok || s != lit {
				fits = false
			}
		}
		if !fits {
			continue
		}
		out := f.Tmpl
		for i, a := range args {
			if _, pinned := f.Lits[i]; pinned {
				continue
			}
			v := t.expr(a, sc, f.Args[i])
			if v.Ty != f.Args[i] {
				v.Lean = t.unsupported("argument_type")
			}
			out = strings.ReplaceAll(out, "%"+strconv.Itoa(i), v.Lean)
		}
		ty := "unit"
		if len(f.Ret) == 1 {
			ty = f.Ret[0]
		} else if len(f.Ret) > 1 {
			ty = "tuple"
		}
		return Val{out, ty}, f.Ret, true
	}
	return Val{}, nil, false
}

func (t *bodyTr) call(x *ast.CallExpr, sc bscope, want string) Val {
	if x.Ellipsis.IsValid() {
		// only append(x, y...) uses it
		if id, ok := x.Fun.(*ast.Ident); !ok || id.Name != "append" {
			return Val{t.unsupported("variadic_call"), want}
		}
	}
	// conversions
	if ty := goTypeOf(x.Fun); ty != "" && len(x.Args) == 1 {
		if _, _, shadowed := sc.lookup(t.exprKey(x.Fun)); !shadowed {
			switch ty {
			case "bytes":
				v := t.expr(x.Args[0], sc, "bytes")
				if v.Ty == "bytes" {
					return v
				}
			case "int":
				v := t.expr(x.Args[0], sc, "int")
				if v.Ty == "int" {
					return v
				}
			case "byte":
				if isUntypedConst(x.Args[0]) {
					return t.expr(x.Args[0], sc, "byte")
				}
				v := t.expr(x.Args[0], sc, "byte")
				if v.Ty == "byte" {
					return v
				}
			}
			return Val{t.unsupported("conversion"), ty}
		}
	}
	if id, ok := x.Fun.(*ast.Ident); ok {
		if _, _, shadowed := sc.lookup(id.Name); !shadowed {
			switch id.Name {
			case "len":
				if len(x.Args) == 1 {
					v := t.expr(x.Args[0], sc, "")
					if v.Ty == "bytes" || v.Ty == "list" {
						return Val{"(Go.len " + v.Lean + ")", "int"}
					}
				}
				return Val{t.unsupported("len"), "int"}
			case "append":
				if len(x.Args) >= 1 {
					base := t.expr(x.Args[0], sc, want)
					el := map[string]string{"bytes": "byte", "list": "bytes"}[base.Ty]
					if strings.HasPrefix(base.Ty, "olist:") && x.Ellipsis.IsValid() {
						el = "opaque"
					}
					if el == "" {
						return Val{t.unsupported("append_base"), want}
					}
					if x.Ellipsis.IsValid() {
						if len(x.Args) != 2 {
							return Val{t.unsupported("append"), base.Ty}
						}
						y := t.expr(x.Args[1], sc, base.Ty)
						if y.Ty != base.Ty {
							return Val{t.unsupported("append_spread"), base.Ty}
						}
						return Val{"(" + base.Lean + " ++ " + y.Lean + ")", base.Ty}
					}
					els := make([]string, len(x.Args)-1)
					for i, a := range x.Args[1:] {
						v := t.expr(a, sc, el)
						if v.Ty != el {
							v.Lean = t.unsupported("append_element")
						}
						els[i] = v.Lean
					}
					return Val{"(" + base.Lean + " ++ [" + strings.Join(els, ", ") + "])", base.Ty}
				}
				return Val{t.unsupported("append"), want}
			case "make":
				if len(x.Args) == 2 {
					ty := goTypeOf(x.Args[0])
					if n, ok := EvalConst(x.Args[1], nil); ok && !n.IsStr && n.N == 0 && (ty == "bytes" || ty == "list") {
						return Val{"([] : " + leanTy(ty) + ")", ty}
					}
					// make([]T, n): n zero values; a negative n panics
					if zero := map[string]string{"bytes": "(0 : UInt8)", "list": "([] : Bytes)"}[ty]; zero != "" {
						n := t.expr(x.Args[1], sc, "int")
						if n.Ty == "int" {
							t.checks = append(t.checks, t.guarded("decide (0 ≤ "+n.Lean+")"))
							return Val{"(List.replicate (Int.toNat " + n.Lean + ") " + zero + ")", ty}
						}
					}
				}
				return Val{t.unsupported("make"), want}
			}
		}
	}
	key := t.exprKey(x.Fun)
	if _, ok := t.spec.Effects[key]; ok {
		return Val{t.unsupported("effect_inside_expression"), want}
	}
	if v, ret, ok := t.applyLib(key, x.Args, sc, false); ok {
		if len(ret) != 1 {
			return Val{t.unsupported("call_result_count"), want}
		}
		return v
	}
	// a generated function that may panic, called inside an expression: total value + `isSome` test
	if fs := t.libFns(key); len(fs) == 1 && fs[0].Partial && len(fs[0].Ret) == 1 {
		if v, ret, ok := t.applyLib(key, x.Args, sc, true); ok {
			zero := map[string]string{"int": "(0 : Int)", "bool": "false", "bytes": "([] : Bytes)", "list": "([] : List Bytes)"}[ret[0]]
			if zero == "" {
				return Val{t.unsupported("partial_call_type"), want}
			}
			t.checks = append(t.checks, t.guarded("("+v.Lean+").isSome"))
			return Val{"(Option.getD " + v.Lean + " " + zero + ")", ret[0]}
		}
	}
	// fmt.Sprintf with %d (int → decimal digits) and %s (string / []byte) verbs
	if key == "fmt.Sprintf" && len(x.Args) >= 1 {
		format, ok := t.literalString(x.Args[0])
		if !ok {
			return Val{t.unsupported("format"), "bytes"}
		}
		var parts []string
		arg := 1
		for len(format) > 0 {
			i := strings.IndexByte(format, '%')
			if i < 0 {
				parts = append(parts, "("+LeanBytes(format)+" : Bytes)")
				break
			}
			if i > 0 {
				parts = append(parts, "("+LeanBytes(format[:i])+" : Bytes)")
			}
			if i+1 >= len(format) || arg >= len(x.Args) {
				return Val{t.unsupported("format"), "bytes"}
			}
			switch format[i+1] {
			case 'd':
				v := t.expr(x.Args[arg], sc, "int")
				if v.Ty != "int" {
					v.Lean = t.unsupported("format_argument")
				}
				parts = append(parts, "(Go.fmtInt "+v.Lean+")")
			case 's':
				v := t.expr(x.Args[arg], sc, "bytes")
				if v.Ty != "bytes" {
					v.Lean = t.unsupported("format_argument")
				}
				parts = append(parts, v.Lean)
			default:
				return Val{t.unsupported("format_verb"), "bytes"}
			}
			arg++
			format = format[i+2:]
		}
		if arg != len(x.Args) {
			return Val{t.unsupported("format_arguments"), "bytes"}
		}
		if len(parts) == 0 {
			return Val{"([] : Bytes)", "bytes"}
		}
		return Val{"(" + strings.Join(parts, " ++ ") + ")", "bytes"}
	}
	// fmt.Errorf("%w: …", util.ErrX): only the wrapped sentinel is kept
	if key == "fmt.Errorf" {
		var sentinels []string
		for _, a := range x.Args[1:] {
			if s, ok := a.(*ast.SelectorExpr); ok && strings.HasPrefix(s.Sel.Name, "Err") {
				sentinels = append(sentinels, s.Sel.Name)
			}
		}
		if len(x.Args) >= 2 && len(sentinels) == 1 {
			if f, ok := t.literalString(x.Args[0]); ok && strings.Count(f, "%w") == 1 {
				return Val{"(some \"" + sentinels[0] + "\" : Go.Error)", "error"}
			}
		}
		return Val{t.unsupported("errorf"), "error"}
	}
	return Val{t.unsupported("call_" + LeanIdentPlain(key)), want}
}

// ---------------------------------------------------------------------------------------------
// statements

type bctx struct {
	retRaw func(r string) string // leave the function with the already packaged result r
	fall   func(sc bscope, ind string) string
	// Lean lines of the deferred calls registered so far (run before every return)
	deferred []string
	// inside the goroutine body of a GoIdiom: what a send on the result channel continues with
	onSend func(fields map[string]string, sc bscope, ind string) string
	brk    func() string // nil outside loops
	cont   func() string
}

func tuple(xs []string) string {
	switch len(xs) {
	case 0:
		return "()"
	case 1:
		return xs[0]
	}
	return "(" + strings.Join(xs, ", ") + ")"
}

func (t *bodyTr) stateNames() []string {
	var ns []string
	for _, s := range t.spec.State {
		ns = append(ns, s.Lean)
	}
	return ns
}

// pack builds the function result from the Go results and the current state
func (t *bodyTr) pack(vals []string) string {
	r := tuple(append(append([]string{}, vals...), t.stateNames()...))
	if t.spec.Fail != nil {
		return "(.ok " + r + ")"
	}
	if t.mayPanic {
		return "(some " + r + ")"
	}
	return r
}

func (t *bodyTr) panicVal() string {
	if t.spec.Fail != nil {
		return "(" + t.spec.Fail.Panic + ")"
	}
	return "none"
}

// deferredLines renders the deferred calls in force; vals are the already rendered return values,
// which must not read what a deferred call assigns (Go evaluates them before the deferred calls run)
func (t *bodyTr) deferredLines(ctx bctx, ind string, vals []string) string {
	var b strings.Builder
	for i := len(ctx.deferred) - 1; i >= 0; i-- {
		l := ctx.deferred[i]
		if f := strings.Fields(l); len(f) >= 2 && f[0] == "let" {
			for _, v := range vals {
				for _, w := range identRe(v) {
					if w == f[1] {
						l = "let _ := " + t.unsupported("return_reads_deferred_assignment")
					}
				}
			}
		}
		b.WriteString(ind + l + "\n")
	}
	return b.String()
}

// fillTemplate substitutes %PANIC and %RETURN{e1; e2} in one template line
func (t *bodyTr) fillTemplate(l string, ctx bctx) string {
	l = strings.ReplaceAll(l, "%PANIC", ctx.retRaw(t.panicVal()))
	for {
		a := strings.Index(l, "%RETURN{")
		if a < 0 {
			return l
		}
		e := strings.Index(l[a:], "}")
		if e < 0 {
			return l[:a] + t.unsupported("template") + l[a+8:]
		}
		parts := strings.Split(l[a+8:a+e], ";")
		for k := range parts {
			parts[k] = strings.TrimSpace(parts[k])
		}
		l = l[:a] + ctx.retRaw(t.pack(parts)) + l[a+e+1:]
	}
}

// ecall renders the Pre lines of an effectful call; returns them, the result names and Post
func (t *bodyTr) ecall(ec ECall, c *ast.CallExpr, sc bscope, ctx bctx, ind string) (string, []string, bool) {
	if len(c.Args) != len(ec.ArgTys) {
		return "", nil, false
	}
	args := make([]string, len(c.Args))
	for i, a := range c.Args {
		if ec.ArgTys[i] == "skip" {
			continue
		}
		v := t.expr(a, sc, ec.ArgTys[i])
		if v.Ty != ec.ArgTys[i] {
			v.Lean = t.unsupported("ecall_argument")
		}
		args[i] = v.Lean
	}
	t.ecallN++
	res := make([]string, len(ec.Ret))
	for i := range res {
		res[i] = fmt.Sprintf("call%d_r%d", t.ecallN, i)
	}
	out := t.flush(ctx, ind)
	for _, l := range ec.Pre {
		for i := len(args) - 1; i >= 0; i-- {
			l = strings.ReplaceAll(l, "%"+strconv.Itoa(i), args[i])
		}
		for i := len(res) - 1; i >= 0; i-- {
			l = strings.ReplaceAll(l, "%r"+strconv.Itoa(i), res[i])
		}
		out += ind + t.fillTemplate(l, ctx) + "\n"
	}
	return out, res, true
}

// resultLit reads `&result{b: e1, err: e2}`: every field of the GoIdiom, by name
func (t *bodyTr) resultLit(e ast.Expr, g *GoIdiom, sc bscope) (map[string]string, bool) {
	u, ok := e.(*ast.UnaryExpr)
	if !ok || u.Op != token.AND {
		return nil, false
	}
	cl, ok := u.X.(*ast.CompositeLit)
	if !ok || t.exprKey(cl.Type) != g.ResultType || len(cl.Elts) != len(g.Fields) {
		return nil, false
	}
	out := map[string]string{}
	for _, el := range cl.Elts {
		kv, ok := el.(*ast.KeyValueExpr)
		if !ok {
			return nil, false
		}
		name := t.exprKey(kv.Key)
		ty, ok := g.Fields[name]
		if _, dup := out[name]; !ok || dup {
			return nil, false
		}
		v := t.expr(kv.Value, sc, ty)
		if v.Ty != ty {
			v.Lean = t.unsupported("result_field_type")
		}
		out[name] = v.Lean
	}
	return out, true
}

// goIdiomOK checks the shape of the goroutine body (see GoIdiom) and returns it without a leading
// `defer close(ch)`
func (t *bodyTr) goIdiomOK(g *ast.GoStmt, ch string) ([]ast.Stmt, bool) {
	fl, ok := g.Call.Fun.(*ast.FuncLit)
	if !ok || len(g.Call.Args) != 0 || fl.Type.Params.NumFields() != 0 || (fl.Type.Results != nil && fl.Type.Results.NumFields() != 0) {
		return nil, false
	}
	body := fl.Body.List
	if len(body) > 0 {
		if d, ok := body[0].(*ast.DeferStmt); ok && t.exprKey(d.Call) == "close("+ch+")" {
			body = body[1:]
		}
	}
	isSend := func(st ast.Stmt) bool {
		s, ok := st.(*ast.SendStmt)
		return ok && t.exprKey(s.Chan) == ch
	}
	good := true
	// block: a statement list; top = the goroutine body itself. Returns whether it ends in a send.
	var block func(stmts []ast.Stmt, top bool) bool
	var stmt func(st ast.Stmt)
	usesChan := func(n ast.Node) bool {
		u := false
		ast.Inspect(n, func(m ast.Node) bool {
			if id, ok := m.(*ast.Ident); ok && id.Name == ch {
				u = true
			}
			return !u
		})
		return u
	}
	stmt = func(st ast.Stmt) {
		switch x := st.(type) {
		case *ast.IfStmt:
			if x.Init != nil && usesChan(x.Init) || usesChan(x.Cond) {
				good = false
			}
			block(x.Body.List, false)
			switch e := x.Else.(type) {
			case nil:
			case *ast.BlockStmt:
				block(e.List, false)
			case *ast.IfStmt:
				stmt(e)
			default:
				good = false
			}
		case *ast.BlockStmt:
			block(x.List, false)
		case *ast.ReturnStmt:
			good = false // a return that does not directly follow a send
		default:
			// loops, switches, selects, nested closures: may not touch the channel nor return
			bad := usesChan(st)
			ast.Inspect(st, func(m ast.Node) bool {
				switch m.(type) {
				case *ast.ReturnStmt, *ast.GoStmt:
					bad = true
				}
				return !bad
			})
			if bad {
				good = false
			}
		}
	}
	block = func(stmts []ast.Stmt, top bool) bool {
		ends := false
		for i := 0; i < len(stmts); i++ {
			st := stmts[i]
			if isSend(st) {
				last := i == len(stmts)-1
				if last && top {
					ends = true
					continue
				}
				if i+1 < len(stmts) {
					if r, ok := stmts[i+1].(*ast.ReturnStmt); ok && len(r.Results) == 0 && i+2 == len(stmts) {
						ends = true
						i++
						continue
					}
				}
				good = false
				continue
			}
			stmt(st)
		}
		return ends
	}
	if !block(body, true) {
		good = false
	}
	return body, good
}

// stmtKey: the key a Step is looked up under, with the statement's argument / bound identifier
func (t *bodyTr) stmtKey(st ast.Stmt) (string, ast.Expr, *ast.Ident) {
	k, a, b := t.stmtKeyN(st)
	if len(b) == 1 {
		return k, a, b[0]
	}
	if len(b) > 1 {
		return "", nil, nil
	}
	return k, a, nil
}

// stmtText prints the few statements that may stand in a `select` clause of a Step key
func (t *bodyTr) stmtText(st ast.Stmt) string {
	switch x := st.(type) {
	case *ast.ReturnStmt:
		rs := make([]string, len(x.Results))
		for i, r := range x.Results {
			rs[i] = t.exprKey(r)
		}
		return "return " + strings.Join(rs, ", ")
	case *ast.ExprStmt:
		return t.exprKey(x.X)
	}
	return "?"
}

// stmtKeyN: like stmtKey, with all identifiers bound by `a, b := CALL`. A `select` is keyed by its
// clauses in source order: `select <-ctx.Done() => return nil, ctx.Err() | default =>`.
func (t *bodyTr) stmtKeyN(st ast.Stmt) (string, ast.Expr, []*ast.Ident) {
	switch x := st.(type) {
	case *ast.ExprStmt:
		return t.exprKey(x.X), nil, nil
	case *ast.DeferStmt:
		return "defer " + t.exprKey(x.Call), nil, nil
	case *ast.SendStmt:
		return t.exprKey(x.Chan) + " <- %0", x.Value, nil
	case *ast.SelectStmt:
		var cls []string
		for _, c := range x.Body.List {
			cc, ok := c.(*ast.CommClause)
			if !ok {
				return "", nil, nil
			}
			comm := "default"
			if cc.Comm != nil {
				es, ok := cc.Comm.(*ast.ExprStmt)
				if !ok {
					return "", nil, nil
				}
				comm = t.exprKey(es.X)
			}
			var body []string
			for _, b := range cc.Body {
				body = append(body, t.stmtText(b))
			}
			cls = append(cls, strings.TrimSpace(comm+" => "+strings.Join(body, "; ")))
		}
		return "select " + strings.Join(cls, " | "), nil, nil
	case *ast.AssignStmt:
		if x.Tok == token.DEFINE && len(x.Rhs) == 1 {
			var ids []*ast.Ident
			var ph []string
			for i, l := range x.Lhs {
				id, ok := l.(*ast.Ident)
				if !ok {
					return "", nil, nil
				}
				ids = append(ids, id)
				ph = append(ph, "%v"+strconv.Itoa(i))
			}
			if len(ids) == 1 {
				return "%v := " + t.exprKey(x.Rhs[0]), nil, ids
			}
			return strings.Join(ph, ", ") + " := " + t.exprKey(x.Rhs[0]), nil, ids
		}
	}
	return "", nil, nil
}

// hasStep: does the node contain a statement or call that a Step covers?
func (t *bodyTr) hasStep(n ast.Node) bool {
	if len(t.spec.Steps) == 0 && len(t.spec.ECalls) == 0 && t.spec.Go == nil {
		return false
	}
	found := false
	ast.Inspect(n, func(m ast.Node) bool {
		switch x := m.(type) {
		case *ast.CallExpr:
			if _, ok := t.spec.ECalls[t.exprKey(x.Fun)]; ok {
				found = true
			}
		case *ast.SendStmt, *ast.GoStmt:
			found = true
		}
		switch x := m.(type) {
		case ast.Stmt:
			if k, _, _ := t.stmtKeyN(x); k != "" {
				if _, ok := t.spec.Steps[k]; ok {
					found = true
				}
			}
		case ast.Expr:
			if _, ok := t.spec.Steps["%v := "+t.exprKey(x)]; ok {
				found = true
			}
		}
		return !found
	})
	return found
}

// flush emits the bounds tests collected for the current statement
func (t *bodyTr) flush(ctx bctx, ind string) string {
	if len(t.checks) == 0 {
		return ""
	}
	c := strings.Join(t.checks, " && ")
	t.checks = nil
	return ind + "if !(" + c + ") then " + ctx.retRaw(t.panicVal()) + " else\n"
}

// hasExit: does the statement contain something that can leave the enclosing statement list other
// than by falling off its end (return, break, continue, a panic test, a loop)?
func hasExit(n ast.Node) bool {
	found := false
	ast.Inspect(n, func(m ast.Node) bool {
		switch x := m.(type) {
		case *ast.ReturnStmt, *ast.BranchStmt, *ast.IndexExpr, *ast.SliceExpr, *ast.RangeStmt, *ast.ForStmt,
			*ast.GoStmt, *ast.DeferStmt, *ast.SelectStmt, *ast.FuncLit:
			found = true
		case *ast.CallExpr:
			if id, ok := x.Fun.(*ast.Ident); ok && id.Name == "make" {
				found = true
			}
		}
		return !found
	})
	return found
}

// assigned lists (Lean names of) the variables visible in sc and the state variables that the
// statements assign, in order of first occurrence.
func (t *bodyTr) assigned(nodes []ast.Node, sc bscope) []string {
	var out []string
	seen := map[string]bool{}
	add := func(n string) {
		if !seen[n] {
			seen[n] = true
			out = append(out, n)
		}
	}
	var target func(e ast.Expr)
	target = func(e ast.Expr) {
		if ix, ok := e.(*ast.IndexExpr); ok {
			target(ix.X)
			return
		}
		if s, ok := t.stateByKey(t.exprKey(e)); ok {
			add(s.Lean)
			return
		}
		if id, ok := e.(*ast.Ident); ok {
			if _, _, ok := sc.lookup(id.Name); ok {
				add(leanLocal(id.Name))
			}
		}
	}
	for _, n := range nodes {
		ast.Inspect(n, func(m ast.Node) bool {
			if st, ok := m.(ast.Stmt); ok {
				if k, _, _ := t.stmtKeyN(st); k != "" {
					if step, ok := t.spec.Steps[k]; ok {
						for _, a := range step.Assigns {
							add(a)
						}
					}
				}
			}
			switch x := m.(type) {
			case *ast.AssignStmt:
				if x.Tok != token.DEFINE {
					for _, l := range x.Lhs {
						target(l)
					}
				}
			case *ast.IncDecStmt:
				target(x.X)
			case *ast.CallExpr:
				if ef, ok := t.spec.Effects[t.exprKey(x.Fun)]; ok {
					add(ef.State)
				}
				if ec, ok := t.spec.ECalls[t.exprKey(x.Fun)]; ok {
					for _, a := range ec.Assigns {
						add(a)
					}
				}
				if id, ok := x.Fun.(*ast.Ident); ok && id.Name == "copy" && len(x.Args) == 2 {
					target(x.Args[0])
				}
			}
			return true
		})
	}
	return out
}

func (t *bodyTr) declare(name, ty string, sc bscope) (bscope, string) {
	if name == "_" {
		return sc, "_"
	}
	if _, d, ok := sc.lookup(name); ok && d < sc.depth {
		return sc, t.unsupported("shadowing_" + LeanIdentPlain(name))
	}
	if t.reserved[name] {
		return sc, t.unsupported("name_clash_" + LeanIdentPlain(name))
	}
	return sc.declare(name, ty), leanLocal(name)
}

// lhs resolves an assignment target: Lean name and type ("" = cannot assign)
func (t *bodyTr) lhs(e ast.Expr, sc bscope) (string, string) {
	if s, ok := t.stateByKey(t.exprKey(e)); ok {
		return s.Lean, s.Ty
	}
	if id, ok := e.(*ast.Ident); ok {
		if id.Name == "_" {
			return "_", "_"
		}
		if ty, _, ok := sc.lookup(id.Name); ok {
			return leanLocal(id.Name), ty
		}
	}
	return t.unsupported("assign_target"), ""
}

func (t *bodyTr) seq(stmts []ast.Stmt, sc bscope, ctx bctx, ind string) string {
	if len(stmts) == 0 {
		if sc.depth == 1 {
			// end of the function body
			return t.deferredLines(ctx, ind, nil) + ctx.fall(sc, ind)
		}
		return ctx.fall(sc, ind)
	}
	st := stmts[0]
	rest := func(sc bscope, ind string) string { return t.seq(stmts[1:], sc, ctx, ind) }
	bad := func(kind string) string {
		return ind + "let _ := " + t.unsupported(kind) + "\n" + rest(sc, ind)
	}
	// declared-not-modelled calls (loggers)
	if es, ok := st.(*ast.ExprStmt); ok {
		if c, ok := es.X.(*ast.CallExpr); ok {
			k := t.exprKey(c.Fun)
			for _, pre := range t.spec.IgnoreCalls {
				if strings.HasPrefix(k, pre) {
					return fmt.Sprintf("%s-- %s(…) (declared not modelled)\n", ind, k) + rest(sc, ind)
				}
			}
			if ec, ok := t.spec.ECalls[k]; ok {
				pre, _, ok := t.ecall(ec, c, sc, ctx, ind)
				if !ok {
					return bad("ecall")
				}
				if ec.Post == "" {
					return pre + rest(sc, ind)
				}
				return pre + strings.TrimRight(rest(sc, ind), "\n") + ec.Post + "\n"
			}
		}
	}
	// the synchronous-goroutine idiom
	if g := t.spec.Go; g != nil {
		switch x := st.(type) {
		case *ast.AssignStmt:
			// cr := make(chan *result)
			if x.Tok == token.DEFINE && len(x.Lhs) == 1 && len(x.Rhs) == 1 {
				if id, ok := x.Lhs[0].(*ast.Ident); ok && t.exprKey(x.Rhs[0]) == "make(chan *"+g.ResultType+")" {
					if t.goChan != "" || sc.depth != 1 {
						return bad("goroutine_idiom")
					}
					t.goChan = id.Name
					return fmt.Sprintf("%s-- %s := make(chan *%s): the result channel of the synchronous-goroutine idiom\n", ind, id.Name, g.ResultType) + rest(sc, ind)
				}
			}
			// r := <-cr   (directly after the go statement)
			if x.Tok == token.DEFINE && len(x.Lhs) == 1 && len(x.Rhs) == 1 && t.goChan != "" && t.exprKey(x.Rhs[0]) == "<-"+t.goChan {
				id, ok := x.Lhs[0].(*ast.Ident)
				if !ok || t.goBody == nil || sc.depth != 1 {
					return bad("goroutine_idiom")
				}
				body := t.goBody
				t.goBody = nil
				gctx := ctx
				gctx.fall = func(_ bscope, ind string) string { return ind + t.unsupported("goroutine_idiom_no_send") + "\n" }
				gctx.onSend = func(fields map[string]string, _ bscope, ind string) string {
					out := ""
					names := make([]string, 0, len(fields))
					for f := range fields {
						names = append(names, f)
					}
					sort.Strings(names)
					for _, f := range names {
						out += fmt.Sprintf("%slet %s_%s : %s := %s\n", ind, id.Name, f, leanTy(g.Fields[f]), fields[f])
					}
					sc2 := sc
					sc2, _ = t.declare(id.Name, "unit", sc2)
					return out + rest(sc2, ind)
				}
				return fmt.Sprintf("%s-- go func(){…}(); %s := <-%s: the goroutine body, run synchronously\n", ind, id.Name, t.goChan) +
					t.seq(body, sc.push(), gctx, ind)
			}
		case *ast.GoStmt:
			if t.goChan == "" || t.goBody != nil || sc.depth != 1 || len(stmts) < 2 {
				return bad("goroutine_idiom")
			}
			// the receive must follow directly
			nx, ok := stmts[1].(*ast.AssignStmt)
			if !ok || len(nx.Rhs) != 1 || t.exprKey(nx.Rhs[0]) != "<-"+t.goChan {
				return bad("goroutine_idiom")
			}
			body, ok := t.goIdiomOK(x, t.goChan)
			if !ok {
				return bad("goroutine_idiom")
			}
			// the channel may not be used anywhere else in the parent
			uses := 0
			for _, o := range t.parentBody {
				ast.Inspect(o, func(m ast.Node) bool {
					if _, isGo := m.(*ast.GoStmt); isGo {
						return false
					}
					if id, ok := m.(*ast.Ident); ok && id.Name == t.goChan {
						uses++
					}
					return true
				})
			}
			if uses != 2 { // its definition and the one receive
				return bad("goroutine_idiom")
			}
			t.goBody = body
			if t.goBody == nil {
				t.goBody = []ast.Stmt{}
			}
			return rest(sc, ind)
		case *ast.SendStmt:
			if ctx.onSend != nil && t.exprKey(x.Chan) == t.goChan {
				fields, ok := t.resultLit(x.Value, g, sc)
				if !ok {
					return bad("goroutine_idiom_result")
				}
				return t.flush(ctx, ind) + ctx.onSend(fields, sc, ind)
			}
		}
	}
	if key, arg, binds := t.stmtKeyN(st); key != "" {
		if step, ok := t.spec.Steps[key]; ok {
			if ctx.brk != nil && step.Assigns == nil && len(step.Pre) > 0 {
				return bad("step_inside_loop")
			}
			argLean := ""
			sc2 := sc
			if arg != nil {
				v := t.expr(arg, sc, step.ArgTy)
				if v.Ty != step.ArgTy {
					v.Lean = t.unsupported("step_argument")
				}
				argLean = v.Lean
			}
			tys := step.BindTys
			if len(tys) == 0 && step.BindTy != "" {
				tys = []string{step.BindTy}
			}
			bindLean := make([]string, len(binds))
			for i, b := range binds {
				if i >= len(tys) {
					bindLean[i] = t.unsupported("step_binding")
					continue
				}
				sc2, bindLean[i] = t.declare(b.Name, tys[i], sc2)
			}
			lines := make([]string, len(step.Pre))
			for i, l := range step.Pre {
				l = strings.ReplaceAll(l, "%0", argLean)
				for j := len(bindLean) - 1; j >= 0; j-- {
					l = strings.ReplaceAll(l, "%v"+strconv.Itoa(j), bindLean[j])
				}
				if len(bindLean) > 0 {
					l = strings.ReplaceAll(l, "%v", bindLean[0])
				}
				l = t.fillTemplate(l, ctx)
				lines[i] = l
			}
			if step.Defer {
				if sc.depth != 1 {
					return bad("defer_in_nested_block")
				}
				ctx2 := ctx
				ctx2.deferred = append(append([]string{}, ctx.deferred...), lines...)
				return t.seq(stmts[1:], sc, ctx2, ind)
			}
			out := t.flush(ctx, ind)
			for _, l := range lines {
				out += ind + l + "\n"
			}
			if step.Post == "" {
				return out + rest(sc2, ind)
			}
			return out + strings.TrimRight(rest(sc2, ind), "\n") + step.Post + "\n"
		}
	}
	switch x := st.(type) {
	case *ast.EmptyStmt:
		return rest(sc, ind)
	case *ast.ReturnStmt:
		if ctx.onSend != nil {
			return ind + t.unsupported("goroutine_idiom_return") + "\n"
		}
		if len(x.Results) != len(t.resTys) {
			return ind + ctx.retRaw(t.unsupported("return_arity")) + "\n"
		}
		vals := make([]string, len(x.Results))
		for i, r := range x.Results {
			if t.resTys[i] == "optbytes" {
				// []byte result that keeps nil apart
				if id, ok := r.(*ast.Ident); ok && id.Name == "nil" {
					vals[i] = "(none : Option Bytes)"
					continue
				}
				v := t.expr(r, sc, "bytes")
				if v.Ty != "bytes" {
					v.Lean = t.unsupported("return_type")
				}
				vals[i] = "(some " + v.Lean + ")"
				continue
			}
			v := t.expr(r, sc, t.resTys[i])
			if v.Ty != t.resTys[i] {
				v.Lean = t.unsupported("return_type")
			}
			vals[i] = v.Lean
		}
		return t.flush(ctx, ind) + t.deferredLines(ctx, ind, vals) + ind + ctx.retRaw(t.pack(vals)) + "\n"
	case *ast.BranchStmt:
		if x.Label == nil && x.Tok == token.BREAK && ctx.brk != nil {
			return ind + ctx.brk() + "\n"
		}
		if x.Label == nil && x.Tok == token.CONTINUE && ctx.cont != nil {
			return ind + ctx.cont() + "\n"
		}
		return bad("branch_" + x.Tok.String())
	case *ast.DeclStmt:
		gd, ok := x.Decl.(*ast.GenDecl)
		if !ok || gd.Tok != token.VAR {
			return bad("declaration")
		}
		var b strings.Builder
		for _, sp := range gd.Specs {
			vs := sp.(*ast.ValueSpec)
			ty := ""
			if vs.Type != nil {
				ty = goTypeOf(vs.Type)
			}
			for i, nm := range vs.Names {
				var v Val
				if i < len(vs.Values) {
					v = t.expr(vs.Values[i], sc, ty)
					if ty != "" && v.Ty != ty {
						v.Lean = t.unsupported("var_type")
					}
				} else {
					zero := map[string]string{"int": "(0 : Int)", "bool": "false", "bytes": "([] : Bytes)",
						"list": "([] : List Bytes)", "error": "(none : Go.Error)"}
					z, ok := zero[ty]
					if !ok {
						z = t.unsupported("zero_value")
					}
					v = Val{z, ty}
				}
				var ln string
				sc, ln = t.declare(nm.Name, v.Ty, sc)
				b.WriteString(t.flush(ctx, ind))
				fmt.Fprintf(&b, "%slet %s : %s := %s\n", ind, ln, leanTy(v.Ty), v.Lean)
			}
		}
		return b.String() + rest(sc, ind)
	case *ast.IncDecStmt:
		ln, ty := t.lhs(x.X, sc)
		if ty != "int" {
			return bad("incdec")
		}
		op := " + "
		if x.Tok == token.DEC {
			op = " - "
		}
		return fmt.Sprintf("%slet %s := %s%s(1 : Int)\n", ind, ln, ln, op) + rest(sc, ind)
	case *ast.ExprStmt:
		if c, ok := x.X.(*ast.CallExpr); ok {
			if ef, ok := t.spec.Effects[t.exprKey(c.Fun)]; ok && len(c.Args) == 1 {
				a := t.expr(c.Args[0], sc, ef.ArgTy)
				if a.Ty != ef.ArgTy {
					a.Lean = t.unsupported("effect_argument")
				}
				return t.flush(ctx, ind) + fmt.Sprintf("%slet %s := %s ++ [%s]\n", ind, ef.State, ef.State, a.Lean) + rest(sc, ind)
			}
		}
		if c, ok := x.X.(*ast.CallExpr); ok && len(c.Args) == 2 {
			if id, ok := c.Fun.(*ast.Ident); ok && id.Name == "copy" {
				if _, _, shadowed := sc.lookup("copy"); !shadowed {
					ln, ty := t.lhs(c.Args[0], sc)
					src := t.expr(c.Args[1], sc, ty)
					if (ty != "bytes" && ty != "list") || src.Ty != ty {
						return bad("copy")
					}
					return t.flush(ctx, ind) + fmt.Sprintf("%slet %s := (Go.copy %s %s)\n", ind, ln, ln, src.Lean) + rest(sc, ind)
				}
			}
		}
		return bad("expression_statement")
	case *ast.AssignStmt:
		return t.assign(x, sc, ctx, ind, rest)
	case *ast.BlockStmt:
		inner := ctx
		inner.fall = func(_ bscope, ind string) string { return rest(sc, ind) }
		return t.seq(x.List, sc.push(), inner, ind)
	case *ast.IfStmt:
		return t.ifStmt(x, sc, ctx, ind, rest)
	case *ast.SwitchStmt:
		if x.Init != nil {
			return bad("switch_init")
		}
		is, ok := t.switchToIf(x, sc)
		if !ok {
			return bad("switch")
		}
		if is == nil {
			return rest(sc, ind)
		}
		return t.ifNode(is, sc, ctx, ind, rest)
	case *ast.RangeStmt:
		return t.rangeStmt(x, sc, ctx, ind, rest)
	case *ast.ForStmt:
		return t.forStmt(x, sc, ctx, ind, rest)
	case *ast.BadStmt:
		if n, ok := t.synth[x]; ok {
			return t.ifNode(n, sc, ctx, ind, rest)
		}
	}
	return bad("statement_" + LeanIdentPlain(fmt.Sprintf("%T", st)))
}

func (t *bodyTr) assign(x *ast.AssignStmt, sc bscope, ctx bctx, ind string, rest func(bscope, string) string) string {
	bad := func(kind string) string {
		return ind + "let _ := " + t.unsupported(kind) + "\n" + rest(sc, ind)
	}
	if x.Tok == token.ASSIGN && len(x.Lhs) == 1 {
		k := t.exprKey(x.Lhs[0])
		for _, ig := range t.spec.IgnoreAssign {
			if ig == k {
				return fmt.Sprintf("%s-- %s = … (declared not modelled)\n", ind, k) + rest(sc, ind)
			}
		}
	}
	// op-assign
	if x.Tok != token.ASSIGN && x.Tok != token.DEFINE {
		ops := map[token.Token]token.Token{token.ADD_ASSIGN: token.ADD, token.SUB_ASSIGN: token.SUB, token.MUL_ASSIGN: token.MUL}
		op, ok := ops[x.Tok]
		if !ok || len(x.Lhs) != 1 || len(x.Rhs) != 1 {
			return bad("assign_operator")
		}
		ln, ty := t.lhs(x.Lhs[0], sc)
		v := t.binary(&ast.BinaryExpr{X: x.Lhs[0], Op: op, Y: x.Rhs[0]}, sc, ty)
		if ty == "" || v.Ty != ty {
			return bad("assign_operator_type")
		}
		return t.flush(ctx, ind) + fmt.Sprintf("%slet %s := %s\n", ind, ln, v.Lean) + rest(sc, ind)
	}
	// loop-invariant definition: substituted at its uses (FnSpec.InlineInvariant)
	if t.spec.InlineInvariant && x.Tok == token.DEFINE && len(x.Lhs) == 1 && len(x.Rhs) == 1 {
		if id, ok := x.Lhs[0].(*ast.Ident); ok && id.Name != "_" && !t.mutated[id.Name] && t.invariantExpr(x.Rhs[0], sc) {
			saved := t.checks
			v := t.expr(x.Rhs[0], sc, "")
			if len(t.checks) == len(saved) && v.Ty != "" && v.Ty != "tuple" {
				sc2, ln := t.declare(id.Name, v.Ty, sc)
				if !strings.HasPrefix(ln, "unsupported_") {
					t.inl[id.Name] = v
					return fmt.Sprintf("%s-- %s := … (defined once from unassigned variables: substituted at its uses)\n", ind, ln) + rest(sc2, ind)
				}
			}
			t.checks = saved
		}
	}
	// targets: returns Lean pattern names and wanted types; declares new names for :=
	targets := func(sc bscope, tys []string) (bscope, []string, bool) {
		names := make([]string, len(x.Lhs))
		ok := true
		for i, l := range x.Lhs {
			id, isId := l.(*ast.Ident)
			if x.Tok == token.DEFINE {
				if !isId {
					names[i] = t.unsupported("define_target")
					ok = false
					continue
				}
				if _, d, exists := sc.lookup(id.Name); exists && d == sc.depth && id.Name != "_" && len(x.Lhs) > 1 {
					// `a, err := …` with err already declared in this scope: plain assignment
					names[i] = leanLocal(id.Name)
					continue
				}
				sc, names[i] = t.declare(id.Name, tys[i], sc)
				continue
			}
			ln, ty := t.lhs(l, sc)
			names[i] = ln
			if ty != "_" && ty != tys[i] {
				names[i] = t.unsupported("assign_type")
				ok = false
			}
		}
		return sc, names, ok
	}
	wantOf := func(i int) string {
		if x.Tok == token.ASSIGN {
			_, ty := t.lhs(x.Lhs[i], sc)
			if ty != "_" {
				return ty
			}
		}
		return ""
	}
	// a, b := f(…)   (effect, or table function with several results / partial)
	if len(x.Rhs) == 1 {
		if c, ok := x.Rhs[0].(*ast.CallExpr); ok {
			key := t.exprKey(c.Fun)
			if ec, ok := t.spec.ECalls[key]; ok {
				if len(ec.Ret) != len(x.Lhs) {
					return bad("ecall_results")
				}
				pre, res, ok := t.ecall(ec, c, sc, ctx, ind)
				if !ok {
					return bad("ecall")
				}
				sc2, names, _ := targets(sc, ec.Ret)
				for i := range names {
					if names[i] != "_" {
						pre += fmt.Sprintf("%slet %s := %s\n", ind, names[i], res[i])
					}
				}
				if ec.Post == "" {
					return pre + rest(sc2, ind)
				}
				return pre + strings.TrimRight(rest(sc2, ind), "\n") + ec.Post + "\n"
			}
			if ef, ok := t.spec.Effects[key]; ok {
				if len(c.Args) != 1 || len(ef.Ret) != len(x.Lhs) {
					return bad("effect_call")
				}
				a := t.expr(c.Args[0], sc, ef.ArgTy)
				if a.Ty != ef.ArgTy {
					a.Lean = t.unsupported("effect_argument")
				}
				tys := make([]string, len(ef.Ret))
				vals := make([]string, len(ef.Ret))
				for i, r := range ef.Ret {
					tys[i] = r.Ty
					vals[i] = strings.ReplaceAll(r.Lean, "%0", a.Lean)
				}
				pre := t.flush(ctx, ind)
				sc2, names, _ := targets(sc, tys)
				out := pre + fmt.Sprintf("%slet %s := %s ++ [%s]\n", ind, ef.State, ef.State, a.Lean)
				for i := range names {
					if names[i] != "_" {
						out += fmt.Sprintf("%slet %s := %s\n", ind, names[i], vals[i])
					}
				}
				return out + rest(sc2, ind)
			}
			if fs := t.libFns(key); len(fs) > 0 && (len(x.Lhs) > 1 || fs[0].Partial) {
				v, ret, ok := t.applyLib(key, c.Args, sc, true)
				if !ok || len(ret) != len(x.Lhs) {
					return bad("call_results")
				}
				pre := t.flush(ctx, ind)
				sc2, names, _ := targets(sc, ret)
				if fs[0].Partial {
					return pre + fmt.Sprintf("%smatch %s with\n%s| none => %s\n%s| some %s => (\n", ind, v.Lean, ind,
						ctx.retRaw(t.panicVal()), ind, tuple(names)) + strings.TrimRight(rest(sc2, ind+"  "), "\n") + ")\n"
				}
				return pre + fmt.Sprintf("%slet %s := %s\n", ind, tuple(names), v.Lean) + rest(sc2, ind)
			}
		}
	}
	// x[i] = e
	if ix, ok := x.Lhs[0].(*ast.IndexExpr); ok && len(x.Lhs) == 1 && len(x.Rhs) == 1 && x.Tok == token.ASSIGN {
		ln, ty := t.lhs(ix.X, sc)
		el := map[string]string{"bytes": "byte", "list": "bytes"}[ty]
		i := t.expr(ix.Index, sc, "int")
		if el == "" || i.Ty != "int" {
			return bad("index_assign")
		}
		t.checks = append(t.checks, t.guarded("Go.idxOK (Go.len "+ln+") "+i.Lean))
		v := t.expr(x.Rhs[0], sc, el)
		if v.Ty != el {
			v.Lean = t.unsupported("index_assign_type")
		}
		return t.flush(ctx, ind) + fmt.Sprintf("%slet %s := (Go.set %s %s %s)\n", ind, ln, ln, i.Lean, v.Lean) + rest(sc, ind)
	}
	if len(x.Lhs) != len(x.Rhs) {
		return bad("assign_arity")
	}
	vals := make([]string, len(x.Rhs))
	tys := make([]string, len(x.Rhs))
	for i, r := range x.Rhs {
		v := t.expr(r, sc, wantOf(i))
		vals[i], tys[i] = v.Lean, v.Ty
		if v.Ty == "" || v.Ty == "tuple" {
			vals[i] = t.unsupported("untyped_value")
		}
	}
	pre := t.flush(ctx, ind)
	sc2, names, _ := targets(sc, tys)
	if len(names) == 1 && names[0] == "_" {
		return pre + rest(sc2, ind)
	}
	return pre + fmt.Sprintf("%slet %s := %s\n", ind, tuple(names), tuple(vals)) + rest(sc2, ind)
}

// ifNode: an if / else-if chain (also what a switch is turned into)
type ifNode struct {
	init ast.Stmt
	cond ast.Expr
	body []ast.Stmt
	els  []ast.Stmt // nil = none
	src  ast.Node
}

func (t *bodyTr) ifStmt(x *ast.IfStmt, sc bscope, ctx bctx, ind string, rest func(bscope, string) string) string {
	n := &ifNode{init: x.Init, cond: x.Cond, body: x.Body.List, src: x}
	switch e := x.Else.(type) {
	case nil:
	case *ast.BlockStmt:
		n.els = e.List
		if n.els == nil {
			n.els = []ast.Stmt{}
		}
	case *ast.IfStmt:
		n.els = []ast.Stmt{e}
	default:
		n.els = []ast.Stmt{&ast.BadStmt{}}
	}
	return t.ifNode(n, sc, ctx, ind, rest)
}

func (t *bodyTr) ifNode(n *ifNode, sc bscope, ctx bctx, ind string, rest func(bscope, string) string) string {
	if be, ok := n.cond.(*ast.BinaryExpr); ok && n.init == nil {
		if _, ok := t.spec.Steps["%v := "+t.exprKey(be.X)]; ok {
			// if CALL == e { … }  ≡  { h := CALL; if h == e { … } }
			t.n++
			h := ast.NewIdent(fmt.Sprintf("hoisted%d", t.n))
			m := *n
			m.cond = &ast.BinaryExpr{X: h, Op: be.Op, Y: be.Y}
			m.init = &ast.AssignStmt{Lhs: []ast.Expr{h}, Tok: token.DEFINE, Rhs: []ast.Expr{be.X}}
			return t.ifNode(&m, sc, ctx, ind, rest)
		}
	}
	if n.init != nil {
		// if v := e; cond { … }  ≡  { v := e; if cond { … } }
		inner := ctx
		inner.fall = func(_ bscope, ind string) string { return rest(sc, ind) }
		m := *n
		m.init = nil
		isc := sc.push()
		return t.seq([]ast.Stmt{n.init}, isc, bctx{retRaw: ctx.retRaw, brk: ctx.brk, cont: ctx.cont, deferred: ctx.deferred,
			fall: func(isc2 bscope, ind string) string { return t.ifNode(&m, isc2, inner, ind, func(_ bscope, ind string) string { return rest(sc, ind) }) }}, ind)
	}
	c := t.expr(n.cond, sc, "bool")
	if c.Ty != "bool" {
		c.Lean = t.unsupported("condition")
	}
	pre := t.flush(ctx, ind)
	if !hasExit(n.src) && !t.hasStep(n.src) && n.init == nil {
		// join: neither branch can leave; thread the assigned variables
		vars := t.assigned([]ast.Node{n.src}, sc)
		jctx := bctx{
			retRaw: func(string) string { return t.unsupported("return_in_join") },
			fall:   func(_ bscope, ind string) string { return ind + tuple(vars) + "\n" },
		}
		var b strings.Builder
		b.WriteString(pre)
		fmt.Fprintf(&b, "%slet %s := ", ind, tuple(vars))
		// an else-if chain stays one flat `if … else if … else …` over the same variables
		cur, cond := n, c.Lean
		for {
			fmt.Fprintf(&b, "if %s then (\n", cond)
			b.WriteString(strings.TrimRight(t.seq(cur.body, sc.push(), jctx, ind+"    "), "\n") + ")\n")
			next := t.elseIf(cur)
			if next == nil {
				break
			}
			cur = next
			cv := t.expr(cur.cond, sc, "bool")
			if cv.Ty != "bool" {
				cv.Lean = t.unsupported("condition")
			}
			cond = cv.Lean
			fmt.Fprintf(&b, "%s  else ", ind)
		}
		fmt.Fprintf(&b, "%s  else (\n", ind)
		b.WriteString(strings.TrimRight(t.seq(cur.els, sc.push(), jctx, ind+"    "), "\n") + ")\n")
		return b.String() + rest(sc, ind)
	}
	// early exit possible: the continuation goes into both branches
	inner := ctx
	inner.fall = func(_ bscope, ind string) string { return rest(sc, ind) }
	var b strings.Builder
	b.WriteString(pre)
	fmt.Fprintf(&b, "%sif %s then (\n", ind, c.Lean)
	b.WriteString(strings.TrimRight(t.seq(n.body, sc.push(), inner, ind+"  "), "\n") + ")\n")
	fmt.Fprintf(&b, "%selse (\n", ind)
	b.WriteString(strings.TrimRight(t.seq(n.els, sc.push(), inner, ind+"  "), "\n") + ")\n")
	return b.String()
}

// elseIf: the node of `else if …` when the else part is exactly that (no init statement)
func (t *bodyTr) elseIf(n *ifNode) *ifNode {
	if len(n.els) != 1 {
		return nil
	}
	switch e := n.els[0].(type) {
	case *ast.BadStmt:
		return t.synth[e]
	case *ast.IfStmt:
		if e.Init != nil {
			return nil
		}
		m := &ifNode{cond: e.Cond, body: e.Body.List, src: e}
		switch el := e.Else.(type) {
		case nil:
		case *ast.BlockStmt:
			m.els = el.List
			if m.els == nil {
				m.els = []ast.Stmt{}
			}
		case *ast.IfStmt:
			m.els = []ast.Stmt{el}
		default:
			m.els = []ast.Stmt{&ast.BadStmt{}}
		}
		return m
	}
	return nil
}

// switchToIf rewrites `switch tag { case a, b: …; default: … }` (no fallthrough, no break) as an
// if-chain over synthetic `tag == a || tag == b` conditions. The tag must be a plain variable,
// field or FnSpec value so that evaluating it once per comparison is the same as once.
func (t *bodyTr) switchToIf(x *ast.SwitchStmt, sc bscope) (*ifNode, bool) {
	if x.Tag != nil {
		switch x.Tag.(type) {
		case *ast.Ident, *ast.SelectorExpr:
		default:
			if _, ok := t.spec.Vals[t.exprKey(x.Tag)]; !ok {
				return nil, false
			}
		}
	}
	bad := false
	ast.Inspect(x.Body, func(m ast.Node) bool {
		switch y := m.(type) {
		case *ast.BranchStmt:
			if y.Tok == token.FALLTHROUGH || y.Tok == token.BREAK || y.Tok == token.GOTO {
				bad = true
			}
		}
		return true
	})
	if bad {
		return nil, false
	}
	var clauses []*ast.CaseClause
	var def *ast.CaseClause
	for _, s := range x.Body.List {
		cc, ok := s.(*ast.CaseClause)
		if !ok {
			return nil, false
		}
		if cc.List == nil {
			def = cc
		} else {
			clauses = append(clauses, cc)
		}
	}
	var tail []ast.Stmt // nil = no else
	if def != nil {
		tail = def.Body
		if tail == nil {
			tail = []ast.Stmt{}
		}
	}
	var node *ifNode
	for i := len(clauses) - 1; i >= 0; i-- {
		cc := clauses[i]
		var cond ast.Expr
		for _, e := range cc.List {
			var c ast.Expr = e
			if x.Tag != nil {
				c = &ast.BinaryExpr{X: x.Tag, Op: token.EQL, Y: e}
			}
			if cond == nil {
				cond = c
			} else {
				cond = &ast.BinaryExpr{X: cond, Op: token.LOR, Y: c}
			}
		}
		body := cc.Body
		if body == nil {
			body = []ast.Stmt{}
		}
		n := &ifNode{cond: cond, body: body, src: x}
		if node != nil {
			// the nested node travels through the statement list as a marked BadStmt
			carrier := &ast.BadStmt{}
			t.synth[carrier] = node
			n.els = []ast.Stmt{carrier}
		} else {
			n.els = tail
		}
		node = n
	}
	if node == nil && def != nil {
		// only a default clause
		return &ifNode{cond: ast.NewIdent("true"), body: tail, src: x}, true
	}
	return node, true
}


// varTy: translator type of a variable given by its Lean name
func (t *bodyTr) varTy(lean string, sc bscope) string {
	for _, s := range t.spec.State {
		if s.Lean == lean {
			return s.Ty
		}
	}
	for e := sc.env; e != nil; e = e.parent {
		if leanLocal(e.name) == lean {
			return e.ty
		}
	}
	return ""
}

// forStmt: `for init; cond; post { body }` and `for cond { body }` → `Go.forLoop step post fuel s`.
// The step (condition test + body) and the post statement become auxiliary top-level definitions
// `<fn>_loop<N>_step` / `_post` over the loop state (the variables the loop assigns); everything
// else in scope is passed as parameters. `fuel` is a parameter of the generated function: running
// out of it yields `none`, so `generated_<fn>_eq` must show that the fuel it assumes suffices.
func (t *bodyTr) forStmt(x *ast.ForStmt, sc bscope, ctx bctx, ind string, rest func(bscope, string) string) string {
	bad := func(kind string) string {
		return ind + "let _ := " + t.unsupported(kind) + "\n" + rest(sc, ind)
	}
	if x.Init != nil {
		// the init variable lives in its own scope around the loop
		as, ok := x.Init.(*ast.AssignStmt)
		if !ok || as.Tok != token.DEFINE {
			return bad("for_init")
		}
		y := *x
		y.Init = nil
		inner := ctx
		inner.fall = func(isc bscope, ind string) string {
			return t.forStmt(&y, isc, ctx, ind, func(_ bscope, ind string) string { return rest(sc, ind) })
		}
		return t.seq([]ast.Stmt{x.Init}, sc.push(), inner, ind)
	}
	t.loopN++
	name := fmt.Sprintf("%s_loop%d", t.spec.Lean, t.loopN)
	nodes := []ast.Node{x.Body}
	if x.Post != nil {
		nodes = append(nodes, x.Post)
	}
	vars := t.assigned(nodes, sc)
	inVars := map[string]bool{}
	var sigma []string
	for _, v := range vars {
		inVars[v] = true
		sigma = append(sigma, leanTy(t.varTy(v, sc)))
	}
	sigmaTy := "Unit"
	if len(sigma) > 0 {
		sigmaTy = strings.Join(sigma, " × ")
	}
	// parameters of the auxiliary definitions: fuel, the FnSpec binders, state and locals not in the loop state
	params := "(fuel : Nat)"
	args := "fuel"
	if t.spec.Binders != "" {
		params += " " + t.spec.Binders
		args += " " + t.spec.BinderArgs
	}
	for _, st := range t.spec.State {
		if !inVars[st.Lean] {
			params += fmt.Sprintf(" (%s : %s)", st.Lean, leanTy(st.Ty))
			args += " " + st.Lean
		}
	}
	var locals []*benv
	seen := map[string]bool{}
	for e := sc.env; e != nil; e = e.parent {
		if _, inlined := t.inl[e.name]; inlined {
			continue // substituted at its uses: there is no Lean binding to pass on
		}
		if !seen[e.name] && !inVars[leanLocal(e.name)] {
			seen[e.name] = true
			locals = append(locals, e)
		}
	}
	for i := len(locals) - 1; i >= 0; i-- {
		params += fmt.Sprintf(" (%s : %s)", leanLocal(locals[i].name), leanTy(locals[i].ty))
		args += " " + leanLocal(locals[i].name)
	}
	lctx := bctx{
		deferred: ctx.deferred,
		retRaw:   func(r string) string { return ".ret " + paren(r) },
		fall:     func(_ bscope, ind string) string { return ind + ".next " + tuple(vars) + "\n" },
		brk:      func() string { return ".brk " + tuple(vars) },
		cont:     func() string { return ".next " + tuple(vars) },
	}
	savedChecks, savedGuards := t.checks, t.guards
	t.checks, t.guards = nil, nil
	var d strings.Builder
	fmt.Fprintf(&d, "/-- condition test and body of loop %d of `%s` -/\n", t.loopN, t.spec.Name)
	fmt.Fprintf(&d, "def %s_step %s : %s → Go.Ctl (%s) (%s) := fun %s =>\n", name, params, parenTy(sigmaTy), sigmaTy, t.fnResTy, tuple(vars))
	if x.Cond != nil {
		c := t.expr(x.Cond, sc, "bool")
		if c.Ty != "bool" {
			c.Lean = t.unsupported("condition")
		}
		d.WriteString(t.flush(lctx, "  "))
		fmt.Fprintf(&d, "  if !%s then .brk %s else\n", c.Lean, tuple(vars))
	}
	body := t.seq(x.Body.List, sc.push().push(), lctx, "  ")
	d.WriteString(body)
	post := "_root_.id"
	var pd strings.Builder
	if x.Post != nil {
		pctx := bctx{
			retRaw: func(string) string { return t.unsupported("return_in_post") },
			fall:   func(_ bscope, ind string) string { return ind + tuple(vars) + "\n" },
		}
		fmt.Fprintf(&pd, "/-- post statement of loop %d of `%s` -/\n", t.loopN, t.spec.Name)
		fmt.Fprintf(&pd, "def %s_post %s : %s → %s := fun %s =>\n", name, params, parenTy(sigmaTy), parenTy(sigmaTy), tuple(vars))
		if hasExit(x.Post) {
			pd.WriteString("  " + t.unsupported("post_statement") + "\n")
		} else {
			pd.WriteString(t.seq([]ast.Stmt{x.Post}, sc.push().push(), pctx, "  "))
		}
		post = "(" + name + "_post " + args + ")"
	}
	t.checks, t.guards = savedChecks, savedGuards
	if pd.Len() > 0 {
		t.aux = append(t.aux, pd.String())
	}
	t.aux = append(t.aux, d.String())
	var b strings.Builder
	fmt.Fprintf(&b, "%smatch Go.forLoop (%s_step %s) %s fuel %s with\n", ind, name, args, post, tuple(vars))
	fmt.Fprintf(&b, "%s| .ret loopRet => %s\n", ind, ctx.retRaw("loopRet"))
	fmt.Fprintf(&b, "%s| .out => %s\n", ind, ctx.retRaw(t.panicVal()))
	if x.Cond == nil && !breaksOut(x.Body) {
		// `for { … }` without `break`: control never falls out of the loop
		fmt.Fprintf(&b, "%s-- the next arm is not reachable: the loop has no condition and no break\n", ind)
		fmt.Fprintf(&b, "%s| .fin _ => %s\n", ind, ctx.retRaw(t.panicVal()))
		return b.String()
	}
	fmt.Fprintf(&b, "%s| .fin %s => (\n", ind, tuple(vars))
	b.WriteString(strings.TrimRight(rest(sc, ind+"  "), "\n") + ")\n")
	return b.String()
}

// breaksOut: does the loop body contain a `break` (or goto / labelled branch) that may leave this loop?
func breaksOut(body *ast.BlockStmt) bool {
	found := false
	var walk func(n ast.Node, inner bool)
	walk = func(n ast.Node, inner bool) {
		ast.Inspect(n, func(m ast.Node) bool {
			if m == nil || found {
				return false
			}
			switch x := m.(type) {
			case *ast.BranchStmt:
				if x.Label != nil || x.Tok == token.GOTO || (x.Tok == token.BREAK && !inner) {
					found = true
				}
			case *ast.ForStmt, *ast.RangeStmt, *ast.SwitchStmt, *ast.TypeSwitchStmt, *ast.SelectStmt:
				if m != n {
					walk(m, true)
					return false
				}
			case *ast.FuncLit:
				return false
			}
			return true
		})
	}
	walk(body, false)
	return found
}

func parenTy(s string) string {
	if strings.Contains(s, " ") {
		return "(" + s + ")"
	}
	return s
}

func (t *bodyTr) rangeStmt(x *ast.RangeStmt, sc bscope, ctx bctx, ind string, rest func(bscope, string) string) string {
	bad := func(kind string) string {
		return ind + "let _ := " + t.unsupported(kind) + "\n" + rest(sc, ind)
	}
	if x.Tok != token.DEFINE && (x.Key != nil || x.Value != nil) {
		return bad("range_assign")
	}
	xs := t.expr(x.X, sc, "")
	el := map[string]string{"bytes": "byte", "list": "bytes", "list2": "list"}[xs.Ty]
	if strings.HasPrefix(xs.Ty, "olist:") {
		el = "opaque:" + strings.TrimPrefix(xs.Ty, "olist:")
	}
	if el == "" {
		return bad("range_operand")
	}
	pre := t.flush(ctx, ind)
	bsc := sc.push()
	name := func(e ast.Expr, ty string) string {
		if e == nil {
			return "_"
		}
		id, ok := e.(*ast.Ident)
		if !ok {
			return t.unsupported("range_variable")
		}
		var ln string
		bsc, ln = t.declare(id.Name, ty, bsc)
		return ln
	}
	k := name(x.Key, "int")
	v := name(x.Value, el)
	nodes := []ast.Node{}
	for _, s := range x.Body.List {
		nodes = append(nodes, s)
	}
	vars := t.assigned(nodes, sc)
	lctx := bctx{
		deferred: ctx.deferred,
		retRaw: func(r string) string { return ".ret " + paren(r) },
		fall:   func(_ bscope, ind string) string { return ind + ".next " + tuple(vars) + "\n" },
		brk:    func() string { return ".brk " + tuple(vars) },
		cont:   func() string { return ".next " + tuple(vars) },
	}
	var b strings.Builder
	b.WriteString(pre)
	fmt.Fprintf(&b, "%smatch Go.forRange (ρ := %s) %s %s (fun %s %s %s => (\n", ind, t.fnResTy, xs.Lean, tuple(vars), k, v, tuple(vars))
	b.WriteString(strings.TrimRight(t.seq(x.Body.List, bsc.push(), lctx, ind+"    "), "\n") + ")) with\n")
	fmt.Fprintf(&b, "%s| .ret loopRet => %s\n", ind, ctx.retRaw("loopRet"))
	fmt.Fprintf(&b, "%s| .fin %s => (\n", ind, tuple(vars))
	b.WriteString(strings.TrimRight(rest(sc, ind+"  "), "\n") + ")\n")
	return b.String()
}

func paren(s string) string {
	if strings.HasPrefix(s, "(") || !strings.ContainsAny(s, " ") {
		return s
	}
	return "(" + s + ")"
}

// ---------------------------------------------------------------------------------------------
// functions and files

func findFunc(dir, recv, name string) (*ast.FuncDecl, *ast.File) {
	files := ParseDir(filepath.Join(Repo, dir))
	for _, fn := range SortedNames(files) {
		for _, d := range files[fn].Decls {
			f, ok := d.(*ast.FuncDecl)
			if !ok || f.Name.Name != name || f.Body == nil {
				continue
			}
			r := ""
			if f.Recv != nil && len(f.Recv.List) == 1 {
				ty := f.Recv.List[0].Type
				if s, ok := ty.(*ast.StarExpr); ok {
					ty = s.X
				}
				if id, ok := ty.(*ast.Ident); ok {
					r = id.Name
				}
			}
			if r == recv {
				return f, files[fn]
			}
		}
	}
	return nil, nil
}

var identRe = func(s string) []string {
	var out []string
	cur := ""
	for _, r := range s + " " {
		if r == '_' || (r >= '0' && r <= '9') || (r >= 'a' && r <= 'z') || (r >= 'A' && r <= 'Z') {
			cur += string(r)
		} else {
			if cur != "" {
				out = append(out, cur)
			}
			cur = ""
		}
	}
	return out
}

// GenBody renders one function.
func GenBody(spec *FnSpec) string {
	var b strings.Builder
	fd, file := findFunc(spec.Dir, spec.Recv, spec.Name)
	where := spec.Dir + ": " + spec.Name
	if spec.Recv != "" {
		where = spec.Dir + ": (*" + spec.Recv + ")." + spec.Name
	}
	doc := func(extra string) string {
		return fmt.Sprintf("/-- `%s` as the source reads now. %s%s -/\n", where, spec.Doc, extra)
	}
	b.WriteString("@@DOC@@")
	if fd == nil {
		fmt.Fprintf(&b, "def %s : Unit := unsupported_function_not_found\n", spec.Lean)
		return strings.Replace(b.String(), "@@DOC@@", doc(""), 1)
	}
	t := &bodyTr{spec: spec, imports: map[string]string{}, reserved: map[string]bool{}, synth: map[*ast.BadStmt]*ifNode{}}
	for _, im := range file.Imports {
		p, _ := strconv.Unquote(im.Path.Value)
		alias := p[strings.LastIndex(p, "/")+1:]
		if im.Name != nil {
			alias = im.Name.Name
		}
		const mod = "github.com/scrapli/scrapligo/"
		if strings.HasPrefix(p, mod) {
			t.imports[alias] = strings.TrimPrefix(p, mod)
		} else {
			t.imports[alias] = ""
		}
	}
	if fd.Recv != nil && len(fd.Recv.List[0].Names) == 1 {
		t.recvName = fd.Recv.List[0].Names[0].Name
	}
	// names the rendering itself uses: a Go local of that name would capture them
	for _, w := range strings.Fields("none some decide not Go Gen Chan Cb Netconf List Int Nat Bool UInt8 Bytes Option " +
		"isInfix hasPrefix trimPrefix trimSuffix trimSpace splitLF joinLF loopRet") {
		t.reserved[w] = true
	}
	for _, s := range spec.State {
		t.reserved[s.Lean] = true
	}
	for _, w := range identRe(spec.Binders) {
		t.reserved[w] = true
	}
	for _, v := range spec.Vals {
		for _, w := range identRe(v.Lean) {
			t.reserved[w] = true
		}
	}
	t.parentBody = fd.Body.List
	// which names are assigned other than by a single definition?
	t.inl, t.mutated = map[string]Val{}, map[string]bool{}
	defined := map[string]int{}
	var root func(e ast.Expr) string
	root = func(e ast.Expr) string {
		switch x := e.(type) {
		case *ast.Ident:
			return x.Name
		case *ast.IndexExpr:
			return root(x.X)
		case *ast.ParenExpr:
			return root(x.X)
		}
		return ""
	}
	ast.Inspect(fd.Body, func(m ast.Node) bool {
		switch x := m.(type) {
		case *ast.AssignStmt:
			for _, l := range x.Lhs {
				if n := root(l); n != "" {
					if x.Tok == token.DEFINE {
						defined[n]++
						if len(x.Lhs) > 1 {
							t.mutated[n] = true // `a, err := …` may re-assign
						}
					} else {
						t.mutated[n] = true
					}
				}
			}
		case *ast.IncDecStmt:
			t.mutated[root(x.X)] = true
		case *ast.RangeStmt:
			for _, e := range []ast.Expr{x.Key, x.Value} {
				if e != nil {
					t.mutated[root(e)] = true
				}
			}
		case *ast.GenDecl:
			for _, sp := range x.Specs {
				if vs, ok := sp.(*ast.ValueSpec); ok {
					for _, n := range vs.Names {
						defined[n.Name]++
					}
				}
			}
		case *ast.CallExpr:
			if id, ok := x.Fun.(*ast.Ident); ok && id.Name == "copy" && len(x.Args) == 2 {
				t.mutated[root(x.Args[0])] = true
			}
		}
		return true
	})
	for n, k := range defined {
		if k > 1 {
			t.mutated[n] = true
		}
	}
	// may it panic?
	ast.Inspect(fd.Body, func(m ast.Node) bool {
		switch x := m.(type) {
		case *ast.ForStmt:
			t.mayPanic = true
			t.hasFuel = true
		case *ast.IndexExpr, *ast.SliceExpr:
			t.mayPanic = true
		case *ast.CallExpr:
			if f, ok := spec.Funcs[t.exprKey(x.Fun)]; ok && f.Partial {
				t.mayPanic = true
			}
			if id, ok := x.Fun.(*ast.Ident); ok && id.Name == "make" && len(x.Args) == 2 {
				if n, ok := EvalConst(x.Args[1], nil); !ok || n.N != 0 {
					t.mayPanic = true
				}
			}
		}
		return true
	})
	for _, c := range spec.Captures {
		delete(t.reserved, c)
	}
	if spec.Partial {
		t.mayPanic = true
	}
	sc := bscope{depth: 1} // parameters and named results live in the scope of the function body
	var binders []string
	if t.hasFuel {
		binders = append(binders, "(fuel : Nat)")
		t.reserved["fuel"] = true
	}
	if spec.Binders != "" {
		binders = append(binders, spec.Binders)
	}
	for _, s := range spec.State {
		binders = append(binders, fmt.Sprintf("(%s : %s)", s.Lean, leanTy(s.Ty)))
	}
	sigBad := ""
	skip := map[string]bool{}
	for _, n := range spec.SkipParams {
		skip[n] = true
	}
	for _, f := range fd.Type.Params.List {
		ty := goTypeOf(f.Type)
		allSkipped := len(f.Names) > 0
		for _, nm := range f.Names {
			allSkipped = allSkipped && skip[nm.Name]
		}
		if allSkipped {
			continue
		}
		if _, variadic := f.Type.(*ast.Ellipsis); variadic || ty == "" {
			sigBad = t.unsupported("parameter_type")
			continue
		}
		for _, nm := range f.Names {
			var ln string
			sc, ln = t.declare(nm.Name, ty, sc)
			binders = append(binders, fmt.Sprintf("(%s : %s)", ln, leanTy(ty)))
		}
	}
	var resLean []string
	named := ""
	if fd.Type.Results != nil {
		ri := 0
		for _, f := range fd.Type.Results.List {
			ty := goTypeOf(f.Type)
			if ri < len(spec.Results) && spec.Results[ri] != "" {
				ty = spec.Results[ri]
			}
			ri += len(f.Names)
			if len(f.Names) == 0 {
				ri++
			}
			if ty == "" {
				sigBad = t.unsupported("result_type")
			}
			k := len(f.Names)
			if k == 0 {
				k = 1
			}
			if ty == "bytes" && spec.NilResult {
				ty = "optbytes"
			}
			for i := 0; i < k; i++ {
				t.resTys = append(t.resTys, ty)
				resLean = append(resLean, leanTy(ty))
			}
			// named results start as zero values
			for _, nm := range f.Names {
				zero := map[string]string{"int": "(0 : Int)", "bool": "false", "bytes": "([] : Bytes)",
					"list": "([] : List Bytes)", "error": "(none : Go.Error)"}[ty]
				if zero == "" || nm.Name == "_" {
					continue
				}
				var ln string
				sc, ln = t.declare(nm.Name, ty, sc)
				named += fmt.Sprintf("  let %s : %s := %s\n", ln, leanTy(ty), zero)
			}
		}
	}
	for _, s := range spec.State {
		resLean = append(resLean, leanTy(s.Ty))
	}
	t.fnResTy = "Unit"
	if len(resLean) > 0 {
		t.fnResTy = strings.Join(resLean, " × ")
	}
	if spec.Fail != nil {
		t.fnResTy = "Except " + spec.Fail.Ty + " (" + t.fnResTy + ")"
	} else if t.mayPanic {
		t.fnResTy = "Option (" + t.fnResTy + ")"
	}
	fmt.Fprintf(&b, "def %s %s : %s :=\n", spec.Lean, strings.Join(binders, " "), t.fnResTy)
	if sigBad != "" {
		fmt.Fprintf(&b, "  let _ := %s\n", sigBad)
	}
	ctx := bctx{
		retRaw: func(r string) string { return r },
		fall: func(_ bscope, ind string) string {
			if len(t.resTys) == 0 {
				return ind + t.pack(nil) + "\n"
			}
			return ind + t.unsupported("missing_return") + "\n"
		},
	}
	b.WriteString(named)
	b.WriteString(t.seq(fd.Body.List, sc, ctx, "  "))
	// auxiliary loop definitions come first (innermost first)
	extra := ""
	if t.hasFuel {
		extra = " `fuel` bounds the iterations of every `for` loop (`none` when it runs out)."
	}
	return strings.Join(t.aux, "\n") + map[bool]string{true: "\n", false: ""}[len(t.aux) > 0] +
		strings.Replace(b.String(), "@@DOC@@", doc(extra), 1)
}

// GenBodies renders one generated file.
func GenBodies(f *BodyFile) string {
	var b strings.Builder
	fmt.Fprintf(&b, "-- GENERATED by go/cmd/extract (%s, go/facts/gobody.go) from /repo's working tree; do not edit.\n", f.GeneratedBy)
	imps := append([]string{"ScrapliModel.GoSem", "ScrapliModel.Generated.Consts"}, f.Imports...)
	sort.Strings(imps)
	for i, im := range imps {
		if i > 0 && imps[i-1] == im {
			continue
		}
		fmt.Fprintf(&b, "import %s\n", im)
	}
	fmt.Fprintf(&b, "set_option linter.unusedVariables false\nnamespace %s\nopen Scrapli\n", f.Namespace)
	for _, fn := range f.Fns {
		b.WriteString("\n" + GenBody(fn))
	}
	fmt.Fprintf(&b, "\nend %s\n", f.Namespace)
	return b.String()
}
