package main

import (
	"fmt"
	"verifgo/facts"
)

func main() {
	facts.Repo = "/tmp/w/C17/repo"
	for _, f := range facts.EmbeddedPlatformFiles() {
		pd, err := facts.LoadPlatformFile(f)
		if err != nil {
			fmt.Println(f, err)
			continue
		}
		show := func(n string, s *facts.PlatSections) {
			for _, k := range facts.SortedLevelKeys(s.PrivilegeLevels) {
				l := s.PrivilegeLevels[k]
				fmt.Printf("%-22s %-12s %-26s %-22q auth=%q\n", f, n, k, l.Witness, l.AuthWitness)
			}
		}
		show("", pd.Default)
		for n, v := range pd.Variants {
			show(n, v)
		}
	}
	fmt.Println(facts.TagMismatches())
}
