// Command c03race is the C03 race child: the harness builds it with -race (the detector cannot be
// switched on inside the already built harness) and runs it once per check. It establishes
// periodic subscriptions on the real netconf.Driver against the NETCONF server simulator; the
// server's reply carries a lower-case <subscription-id>, so the read loop stores the reply with
// storeSubscriptionMessage while EstablishPeriodicSubscription registers the subscription -- the
// two writers of Driver.subscriptions that once raced ("fatal error: concurrent map writes").
// A data race makes the runtime print "WARNING: DATA RACE" on stderr and exit with status 66.
// The child also judges what GetSubscriptionMessages returns (C08's observable, checked here
// because it is cheap): the establishing reply, once, then nothing.
package main

import (
	"bytes"
	"encoding/json"
	"flag"
	"fmt"
	"os"
	"time"

	"github.com/scrapli/scrapligo/driver/netconf"
	"github.com/scrapli/scrapligo/driver/options"

	"verifgo/sim"
)

type report struct {
	Calls     int    `json:"calls"`
	Violation string `json:"violation"`
	Detail    string `json:"detail"`
}

func run(calls int) (rep report) {
	const ns = "urn:ietf:params:xml:ns:yang:ietf-event-notifications"
	for rep.Calls < calls {
		v11 := (rep.Calls/8)%2 == 1
		s := sim.NewNCServer(true, v11)
		s.Behave = func(i int, req sim.NCRequest) sim.NCReply {
			return sim.NCReply{Payload: []byte(fmt.Sprintf(`<rpc-reply xmlns="urn:ietf:params:xml:ns:netconf:base:1.0" message-id="%d"><subscription-result xmlns="%s">notif-bis:ok</subscription-result><subscription-id xmlns="%s">%d</subscription-id></rpc-reply>`, req.MessageID, ns, ns, 1000+i))}
		}
		s.Start()
		d, err := netconf.NewDriver("h", options.WithCustomTransport(s), options.WithAuthBypass(),
			options.WithTimeoutOps(10*time.Second), options.WithReadDelay(10*time.Microsecond))
		if err != nil {
			return report{rep.Calls, "setup", err.Error()}
		}
		if err = d.Open(); err != nil {
			return report{rep.Calls, "setup", err.Error()}
		}
		for k := 0; k < 8 && rep.Calls < calls; k++ {
			r, err := d.EstablishPeriodicSubscription(fmt.Sprintf("/a[%d]", k), 10+k)
			rep.Calls++
			if err != nil {
				return report{rep.Calls, "subscribe-failed", err.Error()}
			}
			if r.SubscriptionID != 1000+k {
				return report{rep.Calls, "subscription-id", fmt.Sprintf("got %d want %d", r.SubscriptionID, 1000+k)}
			}
			// the read loop stores the establishing reply under the subscription id (it may still be
			// about to): wait for it, then the store must be empty again
			want := []byte(fmt.Sprintf(`<subscription-id xmlns="%s">%d</subscription-id>`, ns, 1000+k))
			var got [][]byte
			for dl := time.Now().Add(5 * time.Second); len(got) == 0 && time.Now().Before(dl); {
				got = d.GetSubscriptionMessages(1000 + k)
				if len(got) == 0 {
					time.Sleep(50 * time.Microsecond)
				}
			}
			if len(got) != 1 || !bytes.Contains(got[0], want) {
				return report{rep.Calls, "subscription-messages", fmt.Sprintf("subscription %d: GetSubscriptionMessages returned %d message(s) %.200q, want the establishing reply once", 1000+k, len(got), got)}
			}
			if again := d.GetSubscriptionMessages(1000 + k); len(again) != 0 {
				return report{rep.Calls, "subscription-messages", fmt.Sprintf("subscription %d: messages delivered twice: %.200q", 1000+k, again)}
			}
		}
		_ = d.Close()
	}
	return rep
}

func main() {
	calls := flag.Int("calls", 200, "EstablishPeriodicSubscription calls")
	flag.Parse()
	rep := run(*calls)
	b, _ := json.Marshal(rep)
	fmt.Println(string(b))
	if rep.Violation != "" {
		os.Exit(1)
	}
}
