// Command c07race is the race-detector stress of property C07: it is built with `go build -race`
// by the C07 harness and opens / uses / closes generic and NETCONF drivers over the simulators
// with random delays (and random perturbation at the `verif` yield points when the tree has
// them), so that the race detector sees the shutdown paths under many interleavings.
// usage: c07race <seed> <iterations>
package main

import (
	"fmt"
	"os"
	"runtime"
	"strconv"
	"sync"
	"sync/atomic"
	"time"

	"github.com/scrapli/scrapligo/driver/generic"
	"github.com/scrapli/scrapligo/driver/netconf"
	"github.com/scrapli/scrapligo/driver/opoptions"
	"github.com/scrapli/scrapligo/driver/options"
	"github.com/scrapli/scrapligo/transport"

	"verifgo/sim"
)

var ctr atomic.Uint64
var hangs atomic.Int64

func rnd() uint64 {
	z := ctr.Add(0x9E3779B97F4A7C15)
	z = (z ^ (z >> 30)) * 0xBF58476D1CE4E5B9
	z = (z ^ (z >> 27)) * 0x94D049BB133111EB
	return z ^ (z >> 31)
}

func jitter(max int) {
	switch rnd() % 4 {
	case 0:
		runtime.Gosched()
	case 1:
		time.Sleep(time.Duration(rnd()%uint64(max)) * time.Microsecond)
	}
}

func timed(name string, f func()) bool {
	done := make(chan struct{})
	go func() { f(); close(done) }()
	select {
	case <-done:
		return true
	case <-time.After(1500 * time.Millisecond):
		fmt.Println("HANG", name)
		if hangs.Add(1) >= 3 {
			fmt.Println("STRESS-ABORTED too many hangs")
			os.Exit(6)
		}
		return false
	}
}

func one(nc bool, mode int, fault string, withOp, twice, concurrentClose bool) {
	var pipe *sim.Pipe
	var closeFn func() error
	var opFn func()
	if nc {
		s := sim.NewNCServer(true, false)
		s.Behave = func(i int, req sim.NCRequest) sim.NCReply {
			if rnd()%2 == 0 {
				return sim.NCReply{Never: true}
			}
			return sim.NCReply{Payload: []byte(fmt.Sprintf(`<rpc-reply message-id="%d"><ok/></rpc-reply>`, req.MessageID))}
		}
		s.CloseUnblocks = mode
		s.Start()
		var impl transport.Implementation = s
		if rnd()%3 == 0 {
			impl = sim.WithCloseErr(s, nil)
		}
		d, err := netconf.NewDriver("h", options.WithCustomTransport(impl), options.WithAuthBypass(),
			options.WithTimeoutOps(5*time.Second), options.WithReadDelay(50*time.Microsecond))
		if err != nil || d.Open() != nil {
			fmt.Println("SETUP-ERROR")
			return
		}
		pipe, closeFn = s.Pipe, d.Close
		opFn = func() { _, _ = d.GetConfig("running", opoptions.WithTimeoutOps(40*time.Millisecond)) }
	} else {
		dev := sim.NewCLI()
		dev.Prompt = func(c *sim.CLI) string { return "router#" }
		dev.Handle = func(c *sim.CLI, line string) string { return "out of " + line + "\n" }
		dev.CloseUnblocks = mode
		dev.Start()
		var impl transport.Implementation = dev
		if rnd()%3 == 0 {
			impl = sim.WithCloseErr(dev, nil)
		}
		d, err := generic.NewDriver("h", options.WithCustomTransport(impl), options.WithAuthBypass(),
			options.WithTimeoutOps(5*time.Second), options.WithReadDelay(50*time.Microsecond))
		if err != nil || d.Open() != nil {
			fmt.Println("SETUP-ERROR")
			return
		}
		pipe, closeFn = dev.Pipe, d.Close
		opFn = func() { _, _ = d.SendCommand("show version", opoptions.WithTimeoutOps(40*time.Millisecond)) }
	}
	var wg sync.WaitGroup
	if withOp {
		wg.Add(1)
		go func() { defer wg.Done(); jitter(200); opFn() }()
	}
	wg.Add(1)
	go func() {
		defer wg.Done()
		jitter(300)
		switch fault {
		case "eof":
			pipe.SetFaults(func(p *sim.Pipe) { p.EOFAt = p.Delivered })
		case "err":
			pipe.SetFaults(func(p *sim.Pipe) { p.ErrAt = p.Delivered })
		case "data":
			pipe.EmitLocked([]byte("x"))
		}
	}()
	jitter(400)
	if fault == "late" {
		wg.Wait()
	}
	if concurrentClose {
		wg.Add(1)
		go func() { defer wg.Done(); timed("close-concurrent", func() { _ = closeFn() }) }()
	}
	ok := timed("close", func() { _ = closeFn() })
	if ok && twice {
		timed("close-second", func() { _ = closeFn() })
	}
	done := make(chan struct{})
	go func() { wg.Wait(); close(done) }()
	select {
	case <-done:
	case <-time.After(2 * time.Second):
		fmt.Println("HANG operation")
		if hangs.Add(1) >= 3 {
			fmt.Println("STRESS-ABORTED too many hangs")
			os.Exit(6)
		}
	}
}

func main() {
	seed, _ := strconv.ParseUint(os.Args[1], 10, 64)
	iters, _ := strconv.Atoi(os.Args[2])
	ctr.Store(seed * 7919)
	installHook(func(string) { jitter(60) })
	go func() {
		time.Sleep(200 * time.Second)
		fmt.Println("STRESS-WATCHDOG")
		os.Exit(5)
	}()
	// phase 1: paths that neither panic nor hang on any tree (so that a race on them is seen even
	// when a later scenario kills the process): peer closes the stream during an operation
	for i := 0; i < iters/3+1; i++ {
		one(false, int(rnd()%3), "eof", true, false, false)
	}
	fmt.Println("PHASE1-DONE")
	faults := []string{"none", "eof", "err", "data", "late"}
	for i := 0; i < iters; i++ {
		one(rnd()%2 == 0, int(rnd()%3), faults[rnd()%5], rnd()%2 == 0, rnd()%3 == 0, rnd()%4 == 0)
	}
	fmt.Println("STRESS-DONE")
}
