//go:build verif

package main

import "github.com/scrapli/scrapligo/util"

func installHook(f func(string)) { util.VerifYield = f }
