//go:build !internaltie

package main

func installHook(f func(string)) {}
