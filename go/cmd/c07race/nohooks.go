//go:build !verif

package main

func installHook(f func(string)) {}
