package main

// Translator part for C14: renders the body of (*System).buildOpenArgs (transport/system.go) as a
// Lean function in state-passing style, so that Props/C14 can prove it equal to the hand-written
// model for all inputs. The statement language accepted is the one the function uses:
//
//	t.OpenArgs = []string{e, …}            o := [e, …]
//	t.OpenArgs = append(t.OpenArgs, e, …)  o := o ++ [e, …]
//	t.OpenArgs = append(t.OpenArgs, x...)  o := o ++ x
//	if cond { … } [else { … }]             o := if cond then … else …
//
// with expressions: string literals, fields of a / t.SSHArgs / t, fmt.Sprintf with %d / %s verbs,
// int(a.TimeoutSocket.Seconds()); conditions: x != "", x == "", boolean fields, !c, len(x) > 0,
// len(x) == 0. Anything else is rendered as a typed placeholder `SshCfg.unsupported…`, which makes
// the generated file (and with it the C14 obligations) fail to check — deliberately.

import (
	"fmt"
	"go/ast"
	"go/token"
	"path/filepath"
	"strconv"
	"strings"
)

func init() { extraGenerators["SshArgv.lean"] = genSshArgv }

type c14tr struct {
	n int
}

// unsupported renders a construct outside the statement language as a typed placeholder
// (SshCfg.unsupported{S,L,I,B}): the generated file keeps compiling — other properties' drivers
// link against it — while generated_buildOpenArgs_eq can no longer be proved.
func (t *c14tr) unsupported(what string, n ast.Node) string {
	t.n++
	tag := fmt.Sprintf("%q", fmt.Sprintf("%s_%d", what, t.n))
	switch what {
	case "int":
		return "(SshCfg.unsupportedI " + tag + ")"
	case "string", "format", "verb", "format_args", "field":
		return "(SshCfg.unsupportedS " + tag + ")"
	case "condition":
		return "(SshCfg.unsupportedB " + tag + " = true)"
	}
	return "(SshCfg.unsupportedL " + tag + ")"
}

var c14ArgsFields = map[string]string{"Host": "a.host", "Port": "a.port", "User": "a.user", "Password": "a.password"}
var c14SSHFields = map[string]string{"StrictKey": "s.strictKey", "PrivateKeyPath": "s.privateKeyPath",
	"PrivateKeyPassPhrase": "s.privateKeyPassPhrase", "ConfigFile": "s.configFile", "KnownHostsFile": "s.knownHostsFile",
	"NetconfConnection": "s.netconf"}

// selector path like ["t","SSHArgs","StrictKey"]
func selPath(e ast.Expr) []string {
	switch x := e.(type) {
	case *ast.Ident:
		return []string{x.Name}
	case *ast.SelectorExpr:
		p := selPath(x.X)
		if p == nil {
			return nil
		}
		return append(p, x.Sel.Name)
	case *ast.ParenExpr:
		return selPath(x.X)
	}
	return nil
}

// field renders a selector as a model field; kind is "str", "bool", "int", "list".
func (t *c14tr) field(e ast.Expr) (string, string) {
	p := selPath(e)
	switch {
	case len(p) == 2 && p[0] == "a":
		if f, ok := c14ArgsFields[p[1]]; ok {
			if p[1] == "Port" {
				return f, "int"
			}
			return f, "str"
		}
	case len(p) == 3 && p[0] == "t" && p[1] == "SSHArgs":
		if f, ok := c14SSHFields[p[2]]; ok {
			if p[2] == "StrictKey" || p[2] == "NetconfConnection" {
				return f, "bool"
			}
			return f, "str"
		}
	case len(p) == 2 && p[0] == "t" && p[1] == "ExtraArgs":
		return "extra", "list"
	case len(p) == 2 && p[0] == "t" && p[1] == "OpenArgs":
		return "o", "list"
	}
	return t.unsupported("field", e), "?"
}

func isCall(e ast.Expr, pkg, name string) (*ast.CallExpr, bool) {
	c, ok := e.(*ast.CallExpr)
	if !ok {
		return nil, false
	}
	if pkg == "" {
		id, ok := c.Fun.(*ast.Ident)
		return c, ok && id.Name == name
	}
	p := selPath(c.Fun)
	return c, len(p) == 2 && p[0] == pkg && p[1] == name
}

// intExpr renders an integer-valued expression (argument of %d).
func (t *c14tr) intExpr(e ast.Expr) string {
	if c, ok := isCall(e, "", "int"); ok && len(c.Args) == 1 {
		// int(a.TimeoutSocket.Seconds())
		if inner, ok := c.Args[0].(*ast.CallExpr); ok && len(inner.Args) == 0 {
			p := selPath(inner.Fun)
			if len(p) == 3 && p[0] == "a" && p[1] == "TimeoutSocket" && p[2] == "Seconds" {
				return "(SshCfg.timeoutSeconds a.timeoutNs)"
			}
		}
		return t.unsupported("int", e)
	}
	f, kind := t.field(e)
	if kind != "int" {
		return t.unsupported("int", e)
	}
	return f
}

// strExpr renders a string-valued expression as Bytes.
func (t *c14tr) strExpr(e ast.Expr) string {
	switch x := e.(type) {
	case *ast.BasicLit:
		if x.Kind == token.STRING {
			if s, err := strconv.Unquote(x.Value); err == nil {
				return "(" + leanBytes(s) + " : Bytes)"
			}
		}
	case *ast.CallExpr:
		if c, ok := isCall(e, "fmt", "Sprintf"); ok && len(c.Args) >= 1 {
			lit, ok := c.Args[0].(*ast.BasicLit)
			if !ok || lit.Kind != token.STRING {
				return t.unsupported("format", e)
			}
			format, _ := strconv.Unquote(lit.Value)
			var parts []string
			arg := 1
			for len(format) > 0 {
				i := strings.IndexByte(format, '%')
				if i < 0 {
					parts = append(parts, "("+leanBytes(format)+" : Bytes)")
					break
				}
				if i > 0 {
					parts = append(parts, "("+leanBytes(format[:i])+" : Bytes)")
				}
				if i+1 >= len(format) || arg >= len(c.Args) {
					return t.unsupported("format", e)
				}
				switch format[i+1] {
				case 'd':
					parts = append(parts, "SshCfg.fmtInt "+t.intExpr(c.Args[arg]))
				case 's':
					parts = append(parts, t.strExpr(c.Args[arg]))
				default:
					return t.unsupported("verb", e)
				}
				arg++
				format = format[i+2:]
			}
			if arg != len(c.Args) {
				return t.unsupported("format_args", e)
			}
			if len(parts) == 0 {
				return "([] : Bytes)"
			}
			return "(" + strings.Join(parts, " ++ ") + ")"
		}
	case *ast.SelectorExpr:
		f, kind := t.field(e)
		if kind == "str" {
			return f
		}
	}
	return t.unsupported("string", e)
}

func (t *c14tr) cond(e ast.Expr) string {
	switch x := e.(type) {
	case *ast.ParenExpr:
		return t.cond(x.X)
	case *ast.UnaryExpr:
		if x.Op == token.NOT {
			return "¬ (" + t.cond(x.X) + ")"
		}
	case *ast.SelectorExpr:
		f, kind := t.field(e)
		if kind == "bool" {
			return f + " = true"
		}
	case *ast.BinaryExpr:
		// len(x) > 0, len(x) == 0
		if c, ok := isCall(x.X, "", "len"); ok && len(c.Args) == 1 {
			if lit, ok := x.Y.(*ast.BasicLit); ok && lit.Kind == token.INT {
				f, kind := t.field(c.Args[0])
				if kind == "list" || kind == "str" {
					switch x.Op {
					case token.GTR:
						return f + ".length > " + lit.Value
					case token.EQL:
						return f + ".length = " + lit.Value
					case token.NEQ:
						return f + ".length ≠ " + lit.Value
					}
				}
			}
		}
		// x != "" / x == ""
		if lit, ok := x.Y.(*ast.BasicLit); ok && lit.Kind == token.STRING {
			s, _ := strconv.Unquote(lit.Value)
			l := t.strExpr(x.X)
			switch x.Op {
			case token.NEQ:
				return l + " ≠ " + leanBytes(s)
			case token.EQL:
				return l + " = " + leanBytes(s)
			}
		}
	}
	return t.unsupported("condition", e)
}

// assign renders the right-hand side of `t.OpenArgs = …`.
func (t *c14tr) rhs(e ast.Expr) string {
	switch x := e.(type) {
	case *ast.CompositeLit:
		// []string{…}
		if at, ok := x.Type.(*ast.ArrayType); ok && at.Len == nil {
			if id, ok := at.Elt.(*ast.Ident); ok && id.Name == "string" {
				els := make([]string, len(x.Elts))
				for i, el := range x.Elts {
					els[i] = t.strExpr(el)
				}
				return "([" + strings.Join(els, ", ") + "] : List Bytes)"
			}
		}
	case *ast.CallExpr:
		if c, ok := isCall(e, "", "append"); ok && len(c.Args) >= 1 {
			base, kind := t.field(c.Args[0])
			if kind != "list" {
				return t.unsupported("append_base", e)
			}
			if c.Ellipsis.IsValid() {
				if len(c.Args) != 2 {
					return t.unsupported("append", e)
				}
				l, kind := t.field(c.Args[1])
				if kind != "list" {
					return t.unsupported("append_spread", e)
				}
				return base + " ++ " + l
			}
			els := make([]string, len(c.Args)-1)
			for i, el := range c.Args[1:] {
				els[i] = t.strExpr(el)
			}
			return base + " ++ [" + strings.Join(els, ", ") + "]"
		}
	}
	return t.unsupported("rhs", e)
}

func (t *c14tr) block(stmts []ast.Stmt, ind string) string {
	var b strings.Builder
	for _, st := range stmts {
		switch x := st.(type) {
		case *ast.AssignStmt:
			ok := len(x.Lhs) == 1 && len(x.Rhs) == 1 && x.Tok == token.ASSIGN
			if ok {
				f, _ := t.field(x.Lhs[0])
				ok = f == "o"
			}
			if !ok {
				fmt.Fprintf(&b, "%slet o := %s\n", ind, t.unsupported("assignment", st))
				continue
			}
			fmt.Fprintf(&b, "%slet o := %s\n", ind, t.rhs(x.Rhs[0]))
		case *ast.IfStmt:
			if x.Init != nil {
				fmt.Fprintf(&b, "%slet o := %s\n", ind, t.unsupported("if_init", st))
				continue
			}
			fmt.Fprintf(&b, "%slet o := if %s then (\n%s%s  o)\n", ind, t.cond(x.Cond), t.block(x.Body.List, ind+"  "), ind)
			switch el := x.Else.(type) {
			case nil:
				fmt.Fprintf(&b, "%s  else o\n", ind)
			case *ast.BlockStmt:
				fmt.Fprintf(&b, "%s  else (\n%s%s  o)\n", ind, t.block(el.List, ind+"  "), ind)
			default:
				fmt.Fprintf(&b, "%s  else %s\n", ind, t.unsupported("else", st))
			}
		default:
			fmt.Fprintf(&b, "%slet o := %s\n", ind, t.unsupported("statement", st))
		}
	}
	return b.String()
}

func genSshArgv() string {
	var b strings.Builder
	b.WriteString("-- GENERATED by go/cmd/extract (gen_c14.go) from transport/system.go; do not edit.\n")
	b.WriteString("import ScrapliModel.SshCfg\nnamespace Scrapli.Gen.SshArgv\nopen Scrapli\n\n")
	files := parseDir(filepath.Join(*repo, "transport"))
	var fd *ast.FuncDecl
	for _, fn := range sortedNames(files) {
		for _, d := range files[fn].Decls {
			if f, ok := d.(*ast.FuncDecl); ok && f.Name.Name == "buildOpenArgs" && f.Recv != nil && f.Body != nil {
				fd = f
			}
		}
	}
	b.WriteString("/-- `(*System).buildOpenArgs`: `o` is `t.OpenArgs` on entry, the result is `t.OpenArgs` on exit -/\n")
	b.WriteString("def buildOpenArgs (a : SshCfg.Args) (s : SshCfg.SSHArgs) (extra : List Bytes) (o : List Bytes) : List Bytes :=\n")
	if fd == nil {
		b.WriteString("  SshCfg.unsupportedL \"function_not_found\"\n")
	} else {
		t := &c14tr{}
		ok := fd.Recv.NumFields() == 1 && len(fd.Recv.List[0].Names) == 1 && fd.Recv.List[0].Names[0].Name == "t" &&
			fd.Type.Params.NumFields() == 1 && len(fd.Type.Params.List[0].Names) == 1 && fd.Type.Params.List[0].Names[0].Name == "a" &&
			(fd.Type.Results == nil || fd.Type.Results.NumFields() == 0)
		if !ok {
			b.WriteString("  let o := SshCfg.unsupportedL \"signature\"\n")
		}
		b.WriteString(t.block(fd.Body.List, "  "))
		b.WriteString("  o\n")
	}
	b.WriteString("\nend Scrapli.Gen.SshArgv\n")
	return b.String()
}

// ---- SshAuth.lean: how openBase (transport/standard.go) builds the list of auth methods ----
//
// Facts: every write to `authMethods` in source order ("define" for the := declaration,
// "append-self" for `authMethods = append(authMethods, …)`, "assign-other" for anything else), the
// guarded appends (condition text, ssh.<Constructor> names appended, in order), and whether the
// client config's Auth field is that variable.

func init() { extraGenerators["SshAuth.lean"] = genSshAuth }

func c14ExprText(e ast.Expr) string {
	switch x := e.(type) {
	case *ast.BasicLit:
		return x.Value
	case *ast.ParenExpr:
		return "(" + c14ExprText(x.X) + ")"
	case *ast.UnaryExpr:
		return x.Op.String() + c14ExprText(x.X)
	case *ast.BinaryExpr:
		return c14ExprText(x.X) + " " + x.Op.String() + " " + c14ExprText(x.Y)
	case *ast.CallExpr:
		args := make([]string, len(x.Args))
		for i, a := range x.Args {
			args[i] = c14ExprText(a)
		}
		return c14ExprText(x.Fun) + "(" + strings.Join(args, ", ") + ")"
	}
	if p := selPath(e); p != nil {
		return strings.Join(p, ".")
	}
	return "?"
}

func genSshAuth() string {
	var b strings.Builder
	b.WriteString("-- GENERATED by go/cmd/extract (gen_c14.go) from transport/standard.go; do not edit.\n")
	b.WriteString("import ScrapliModel.Bytes\nnamespace Scrapli.Gen.SshAuth\nopen Scrapli\n\n")
	files := parseDir(filepath.Join(*repo, "transport"))
	var fd *ast.FuncDecl
	for _, fn := range sortedNames(files) {
		for _, d := range files[fn].Decls {
			if f, ok := d.(*ast.FuncDecl); ok && f.Name.Name == "openBase" && f.Recv != nil && f.Body != nil {
				fd = f
			}
		}
	}
	var writes []string
	var appends []string
	used := false
	const v = "authMethods"
	isV := func(e ast.Expr) bool { id, ok := e.(*ast.Ident); return ok && id.Name == v }
	var walk func(stmts []ast.Stmt, cond string)
	handleAssign := func(x *ast.AssignStmt, cond string) {
		for i, l := range x.Lhs {
			if !isV(l) {
				continue
			}
			if x.Tok == token.DEFINE {
				writes = append(writes, "define")
				continue
			}
			kind := "assign-other"
			if i < len(x.Rhs) && x.Tok == token.ASSIGN {
				if c, ok := isCall(x.Rhs[i], "", "append"); ok && len(c.Args) >= 1 && isV(c.Args[0]) && !c.Ellipsis.IsValid() {
					kind = "append-self"
					var names []string
					for _, a := range c.Args[1:] {
						n := "?"
						if ce, ok := a.(*ast.CallExpr); ok {
							if p := selPath(ce.Fun); len(p) == 2 && p[0] == "ssh" {
								n = p[1]
							}
						}
						names = append(names, leanBytes(n))
					}
					appends = append(appends, "("+leanBytes(cond)+", ["+strings.Join(names, ", ")+"])")
				}
			}
			writes = append(writes, kind)
		}
	}
	walk = func(stmts []ast.Stmt, cond string) {
		for _, st := range stmts {
			switch x := st.(type) {
			case *ast.AssignStmt:
				handleAssign(x, cond)
			case *ast.DeclStmt:
				if gd, ok := x.Decl.(*ast.GenDecl); ok {
					for _, sp := range gd.Specs {
						if vs, ok := sp.(*ast.ValueSpec); ok {
							for _, n := range vs.Names {
								if n.Name == v {
									writes = append(writes, "define")
								}
							}
						}
					}
				}
			case *ast.IfStmt:
				c := c14ExprText(x.Cond)
				if cond != "" {
					c = cond + " && " + c
				}
				walk(x.Body.List, c)
				switch el := x.Else.(type) {
				case *ast.BlockStmt:
					walk(el.List, "!("+c+")")
				case *ast.IfStmt:
					walk([]ast.Stmt{el}, "!("+c+")")
				}
			case *ast.BlockStmt:
				walk(x.List, cond)
			case *ast.ForStmt:
				walk(x.Body.List, cond+" (loop)")
			case *ast.RangeStmt:
				walk(x.Body.List, cond+" (loop)")
			case *ast.SwitchStmt:
				for _, cc := range x.Body.List {
					if cl, ok := cc.(*ast.CaseClause); ok {
						walk(cl.Body, cond+" (switch)")
					}
				}
			}
		}
	}
	if fd != nil {
		walk(fd.Body.List, "")
		ast.Inspect(fd, func(n ast.Node) bool {
			if kv, ok := n.(*ast.KeyValueExpr); ok {
				if id, ok := kv.Key.(*ast.Ident); ok && id.Name == "Auth" && isV(kv.Value) {
					used = true
				}
			}
			return true
		})
	}
	ws := make([]string, len(writes))
	for i, w := range writes {
		ws[i] = leanBytes(w)
	}
	fmt.Fprintf(&b, "/-- `openBase` found in the source -/\ndef found : Bool := %v\n\n", fd != nil)
	fmt.Fprintf(&b, "/-- every write to `authMethods` in `openBase`, in source order -/\ndef authWrites : List Bytes := [%s]\n\n", strings.Join(ws, ", "))
	fmt.Fprintf(&b, "/-- the guarded appends: (condition, ssh.<constructor> names appended) in source order -/\ndef authAppends : List (Bytes × List Bytes) := [%s]\n\n", strings.Join(appends, ", "))
	fmt.Fprintf(&b, "/-- the client configuration's `Auth` field is `authMethods` -/\ndef authUsed : Bool := %v\n", used)
	b.WriteString("\nend Scrapli.Gen.SshAuth\n")
	return b.String()
}

// ---- SshDial.lean: which string the standard transport hands to crypto/ssh as the host name ----
//
// ssh.Dial(network, addr, cfg) and ssh.NewClientConn(conn, addr, cfg) pass `addr` to the
// HostKeyCallback as `hostname`: that is the key under which known_hosts is searched. Fact: the
// text of that argument for every such call in transport/standard.go, in source order.

func init() { extraGenerators["SshDial.lean"] = genSshDial }

func genSshDial() string {
	var b strings.Builder
	b.WriteString("-- GENERATED by go/cmd/extract (gen_c14.go) from transport/standard.go; do not edit.\n")
	b.WriteString("import ScrapliModel.Bytes\nnamespace Scrapli.Gen.SshDial\nopen Scrapli\n\n")
	files := parseDir(filepath.Join(*repo, "transport"))
	var addrs []string
	if f, ok := files["standard.go"]; ok {
		ast.Inspect(f, func(n ast.Node) bool {
			c, ok := n.(*ast.CallExpr)
			if !ok {
				return true
			}
			p := selPath(c.Fun)
			if len(p) == 2 && p[0] == "ssh" && (p[1] == "Dial" || p[1] == "NewClientConn") && len(c.Args) >= 2 {
				addrs = append(addrs, leanBytes(p[1]+": "+c14ExprText(c.Args[1])))
			}
			return true
		})
	}
	fmt.Fprintf(&b, "/-- `ssh.Dial` / `ssh.NewClientConn` calls of the standard transport with the text of their address\n(= host-key lookup name) argument, in source order -/\ndef hostNameArgs : List Bytes := [%s]\n", strings.Join(addrs, ", "))
	b.WriteString("\nend Scrapli.Gen.SshDial\n")
	return b.String()
}

// ---- ResolveFile.lean: the order in which util.ResolveFilePath looks for the file ----
//
// Fact: for every os.Stat call in ResolveFilePath, in source order: "as-given" when its argument is
// the parameter and no assignment to the parameter precedes the call, "rewritten" when the argument
// is the parameter after an assignment to it, "other:<text>" otherwise.

func init() { extraGenerators["ResolveFile.lean"] = genResolveFile }

func genResolveFile() string {
	var b strings.Builder
	b.WriteString("-- GENERATED by go/cmd/extract (gen_c14.go) from util/file.go; do not edit.\n")
	b.WriteString("import ScrapliModel.Bytes\nnamespace Scrapli.Gen.ResolveFile\nopen Scrapli\n\n")
	files := parseDir(filepath.Join(*repo, "util"))
	var fd *ast.FuncDecl
	for _, fn := range sortedNames(files) {
		for _, d := range files[fn].Decls {
			if f, ok := d.(*ast.FuncDecl); ok && f.Name.Name == "ResolveFilePath" && f.Recv == nil && f.Body != nil {
				fd = f
			}
		}
	}
	var order []string
	if fd != nil && fd.Type.Params.NumFields() == 1 && len(fd.Type.Params.List[0].Names) == 1 {
		param := fd.Type.Params.List[0].Names[0].Name
		var assigned []token.Pos
		ast.Inspect(fd.Body, func(n ast.Node) bool {
			if as, ok := n.(*ast.AssignStmt); ok {
				for _, l := range as.Lhs {
					if id, ok := l.(*ast.Ident); ok && id.Name == param {
						assigned = append(assigned, as.Pos())
					}
				}
			}
			return true
		})
		ast.Inspect(fd.Body, func(n ast.Node) bool {
			c, ok := n.(*ast.CallExpr)
			if !ok {
				return true
			}
			if p := selPath(c.Fun); len(p) == 2 && p[0] == "os" && p[1] == "Stat" && len(c.Args) == 1 {
				kind := "other:" + c14ExprText(c.Args[0])
				if id, ok := c.Args[0].(*ast.Ident); ok && id.Name == param {
					kind = "as-given"
					for _, ap := range assigned {
						if ap < c.Pos() {
							kind = "rewritten"
						}
					}
				}
				order = append(order, leanBytes(kind))
			}
			return true
		})
	}
	fmt.Fprintf(&b, "def found : Bool := %v\n\n/-- the os.Stat calls of ResolveFilePath in source order -/\ndef statOrder : List Bytes := [%s]\n", fd != nil, strings.Join(order, ", "))
	b.WriteString("\nend Scrapli.Gen.ResolveFile\n")
	return b.String()
}
