package main

import (
	"fmt"
	"go/ast"
	"go/token"
	"path/filepath"
	"sort"
	"strings"

	"verifgo/facts"
)

// C03: how a caller-supplied string travels from the public netconf.Driver method into the struct
// that encoding/xml marshals. The property needs "no function of the fragment other than
// embedding": every use of such a parameter must be
//
//	guard        an operand of == / != (the empty-string tests)
//	field:<F>    the bare value of field F in a composite literal
//	pass:<f>#<i> the bare i-th argument of a call of another function of this table (checked there)
//	log          an argument of a logger call
//
// Anything else (a call of a helper such as strings.TrimSpace or a rewriting function, an
// assignment to the parameter, slicing, concatenation) is reported as `other:<what>`; the Lean
// obligation `embedding_clean` (Props/C03.lean) then no longer checks. Also extracted: the xml
// struct tags of the fields the fragments land in and the argument lists of the calls that hand
// operation options on.
func init() { extraGenerators["C03Embedding.lean"] = genC03Embedding }

// function -> parameters that carry caller content
var c03flow = map[string][]string{
	"Get":                           {"filter"},
	"buildGetElem":                  {"filter", "filterType"},
	"GetConfig":                     {"source"},
	"buildGetConfigElem":            {"source", "filter", "filterType", "defaultType"},
	"buildFilterElem":               {"filter", "filterType"},
	"buildDefaultsElem":             {"defaultsType"},
	"buildSourceElem":               {"source"},
	"buildTargetElem":               {"target"},
	"EditConfig":                    {"target", "config"},
	"buildEditConfigElem":           {"target", "config"},
	"CopyConfig":                    {"source", "target"},
	"buildCopyConfigElem":           {"source", "target"},
	"DeleteConfig":                  {"target"},
	"buildDeleteConfigElem":         {"target"},
	"Lock":                          {"target"},
	"buildLockElem":                 {"target"},
	"Unlock":                        {"target"},
	"buildUnlockElem":               {"target"},
	"Validate":                      {"source"},
	"buildValidateElem":             {"source"},
	"buildRPCElem":                  {"filter"},
	"buildPayload":                  {"payload"},
	"buildCommitElem":               {"persist", "persistID"},
	"EstablishPeriodicSubscription": {"xpath", "period"},
}

// calls whose argument lists are recorded verbatim (they carry operation options on)
var c03calls = []string{"buildGetElem", "buildGetConfigElem", "buildRPCElem", "buildCommitElem", "buildEditConfigElem",
	"buildCopyConfigElem", "buildDeleteConfigElem", "buildLockElem", "buildUnlockElem", "buildValidateElem", "serialize"}

func c03exprText(e ast.Expr) string {
	switch v := e.(type) {
	case *ast.Ident:
		return v.Name
	case *ast.SelectorExpr:
		return c03exprText(v.X) + "." + v.Sel.Name
	case *ast.BasicLit:
		return v.Value
	case *ast.CallExpr:
		var as []string
		for _, a := range v.Args {
			as = append(as, c03exprText(a))
		}
		return c03exprText(v.Fun) + "(" + strings.Join(as, ", ") + ")"
	case *ast.UnaryExpr:
		return v.Op.String() + c03exprText(v.X)
	case *ast.BinaryExpr:
		return c03exprText(v.X) + " " + v.Op.String() + " " + c03exprText(v.Y)
	case *ast.CompositeLit:
		return c03exprText(v.Type) + "{…}"
	case *ast.StarExpr:
		return "*" + c03exprText(v.X)
	case *ast.IndexExpr:
		return c03exprText(v.X) + "[" + c03exprText(v.Index) + "]"
	case *ast.SliceExpr:
		return c03exprText(v.X) + "[:]"
	case *ast.ParenExpr:
		return "(" + c03exprText(v.X) + ")"
	case nil:
		return ""
	}
	return fmt.Sprintf("%T", e)
}

// c03uses classifies every use of parameter p in body.
func c03uses(body *ast.BlockStmt, p string) []string {
	var out []string
	var stack []ast.Node
	ast.Inspect(body, func(n ast.Node) bool {
		if n == nil {
			stack = stack[:len(stack)-1]
			return true
		}
		stack = append(stack, n)
		id, ok := n.(*ast.Ident)
		if !ok || id.Name != p || len(stack) < 2 {
			return true
		}
		parent := stack[len(stack)-2]
		switch pv := parent.(type) {
		case *ast.SelectorExpr:
			if pv.Sel == id {
				return true // a field that happens to have the parameter's name
			}
			out = append(out, "other:selector "+c03exprText(pv))
		case *ast.KeyValueExpr:
			if pv.Key == ast.Expr(id) {
				return true // field name in a composite literal
			}
			out = append(out, "field:"+c03exprText(pv.Key))
		case *ast.BinaryExpr:
			if pv.Op == token.EQL || pv.Op == token.NEQ {
				out = append(out, "guard")
			} else {
				out = append(out, "other:operator "+pv.Op.String())
			}
		case *ast.CallExpr:
			name := c03exprText(pv.Fun)
			short := name[strings.LastIndex(name, ".")+1:]
			pos := -1
			for i, a := range pv.Args {
				if a == ast.Expr(id) {
					pos = i
				}
			}
			switch {
			case pos < 0:
				out = append(out, "other:called "+name)
			case strings.Contains(name, "Logger."):
				out = append(out, "log")
			case short == "Itoa" && p == "timeout", short == "int" && p == "timeout":
				out = append(out, "pass:"+short+fmt.Sprintf("#%d", pos))
			default:
				if _, known := c03flow[short]; known {
					out = append(out, fmt.Sprintf("pass:%s#%d", short, pos))
				} else if name == "fmt.Errorf" {
					out = append(out, "errmsg")
				} else {
					out = append(out, "other:call "+name)
				}
			}
		case *ast.SwitchStmt:
			out = append(out, "guard")
		case *ast.CaseClause:
			out = append(out, "guard")
		case *ast.AssignStmt:
			lhs := false
			for _, l := range pv.Lhs {
				if l == ast.Expr(id) {
					lhs = true
				}
			}
			if lhs {
				out = append(out, "other:assigned")
			} else {
				out = append(out, "other:copied by "+c03exprText(pv.Lhs[0])+" "+pv.Tok.String())
			}
		default:
			out = append(out, fmt.Sprintf("other:%T", parent))
		}
		return true
	})
	return out
}

// c03roots: the public methods that transmit a request.
var c03roots = []string{"Get", "GetConfig", "EditConfig", "CopyConfig", "DeleteConfig", "Lock", "Unlock", "Validate", "Commit",
	"Discard", "RPC", "EstablishPeriodicSubscription"}

// c03reach computes, over the functions of driver/netconf, everything the request methods can call
// (by name: `d.f(…)`, `f(…)`, `x.f(…)` with f declared in the package) and every field of the
// receiver those functions read or write (`d.field` where d is the receiver of a *Driver method).
func c03reach(files map[string]*ast.File) (funcs, fields []string) {
	decls := map[string][]*ast.FuncDecl{}
	for _, fname := range facts.SortedNames(files) {
		for _, d := range files[fname].Decls {
			if fd, ok := d.(*ast.FuncDecl); ok && fd.Body != nil {
				decls[fd.Name.Name] = append(decls[fd.Name.Name], fd)
			}
		}
	}
	seenF, seenFld := map[string]bool{}, map[string]bool{}
	todo := append([]string{}, c03roots...)
	for len(todo) > 0 {
		name := todo[len(todo)-1]
		todo = todo[:len(todo)-1]
		if seenF[name] {
			continue
		}
		seenF[name] = true
		for _, fd := range decls[name] {
			recv := ""
			if fd.Recv != nil && len(fd.Recv.List) == 1 && len(fd.Recv.List[0].Names) == 1 {
				if st, ok := fd.Recv.List[0].Type.(*ast.StarExpr); ok {
					if id, ok := st.X.(*ast.Ident); ok && id.Name == "Driver" {
						recv = fd.Recv.List[0].Names[0].Name
					}
				}
			}
			called := map[ast.Node]bool{}
			ast.Inspect(fd.Body, func(n ast.Node) bool {
				switch v := n.(type) {
				case *ast.CallExpr:
					called[v.Fun] = true
					switch f := v.Fun.(type) {
					case *ast.Ident:
						if _, ok := decls[f.Name]; ok {
							todo = append(todo, f.Name)
						}
					case *ast.SelectorExpr:
						if _, ok := decls[f.Sel.Name]; ok {
							todo = append(todo, f.Sel.Name)
						}
					}
				case *ast.SelectorExpr:
					if id, ok := v.X.(*ast.Ident); ok && recv != "" && id.Name == recv {
						if !called[v] {
							seenFld[v.Sel.Name] = true
						}
					}
				}
				return true
			})
		}
	}
	for f := range seenF {
		if _, ok := decls[f]; ok {
			funcs = append(funcs, f)
		}
	}
	for f := range seenFld {
		fields = append(fields, f)
	}
	sort.Strings(funcs)
	sort.Strings(fields)
	return funcs, fields
}

func genC03Embedding() string {
	files := facts.ParseDir(filepath.Join(facts.Repo, "driver/netconf"))
	type row struct{ fn, param, use string }
	var rows []row
	var tags, calls []string
	seen := map[string]bool{}
	for _, fname := range facts.SortedNames(files) {
		for _, d := range files[fname].Decls {
			switch dv := d.(type) {
			case *ast.FuncDecl:
				if dv.Body == nil {
					continue
				}
				if params, ok := c03flow[dv.Name.Name]; ok && dv.Recv != nil {
					seen[dv.Name.Name] = true
					has := map[string]bool{}
					for _, f := range dv.Type.Params.List {
						for _, n := range f.Names {
							has[n.Name] = true
						}
					}
					for _, p := range params {
						if !has[p] {
							rows = append(rows, row{dv.Name.Name, p, "other:parameter missing"})
							continue
						}
						us := c03uses(dv.Body, p)
						if len(us) == 0 {
							us = []string{"other:unused"}
						}
						for _, u := range us {
							rows = append(rows, row{dv.Name.Name, p, u})
						}
					}
				}
				ast.Inspect(dv.Body, func(n ast.Node) bool {
					if ce, ok := n.(*ast.CallExpr); ok {
						t := c03exprText(ce.Fun)
						short := t[strings.LastIndex(t, ".")+1:]
						for _, c := range c03calls {
							if short == c {
								calls = append(calls, dv.Name.Name+": "+c03exprText(ce))
							}
						}
					}
					return true
				})
			case *ast.GenDecl:
				for _, sp := range dv.Specs {
					ts, ok := sp.(*ast.TypeSpec)
					if !ok {
						continue
					}
					st, ok := ts.Type.(*ast.StructType)
					if !ok {
						continue
					}
					for _, f := range st.Fields.List {
						if f.Tag == nil || !strings.Contains(f.Tag.Value, "xml:") {
							continue
						}
						for _, n := range f.Names {
							tags = append(tags, ts.Name.Name+"."+n.Name+" "+strings.Trim(f.Tag.Value, "`"))
						}
					}
				}
			}
		}
	}
	var names []string
	for fn := range c03flow {
		names = append(names, fn)
	}
	sort.Strings(names)
	for _, fn := range names {
		if !seen[fn] {
			rows = append(rows, row{fn, "-", "other:function missing"})
		}
	}
	sort.Strings(tags)
	sort.Strings(calls)
	q := func(s string) string {
		return "\"" + strings.ReplaceAll(strings.ReplaceAll(s, "\\", "\\\\"), "\"", "\\\"") + "\""
	}
	var b strings.Builder
	b.WriteString("-- GENERATED by go/cmd/extract (gen_c03.go) from /repo's working tree; do not edit.\n")
	b.WriteString("namespace Scrapli.Gen.C03Embedding\n\n")
	b.WriteString("/-- (function, parameter, use): every use of a caller-content parameter in driver/netconf.\n`guard` = compared with ==/!= or switched on; `field:F` = bare value of field F of a composite literal;\n`pass:f#i` = bare i-th argument of function f of this table; `log` = logger argument; `other:…` = anything else. -/\n")
	b.WriteString("def uses : List (String × String × String) := [\n")
	var kinds []string
	for i, r := range rows {
		sep := ","
		if i == len(rows)-1 {
			sep = ""
		}
		fmt.Fprintf(&b, "  (%s, %s, %s)%s\n", q(r.fn), q(r.param), q(r.use), sep)
		k := "9"
		switch {
		case r.use == "guard":
			k = "0"
		case strings.HasPrefix(r.use, "field:"):
			k = "1"
		case strings.HasPrefix(r.use, "pass:"):
			k = "2"
		case r.use == "log":
			k = "3"
		case r.use == "errmsg":
			k = "4"
		}
		kinds = append(kinds, k)
	}
	b.WriteString("]\n\n/-- the kind of each entry of `uses`, in order: 0 guard, 1 field, 2 pass, 3 log, 4 error message, 9 other -/\ndef kinds : List Nat := [" + strings.Join(kinds, ", ") + "]\n\n/-- no caller-content parameter is used in any other way -/\ndef clean : Bool := kinds.all (· != 9)\n")
	b.WriteString("\n/-- xml struct tags of driver/netconf (Struct.Field tag) -/\ndef tags : List String := [\n")
	for i, t := range tags {
		sep := ","
		if i == len(tags)-1 {
			sep = ""
		}
		fmt.Fprintf(&b, "  %s%s\n", q(t), sep)
	}
	b.WriteString("]\n\n/-- the calls that hand arguments and operation options on to the element builders (caller: call) -/\ndef calls : List String := [\n")
	for i, t := range calls {
		sep := ","
		if i == len(calls)-1 {
			sep = ""
		}
		fmt.Fprintf(&b, "  %s%s\n", q(t), sep)
	}
	b.WriteString("]\n\n")
	funcs, fields := c03reach(files)
	list := func(xs []string) string {
		var qs []string
		for _, x := range xs {
			qs = append(qs, q(x))
		}
		return "[" + strings.Join(qs, ", ") + "]"
	}
	b.WriteString("/-- every function of driver/netconf a request method (Get … EstablishPeriodicSubscription) can reach -/\ndef requestFuncs : List String := " + list(funcs) + "\n\n")
	b.WriteString("/-- every field of the Driver those functions touch -/\ndef requestFields : List String := " + list(fields) + "\n\n")
	b.WriteString("/-- what the server advertised (and what was negotiated from it other than the framing version) is out of reach of the request path -/\ndef capsFree : Bool :=\n  !(requestFields.contains \"serverCapabilities\") && !(requestFields.contains \"sessionID\") && !(requestFields.contains \"PreferredVersion\")\n    && !(requestFuncs.contains \"ServerHasCapability\") && !(requestFuncs.contains \"ServerCapabilities\") && !(requestFuncs.contains \"SessionID\")\n    && !(requestFuncs.contains \"processServerCapabilities\") && !(requestFuncs.contains \"determineVersion\")\n\n")
	b.WriteString("end Scrapli.Gen.C03Embedding\n")
	return b.String()
}
