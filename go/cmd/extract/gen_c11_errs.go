package main

import (
	"fmt"
	"go/ast"
	"go/token"
	"os"
	"strconv"
	"strings"
)

// Error-value taint analysis (C11, obligations `error_sites_clean` and `log_sites_no_hidden_input`).
//
// The library logs error VALUES (`generic/network Driver.Open/Close`: "error executing … OnOpen,
// error: %s", err; channel/transport: "error …: %s", err). A secret that is formatted into an error
// therefore reaches the user's logger through a call site whose arguments look clean (it logs
// `err`). This pass lists every ERROR CONSTRUCTION SITE of every non-test package
//
//   - calls of fmt.Errorf and errors.New (this includes every %w wrapping site),
//   - the result expressions of every `Error() string` method,
//   - composite literals of a type that has an `Error() string` method,
//
// with those of its arguments that are SECRET-BEARING. The rule is syntactic and deliberately
// conservative (it is part of C11's trusted base, see bin/props/C11.json). An expression is
// secret-bearing when it is or contains
//
//   (1) a credential: a selector named Password, PrivateKeyPassPhrase or AuthSecondary (the rule
//       of gen_c11.go), or a WHOLE VALUE of a struct type that has such a field, or a by-value
//       field of such a type (fmt's %v prints the fields of a struct and of a pointer to a struct
//       at the top level; pointers below the top level print as addresses and are clean);
//   (2) an interactive event's input: a selector `.ChannelInput` (whether the event is hidden is
//       not known where the text is built, so it always counts), or a whole value of type
//       SendInteractiveEvent / *SendInteractiveEvent / a slice, array or map of event VALUES
//       (a slice of event POINTERS prints addresses: clean);
//   (3) a platform on-X operation's input: inside package platform, `op["input"]` for an operation
//       map `op` (a map[string]interface{} parameter, or the element of an onXDefinitions), the
//       operation map as a whole, or an index of it with a non-constant key. The input counts as
//       secret-bearing ALWAYS, i.e. also before (and after) the operation's `redacted` flag is
//       known: an error text has no business rendering it. `op["<other constant key>"]` is clean;
//   (4) a local variable assigned from a secret-bearing expression (flow-aware as in gen_c11.go:
//       cleared by an unconditional clean assignment, guarded by the `if r { x = const }` idiom),
//       including `v, ok := <secret>.(T)`, `x[i] = <secret>` and range variables;
//   (5) a parameter that some call site binds to a secret-bearing argument (callees matched by
//       name, propagated to a fixpoint), and the result of a call of a function defined in the
//       library one of whose return statements returns a secret-bearing expression in that result
//       position (matched by name, fixpoint); the result of any other call (conversions, fmt.*,
//       strings.*, func values) is secret-bearing when an argument or the receiver is.
//
// Refinements (trusted with the rule): at a sink, an operand whose static type fmt renders as
// addresses only (slice / array / map of pointers, func, chan) is clean; the `error` result of a
// multi-valued call of a function OUTSIDE the library (standard library, x/crypto, pty) does not
// echo a secret argument (`client, err := ssh.Dial(addr, cfg)`); a whole-value (type based) label
// binds a callee's parameter only when that parameter is an interface{} (a concretely typed
// parameter says so itself); callees and results are matched by bare name, context-insensitively.
//
// Not tracked: flow through struct fields other than the names above (e.g. response.Response.Input,
// which for SendInteractive joins all event inputs and is rendered by response.OperationError —
// that error is only stored in Response.Failed, never returned to a caller that logs it; the
// harness covers it with the interactive-hidden-failed sessions), channels, and globals.

type evFn struct {
	decl   *ast.FuncDecl
	src    srcFile
	params []string
	idType map[string]ast.Expr
	ptaint map[string]string
	nres   int
	ret    []string // per result position
}

type evTypeDecl struct {
	rel string
	t   ast.Expr
}

type evProg struct {
	fns        map[string][]*evFn
	typeDecls  map[string][]evTypeDecl
	fieldType  map[string][]evTypeDecl
	fieldLabel map[string]string
	errorTypes map[string]bool
	changed    bool
}

func typeBareName(t ast.Expr) string {
	switch x := t.(type) {
	case *ast.Ident:
		return x.Name
	case *ast.SelectorExpr:
		return x.Sel.Name
	case *ast.StarExpr:
		return typeBareName(x.X)
	case *ast.ParenExpr:
		return typeBareName(x.X)
	}
	return ""
}

func isEmptyInterface(t ast.Expr) bool {
	switch x := t.(type) {
	case *ast.InterfaceType:
		return x.Methods == nil || len(x.Methods.List) == 0
	case *ast.Ident:
		return x.Name == "any"
	}
	return false
}

// classify: label of the secret a WHOLE VALUE of type t renders under fmt's %v, or "".
// top: the value is the formatted operand itself (a pointer is followed once).
func (p *evProg) classify(t ast.Expr, rel string, top bool, depth int) string {
	if t == nil || depth > 6 {
		return ""
	}
	switch x := t.(type) {
	case *ast.ParenExpr:
		return p.classify(x.X, rel, top, depth+1)
	case *ast.StarExpr:
		if !top {
			return ""
		}
		if _, again := x.X.(*ast.StarExpr); again {
			return ""
		}
		return p.classify(x.X, rel, false, depth+1)
	case *ast.ArrayType:
		return p.classify(x.Elt, rel, false, depth+1)
	case *ast.Ellipsis:
		return p.classify(x.Elt, rel, false, depth+1)
	case *ast.MapType:
		if strings.HasPrefix(rel, "platform/") && isEmptyInterface(x.Value) {
			if k, ok := x.Key.(*ast.Ident); ok && k.Name == "string" {
				return "OnXInput"
			}
		}
		return p.classify(x.Value, rel, false, depth+1)
	case *ast.StructType:
		for _, f := range x.Fields.List {
			for _, n := range f.Names {
				for _, s := range secretNames {
					if n.Name == s {
						return s
					}
				}
				if n.Name == "ChannelInput" {
					return "HiddenInput"
				}
			}
		}
		for _, f := range x.Fields.List {
			if l := p.classify(f.Type, rel, false, depth+1); l != "" {
				return l
			}
		}
		return ""
	case *ast.Ident, *ast.SelectorExpr:
		name := typeBareName(t)
		if name == "SendInteractiveEvent" {
			return "HiddenInput"
		}
		for _, d := range p.typeDecls[name] {
			if l := p.classify(d.t, d.rel, top, depth+1); l != "" {
				return l
			}
		}
	}
	return ""
}

// resolve follows named non-struct types to their underlying type expression
func (p *evProg) resolve(t ast.Expr, rel string) (ast.Expr, string) {
	for i := 0; i < 5 && t != nil; i++ {
		switch x := t.(type) {
		case *ast.ParenExpr:
			t = x.X
			continue
		case *ast.Ident, *ast.SelectorExpr:
			ds := p.typeDecls[typeBareName(t)]
			if len(ds) == 0 {
				return t, rel
			}
			if _, isStruct := ds[0].t.(*ast.StructType); isStruct {
				return t, rel
			}
			t, rel = ds[0].t, ds[0].rel
			continue
		}
		break
	}
	return t, rel
}

func (p *evProg) elemOf(t ast.Expr, rel string) (ast.Expr, string) {
	t, rel = p.resolve(t, rel)
	switch x := t.(type) {
	case *ast.ArrayType:
		return x.Elt, rel
	case *ast.Ellipsis:
		return x.Elt, rel
	case *ast.MapType:
		return x.Value, rel
	case *ast.StarExpr: // pointer to array
		return p.elemOf(x.X, rel)
	}
	return nil, rel
}

type evWalk struct {
	p       *evProg
	fn      *evFn
	imports map[string]string // local package name -> import path
	local   map[string]string
	guarded map[string]bool
}

func (w *evWalk) isPkg(id *ast.Ident) bool {
	_, ok := w.imports[id.Name]
	return ok && w.fn.idType[id.Name] == nil
}

func (w *evWalk) isLibPkg(id *ast.Ident) bool {
	return w.isPkg(id) && strings.HasPrefix(w.imports[id.Name], "github.com/scrapli/scrapligo")
}

func (w *evWalk) typeOf(e ast.Expr) ast.Expr {
	switch x := e.(type) {
	case *ast.Ident:
		return w.fn.idType[x.Name]
	case *ast.ParenExpr:
		return w.typeOf(x.X)
	case *ast.StarExpr:
		t, _ := w.p.resolve(w.typeOf(x.X), w.fn.src.rel)
		if s, ok := t.(*ast.StarExpr); ok {
			return s.X
		}
		return nil
	case *ast.UnaryExpr:
		if x.Op == token.AND {
			if t := w.typeOf(x.X); t != nil {
				return &ast.StarExpr{X: t}
			}
		}
		return nil
	case *ast.CompositeLit:
		return x.Type
	case *ast.SelectorExpr:
		if ds := w.p.fieldType[x.Sel.Name]; len(ds) > 0 {
			return ds[0].t
		}
		return nil
	case *ast.IndexExpr:
		t, _ := w.p.elemOf(w.typeOf(x.X), w.fn.src.rel)
		return t
	case *ast.CallExpr:
		if id, ok := x.Fun.(*ast.Ident); ok && len(x.Args) > 0 {
			switch id.Name {
			case "make":
				return x.Args[0]
			case "new":
				return &ast.StarExpr{X: x.Args[0]}
			}
		}
	}
	return nil
}

func (w *evWalk) isOpMap(e ast.Expr) bool {
	if !strings.HasPrefix(w.fn.src.rel, "platform/") {
		return false
	}
	t, rel := w.p.resolve(w.typeOf(e), w.fn.src.rel)
	m, ok := t.(*ast.MapType)
	if !ok || !strings.HasPrefix(rel, "platform/") {
		return false
	}
	k, ok := m.Key.(*ast.Ident)
	return ok && k.Name == "string" && isEmptyInterface(m.Value)
}

// addressesOnly: the operand's static type is known and fmt renders it without following to any
// pointee: a slice, array or map of pointers (fmt follows a pointer only at the top level), a
// func or a chan. Applied at the sinks only.
func (w *evWalk) addressesOnly(e ast.Expr) bool {
	switch e.(type) {
	case *ast.Ident, *ast.SelectorExpr:
	default:
		return false
	}
	t, rel := w.p.resolve(w.typeOf(e), w.fn.src.rel)
	switch x := t.(type) {
	case *ast.FuncType, *ast.ChanType:
		return true
	case *ast.ArrayType, *ast.MapType, *ast.Ellipsis:
		el, rel2 := w.p.elemOf(x, rel)
		el, _ = w.p.resolve(el, rel2)
		_, ptr := el.(*ast.StarExpr)
		return ptr
	}
	return false
}

func first(xs ...string) string {
	for _, x := range xs {
		if x != "" {
			return x
		}
	}
	return ""
}

func (w *evWalk) outsideLibrary(c *ast.CallExpr) bool {
	if sel, ok := c.Fun.(*ast.SelectorExpr); ok {
		if id, ok := sel.X.(*ast.Ident); ok {
			return w.isPkg(id) && !w.isLibPkg(id)
		}
	}
	return false
}

// callRets: per-result labels of a call expression; nil when unknown callee
func (w *evWalk) callRets(c *ast.CallExpr) ([]string, bool) {
	name := calleeName(c)
	if sel, ok := c.Fun.(*ast.SelectorExpr); ok {
		if id, ok := sel.X.(*ast.Ident); ok && w.isPkg(id) && !w.isLibPkg(id) {
			return nil, false // a function of a package outside the library (fmt, strings, os, ...)
		}
	}
	fs := w.p.fns[name]
	if len(fs) == 0 {
		return nil, false
	}
	n := 0
	for _, f := range fs {
		if f.nres > n {
			n = f.nres
		}
	}
	out := make([]string, n)
	for _, f := range fs {
		for i, l := range f.ret {
			if out[i] == "" {
				out[i] = l
			}
		}
	}
	return out, true
}

// sec: label of the secret the expression bears, or "". typed: also count whole values whose
// static type renders a secret.
func (w *evWalk) sec(e ast.Expr, typed bool) string {
	switch x := e.(type) {
	case nil:
		return ""
	case *ast.ParenExpr:
		return w.sec(x.X, typed)
	case *ast.StarExpr:
		return w.sec(x.X, typed)
	case *ast.UnaryExpr:
		return w.sec(x.X, typed)
	case *ast.BinaryExpr:
		return first(w.sec(x.X, typed), w.sec(x.Y, typed))
	case *ast.TypeAssertExpr:
		return w.sec(x.X, typed)
	case *ast.SliceExpr:
		return w.sec(x.X, typed)
	case *ast.KeyValueExpr:
		return w.sec(x.Value, typed)
	case *ast.CompositeLit:
		for _, el := range x.Elts {
			if l := w.sec(el, typed); l != "" {
				return l
			}
		}
		return ""
	case *ast.Ident:
		if l := w.local[x.Name]; l != "" {
			if w.guarded[x.Name] {
				return ""
			}
			return l
		}
		if _, cleared := w.local[x.Name]; cleared {
			return ""
		}
		if l := w.fn.ptaint[x.Name]; l != "" {
			return l
		}
		if typed {
			if t := w.fn.idType[x.Name]; t != nil {
				return w.p.classify(t, w.fn.src.rel, true, 0)
			}
		}
		return ""
	case *ast.SelectorExpr:
		for _, s := range secretNames {
			if x.Sel.Name == s {
				return s
			}
		}
		if x.Sel.Name == "ChannelInput" {
			return "HiddenInput"
		}
		if id, ok := x.X.(*ast.Ident); ok && w.isPkg(id) {
			return ""
		}
		if typed {
			if l := w.p.fieldLabel[x.Sel.Name]; l != "" {
				return l
			}
		}
		return w.sec(x.X, false)
	case *ast.IndexExpr:
		if w.isOpMap(x.X) {
			if lit, ok := x.Index.(*ast.BasicLit); ok && lit.Kind == token.STRING {
				if k, err := strconv.Unquote(lit.Value); err == nil && k != "input" {
					return ""
				}
			}
			return "OnXInput"
		}
		if typed {
			if t, rel := w.p.elemOf(w.typeOf(x.X), w.fn.src.rel); t != nil {
				if l := w.p.classify(t, rel, true, 0); l != "" {
					return l
				}
			}
		}
		return first(w.sec(x.X, false), w.sec(x.Index, false))
	case *ast.CallExpr:
		if id, ok := x.Fun.(*ast.Ident); ok && (id.Name == "len" || id.Name == "cap") {
			return ""
		}
		recv := ""
		pkgQualified := false
		switch f := x.Fun.(type) {
		case *ast.SelectorExpr:
			if id, ok := f.X.(*ast.Ident); ok && w.isPkg(id) {
				pkgQualified = true
			} else {
				recv = w.sec(f.X, false)
			}
		case *ast.Ident, *ast.ArrayType, *ast.ParenExpr, *ast.InterfaceType, *ast.MapType:
			pkgQualified = true // builtin, conversion or plain function
		}
		if rets, known := w.callRets(x); known {
			return first(append(append([]string{}, rets...), recv)...)
		}
		for _, a := range x.Args {
			if l := w.sec(a, typed && pkgQualified); l != "" {
				return l
			}
		}
		return recv
	}
	return ""
}

func (w *evWalk) setLocal(id *ast.Ident, label string, inIf bool) {
	if id == nil || id.Name == "_" {
		return
	}
	if label != "" {
		w.local[id.Name] = label
		w.guarded[id.Name] = false
		return
	}
	if l, was := w.local[id.Name]; was && l != "" {
		if inIf {
			w.guarded[id.Name] = true
		} else {
			w.local[id.Name] = "" // cleared (also shadows a tainted parameter of that name)
		}
		return
	}
	if w.fn.ptaint[id.Name] != "" && !inIf {
		w.local[id.Name] = ""
	}
}

func paramIsEmptyInterface(fd *ast.FuncDecl, idx int) bool {
	i := 0
	for _, fl := range fd.Type.Params.List {
		for range fl.Names {
			if i == idx {
				t := fl.Type
				if el, ok := t.(*ast.Ellipsis); ok {
					t = el.Elt
				}
				return isEmptyInterface(t)
			}
			i++
		}
	}
	return false
}

type evSite struct {
	file    string
	line    int
	kind    string
	tainted []string
}

func (s evSite) lean() string {
	q := make([]string, len(s.tainted))
	for i, t := range s.tainted {
		q[i] = strconv.Quote(t)
	}
	return fmt.Sprintf("⟨%s, %d, %s, [%s]⟩", strconv.Quote(s.file), s.line, strconv.Quote(s.kind), strings.Join(q, ", "))
}

type evOut struct {
	errSites    []evSite
	logSites    []evSite
	errLogSites []evSite
}

func (p *evProg) registerType(f *evFn, names []*ast.Ident, t ast.Expr) {
	for _, n := range names {
		if n.Name != "_" && t != nil {
			f.idType[n.Name] = t
		}
	}
}

// walkFn runs the flow-aware pass over one function: binds callee parameters, computes the
// function's per-result return labels and (when out != nil) records the sites.
func (p *evProg) walkFn(f *evFn, out *evOut) {
	w := &evWalk{p: p, fn: f, imports: map[string]string{}, local: map[string]string{}, guarded: map[string]bool{}}
	for _, im := range f.src.f.Imports {
		path, _ := strconv.Unquote(im.Path.Value)
		name := path[strings.LastIndex(path, "/")+1:]
		if im.Name != nil {
			name = im.Name.Name
		}
		w.imports[name] = path
	}
	fset := f.src.fset
	isErrorMethod := f.decl.Name.Name == "Error" && f.decl.Recv != nil && f.nres == 1
	var stack []ast.Node
	inIf := func() bool {
		for i := len(stack) - 1; i >= 1; i-- {
			if blk, ok := stack[i].(*ast.BlockStmt); ok {
				if ifs, ok := stack[i-1].(*ast.IfStmt); ok && ifs.Body == blk {
					return true
				}
			}
		}
		return false
	}
	// inFuncLit: the node is inside a closure; returned: that (outermost) closure is itself a
	// result of the enclosing function (`return func(d *Driver) error { ... }`)
	inFuncLit := func() (in, returned bool) {
		for i, n := range stack {
			if _, ok := n.(*ast.FuncLit); ok {
				if i > 0 {
					_, returned = stack[i-1].(*ast.ReturnStmt)
				}
				return true, returned
			}
		}
		return false, false
	}
	taintedArgs := func(args []ast.Expr) []string {
		var t []string
		for _, a := range args {
			if w.addressesOnly(a) {
				continue
			}
			if l := w.sec(a, true); l != "" {
				t = append(t, l+":"+exprText(fset, a))
			}
		}
		return t
	}
	setRet := func(i int, l string) {
		if l != "" && i < len(f.ret) && f.ret[i] == "" {
			f.ret[i] = l
			p.changed = true
		}
	}
	ast.Inspect(f.decl.Body, func(n ast.Node) bool {
		if n == nil {
			stack = stack[:len(stack)-1]
			return true
		}
		stack = append(stack, n)
		switch x := n.(type) {
		case *ast.FuncLit:
			for _, fl := range x.Type.Params.List {
				p.registerType(f, fl.Names, fl.Type)
			}
		case *ast.DeclStmt:
			if gd, ok := x.Decl.(*ast.GenDecl); ok && gd.Tok == token.VAR {
				for _, sp := range gd.Specs {
					if vs, ok := sp.(*ast.ValueSpec); ok {
						p.registerType(f, vs.Names, vs.Type)
						for i, nm := range vs.Names {
							if i < len(vs.Values) {
								if vs.Type == nil {
									p.registerType(f, []*ast.Ident{nm}, w.typeOf(vs.Values[i]))
								}
								w.setLocal(nm, w.sec(vs.Values[i], false), inIf())
							}
						}
					}
				}
			}
		case *ast.RangeStmt:
			if t := w.typeOf(x.X); t != nil {
				if el, _ := p.elemOf(t, f.src.rel); el != nil {
					if id, ok := x.Value.(*ast.Ident); ok && x.Tok == token.DEFINE {
						p.registerType(f, []*ast.Ident{id}, el)
					}
				}
			}
			if l := w.sec(x.X, false); l != "" {
				if id, ok := x.Value.(*ast.Ident); ok {
					w.setLocal(id, l, false)
				}
			}
		case *ast.AssignStmt:
			switch {
			case len(x.Lhs) == len(x.Rhs):
				for i := range x.Lhs {
					switch lh := x.Lhs[i].(type) {
					case *ast.Ident:
						if x.Tok == token.DEFINE {
							if t := w.typeOf(x.Rhs[i]); t != nil {
								p.registerType(f, []*ast.Ident{lh}, t)
							}
						}
						w.setLocal(lh, w.sec(x.Rhs[i], false), inIf())
					case *ast.IndexExpr: // x[i] = secret taints x
						if id, ok := lh.X.(*ast.Ident); ok {
							if l := w.sec(x.Rhs[i], false); l != "" {
								w.setLocal(id, l, false)
							}
						}
					}
				}
			case len(x.Rhs) == 1:
				var labels []string
				switch r := x.Rhs[0].(type) {
				case *ast.CallExpr:
					rets, known := w.callRets(r)
					if known {
						labels = rets
						if recv := w.sec(r, false); recv != "" && first(rets...) == "" {
							labels = nil
						}
					}
					if labels == nil {
						l := w.sec(r, false)
						for range x.Lhs {
							labels = append(labels, l)
						}
						// trusted: the error result of a function OUTSIDE the library (standard
						// library, x/crypto, pty) does not echo a secret argument
						if last, ok := x.Lhs[len(x.Lhs)-1].(*ast.Ident); ok && len(x.Lhs) > 1 && !known {
							isErr := last.Name == "err"
							if t, ok := f.idType[last.Name].(*ast.Ident); ok && t.Name == "error" {
								isErr = true
							}
							if isErr && w.outsideLibrary(r) {
								labels[len(labels)-1] = ""
							}
						}
					}
				default: // v, ok := m[k] / x.(T) / <-ch
					labels = []string{w.sec(x.Rhs[0], false)}
				}
				for i, lh := range x.Lhs {
					if id, ok := lh.(*ast.Ident); ok {
						l := ""
						if i < len(labels) {
							l = labels[i]
						}
						w.setLocal(id, l, inIf())
					}
				}
			}
		case *ast.ReturnStmt:
			if in, returned := inFuncLit(); in {
				// the results of a closure that the enclosing function returns are the results of
				// calling that function's result (asGenericOnX returns the on-X closure)
				for _, r := range x.Results {
					if l := w.sec(r, false); l != "" && f.nres == 1 && returned {
						setRet(0, l)
					}
				}
				break
			}
			if len(x.Results) == f.nres {
				for i, r := range x.Results {
					setRet(i, w.sec(r, false))
					if isErrorMethod && out != nil {
						out.errSites = append(out.errSites, evSite{f.src.rel, fset.Position(r.Pos()).Line, "Error()", taintedArgs([]ast.Expr{r})})
					}
				}
			} else if len(x.Results) == 1 {
				if c, ok := x.Results[0].(*ast.CallExpr); ok {
					if rets, known := w.callRets(c); known {
						for i, l := range rets {
							setRet(i, l)
						}
					} else if l := w.sec(c, false); l != "" {
						for i := range f.ret {
							setRet(i, l)
						}
					}
				}
			}
		case *ast.CompositeLit:
			if out != nil && x.Type != nil && p.errorTypes[typeBareName(x.Type)] {
				var vals []ast.Expr
				for _, el := range x.Elts {
					if kv, ok := el.(*ast.KeyValueExpr); ok {
						vals = append(vals, kv.Value)
					} else {
						vals = append(vals, el)
					}
				}
				out.errSites = append(out.errSites, evSite{f.src.rel, fset.Position(x.Pos()).Line, "lit:" + typeBareName(x.Type), taintedArgs(vals)})
			}
		case *ast.CallExpr:
			name := calleeName(x)
			sel, isSel := x.Fun.(*ast.SelectorExpr)
			if !logMethods[name] {
				// bind parameters of every library function of that name
				stdlib := false
				if isSel {
					if id, ok := sel.X.(*ast.Ident); ok && w.isPkg(id) && !w.isLibPkg(id) {
						stdlib = true
					}
				}
				if !stdlib {
					for _, callee := range p.fns[name] {
						for i, a := range x.Args {
							pi := i
							if pi >= len(callee.params) {
								if callee.decl.Type.Params.NumFields() == 0 {
									break
								}
								last := callee.decl.Type.Params.List[len(callee.decl.Type.Params.List)-1]
								if _, variadic := last.Type.(*ast.Ellipsis); !variadic {
									break
								}
								pi = len(callee.params) - 1
							}
							if pi < 0 {
								break
							}
							l := w.sec(a, false)
							if l == "" && paramIsEmptyInterface(callee.decl, pi) {
								// a whole value keeps rendering its fields behind an interface{} parameter;
								// behind a concretely typed parameter the callee's own declaration says so
								l = w.sec(a, true)
							}
							if l != "" && callee.ptaint[callee.params[pi]] == "" {
								callee.ptaint[callee.params[pi]] = l
								p.changed = true
							}
						}
					}
				}
			}
			if out == nil || !isSel {
				break
			}
			line := fset.Position(x.Pos()).Line
			if id, ok := sel.X.(*ast.Ident); ok {
				if (id.Name == "fmt" && name == "Errorf") || (id.Name == "errors" && (name == "New" || name == "Join")) {
					out.errSites = append(out.errSites, evSite{f.src.rel, line, id.Name + "." + name, taintedArgs(x.Args)})
				}
			}
			if logMethods[name] {
				recv := exprText(fset, sel.X)
				if strings.HasSuffix(recv, ".l") || strings.HasSuffix(recv, "Logger") || recv == "l" {
					out.logSites = append(out.logSites, evSite{f.src.rel, line, name, taintedArgs(x.Args)})
					var errs []string
					for _, a := range x.Args {
						txt := exprText(fset, a)
						isErr := txt == "err" || strings.HasSuffix(txt, ".err") || strings.HasSuffix(txt, "Err")
						if t, ok := w.typeOf(a).(*ast.Ident); ok && t.Name == "error" {
							isErr = true
						}
						if isErr {
							errs = append(errs, txt)
						}
					}
					if len(errs) > 0 {
						out.errLogSites = append(out.errLogSites, evSite{f.src.rel, line, name, errs})
					}
				}
			}
		}
		return true
	})
}

func buildEvProg(srcs []srcFile) *evProg {
	p := &evProg{fns: map[string][]*evFn{}, typeDecls: map[string][]evTypeDecl{}, fieldType: map[string][]evTypeDecl{},
		fieldLabel: map[string]string{}, errorTypes: map[string]bool{}}
	for _, s := range srcs {
		for _, d := range s.f.Decls {
			switch x := d.(type) {
			case *ast.GenDecl:
				if x.Tok != token.TYPE {
					continue
				}
				for _, sp := range x.Specs {
					ts := sp.(*ast.TypeSpec)
					p.typeDecls[ts.Name.Name] = append(p.typeDecls[ts.Name.Name], evTypeDecl{s.rel, ts.Type})
					if st, ok := ts.Type.(*ast.StructType); ok {
						for _, fl := range st.Fields.List {
							names := fl.Names
							if len(names) == 0 { // embedded
								names = []*ast.Ident{{Name: typeBareName(fl.Type)}}
							}
							for _, n := range names {
								p.fieldType[n.Name] = append(p.fieldType[n.Name], evTypeDecl{s.rel, fl.Type})
							}
						}
					}
				}
			case *ast.FuncDecl:
				if x.Body == nil {
					continue
				}
				f := &evFn{decl: x, src: s, idType: map[string]ast.Expr{}, ptaint: map[string]string{}}
				if x.Recv != nil {
					for _, fl := range x.Recv.List {
						p.registerType(f, fl.Names, fl.Type)
						if x.Name.Name == "Error" && x.Type.Results != nil && len(x.Type.Results.List) == 1 {
							p.errorTypes[typeBareName(fl.Type)] = true
						}
					}
				}
				for _, fl := range x.Type.Params.List {
					p.registerType(f, fl.Names, fl.Type)
					for _, n := range fl.Names {
						f.params = append(f.params, n.Name)
					}
				}
				if x.Type.Results != nil {
					for _, fl := range x.Type.Results.List {
						p.registerType(f, fl.Names, fl.Type)
						if len(fl.Names) == 0 {
							f.nres++
						} else {
							f.nres += len(fl.Names)
						}
					}
				}
				f.ret = make([]string, f.nres)
				p.fns[x.Name.Name] = append(p.fns[x.Name.Name], f)
			}
		}
	}
	for name, ds := range p.fieldType {
		for _, d := range ds {
			if l := p.classify(d.t, d.rel, true, 0); l != "" && p.fieldLabel[name] == "" {
				p.fieldLabel[name] = l
			}
		}
	}
	return p
}

// genErrSites returns the Lean text of the error-site tables (appended to Generated/LogSites.lean)
func genErrSites(srcs []srcFile) string {
	p := buildEvProg(srcs)
	var all []*evFn
	for _, s := range srcs { // deterministic order: by file, then declaration order
		for _, d := range s.f.Decls {
			if fd, ok := d.(*ast.FuncDecl); ok && fd.Body != nil {
				for _, f := range p.fns[fd.Name.Name] {
					if f.decl == fd {
						all = append(all, f)
					}
				}
			}
		}
	}
	for rounds := 0; rounds < 12; rounds++ {
		p.changed = false
		for _, f := range all {
			p.walkFn(f, nil)
		}
		if !p.changed {
			break
		}
	}
	if os.Getenv("C11_DEBUG") != "" {
		for _, f := range all {
			if first(f.ret...) != "" || len(f.ptaint) > 0 {
				fmt.Fprintf(os.Stderr, "%s:%s ret=%v params=%v\n", f.src.rel, f.decl.Name.Name, f.ret, f.ptaint)
			}
		}
	}
	out := &evOut{}
	for _, f := range all {
		p.walkFn(f, out)
	}
	join := func(ss []evSite) string {
		l := make([]string, len(ss))
		for i, s := range ss {
			l[i] = s.lean()
		}
		return strings.Join(l, ",\n  ")
	}
	var b strings.Builder
	b.WriteString("/-- a site (error construction or logger call): file, line, kind (fmt.Errorf, errors.New, Error() = result of an Error method, lit:T = literal of error type T; for logger calls the method), and the arguments classified secret-bearing as `label:expression` (labels: a credential name, HiddenInput, OnXInput; rule in go/cmd/extract/gen_c11_errs.go) -/\nstructure SecSite where\n  file : String\n  line : Nat\n  kind : String\n  tainted : List String\n  deriving Repr, DecidableEq\n\n")
	b.WriteString("/-- every error construction site of every non-test package -/\ndef errSites : List SecSite := [\n  " + join(out.errSites) + "]\n\n")
	b.WriteString("/-- every logger call again, under the extended (error-value) rule -/\ndef logSitesExt : List SecSite := [\n  " + join(out.logSites) + "]\n\n")
	b.WriteString("/-- the logger calls that take an error value (tainted = the error-typed arguments): this is how the text of an error reaches the user's logger -/\ndef errLogSites : List SecSite := [\n  " + join(out.errLogSites) + "]\n\n")
	return b.String()
}
