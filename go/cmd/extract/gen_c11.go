package main

import (
	"bytes"
	"fmt"
	"go/ast"
	"go/printer"
	"go/token"
	"os"
	"path/filepath"
	"sort"
	"strconv"
	"strings"
)

func init() { extraGenerators["LogSites.lean"] = genLogSites }

// Syntactic taint rule (trusted base of C11, documented in DESIGN.md):
// an expression is `credential` when its source text mentions one of the secret-holding names
// (Password, PrivateKeyPassPhrase, AuthSecondary), or a function parameter that some call site
// binds to a credential expression (propagated to a fixpoint, matching callees by name).
var secretNames = []string{"Password", "PrivateKeyPassPhrase", "AuthSecondary"}

var logMethods = map[string]bool{"Debug": true, "Debugf": true, "Info": true, "Infof": true,
	"Critical": true, "Criticalf": true, "Emit": true}

type srcFile struct {
	rel  string
	fset *token.FileSet
	f    *ast.File
}

func allSources() []srcFile {
	var out []srcFile
	root := *repo
	filepath.Walk(root, func(p string, info os.FileInfo, err error) error {
		if err != nil {
			return nil
		}
		rel, _ := filepath.Rel(root, p)
		if info.IsDir() {
			if rel == "examples" || rel == ".git" || strings.HasPrefix(rel, "assets") || rel == "logging" {
				return filepath.SkipDir
			}
			return nil
		}
		if !strings.HasSuffix(p, ".go") || strings.HasSuffix(p, "_test.go") || strings.HasPrefix(info.Name(), "zz_verif") {
			return nil
		}
		fset := token.NewFileSet()
		f, err := parserParse(fset, p)
		if err == nil {
			out = append(out, srcFile{rel, fset, f})
		}
		return nil
	})
	sort.Slice(out, func(i, j int) bool { return out[i].rel < out[j].rel })
	return out
}

func exprText(fset *token.FileSet, e ast.Expr) string {
	var b bytes.Buffer
	printer.Fprint(&b, fset, e)
	return strings.Join(strings.Fields(b.String()), " ")
}

// taintOf returns the credential name an expression carries, or "".
func taintOf(fset *token.FileSet, e ast.Expr, params map[string]string) string {
	found := ""
	ast.Inspect(e, func(n ast.Node) bool {
		switch x := n.(type) {
		case *ast.SelectorExpr:
			for _, s := range secretNames {
				if x.Sel.Name == s {
					found = s
				}
			}
		case *ast.Ident:
			if t, ok := params[x.Name]; ok && found == "" {
				found = t
			}
		}
		return found == ""
	})
	return found
}

func calleeName(c *ast.CallExpr) string {
	switch f := c.Fun.(type) {
	case *ast.Ident:
		return f.Name
	case *ast.SelectorExpr:
		return f.Sel.Name
	}
	return ""
}

func genLogSites() string {
	srcs := allSources()
	// function name -> param names; param taint fixpoint
	type fn struct {
		params []string
		decl   *ast.FuncDecl
		src    srcFile
	}
	fns := map[string][]*fn{}
	for _, s := range srcs {
		for _, d := range s.f.Decls {
			fd, ok := d.(*ast.FuncDecl)
			if !ok || fd.Body == nil {
				continue
			}
			x := &fn{decl: fd, src: s}
			for _, fl := range fd.Type.Params.List {
				for _, n := range fl.Names {
					x.params = append(x.params, n.Name)
				}
			}
			fns[fd.Name.Name] = append(fns[fd.Name.Name], x)
		}
	}
	taint := map[*ast.FuncDecl]map[string]string{}
	for _, l := range fns {
		for _, f := range l {
			taint[f.decl] = map[string]string{}
		}
	}
	for changed, rounds := true, 0; changed && rounds < 10; rounds++ {
		changed = false
		for _, l := range fns {
			for _, caller := range l {
				ast.Inspect(caller.decl.Body, func(n ast.Node) bool {
					c, ok := n.(*ast.CallExpr)
					if !ok {
						return true
					}
					name := calleeName(c)
					if logMethods[name] {
						return true // sinks, not propagation
					}
					for _, callee := range fns[name] {
						for i, a := range c.Args {
							if i >= len(callee.params) {
								break
							}
							if t := taintOf(caller.src.fset, a, taint[caller.decl]); t != "" {
								if taint[callee.decl][callee.params[i]] == "" {
									taint[callee.decl][callee.params[i]] = t
									changed = true
								}
							}
						}
					}
					return true
				})
			}
		}
	}
	var logs, writes, events, argv []string
	nlog := 0
	for _, l := range fns {
		_ = l
	}
	for _, s := range srcs {
		for _, d := range s.f.Decls {
			fd, ok := d.(*ast.FuncDecl)
			if !ok || fd.Body == nil {
				continue
			}
			params := taint[fd]
			if fd.Name.Name == "buildOpenArgs" {
				ast.Inspect(fd.Body, func(n ast.Node) bool {
					if sel, ok := n.(*ast.SelectorExpr); ok {
						for _, sn := range secretNames {
							if sel.Sel.Name == sn {
								argv = append(argv, strconv.Quote(sn))
							}
						}
					}
					return true
				})
			}
			// flow-aware local taint: a local assigned from a credential is tainted; an assignment of
			// something clean inside an `if` (the redaction idiom `if r { lm = redacted }`) marks it
			// guarded from there on; an unconditional clean assignment clears it.
			local := map[string]string{}
			guarded := map[string]bool{}
			var stack []ast.Node
			inIf := func() bool {
				for i := len(stack) - 1; i >= 1; i-- {
					if blk, ok := stack[i].(*ast.BlockStmt); ok {
						if ifs, ok := stack[i-1].(*ast.IfStmt); ok && (ifs.Body == blk) {
							return true
						}
					}
				}
				return false
			}
			argTaint := func(e ast.Expr) string {
				if t := taintOf(s.fset, e, params); t != "" {
					return t
				}
				found := ""
				ast.Inspect(e, func(n ast.Node) bool {
					if id, ok := n.(*ast.Ident); ok {
						if t, ok := local[id.Name]; ok && !guarded[id.Name] && found == "" {
							found = t
						}
					}
					return found == ""
				})
				return found
			}
			ast.Inspect(fd.Body, func(n ast.Node) bool {
				if n == nil {
					stack = stack[:len(stack)-1]
					return true
				}
				stack = append(stack, n)
				switch x := n.(type) {
				case *ast.AssignStmt:
					if len(x.Lhs) == 1 && len(x.Rhs) == 1 {
						if id, ok := x.Lhs[0].(*ast.Ident); ok {
							if t := argTaint(x.Rhs[0]); t != "" {
								local[id.Name] = t
								guarded[id.Name] = false
							} else if _, was := local[id.Name]; was {
								if inIf() {
									guarded[id.Name] = true
								} else {
									delete(local, id.Name)
								}
							}
						}
					}
				case *ast.CallExpr:
					name := calleeName(x)
					line := s.fset.Position(x.Pos()).Line
					sel, isSel := x.Fun.(*ast.SelectorExpr)
					if isSel && logMethods[name] {
						recv := exprText(s.fset, sel.X)
						if strings.HasSuffix(recv, ".l") || strings.HasSuffix(recv, "Logger") || recv == "l" {
							var t []string
							for _, a := range x.Args {
								if tt := argTaint(a); tt != "" {
									t = append(t, strconv.Quote(tt+":"+exprText(s.fset, a)))
								}
							}
							nlog++
							logs = append(logs, fmt.Sprintf("⟨%s, %d, %s, [%s]⟩", strconv.Quote(s.rel), line, strconv.Quote(name), strings.Join(t, ", ")))
						}
					}
					if isSel && (name == "Write" || name == "WriteAndReturn") && len(x.Args) == 2 {
						dt := argTaint(x.Args[0])
						red := exprText(s.fset, x.Args[1])
						kind := "expr"
						switch {
						case red == "true" || red == "false":
							kind = red
						default:
							if id, ok := x.Args[1].(*ast.Ident); ok {
								for _, fl := range fd.Type.Params.List {
									for _, pn := range fl.Names {
										if pn.Name == id.Name {
											kind = "param"
										}
									}
								}
							}
						}
						writes = append(writes, fmt.Sprintf("⟨%s, %d, %s, %s, %s, %s⟩", strconv.Quote(s.rel), line, strconv.Quote(name), strconv.Quote(dt), strconv.Quote(red), strconv.Quote(kind)))
					}
				case *ast.CompositeLit:
					isEvent := false
					for _, el := range x.Elts {
						if kv, ok := el.(*ast.KeyValueExpr); ok {
							if id, ok := kv.Key.(*ast.Ident); ok && id.Name == "ChannelInput" {
								isEvent = true
							}
						}
					}
					if isEvent {
						in, hide := "", "false"
						for _, el := range x.Elts {
							if kv, ok := el.(*ast.KeyValueExpr); ok {
								switch exprText(s.fset, kv.Key) {
								case "ChannelInput":
									in = argTaint(kv.Value)
								case "HideInput":
									hide = exprText(s.fset, kv.Value)
								}
							}
						}
						events = append(events, fmt.Sprintf("⟨%s, %d, %s, %s⟩", strconv.Quote(s.rel), s.fset.Position(x.Pos()).Line, strconv.Quote(in), strconv.Quote(hide)))
					}
				}
				return true
			})
		}
	}
	var b strings.Builder
	b.WriteString("-- GENERATED by go/cmd/extract from /repo's working tree; do not edit.\n")
	b.WriteString("namespace Scrapli.Gen.Logs\n\n")
	b.WriteString("/-- a logger call: file, line, method, credential-classified arguments (must be empty) -/\nstructure LogSite where\n  file : String\n  line : Nat\n  method : String\n  tainted : List String\n  deriving Repr, DecidableEq\n\n")
	b.WriteString("/-- a channel Write / WriteAndReturn call: credential carried by the data (\"\" = none) and the redaction argument as written; redactKind is true, false, param (the flag parameter of the enclosing function, forwarded) or expr -/\nstructure WriteSite where\n  file : String\n  line : Nat\n  fn : String\n  dataTaint : String\n  redact : String\n  redactKind : String\n  deriving Repr, DecidableEq\n\n")
	b.WriteString("/-- a SendInteractiveEvent literal: credential carried by ChannelInput (\"\" = none) and its HideInput value -/\nstructure EventLit where\n  file : String\n  line : Nat\n  inputTaint : String\n  hide : String\n  deriving Repr, DecidableEq\n\n")
	b.WriteString("def logSites : List LogSite := [\n  " + strings.Join(logs, ",\n  ") + "]\n\n")
	b.WriteString("def writeSites : List WriteSite := [\n  " + strings.Join(writes, ",\n  ") + "]\n\n")
	b.WriteString("def eventLits : List EventLit := [\n  " + strings.Join(events, ",\n  ") + "]\n\n")
	b.WriteString("/-- credential selectors mentioned inside the system transport's argv builder (must be empty) -/\ndef argvBuilderMentions : List String := [" + strings.Join(argv, ", ") + "]\n\n")
	b.WriteString(genErrSites(srcs))
	b.WriteString("end Scrapli.Gen.Logs\n")
	return b.String()
}
