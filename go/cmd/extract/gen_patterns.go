package main

import "verifgo/facts"

func init() { extraGenerators["Patterns.lean"] = facts.GenPatterns }

// PatternToLean renders a Go regexp source as a Lean `Rx.Re` term (ok=false: does not parse).
func PatternToLean(src string) (string, bool) { return facts.PatternToLean(src) }
