package main

// Translator part "bodies": function bodies rendered from the source by go/facts/gobody.go (see
// its header for the accepted Go subset). One generated file per owning property, so that a change
// in one package only re-checks the properties that model it. For every function below the
// property file proves `generated_<fn>_eq`: translated body = hand-written model, for all inputs.

import "verifgo/facts"

func init() {
	for name, f := range bodyFiles {
		f := f
		f.GeneratedBy = "gen_bodies.go"
		extraGenerators[name] = func() string { return facts.GenBodies(f) }
	}
}

// util.Queue, one caller at a time (the `Seq` layer of ScrapliModel/Queue.lean): the struct is the
// four state variables queue / depth / token (content of the 1-slot depthChan) / locked; blocking
// for ever (Lock on a held lock, receive from the empty channel, send to the full one) and an index
// out of range are the two faults.
var queueState = []facts.StateVar{
	{Key: "recv.queue", Lean: "queue", Ty: "list"},
	{Key: "recv.depth", Lean: "depth", Ty: "int"},
	{Key: "«content of recv.depthChan»", Lean: "token", Ty: "opaque:Option Int"},
	{Key: "«recv.lock held»", Lean: "locked", Ty: "bool"},
}

var queueFail = &facts.FailMode{Ty: "Scrapli.Queue.Fault", Panic: ".error Scrapli.Queue.Fault.panic"}

var queueLock = facts.Step{Pre: []string{"if locked then .error Scrapli.Queue.Fault.deadlock else", "let locked := true"}}

var queueSteps = map[string]facts.Step{
	"recv.lock.Lock()":          queueLock,
	"recv.lock.RLock()":         queueLock,
	"defer recv.lock.Unlock()":  {Defer: true, Pre: []string{"let locked := false"}},
	"defer recv.lock.RUnlock()": {Defer: true, Pre: []string{"let locked := false"}},
	"<-recv.depthChan": {Pre: []string{"match token with", "| none => .error Scrapli.Queue.Fault.deadlock", "| some _ => (",
		"let token : Option Int := none"}, Post: ")"},
	"%v := <-recv.depthChan": {BindTy: "int", Pre: []string{"match token with", "| none => .error Scrapli.Queue.Fault.deadlock",
		"| some %v => (", "let token : Option Int := none"}, Post: ")"},
	"recv.depthChan <- %0": {ArgTy: "int", Pre: []string{"match token with", "| some _ => .error Scrapli.Queue.Fault.deadlock",
		"| none => (", "let token : Option Int := some %0"}, Post: ")"},
	"%v := recv.getDepth()": {BindTy: "int", Pre: []string{"match getDepthTok queue depth token locked with", "| .error e => .error e",
		"| .ok (%v, queue, depth, token, locked) => ("}, Post: ")"},
}

func queueFn(goName, lean string) *facts.FnSpec {
	return &facts.FnSpec{Dir: "util", Recv: "Queue", Name: goName, Lean: lean, State: queueState, Steps: queueSteps,
		Fail: queueFail, NilResult: true,
		Doc: "State: `queue`, `depth`, `token` = content of `depthChan`, `locked` = the mutex is held."}
}

// channel/read.go: the ReadUntil* loops over an event list (ScrapliModel/ChannelEv.lean). The two
// external steps of an iteration — the non-blocking poll of ctx.Done() and c.Read() — are templated
// steps over the head event; time.Sleep is a no-op; everything else is ordinary subset code.
func readUntilFn(goName, lean string, extraBinders, extraArgs string, skip []string, extraFuncs map[string]facts.LibFn,
	extraVals map[string]facts.Val, captures []string) *facts.FnSpec {
	f := &facts.FnSpec{Dir: "channel", Recv: "Channel", Name: goName, Lean: lean,
		Doc: "`evs` = the events this call may consume (state: what is left of them); `cfg.depth` = `c.PromptSearchDepth`, " +
			"`cfg.promptP` = `c.PromptPattern.Match`. Out of events = `none`.",
		Binders: "(cfg : Chan.Cfg)" + extraBinders, BinderArgs: "cfg" + extraArgs,
		SkipParams: append([]string{"ctx"}, skip...), Partial: true, InlineInvariant: true, Captures: captures,
		Vals: map[string]facts.Val{
			"recv.PromptSearchDepth": {Lean: "((cfg.depth : Nat) : Int)", Ty: "int"},
			"nb == nil":              {Lean: "nbNil", Ty: "bool"},
		},
		Funcs: map[string]facts.LibFn{
			"processReadBuf": {Args: []string{"bytes", "int"}, Ret: []string{"bytes"}, Partial: true,
				Tmpl: "(Gen.Bodies.Channel.processReadBuf %0 %1)"},
			"getProcessReadBufSearchDepth": {Args: []string{"int", "int"}, Ret: []string{"int"},
				Tmpl: "(Gen.Bodies.Channel.getProcessReadBufSearchDepth %0 %1)"},
			"util.BytesRoughlyContains": {Args: []string{"bytes", "bytes"}, Ret: []string{"bool"}, Partial: true,
				Tmpl: "(Gen.Bodies.Util.bytesRoughlyContains %0 %1)"},
			"recv.PromptPattern.Match": {Args: []string{"bytes"}, Ret: []string{"bool"}, Tmpl: "(cfg.promptP %0)"},
		},
		Steps: map[string]facts.Step{
			"select <-ctx.Done() => return nil, ctx.Err() | default =>": {Assigns: []string{"evs"}, Pre: []string{
				"match evs with", "| [] => %PANIC", "| ev :: evs => (",
				"if ev.isCancelled then %RETURN{([] : Bytes); (some \"ctx.Err()\" : Go.Error)} else"}, Post: ")"},
			"%v0, %v1 := recv.Read()":   {BindTys: []string{"bytes", "error"}, Pre: []string{"let (%v0, nbNil, %v1) := Chan.Ev.read ev"}, Assigns: []string{}},
			"time.Sleep(recv.ReadDelay)": {},
		},
		State: []facts.StateVar{{Key: "«events»", Lean: "evs", Ty: "opaque:List Chan.Ev"}},
	}
	for k, v := range extraFuncs {
		f.Funcs[k] = v
	}
	for k, v := range extraVals {
		f.Vals[k] = v
	}
	return f
}

// channel/getprompt.go, channel/sendinput.go: operations = one synchronous goroutine over the read
// loops (ScrapliModel/ChannelOpsEv.lean: phases / writes / wfaults).
var opState = []facts.StateVar{
	{Key: "«read phases»", Lean: "phases", Ty: "opaque:List (List Chan.Ev)"},
	{Key: "«write log»", Lean: "writes", Ty: "list"},
	{Key: "«write outcomes»", Lean: "wfaults", Ty: "opaque:List (Option String)"},
}

func opWrite(arg string, argTys []string) facts.ECall {
	return facts.ECall{ArgTys: argTys, Ret: []string{"error"}, Assigns: []string{"writes", "wfaults"}, Pre: []string{
		"let writes := writes ++ [" + arg + "]",
		"let %r0 : Go.Error := (Chan.popFault wfaults).1",
		"let wfaults := (Chan.popFault wfaults).2"}}
}

// opRead: one ReadUntil* call = the translated loop `fn` on the next phase; what it leaves goes back to the queue
func opRead(fn string, argTys []string) facts.ECall {
	return facts.ECall{ArgTys: argTys, Ret: []string{"bytes", "error"}, Assigns: []string{"phases"}, Pre: []string{
		"match " + fn + " with",
		"| none => %PANIC",
		"| some (%r0, %r1, evsLeft) => (",
		"let phases := Chan.pushBack evsLeft (Chan.popPhase phases).2"}, Post: ")"}
}

func opFn(file, goName, lean, binders, binderArgs, doc string) *facts.FnSpec {
	return &facts.FnSpec{Dir: "channel", Recv: "Channel", Name: goName, Lean: lean, Doc: doc,
		Binders: "(fuel : Nat) (cfg : Chan.Cfg)" + binders, BinderArgs: "fuel cfg" + binderArgs,
		Partial: true, State: opState,
		Go:          &facts.GoIdiom{ResultType: "result", Fields: map[string]string{"b": "bytes", "err": "error"}},
		IgnoreCalls: []string{"recv.l."},
		Vals: map[string]facts.Val{
			"r.b":     {Lean: "r_b", Ty: "bytes"},
			"r.err":   {Lean: "r_err", Ty: "error"},
			"errors.Is(r.err, context.DeadlineExceeded)": {Lean: "(r_err == some Chan.cancelErr)", Ty: "bool"},
		},
		Funcs: map[string]facts.LibFn{},
		Steps: map[string]facts.Step{"defer cancel()": {Defer: true}},
		ECalls: map[string]facts.ECall{
			"recv.WriteReturn": opWrite("cfg.ret", []string{}),
			"recv.ReadUntilPrompt": opRead("Gen.Bodies.Read.readUntilPrompt fuel cfg (Chan.popPhase phases).1", []string{"skip"}),
		},
	}
}

var bodyFiles = map[string]*facts.BodyFile{
	// C01 (C05, C12): channel/getprompt.go, channel/sendinput.go
	"BodiesOps.lean": {
		Imports:   []string{"ScrapliModel.ChannelOpsEv", "ScrapliModel.Generated.BodiesRead"},
		Namespace: "Scrapli.Gen.Bodies.Ops",
		Fns: []*facts.FnSpec{
			func() *facts.FnSpec {
				f := opFn("", "GetPrompt", "getPrompt", " (findP : Bytes → Bytes)", " findP",
					"`findP` = `c.PromptPattern.Find`; state: the read phases still to come, the write log, the write outcomes. "+
						"The goroutine + result channel is the synchronous-goroutine idiom (see go/facts/gobody.go, GoIdiom: trusted).")
				f.Funcs["recv.PromptPattern.Find"] = facts.LibFn{Args: []string{"bytes"}, Ret: []string{"bytes"}, Tmpl: "(findP %0)"}
				f.Steps["%v0, %v1 := context.WithTimeout(context.Background(), recv.TimeoutOps)"] = facts.Step{BindTys: []string{"unit", "unit"}}
				return f
			}(),
			func() *facts.FnSpec {
				f := opFn("", "SendInputB", "sendInputB",
					" (opErr : Go.Error) (opExact opEager opStrip : Bool) (opInterim : List (Bytes → Bool))",
					" opErr opExact opEager opStrip opInterim",
					"`opErr` / `opExact` … = what `NewOperation(opts...)` returned; state: the read phases still to come, the write log, "+
						"the write outcomes. `readUntilF` holds the name of the method it was assigned. The goroutine + result channel is "+
						"the synchronous-goroutine idiom (see go/facts/gobody.go, GoIdiom: trusted).")
				f.SkipParams = []string{"opts"}
				f.Captures = []string{"readUntilF"}
				f.Vals["op.ExactMatchInput"] = facts.Val{Lean: "opExact", Ty: "bool"}
				f.Vals["op.Eager"] = facts.Val{Lean: "opEager", Ty: "bool"}
				f.Vals["op.StripPrompt"] = facts.Val{Lean: "opStrip", Ty: "bool"}
				f.Vals["len(op.InterimPromptPatterns) == 0"] = facts.Val{Lean: "opInterim.isEmpty", Ty: "bool"}
				f.Vals["op.InterimPromptPatterns"] = facts.Val{Lean: "opInterim", Ty: "olist:Bytes → Bool"}
				f.Vals["[]*regexp.Regexp{recv.PromptPattern}"] = facts.Val{Lean: "[cfg.promptP]", Ty: "olist:Bytes → Bool"}
				f.Vals["recv.ReadUntilFuzzy"] = facts.Val{Lean: "\"ReadUntilFuzzy\"", Ty: "opaque:String"}
				f.Vals["recv.ReadUntilExplicit"] = facts.Val{Lean: "\"ReadUntilExplicit\"", Ty: "opaque:String"}
				f.Funcs["recv.processOut"] = facts.LibFn{Args: []string{"bytes", "bool"}, Ret: []string{"bytes"}, Partial: true,
					Tmpl: "(Gen.Bodies.Channel.processOut cfg.ret cfg.stripP %0 %1)"}
				f.Steps["%v0, %v1 := context.WithTimeout(context.Background(), recv.GetTimeout(op.Timeout))"] = facts.Step{BindTys: []string{"unit", "unit"}}
				f.ECalls["NewOperation"] = facts.ECall{ArgTys: []string{"skip"}, Ret: []string{"unit", "error"}, Assigns: []string{},
					Pre: []string{"let %r0 := ()", "let %r1 : Go.Error := opErr"}}
				f.ECalls["recv.Write"] = opWrite("%0", []string{"bytes", "skip"})
				f.ECalls["readUntilF"] = opRead("(if readUntilF == \"ReadUntilExplicit\" then Gen.Bodies.Read.readUntilExplicit fuel cfg (Chan.popPhase phases).1 %1 "+
					"else Gen.Bodies.Read.readUntilFuzzy fuel cfg (Chan.popPhase phases).1 %1)", []string{"skip", "bytes"})
				f.ECalls["recv.ReadUntilAnyPrompt"] = opRead("Gen.Bodies.Read.readUntilAnyPrompt fuel cfg %1 (Chan.popPhase phases).1", []string{"skip", "olist:Bytes → Bool"})
				return f
			}(),
		},
	},
	// C01 (C05, C12): channel/read.go ReadUntil*
	"BodiesRead.lean": {
		Imports:   []string{"ScrapliModel.ChannelEv", "ScrapliModel.Generated.BodiesChannel", "ScrapliModel.Generated.BodiesUtil"},
		Namespace: "Scrapli.Gen.Bodies.Read",
		Fns: []*facts.FnSpec{
			readUntilFn("ReadUntilFuzzy", "readUntilFuzzy", "", "", nil, nil, nil, nil),
			readUntilFn("ReadUntilExplicit", "readUntilExplicit", "", "", nil, nil, nil, nil),
			readUntilFn("ReadUntilPrompt", "readUntilPrompt", "", "", nil, nil, nil, nil),
			readUntilFn("ReadUntilAnyPrompt", "readUntilAnyPrompt", " (prompts : List (Bytes → Bool))", " prompts", []string{"prompts"},
				map[string]facts.LibFn{"p.Match": {Args: []string{"bytes"}, Ret: []string{"bool"}, Tmpl: "(p %0)"}},
				map[string]facts.Val{"prompts": {Lean: "prompts", Ty: "olist:Bytes → Bool"}}, []string{"p"}),
		},
	},
	// C20: util/queue.go
	"BodiesQueue.lean": {
		Imports:   []string{"ScrapliModel.Queue"},
		Namespace: "Scrapli.Gen.Bodies.QueueSeq",
		Fns: []*facts.FnSpec{
			queueFn("getDepth", "getDepthTok"),
			queueFn("Requeue", "requeue"),
			queueFn("Enqueue", "enqueue"),
			queueFn("Dequeue", "dequeue"),
			queueFn("DequeueAll", "dequeueAll"),
			queueFn("GetDepth", "getDepth"),
		},
	},
	// C01: channel/read.go
	"BodiesChannel.lean": {
		Imports:   []string{"ScrapliModel.Channel"},
		Namespace: "Scrapli.Gen.Bodies.Channel",
		Fns: []*facts.FnSpec{
			{Dir: "channel", Name: "getProcessReadBufSearchDepth", Lean: "getProcessReadBufSearchDepth"},
			{Dir: "channel", Name: "processReadBuf", Lean: "processReadBuf"},
			{Dir: "channel", Recv: "Channel", Name: "processOut", Lean: "processOut",
				Doc: "`ret` = `c.ReturnChar`, `stripP` = `c.PromptPattern.ReplaceAll(·, nil)`.",
				Binders: "(ret : Bytes) (stripP : Bytes → Bytes)",
				Vals:    map[string]facts.Val{"recv.ReturnChar": {Lean: "ret", Ty: "bytes"}},
				Funcs: map[string]facts.LibFn{
					"recv.PromptPattern.ReplaceAll": {Args: []string{"bytes", "bytes"}, Ret: []string{"bytes"},
						Lits: map[int]string{1: ""}, Tmpl: "(stripP %0)"},
				}},
		},
	},
	// C01: util/bytes.go
	"BodiesUtil.lean": {
		Imports:   []string{"ScrapliModel.Bytes"},
		Namespace: "Scrapli.Gen.Bodies.Util",
		Fns: []*facts.FnSpec{
			{Dir: "util", Name: "bytesRoughlyContainsIterOutputForInputChar", Lean: "bytesRoughlyContainsIterOutputForInputChar"},
			{Dir: "util", Name: "BytesRoughlyContains", Lean: "bytesRoughlyContains",
				Funcs: map[string]facts.LibFn{
					"bytesRoughlyContainsIterOutputForInputChar": {Args: []string{"byte", "bytes"}, Ret: []string{"bool", "bytes"},
						Tmpl: "(bytesRoughlyContainsIterOutputForInputChar %0 %1)", Partial: true},
				}},
		},
	},
	// C02: response/netconf.go
	"BodiesResponse.lean": {
		Imports:   []string{"ScrapliModel.Bytes"},
		Namespace: "Scrapli.Gen.Bodies.Response",
		Fns: []*facts.FnSpec{
			{Dir: "util", Name: "ByteContainsAny", Lean: "byteContainsAny"},
			{Dir: "response", Recv: "NetconfResponse", Name: "record1dot0", Lean: "record1dot0",
				Doc:     "`raw` = `r.RawResult`; state: `result` = `r.Result`.",
				Binders: "(raw : Bytes)",
				Vals:    map[string]facts.Val{"recv.RawResult": {Lean: "raw", Ty: "bytes"}},
				State:   []facts.StateVar{{Key: "recv.Result", Lean: "result", Ty: "bytes"}}},
			{Dir: "response", Recv: "NetconfResponse", Name: "record1dot1Chunks", Lean: "record1dot1Chunks",
				Doc: "`raw` = `r.RawResult`; state: `result` = `r.Result`. Every `errNetconf1Dot1ParseError(…)` is " +
					"`some \"errNetconf1Dot1Error\"` (the message is not modelled).",
				Binders: "(raw : Bytes)", BinderArgs: "raw",
				Vals:    map[string]facts.Val{"recv.RawResult": {Lean: "raw", Ty: "bytes"}},
				Funcs: map[string]facts.LibFn{
					"errNetconf1Dot1ParseError": {AnyArgs: true, Ret: []string{"error"}, Tmpl: "(some \"errNetconf1Dot1Error\" : Go.Error)"},
				},
				State: []facts.StateVar{{Key: "recv.Result", Lean: "result", Ty: "bytes"}}},
			{Dir: "response", Recv: "NetconfResponse", Name: "record1dot1", Lean: "record1dot1",
				Doc: "`input` = `r.Input`, `errText` = `error.Error`; state: `result` = `r.Result`, `failed` = `r.Failed` " +
					"(`*OperationError` as the triple input / output / error string).",
				Binders: "(fuel : Nat) (errText : Go.Error → Bytes) (input raw : Bytes)", BinderArgs: "fuel errText input raw",
				Partial: true,
				Vals:    map[string]facts.Val{"recv.Input": {Lean: "input", Ty: "bytes"}},
				Funcs:   map[string]facts.LibFn{"err.Error": {Args: []string{}, Ret: []string{"bytes"}, Tmpl: "(errText err)"}},
				Steps: map[string]facts.Step{
					"%v := recv.record1dot1Chunks()": {BindTy: "error", Pre: []string{"match record1dot1Chunks fuel raw result with",
						"| none => none", "| some (%v, result) => ("}, Post: ")"},
				},
				Structs: map[string]facts.StructLit{
					"&OperationError": {Fields: map[string]string{"Input": "bytes", "Output": "bytes", "ErrorString": "bytes"},
						Tmpl: "(some (%Input, %Output, %ErrorString))", Ty: "opaque:Option (Bytes × Bytes × Bytes)"},
				},
				State: []facts.StateVar{
					{Key: "recv.Result", Lean: "result", Ty: "bytes"},
					{Key: "recv.Failed", Lean: "failed", Ty: "opaque:Option (Bytes × Bytes × Bytes)"},
				}},
			{Dir: "response", Recv: "NetconfResponse", Name: "Record", Lean: "record",
				Doc: "`input` = `r.Input`, `fwc` = `r.FailedWhenContains`, `version` = `r.NetconfVersion`, `findErr` / `findAllErr` = " +
					"`rpcErrors.Find` / `rpcSingleErrors.FindAll(·, -1)`; state: raw / result / failed and the two message lists. " +
					"The two time stamps are not modelled.",
				Binders: "(fuel : Nat) (errText : Go.Error → Bytes) (input : Bytes) (fwc : List Bytes) (version : Bytes) " +
					"(findErr : Bytes → Bytes) (findAllErr : Bytes → List Bytes)",
				BinderArgs: "fuel errText input fwc version findErr findAllErr",
				Partial:    true,
				Vals: map[string]facts.Val{
					"recv.Input":              {Lean: "input", Ty: "bytes"},
					"recv.FailedWhenContains": {Lean: "fwc", Ty: "list"},
					"recv.NetconfVersion":     {Lean: "version", Ty: "bytes"},
					"recv.Failed == nil":      {Lean: "failed.isNone", Ty: "bool"},
					"getNetconfPatterns()":    {Lean: "()", Ty: "unit"},
				},
				Funcs: map[string]facts.LibFn{
					"util.ByteContainsAny":                 {Args: []string{"bytes", "list"}, Ret: []string{"bool"}, Tmpl: "(byteContainsAny %0 %1)"},
					"patterns.rpcErrors.Find":              {Args: []string{"bytes"}, Ret: []string{"bytes"}, Tmpl: "(findErr %0)"},
					"getNetconfPatterns().rpcErrors.Find":  {Args: []string{"bytes"}, Ret: []string{"bytes"}, Tmpl: "(findErr %0)"},
					"patterns.rpcSingleErrors.FindAll":     {Args: []string{"bytes", "int"}, Ret: []string{"list"}, Tmpl: "(findAllErr %0)"},
				},
				Steps: map[string]facts.Step{
					"recv.record1dot0()": {Pre: []string{"let result := record1dot0 raw result"}},
					"recv.record1dot1()": {Pre: []string{"match record1dot1 fuel errText input raw result failed with",
						"| none => none", "| some (result, failed) => ("}, Post: ")"},
				},
				Structs:      map[string]facts.StructLit{
					"&OperationError": {Fields: map[string]string{"Input": "bytes", "Output": "bytes", "ErrorString": "bytes"},
						Tmpl: "(some (%Input, %Output, %ErrorString))", Ty: "opaque:Option (Bytes × Bytes × Bytes)"},
				},
				IgnoreAssign: []string{"recv.EndTime", "recv.ElapsedTime"},
				State: []facts.StateVar{
					{Key: "recv.RawResult", Lean: "raw", Ty: "bytes"},
					{Key: "recv.Result", Lean: "result", Ty: "bytes"},
					{Key: "recv.Failed", Lean: "failed", Ty: "opaque:Option (Bytes × Bytes × Bytes)"},
					{Key: "recv.ErrorMessages", Lean: "errorMessages", Ty: "list"},
					{Key: "recv.WarningErrorMessages", Lean: "warningMessages", Ty: "list"},
				}},
		},
	},
	// C05: channel/channel.go
	"BodiesTimeout.lean": {
		Namespace: "Scrapli.Gen.Bodies.Timeout",
		Fns: []*facts.FnSpec{
			{Dir: "channel", Recv: "Channel", Name: "GetTimeout", Lean: "getTimeout",
				Doc:     "`ops` = `c.TimeoutOps` (nanoseconds).",
				Binders: "(ops : Int)",
				Vals:    map[string]facts.Val{"recv.TimeoutOps": {Lean: "ops", Ty: "int"}}},
		},
	},
	// C09: driver/netconf/capabilities.go
	"BodiesNetconf.lean": {
		Imports:   []string{"ScrapliModel.Netconf.Hello"},
		Namespace: "Scrapli.Gen.Bodies.Netconf",
		Fns: []*facts.FnSpec{
			{Dir: "driver/netconf", Recv: "Driver", Name: "determineVersion", Lean: "determineVersion",
				Doc: "`caps` = `d.serverCapabilities` (`ServerHasCapability` is membership), `pref` = " +
					"`d.PreferredVersion`; state: `sel` = `d.SelectedVersion`, `prompt` = `d.Channel.PromptPattern` " +
					"(an abstract type: `delim10` / `delim11` are the two compiled delimiter patterns).",
				Binders: "{P : Type} (caps : List Bytes) (pref : Bytes) (delim10 delim11 : P)",
				Vals: map[string]facts.Val{
					"recv.PreferredVersion":  {Lean: "pref", Ty: "bytes"},
					"getNetconfPatterns()":   {Lean: "()", Ty: "unit"},
					"ncPatterns.v1Dot0Delim": {Lean: "delim10", Ty: "opaque:P"},
					"ncPatterns.v1Dot1Delim": {Lean: "delim11", Ty: "opaque:P"},
				},
				Funcs: map[string]facts.LibFn{
					"recv.ServerHasCapability": {Args: []string{"bytes"}, Ret: []string{"bool"}, Tmpl: "(Netconf.Hello.hasCap caps %0)"},
				},
				State: []facts.StateVar{
					{Key: "recv.SelectedVersion", Lean: "sel", Ty: "bytes"},
					{Key: "recv.Channel.PromptPattern", Lean: "prompt", Ty: "opaque:P"},
				}},
		},
	},
	// C03: driver/netconf/message.go
	"BodiesRequest.lean": {
		Namespace: "Scrapli.Gen.Bodies.Request",
		Imports:   []string{"ScrapliModel.Netconf.Request"},
		Fns: []*facts.FnSpec{
			{Dir: "driver/netconf", Name: "ForceSelfClosingTags", Lean: "forceSelfClosingTags",
				Doc: "`findAllSub b` = `emptyTags.FindAllSubmatch(b, -1)` (full match and the three groups of every match); " +
					"`bytes.ReplaceAll` is the model's `Req.replaceAll` (non-empty `old`).",
				Binders: "(findAllSub : Bytes → List (List Bytes))", BinderArgs: "findAllSub",
				Vals:    map[string]facts.Val{"getNetconfPatterns()": {Lean: "()", Ty: "unit"}},
				Funcs: map[string]facts.LibFn{
					"ncPatterns.emptyTags.FindAllSubmatch": {Args: []string{"bytes", "int"}, Ret: []string{"list2"}, Tmpl: "(findAllSub %0)"},
					"bytes.ReplaceAll": {Args: []string{"bytes", "bytes", "bytes"}, Ret: []string{"bytes"},
						Tmpl: "(Netconf.Req.replaceAll %1 %2 (List.length %0) %0)"},
				}},
			{Dir: "driver/netconf", Recv: "message", Name: "serialize", Lean: "serialize",
				Doc: "`body` = the result of `xml.Marshal(m)` (taken to succeed), `selfCloseF` = `ForceSelfClosingTags`; " +
					"state: the two fields of the returned `*serializedInput` (the pointer itself is `()`).",
				Binders: "(body : Bytes) (selfCloseF : Bytes → Bytes)", BinderArgs: "body selfCloseF",
				Results: []string{"unit", "error"},
				Vals:    map[string]facts.Val{"&serializedInput{}": {Lean: "()", Ty: "unit"}},
				Funcs: map[string]facts.LibFn{
					"xml.Marshal":          {AnyArgs: true, Ret: []string{"bytes", "error"}, Tmpl: "(body, (none : Go.Error))"},
					"ForceSelfClosingTags": {Args: []string{"bytes"}, Ret: []string{"bytes"}, Tmpl: "(selfCloseF %0)"},
				},
				State: []facts.StateVar{
					{Key: "serialized.rawXML", Lean: "rawXML", Ty: "bytes"},
					{Key: "serialized.framedXML", Lean: "framedXML", Ty: "bytes"},
				}},
		},
	},
	// C04: driver/network/acquirepriv.go
	"BodiesPriv.lean": {
		Imports:   []string{"ScrapliModel.Priv"},
		Namespace: "Scrapli.Gen.Bodies.Priv",
		Fns: []*facts.FnSpec{
			{Dir: "util", Name: "StringContainsAny", Lean: "stringContainsAny"},
			{Dir: "util", Name: "StringSliceContains", Lean: "stringSliceContains"},
			{Dir: "driver/network", Recv: "Driver", Name: "determineCurrentPriv", Lean: "determineCurrentPriv",
				Doc: "`lvs` = the values of the map `d.PrivilegeLevels` in the order this iteration yields them (arbitrary: the " +
					"theorems quantify over it), `notContains l` = `l.NotContains`, `patMatch l` = `l.patternRe.MatchString`.",
				Binders:    "(lvs : List Priv.Level) (notContains : Priv.Level → List Bytes) (patMatch : Priv.Level → Bytes → Bool)",
				BinderArgs: "lvs notContains patMatch", Captures: []string{"priv"},
				Vals: map[string]facts.Val{
					"recv.PrivilegeLevels": {Lean: "lvs", Ty: "olist:Priv.Level"},
					"priv.NotContains":     {Lean: "(notContains priv)", Ty: "list"},
					"priv.Name":            {Lean: "priv.name", Ty: "bytes"},
				},
				Funcs: map[string]facts.LibFn{
					"util.StringContainsAny":      {Args: []string{"bytes", "list"}, Ret: []string{"bool"}, Tmpl: "(stringContainsAny %0 %1)"},
					"priv.patternRe.MatchString": {Args: []string{"bytes"}, Ret: []string{"bool"}, Tmpl: "(patMatch priv %0)"},
				}},
			{Dir: "driver/network", Recv: "Driver", Name: "processAcquirePriv", Lean: "processAcquirePriv",
				Doc: "`L` = `d.PrivilegeLevels` (association list keyed by `Name`), `possible` / `detErr` = what " +
					"`determineCurrentPriv(currentPrompt)` returned, `path cur tgt` = `buildPrivChangeMap(cur, tgt, nil)`; " +
					"state: `cache` = `d.CurrentPriv`. A nil map entry dereferenced or `mapTo[1]` out of range is the `panic` fault.",
				Binders:    "(L : Priv.Levels) (possible : List Bytes) (detErr : Go.Error) (path : Bytes → Bytes → List Bytes)",
				BinderArgs: "L possible detErr path",
				Fail:       &facts.FailMode{Ty: "Priv.Err", Panic: ".error Priv.Err.panic"},
				Funcs: map[string]facts.LibFn{
					"recv.determineCurrentPriv": {AnyArgs: true, Ret: []string{"list", "error"}, Tmpl: "(possible, detErr)"},
					"util.StringSliceContains":  {Args: []string{"list", "bytes"}, Ret: []string{"bool"}, Tmpl: "(List.contains %0 %1)"},
					"recv.buildPrivChangeMap":   {Args: []string{"bytes", "bytes", "list"}, Ret: []string{"list"}, Tmpl: "(path %0 %1)"},
					"recv.PrivilegeLevels[_].Name": {Args: []string{"bytes"}, Ret: []string{"bytes"},
						Tmpl: "(((Priv.find? L %0).map (·.name)).getD [])", Check: "(Priv.find? L %0).isSome"},
					"recv.PrivilegeLevels[_].PreviousPriv": {Args: []string{"bytes"}, Ret: []string{"bytes"},
						Tmpl: "(((Priv.find? L %0).map (·.previous)).getD [])", Check: "(Priv.find? L %0).isSome"},
				},
				State: []facts.StateVar{{Key: "recv.CurrentPriv", Lean: "cache", Ty: "bytes"}}},
		},
	},
	// C17: platform/definition.go
	"BodiesPlatform.lean": {
		Imports:   []string{"ScrapliModel.Platform"},
		Namespace: "Scrapli.Gen.Bodies.Platform",
		Fns: []*facts.FnSpec{
			{Dir: "platform", Recv: "Platform", Name: "mergeVariant", Lean: "mergeVariant",
				Doc: "`v` = the variant's sections (strings are Lean `String`s here, a nil on-X list is `none`); " +
					"state: the eight sections of the receiver that the method may replace.",
				Binders: "{L S O : Type} (v : Platform.Sections L S O)", BinderArgs: "v", SkipParams: []string{"v"},
				Vals: map[string]facts.Val{
					`v.DriverType != ""`:                   {Lean: `(v.driverType != "")`, Ty: "bool"},
					"v.DriverType":                         {Lean: "v.driverType", Ty: "opaque:String"},
					"len(v.FailedWhenContains) > 0":        {Lean: "(decide (v.failedWhen.length > 0))", Ty: "bool"},
					"v.FailedWhenContains":                 {Lean: "v.failedWhen", Ty: "opaque:List String"},
					"v.OnOpen != nil":                      {Lean: "v.onOpen.isSome", Ty: "bool"},
					"v.OnOpen":                             {Lean: "v.onOpen", Ty: "opaque:Option (List S)"},
					"v.OnClose != nil":                     {Lean: "v.onClose.isSome", Ty: "bool"},
					"v.OnClose":                            {Lean: "v.onClose", Ty: "opaque:Option (List S)"},
					"len(v.PrivilegeLevels) > 0":           {Lean: "(decide (v.levels.length > 0))", Ty: "bool"},
					"v.PrivilegeLevels":                    {Lean: "v.levels", Ty: "opaque:List L"},
					`v.DefaultDesiredPrivilegeLevel != ""`: {Lean: `(v.defaultLevel != "")`, Ty: "bool"},
					"v.DefaultDesiredPrivilegeLevel":       {Lean: "v.defaultLevel", Ty: "opaque:String"},
					"v.NetworkOnOpen != nil":               {Lean: "v.netOnOpen.isSome", Ty: "bool"},
					"v.NetworkOnOpen":                      {Lean: "v.netOnOpen", Ty: "opaque:Option (List S)"},
					"v.NetworkOnClose != nil":              {Lean: "v.netOnClose.isSome", Ty: "bool"},
					"v.NetworkOnClose":                     {Lean: "v.netOnClose", Ty: "opaque:Option (List S)"},
				},
				State: []facts.StateVar{
					{Key: "recv.DriverType", Lean: "driverType", Ty: "opaque:String"},
					{Key: "recv.FailedWhenContains", Lean: "failedWhen", Ty: "opaque:List String"},
					{Key: "recv.OnOpen", Lean: "onOpen", Ty: "opaque:Option (List S)"},
					{Key: "recv.OnClose", Lean: "onClose", Ty: "opaque:Option (List S)"},
					{Key: "recv.PrivilegeLevels", Lean: "levels", Ty: "opaque:List L"},
					{Key: "recv.DefaultDesiredPrivilegeLevel", Lean: "defaultLevel", Ty: "opaque:String"},
					{Key: "recv.NetworkOnOpen", Lean: "netOnOpen", Ty: "opaque:Option (List S)"},
					{Key: "recv.NetworkOnClose", Lean: "netOnClose", Ty: "opaque:Option (List S)"},
				}},
		},
	},
	// C13: util/strings.go, response/response.go
	"BodiesFailed.lean": {
		Imports:   []string{"ScrapliModel.Failed"},
		Namespace: "Scrapli.Gen.Bodies.Failed",
		Fns: []*facts.FnSpec{
			{Dir: "util", Name: "StringContainsAnySubStrs", Lean: "stringContainsAnySubStrs"},
			{Dir: "response", Recv: "Response", Name: "Record", Lean: "record",
				Doc: "`input` = `r.Input`, `fwc` = `r.FailedWhenContains`; state: `raw` = `r.RawResult`, `result` = `r.Result`, " +
					"`failed` = `r.Failed`. The two time stamps are not modelled.",
				Binders: "(input : Bytes) (fwc : List Bytes)", BinderArgs: "input fwc",
				Vals: map[string]facts.Val{
					"recv.Input":              {Lean: "input", Ty: "bytes"},
					"recv.FailedWhenContains": {Lean: "fwc", Ty: "list"},
				},
				Funcs: map[string]facts.LibFn{
					"util.StringContainsAnySubStrs": {Args: []string{"bytes", "list"}, Ret: []string{"bytes"}, Tmpl: "(stringContainsAnySubStrs %0 %1)"},
				},
				Structs: map[string]facts.StructLit{
					"&OperationError": {Fields: map[string]string{"Input": "bytes", "Output": "bytes", "ErrorString": "bytes"},
						Tmpl: "(some (Failed.Failure.op { input := %Input, output := %Output, errStr := %ErrorString }))",
						Ty:   "opaque:Option Failed.Failure"},
				},
				IgnoreAssign: []string{"recv.EndTime", "recv.ElapsedTime"},
				State: []facts.StateVar{
					{Key: "recv.RawResult", Lean: "raw", Ty: "bytes"},
					{Key: "recv.Result", Lean: "result", Ty: "bytes"},
					{Key: "recv.Failed", Lean: "failed", Ty: "opaque:Option Failed.Failure"},
				}},
		},
	},
	// C08: driver/netconf/read.go
	"BodiesStore.lean": {
		Namespace: "Scrapli.Gen.Bodies.Store",
		Fns: []*facts.FnSpec{
			{Dir: "driver/netconf", Name: "getID", Lean: "getID",
				Doc: "`match` = what `FindSubmatch` returned (nil = no match)."},
		},
	},
	// C15: util.ByteIsAny (the body of handleControlCharResponse is rendered by gen_c15.go)
	"BodiesByteIsAny.lean": {
		Namespace: "Scrapli.Gen.Bodies.ByteIsAny",
		Fns: []*facts.FnSpec{
			{Dir: "util", Name: "ByteIsAny", Lean: "byteIsAny"},
		},
	},
	// C18: driver/generic/sendwithcallbacks.go
	"BodiesCallbacks.lean": {
		Imports:   []string{"ScrapliModel.Callbacks"},
		Namespace: "Scrapli.Gen.Bodies.Callbacks",
		Fns: []*facts.FnSpec{
			{Dir: "driver/generic", Recv: "Callback", Name: "check", Lean: "check",
				Doc: "`cb.re` = `c.ContainsRe.Match`, `cb.hasRe` = `c.ContainsRe != nil`; `cb.containsB` / " +
					"`cb.notContainsB` = the cached (folded when insensitive) `c.contains()` / `c.notContains()`.",
				Binders: "(cb : Cb.Callback)",
				Vals: map[string]facts.Val{
					"recv.Insensitive":       {Lean: "cb.insensitive", Ty: "bool"},
					"recv.Contains":          {Lean: "cb.contains", Ty: "bytes"},
					"recv.NotContains":       {Lean: "cb.notContains", Ty: "bytes"},
					"recv.ContainsRe != nil": {Lean: "cb.hasRe", Ty: "bool"},
					"recv.contains()":        {Lean: "cb.containsB", Ty: "bytes"},
					"recv.notContains()":     {Lean: "cb.notContainsB", Ty: "bytes"},
				},
				Funcs: map[string]facts.LibFn{
					"recv.ContainsRe.Match": {Args: []string{"bytes"}, Ret: []string{"bool"}, Tmpl: "(cb.re %0)"},
				}},
		},
	},
}
