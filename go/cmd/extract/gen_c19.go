package main

// Translator part of C19: the option table of driver/options (which object type every WithX
// asserts, which fields it assigns, set vs append, where the value comes from, which error
// returns exist and whether validation precedes the target assertion), the struct fields and
// constructor defaults of every object the constructors build, and the option-name table of
// platform/options.go. go/ast only.

import (
	"bytes"
	"fmt"
	"go/ast"
	"go/printer"
	"go/token"
	"path/filepath"
	"sort"
	"strconv"
	"strings"
)

func init() {
	extraGenerators["Options.lean"] = genOptions
	extraGenerators["PlatformOptions.lean"] = genPlatformOptions
}

// object types the constructors build, in the order the model names them; any further type an
// option asserts is appended.
var c19Objects = []struct{ dir, pkg, typ string }{
	{"driver/generic", "generic", "Driver"},
	{"driver/network", "network", "Driver"},
	{"driver/netconf", "netconf", "Driver"},
	{"transport", "transport", "Args"},
	{"transport", "transport", "SSHArgs"},
	{"transport", "transport", "TelnetArgs"},
	{"transport", "transport", "System"},
	{"transport", "transport", "Standard"},
	{"transport", "transport", "Telnet"},
	{"transport", "transport", "File"},
	{"channel", "channel", "Channel"},
	{"logging", "logging", "Instance"},
}

var c19PkgDir = map[string]string{
	"generic": "driver/generic", "network": "driver/network", "netconf": "driver/netconf",
	"transport": "transport", "channel": "channel", "logging": "logging", "util": "util",
	"platform": "platform",
}

func exprString(e ast.Expr) string {
	var b bytes.Buffer
	printer.Fprint(&b, token.NewFileSet(), e)
	return strings.Join(strings.Fields(b.String()), " ")
}

type c19Field struct {
	target, name, typ, kind string
	def                     []string // default value rendering
	defKnown                bool
	defExpr                 string // source text of the constructor literal's value ("" = absent)
}

type c19Write struct {
	field string // lean ctor of the field
	mode  string // set | append
	src   string // lean term of Src
}

type c19Opt struct {
	name          string
	targets       []string
	params        []string
	writes        []c19Write
	badOption     bool
	otherErr      bool
	validateFirst bool
	valid         []string
	hasValid      bool
	internal      bool
}

func leanCtor(s string) string {
	var b strings.Builder
	for _, r := range s {
		if r == '_' || (r >= '0' && r <= '9') || (r >= 'a' && r <= 'z') || (r >= 'A' && r <= 'Z') {
			b.WriteRune(r)
		} else {
			b.WriteRune('_')
		}
	}
	return b.String()
}

func leanStr(s string) string { return strconv.Quote(s) }

func leanStrList(xs []string) string {
	q := make([]string, len(xs))
	for i, x := range xs {
		q[i] = leanStr(x)
	}
	return "[" + strings.Join(q, ", ") + "]"
}

func leanBytesList(xs []string) string {
	q := make([]string, len(xs))
	for i, x := range xs {
		q[i] = leanBytes(x)
	}
	return "[" + strings.Join(q, ", ") + "]"
}

// fieldKind classifies a Go field type for rendering.
func fieldKind(t string) string {
	switch t {
	case "int", "int64", "uint64":
		return "int"
	case "string":
		return "str"
	case "bool":
		return "bool"
	case "[]string":
		return "strs"
	case "[]byte":
		return "bytes"
	case "time.Duration":
		return "duration"
	case "*regexp.Regexp":
		return "regex"
	}
	if strings.HasPrefix(t, "map[") {
		return "map"
	}
	if strings.HasPrefix(t, "[]") {
		return "list"
	}
	return "opaque"
}

func zeroOf(kind string) []string {
	switch kind {
	case "int", "duration":
		return []string{"0"}
	case "str", "bytes":
		return []string{""}
	case "bool":
		return []string{"false"}
	case "strs", "map", "list":
		return []string{}
	}
	return []string{"<nil>"}
}

// structFields returns the exported setting fields of pkg.typ (skips channels, embedded fields and
// pointers to other constructed objects).
func structFields(dir, pkg, typ string, skipPtr map[string]bool) []c19Field {
	var out []c19Field
	files := parseDir(filepath.Join(*repo, dir))
	for _, fn := range sortedNames(files) {
		for _, d := range files[fn].Decls {
			gd, ok := d.(*ast.GenDecl)
			if !ok || gd.Tok != token.TYPE {
				continue
			}
			for _, sp := range gd.Specs {
				ts := sp.(*ast.TypeSpec)
				st, ok := ts.Type.(*ast.StructType)
				if !ok || ts.Name.Name != typ {
					continue
				}
				for _, f := range st.Fields.List {
					t := exprString(f.Type)
					if _, isChan := f.Type.(*ast.ChanType); isChan {
						continue
					}
					bare := strings.TrimPrefix(t, "*")
					if !strings.Contains(bare, ".") {
						bare = pkg + "." + bare
					}
					if strings.HasPrefix(t, "*") && skipPtr[bare] {
						continue
					}
					for _, n := range f.Names {
						if !n.IsExported() {
							continue
						}
						k := fieldKind(t)
						out = append(out, c19Field{target: pkg + "." + typ, name: n.Name, typ: t, kind: k})
					}
				}
			}
		}
	}
	return out
}

// constructorDefaults finds `&T{...}` / `T{...}` literals of pkg-local type typ inside New*
// functions of dir and evaluates the key: value pairs it can.
func constructorDefaults(dir, pkg, typ string, exprs map[string]string) map[string][]string {
	res := map[string][]string{}
	files := parseDir(filepath.Join(*repo, dir))
	env, _ := pkgConsts(dir)
	// time units for Duration defaults (nanoseconds)
	for k, v := range map[string]int64{"Nanosecond": 1, "Microsecond": 1000, "Millisecond": 1000000, "Second": 1000000000, "Minute": 60000000000} {
		env["time."+k] = constVal{N: v}
	}
	for _, fn := range sortedNames(files) {
		im := importMap(files[fn])
		for _, d := range files[fn].Decls {
			fd, ok := d.(*ast.FuncDecl)
			if !ok || fd.Recv != nil || !strings.HasPrefix(fd.Name.Name, "New") || fd.Body == nil {
				continue
			}
			ast.Inspect(fd.Body, func(n ast.Node) bool {
				cl, ok := n.(*ast.CompositeLit)
				if !ok {
					return true
				}
				id, ok := cl.Type.(*ast.Ident)
				if !ok || id.Name != typ {
					return true
				}
				for _, el := range cl.Elts {
					kv, ok := el.(*ast.KeyValueExpr)
					if !ok {
						continue
					}
					k, ok := kv.Key.(*ast.Ident)
					if !ok {
						continue
					}
					exprs[k.Name] = exprString(kv.Value)
					if sel, ok := kv.Value.(*ast.SelectorExpr); ok {
						if v, ok := resolveConstRef(sel, pkg, im); ok {
							res[k.Name] = []string{v}
							continue
						}
					}
					res[k.Name] = evalDefault(kv.Value, env)
				}
				return true
			})
		}
	}
	return res
}

// evalDefault renders a default expression, or nil when it is not a compile-time value.
func evalDefault(e ast.Expr, env map[string]constVal) []string {
	switch x := e.(type) {
	case *ast.Ident:
		if x.Name == "nil" {
			return []string{"<nil>"}
		}
	case *ast.CallExpr:
		if id, ok := x.Fun.(*ast.Ident); ok && id.Name == "make" && len(x.Args) >= 1 {
			if exprString(x.Args[0]) == "[]string" {
				return []string{}
			}
			return nil
		}
	case *ast.SelectorExpr:
		if v, ok := env[exprString(x)]; ok {
			return []string{strconv.FormatInt(v.N, 10)}
		}
	case *ast.BinaryExpr:
		// a * time.Second
		a := evalDefault(x.X, env)
		b := evalDefault(x.Y, env)
		if len(a) == 1 && len(b) == 1 && x.Op == token.MUL {
			ai, e1 := strconv.ParseInt(a[0], 10, 64)
			bi, e2 := strconv.ParseInt(b[0], 10, 64)
			if e1 == nil && e2 == nil {
				return []string{strconv.FormatInt(ai*bi, 10)}
			}
		}
		return nil
	}
	if v, ok := evalConst(e, env); ok {
		switch {
		case v.IsStr:
			return []string{v.S}
		case v.IsBool:
			return []string{strconv.FormatBool(v.B)}
		default:
			return []string{strconv.FormatInt(v.N, 10)}
		}
	}
	return nil
}

type c19Table struct {
	targets []string // "generic.Driver"
	fields  []c19Field
	opts    []c19Opt
}

func (t *c19Table) fieldCtor(target, name string) string {
	return leanCtor(strings.ReplaceAll(target, ".", "_") + "_" + name)
}

func (t *c19Table) hasField(target, name string) bool {
	for _, f := range t.fields {
		if f.target == target && f.name == name {
			return true
		}
	}
	return false
}

// importMap returns local import name -> last path element based package key.
func importMap(f *ast.File) map[string]string {
	m := map[string]string{}
	for _, im := range f.Imports {
		p, _ := strconv.Unquote(im.Path.Value)
		base := p[strings.LastIndex(p, "/")+1:]
		name := base
		if im.Name != nil {
			name = im.Name.Name
		}
		m[name] = base
	}
	return m
}

// parseOption analyses one `func WithX(params) util.Option { return func(o interface{}) error {…} }`.
func parseOption(fd *ast.FuncDecl, pkg string, imports map[string]string, t *c19Table) (c19Opt, bool) {
	o := c19Opt{name: fd.Name.Name}
	if fd.Body == nil || fd.Type.Results == nil || len(fd.Type.Results.List) != 1 {
		return o, false
	}
	rt := exprString(fd.Type.Results.List[0].Type)
	if rt != "util.Option" && rt != "func(interface{}) error" && rt != "func(any) error" {
		return o, false
	}
	var paramNames []string
	for _, p := range fd.Type.Params.List {
		for _, n := range p.Names {
			paramNames = append(paramNames, n.Name)
			o.params = append(o.params, exprString(p.Type))
		}
	}
	paramIdx := func(name string) int {
		for i, n := range paramNames {
			if n == name {
				return i
			}
		}
		return -1
	}
	var lit *ast.FuncLit
	for _, st := range fd.Body.List {
		if r, ok := st.(*ast.ReturnStmt); ok && len(r.Results) == 1 {
			if fl, ok := r.Results[0].(*ast.FuncLit); ok {
				lit = fl
			}
		}
	}
	if lit == nil || len(lit.Type.Params.List) != 1 || len(lit.Type.Params.List[0].Names) != 1 {
		return o, false
	}
	objName := lit.Type.Params.List[0].Names[0].Name
	// asserted variables: var name -> target
	asserted := map[string]string{}
	var assertPos token.Pos
	// local variable -> params it derives from (through calls)
	derived := map[string][]int{}
	usesParams := func(e ast.Expr) []int {
		var out []int
		ast.Inspect(e, func(n ast.Node) bool {
			if id, ok := n.(*ast.Ident); ok {
				if i := paramIdx(id.Name); i >= 0 {
					out = append(out, i)
				} else if d, ok := derived[id.Name]; ok {
					out = append(out, d...)
				}
			}
			return true
		})
		return out
	}
	qualify := func(e ast.Expr) string {
		s := strings.TrimPrefix(exprString(e), "*")
		if !strings.Contains(s, ".") {
			return pkg + "." + s
		}
		parts := strings.SplitN(s, ".", 2)
		if b, ok := imports[parts[0]]; ok {
			return b + "." + parts[1]
		}
		return s
	}
	var firstBadPos token.Pos
	reassigned := map[int]bool{}
	ast.Inspect(lit.Body, func(n ast.Node) bool {
		switch x := n.(type) {
		case *ast.AssignStmt:
			// x, ok := o.(*T)
			if len(x.Rhs) == 1 {
				if ta, ok := x.Rhs[0].(*ast.TypeAssertExpr); ok && ta.Type != nil {
					if id, ok := ta.X.(*ast.Ident); ok && id.Name == objName {
						if v, ok := x.Lhs[0].(*ast.Ident); ok {
							asserted[v.Name] = qualify(ta.Type)
							o.targets = append(o.targets, qualify(ta.Type))
							if assertPos == token.NoPos {
								assertPos = x.Pos()
							}
						}
						return true
					}
				}
			}
			// a parameter that is re-assigned inside the closure (s = strings.ToLower(s)) no longer
			// carries the caller's value verbatim
			for _, lhs := range x.Lhs {
				if id, ok := lhs.(*ast.Ident); ok {
					if pi := paramIdx(id.Name); pi >= 0 {
						reassigned[pi] = true
					}
				}
			}
			// local derivations: v, err = f(args)
			if len(x.Rhs) == 1 {
				if _, isCall := x.Rhs[0].(*ast.CallExpr); isCall {
					if l0, ok := x.Lhs[0].(*ast.Ident); ok && paramIdx(l0.Name) < 0 {
						if _, isAss := asserted[l0.Name]; !isAss {
							if _, isSel := x.Lhs[0].(*ast.SelectorExpr); !isSel {
								derived[l0.Name] = append([]int{}, usesParams(x.Rhs[0])...)
							}
						}
					}
				}
			}
			// field writes: v.F = rhs
			for i, lhs := range x.Lhs {
				sel, ok := lhs.(*ast.SelectorExpr)
				if !ok {
					continue
				}
				base, ok := sel.X.(*ast.Ident)
				if !ok {
					continue
				}
				tgt, ok := asserted[base.Name]
				if !ok {
					continue
				}
				if i >= len(x.Rhs) {
					continue
				}
				rhs := x.Rhs[i]
				w := c19Write{field: t.fieldCtor(tgt, sel.Sel.Name), mode: "set"}
				if !t.hasField(tgt, sel.Sel.Name) {
					t.fields = append(t.fields, c19Field{target: tgt, name: sel.Sel.Name, typ: "?", kind: "opaque"})
				}
				val := rhs
				if call, ok := rhs.(*ast.CallExpr); ok {
					if id, ok := call.Fun.(*ast.Ident); ok && id.Name == "append" && len(call.Args) == 2 &&
						exprString(call.Args[0]) == exprString(lhs) {
						w.mode = "append"
						val = call.Args[1]
					}
				}
				w.src = classifySrc(val, paramIdx, derived)
				// the same field written on several paths (system default files) is one write
				dup := false
				for _, ow := range o.writes {
					if ow.field == w.field && ow.mode == w.mode && ow.src == w.src {
						dup = true
					}
				}
				if !dup {
					o.writes = append(o.writes, w)
				}
			}
		case *ast.ReturnStmt:
			if len(x.Results) != 1 {
				return true
			}
			s := exprString(x.Results[0])
			switch {
			case s == "nil" || strings.Contains(s, "ErrIgnoredOption"):
			case strings.Contains(s, "ErrBadOption"):
				o.badOption = true
				if firstBadPos == token.NoPos {
					firstBadPos = x.Pos()
				}
			default:
				o.otherErr = true
			}
		case *ast.SwitchStmt:
			// switch param { case consts: … default: return error }
			tag, ok := x.Tag.(*ast.Ident)
			if !ok || paramIdx(tag.Name) != 0 {
				return true
			}
			for _, c := range x.Body.List {
				cc := c.(*ast.CaseClause)
				rejects := false
				for _, st := range cc.Body {
					if r, ok := st.(*ast.ReturnStmt); ok && len(r.Results) == 1 && exprString(r.Results[0]) != "nil" {
						rejects = true
					}
				}
				if rejects || cc.List == nil {
					continue
				}
				for _, e := range cc.List {
					if v, ok := resolveConstRef(e, pkg, imports); ok {
						o.valid = append(o.valid, v)
						o.hasValid = true
					}
				}
			}
		}
		return true
	})
	if len(o.targets) == 0 {
		return o, false
	}
	for i := range o.writes {
		for pi := range reassigned {
			if o.writes[i].src == ".param "+strconv.Itoa(pi) {
				o.writes[i].src = ".derived " + strconv.Itoa(pi)
			}
		}
	}
	o.validateFirst = firstBadPos != token.NoPos && firstBadPos < assertPos
	return o, true
}

func classifySrc(e ast.Expr, paramIdx func(string) int, derived map[string][]int) string {
	switch x := e.(type) {
	case *ast.Ident:
		if x.Name == "true" || x.Name == "false" {
			return ".const " + leanBytes(x.Name)
		}
		if i := paramIdx(x.Name); i >= 0 {
			return ".param " + strconv.Itoa(i)
		}
		if d, ok := derived[x.Name]; ok {
			if len(d) > 0 {
				return ".derived " + strconv.Itoa(d[0])
			}
			return ".fresh"
		}
	case *ast.CallExpr:
		// conversion of a parameter: []byte(s), T(s)
		if len(x.Args) == 1 {
			if id, ok := x.Args[0].(*ast.Ident); ok {
				if i := paramIdx(id.Name); i >= 0 {
					switch x.Fun.(type) {
					case *ast.ArrayType, *ast.Ident:
						return ".param " + strconv.Itoa(i)
					}
					return ".derived " + strconv.Itoa(i)
				}
			}
		}
	case *ast.Ellipsis:
		return classifySrc(x.Elt, paramIdx, derived)
	}
	return ".fresh"
}

// resolveConstRef evaluates `pkg.Const` / `Const` to its string value.
func resolveConstRef(e ast.Expr, pkg string, imports map[string]string) (string, bool) {
	s := exprString(e)
	p, name := pkg, s
	if i := strings.Index(s, "."); i >= 0 {
		p, name = s[:i], s[i+1:]
		if b, ok := imports[p]; ok {
			p = b
		}
	}
	dir, ok := c19PkgDir[p]
	if !ok {
		return "", false
	}
	env, _ := pkgConsts(dir)
	v, ok := env[name]
	if !ok || !v.IsStr {
		return "", false
	}
	return v.S, true
}

func buildC19Table() *c19Table {
	t := &c19Table{}
	skip := map[string]bool{"util.Queue": true, "transport.Transport": true}
	for _, o := range c19Objects {
		if o.pkg != "logging" { // a *logging.Instance field is a setting (the logger), not a sub-object
			skip[o.pkg+"."+o.typ] = true
		}
	}
	for _, o := range c19Objects {
		tgt := o.pkg + "." + o.typ
		t.targets = append(t.targets, tgt)
		exprs := map[string]string{}
		defs := constructorDefaults(o.dir, o.pkg, o.typ, exprs)
		for _, f := range structFields(o.dir, o.pkg, o.typ, skip) {
			f.defExpr = exprs[f.name]
			if d, ok := defs[f.name]; ok {
				if d != nil {
					if (f.kind == "strs" || f.kind == "map" || f.kind == "list") && len(d) == 1 && d[0] == "<nil>" {
						d = []string{} // nil and empty collections render alike
					}
					f.def, f.defKnown = d, true
				}
			} else {
				f.def, f.defKnown = zeroOf(f.kind), true
			}
			t.fields = append(t.fields, f)
		}
	}
	addTarget := func(tg string) {
		for _, x := range t.targets {
			if x == tg {
				return
			}
		}
		t.targets = append(t.targets, tg)
	}
	// public options
	files := parseDir(filepath.Join(*repo, "driver/options"))
	for _, fn := range sortedNames(files) {
		im := importMap(files[fn])
		for _, d := range files[fn].Decls {
			fd, ok := d.(*ast.FuncDecl)
			if !ok || fd.Recv != nil || !strings.HasPrefix(fd.Name.Name, "With") {
				continue
			}
			if o, ok := parseOption(fd, "options", im, t); ok {
				for _, tg := range o.targets {
					addTarget(tg)
				}
				t.opts = append(t.opts, o)
			}
		}
	}
	// options of the logging instance (logging.NewInstance)
	lfiles := parseDir(filepath.Join(*repo, "logging"))
	for _, fn := range sortedNames(lfiles) {
		im := importMap(lfiles[fn])
		for _, d := range lfiles[fn].Decls {
			fd, ok := d.(*ast.FuncDecl)
			if !ok || fd.Recv != nil || !strings.HasPrefix(fd.Name.Name, "With") {
				continue
			}
			if o, ok := parseOption(fd, "logging", im, t); ok {
				o.name = "logging_" + o.name
				for _, tg := range o.targets {
					addTarget(tg)
				}
				t.opts = append(t.opts, o)
			}
		}
	}
	// options the constructors add themselves (netconf: withNetconfConnection)
	for _, dir := range []string{"driver/netconf", "driver/network", "driver/generic"} {
		files := parseDir(filepath.Join(*repo, dir))
		pkg := dir[strings.LastIndex(dir, "/")+1:]
		for _, fn := range sortedNames(files) {
			im := importMap(files[fn])
			for _, d := range files[fn].Decls {
				fd, ok := d.(*ast.FuncDecl)
				if !ok || fd.Recv != nil || !strings.HasPrefix(fd.Name.Name, "with") {
					continue
				}
				if o, ok := parseOption(fd, pkg, im, t); ok {
					o.internal = true
					for _, tg := range o.targets {
						addTarget(tg)
					}
					t.opts = append(t.opts, o)
				}
			}
		}
	}
	sort.SliceStable(t.opts, func(i, j int) bool { return t.opts[i].name < t.opts[j].name })
	return t
}

func genOptions() string {
	t := buildC19Table()
	var b strings.Builder
	b.WriteString("-- GENERATED by go/cmd/extract (gen_c19.go) from /repo's working tree; do not edit.\n")
	b.WriteString("import ScrapliModel.Bytes\nnamespace Scrapli.Gen.Options\nopen Scrapli\n\n")
	b.WriteString("/-- object types the constructors build / the options assert -/\ninductive Target where\n")
	for _, tg := range t.targets {
		fmt.Fprintf(&b, "  | %s\n", leanCtor(strings.ReplaceAll(tg, ".", "_")))
	}
	b.WriteString("  deriving DecidableEq, Repr\n\n")
	b.WriteString("/-- every exported setting field of those objects -/\ninductive Field where\n")
	for _, f := range t.fields {
		fmt.Fprintf(&b, "  | %s\n", t.fieldCtor(f.target, f.name))
	}
	b.WriteString("  deriving DecidableEq, Repr\n\n")
	b.WriteString("inductive Opt where\n")
	for _, o := range t.opts {
		fmt.Fprintf(&b, "  | %s\n", leanCtor(o.name))
	}
	b.WriteString("  deriving DecidableEq, Repr\n\n")
	b.WriteString("inductive Mode where | set | append deriving DecidableEq, Repr\n")
	b.WriteString("/-- where the assigned value comes from: parameter i (possibly converted), a constant, a value\ncomputed from parameter i and the environment (resolved path), or a value created inside -/\n")
	b.WriteString("inductive Src where | param (i : Nat) | const (v : Bytes) | derived (i : Nat) | fresh deriving DecidableEq, Repr\n")
	b.WriteString("structure Write where\n  field : Field\n  mode : Mode\n  src : Src\n  deriving DecidableEq, Repr\n\n")
	b.WriteString("structure Spec where\n  name : String\n  targets : List Target\n  params : List String\n  writes : List Write\n  badOption : Bool\n  otherErr : Bool\n  validateFirst : Bool\n  valid : Option (List Bytes)\n  internal : Bool\n\n")

	b.WriteString("def Field.target : Field → Target\n")
	for _, f := range t.fields {
		fmt.Fprintf(&b, "  | .%s => .%s\n", t.fieldCtor(f.target, f.name), leanCtor(strings.ReplaceAll(f.target, ".", "_")))
	}
	b.WriteString("\ndef Field.name : Field → String\n")
	for _, f := range t.fields {
		fmt.Fprintf(&b, "  | .%s => %s\n", t.fieldCtor(f.target, f.name), leanStr(f.target+"."+f.name))
	}
	b.WriteString("\n/-- Go type of the field -/\ndef Field.goType : Field → String\n")
	for _, f := range t.fields {
		fmt.Fprintf(&b, "  | .%s => %s\n", t.fieldCtor(f.target, f.name), leanStr(f.typ))
	}
	b.WriteString("\n/-- rendering class of the field: int str bool strs bytes duration regex map opaque -/\ndef Field.kind : Field → String\n")
	for _, f := range t.fields {
		fmt.Fprintf(&b, "  | .%s => %s\n", t.fieldCtor(f.target, f.name), leanStr(f.kind))
	}
	b.WriteString("\n/-- value the constructor literal gives the field (`none`: not a compile-time value) -/\ndef Field.default : Field → Option (List Bytes)\n")
	for _, f := range t.fields {
		if f.defKnown {
			fmt.Fprintf(&b, "  | .%s => some %s\n", t.fieldCtor(f.target, f.name), leanBytesList(f.def))
		} else {
			fmt.Fprintf(&b, "  | .%s => none\n", t.fieldCtor(f.target, f.name))
		}
	}
	b.WriteString("\n/-- source text of the value the constructor literal gives the field (\"\" = not in the literal) -/\ndef Field.defaultExpr : Field → String\n")
	for _, f := range t.fields {
		fmt.Fprintf(&b, "  | .%s => %s\n", t.fieldCtor(f.target, f.name), leanStr(f.defExpr))
	}
	b.WriteString("\ndef Target.name : Target → String\n")
	for _, tg := range t.targets {
		fmt.Fprintf(&b, "  | .%s => %s\n", leanCtor(strings.ReplaceAll(tg, ".", "_")), leanStr(tg))
	}
	b.WriteString("\ndef spec : Opt → Spec\n")
	for _, o := range t.opts {
		var tgs, ws []string
		for _, tg := range o.targets {
			tgs = append(tgs, "."+leanCtor(strings.ReplaceAll(tg, ".", "_")))
		}
		for _, w := range o.writes {
			ws = append(ws, fmt.Sprintf("⟨.%s, .%s, %s⟩", w.field, w.mode, w.src))
		}
		valid := "none"
		if o.hasValid {
			valid = "some " + leanBytesList(o.valid)
		}
		fmt.Fprintf(&b, "  | .%s => { name := %s, targets := [%s], params := %s, writes := [%s], badOption := %v, otherErr := %v, validateFirst := %v, valid := %s, internal := %v }\n",
			leanCtor(o.name), leanStr(o.name), strings.Join(tgs, ", "), leanStrList(o.params), strings.Join(ws, ", "),
			o.badOption, o.otherErr, o.validateFirst, valid, o.internal)
	}
	b.WriteString("\ndef allOpts : List Opt := [")
	for i, o := range t.opts {
		if i > 0 {
			b.WriteString(", ")
		}
		b.WriteString("." + leanCtor(o.name))
	}
	b.WriteString("]\n\ndef allFields : List Field := [")
	for i, f := range t.fields {
		if i > 0 {
			b.WriteString(", ")
		}
		b.WriteString("." + t.fieldCtor(f.target, f.name))
	}
	b.WriteString("]\n\ndef allTargets : List Target := [")
	for i, tg := range t.targets {
		if i > 0 {
			b.WriteString(", ")
		}
		b.WriteString("." + leanCtor(strings.ReplaceAll(tg, ".", "_")))
	}
	b.WriteString("]\n\nend Scrapli.Gen.Options\n")
	return b.String()
}

// ---- platform/options.go ----

type c19PlatEntry struct {
	constName, name, opt, documented, conv string
	asserted                               []string
}

func buildPlatformEntries() []c19PlatEntry {
	files := parseDir(filepath.Join(*repo, "platform"))
	env, _ := pkgConsts("platform")
	var out []c19PlatEntry
	for _, fn := range sortedNames(files) {
		for _, d := range files[fn].Decls {
			fd, ok := d.(*ast.FuncDecl)
			if !ok || fd.Name.Name != "asOptions" || fd.Body == nil {
				continue
			}
			ast.Inspect(fd.Body, func(n ast.Node) bool {
				sw, ok := n.(*ast.SwitchStmt)
				if !ok || sw.Tag == nil || !strings.HasSuffix(exprString(sw.Tag), ".Option") {
					return true
				}
				for _, c := range sw.Body.List {
					cc := c.(*ast.CaseClause)
					for _, lbl := range cc.List {
						e := c19PlatEntry{constName: exprString(lbl)}
						if v, ok := evalConst(lbl, env); ok && v.IsStr {
							e.name = v.S
						}
						for _, st := range cc.Body {
							ast.Inspect(st, func(m ast.Node) bool {
								switch y := m.(type) {
								case *ast.TypeAssertExpr:
									if strings.HasSuffix(exprString(y.X), ".Value") && y.Type != nil {
										e.asserted = append(e.asserted, exprString(y.Type))
									}
								case *ast.TypeSwitchStmt:
									if strings.Contains(exprString2(y.Assign), ".Value.(type)") {
										for _, tc := range y.Body.List {
											for _, te := range tc.(*ast.CaseClause).List {
												e.asserted = append(e.asserted, exprString(te))
											}
										}
									}
								case *ast.CallExpr:
									fs := exprString(y.Fun)
									if fs == "panic" && len(y.Args) == 1 {
										if v, ok := evalConst(y.Args[0], nil); ok && v.IsStr {
											if i := strings.Index(v.S, "must be "); i >= 0 && e.documented == "" {
												e.documented = strings.TrimSpace(v.S[i+len("must be "):])
											}
										}
									}
									if strings.HasPrefix(fs, "options.With") {
										e.opt = strings.TrimPrefix(fs, "options.")
										e.conv = "none"
										if len(y.Args) == 1 {
											e.conv = classifyPlatConv(y.Args[0])
										}
									}
								}
								return true
							})
						}
						if clauseNormalises(cc.Body) && e.conv != "none" && e.conv != "" {
							e.conv = "other"
						}
						out = append(out, e)
					}
				}
				return false
			})
		}
	}
	return out
}

// classifyPlatConv: how the asserted YAML value reaches the option function. Only the three
// declared shapes count: the bare variable (direct), regexp.MustCompile(<variable>) (regexp) and
// time.Duration(<variable> * float64(time.Second)) (seconds); anything else that is applied to
// the value (a helper, strings.TrimSpace, ...) is `other`.
func classifyPlatConv(e ast.Expr) string {
	if _, ok := e.(*ast.Ident); ok {
		return "direct"
	}
	call, ok := e.(*ast.CallExpr)
	if !ok || len(call.Args) != 1 {
		return "other"
	}
	fun := exprString(call.Fun)
	switch fun {
	case "regexp.MustCompile":
		if _, ok := call.Args[0].(*ast.Ident); ok {
			return "regexp"
		}
	case "time.Duration":
		if b, ok := call.Args[0].(*ast.BinaryExpr); ok && b.Op == token.MUL {
			if _, ok := b.X.(*ast.Ident); ok && exprString(b.Y) == "float64(time.Second)" {
				return "seconds"
			}
		}
	}
	return "other"
}

// clauseNormalises: does the case clause re-assign a plain variable from a call other than
// make/len (e.g. strVal = strings.TrimSpace(strVal)) before handing it to the option?
func clauseNormalises(body []ast.Stmt) bool {
	found := false
	for _, st := range body {
		ast.Inspect(st, func(n ast.Node) bool {
			as, ok := n.(*ast.AssignStmt)
			if !ok {
				return true
			}
			for i, lhs := range as.Lhs {
				if _, ok := lhs.(*ast.Ident); !ok || i >= len(as.Rhs) {
					continue
				}
				ast.Inspect(as.Rhs[i], func(m ast.Node) bool {
					if c, ok := m.(*ast.CallExpr); ok {
						f := exprString(c.Fun)
						if f != "make" && f != "len" && f != "panic" {
							found = true
						}
					}
					return true
				})
			}
			return true
		})
	}
	return found
}

func exprString2(s ast.Stmt) string {
	var b bytes.Buffer
	printer.Fprint(&b, token.NewFileSet(), s)
	return strings.Join(strings.Fields(b.String()), " ")
}

func genPlatformOptions() string {
	es := buildPlatformEntries()
	var b strings.Builder
	b.WriteString("-- GENERATED by go/cmd/extract (gen_c19.go) from /repo's working tree; do not edit.\n")
	b.WriteString("import ScrapliModel.Generated.Options\nnamespace Scrapli.Gen.PlatformOptions\nopen Scrapli\n\n")
	b.WriteString("/-- how the YAML value reaches the option function -/\ninductive Conv where | none | direct | regexp | seconds | other deriving DecidableEq, Repr\n\n")
	b.WriteString("/-- one `case` of the option-name switch in platform/options.go: the YAML option name, the option\nfunction it builds (`none`: no option function is called), the documented value type (text of the\npanic message, empty when the value is unused), the Go dynamic types the code accepts for the\nvalue, and the conversion applied -/\n")
	b.WriteString("structure Entry where\n  name : Bytes\n  nameS : String\n  opt : Option Scrapli.Gen.Options.Opt\n  documented : String\n  asserted : List String\n  conv : Conv\n\n")
	b.WriteString("def entries : List Entry := [\n")
	for i, e := range es {
		opt := "none"
		if e.opt != "" {
			opt = "some ." + leanCtor(e.opt)
		}
		conv := e.conv
		if conv == "" {
			conv = "none"
		}
		sep := ","
		if i == len(es)-1 {
			sep = ""
		}
		fmt.Fprintf(&b, "  { name := %s, nameS := %s, opt := %s, documented := %s, asserted := %s, conv := .%s }%s\n",
			leanBytes(e.name), leanStr(e.name), opt, leanStr(e.documented), leanStrList(e.asserted), conv, sep)
	}
	b.WriteString("]\n\nend Scrapli.Gen.PlatformOptions\n")
	return b.String()
}
