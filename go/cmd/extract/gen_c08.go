package main

import (
	"fmt"
	"go/ast"
	"go/parser"
	"go/token"
	"os"
	"path/filepath"
	"strconv"
	"strings"
)

// C08: control-flow facts about driver/netconf as the source reads now.
//
//   - `(*Driver).read`: inside the `for` loop, between the statement that takes bytes off the
//     channel (`rb, err := d.Channel.Read()`) and the statement that examines the buffer
//     (`if d.Channel.PromptPattern.Match(b)`), which statements jump away (`continue`, `break`,
//     `goto`) and under which condition. The model's read loop examines its buffer on EVERY pass,
//     also when nothing arrived (Props/C08 `complete_reply_delivered_without_new_bytes`); a
//     `continue` on an empty read between the two breaks that.
//   - `(*Driver).determineVersion`: how many assignments to `d.Channel.PromptPattern` stand before
//     the last assignment to `d.SelectedVersion` in source order. The read loop's end-of-message
//     pattern has to be derived from the FINAL selected version (after the PreferredVersion
//     override).
func init() { extraGenerators["C08ReadLoop.lean"] = genC08ReadLoop }

func c08ExprString(fset *token.FileSet, src []byte, n ast.Node) string {
	if n == nil {
		return ""
	}
	a, b := fset.Position(n.Pos()).Offset, fset.Position(n.End()).Offset
	if a < 0 || b > len(src) || a > b {
		return ""
	}
	return strings.Join(strings.Fields(string(src[a:b])), " ")
}

func readFileBytes(name string) []byte {
	b, _ := os.ReadFile(name)
	return b
}

func genC08ReadLoop() string {
	fset := token.NewFileSet()
	dir := filepath.Join(*repo, "driver", "netconf")
	pkgs, err := parser.ParseDir(fset, dir, nil, 0)
	loopFound, readFound, examineFound, examineTopLevel := false, false, false, false
	var jumps []string
	examinedBuf := ""
	var crossUses []string // uses of one version's delimiter outside that version's `case` in read()
	var msgIDArgs, subIDArgs, storedArgs []string
	detFound := false
	promptAssigns, selectedAssigns, promptBeforeLastSelected := 0, 0, 0
	isSel := func(e ast.Expr, path ...string) bool {
		// matches recv.<path...> for any receiver identifier
		for i := len(path) - 1; i >= 0; i-- {
			se, ok := e.(*ast.SelectorExpr)
			if !ok || se.Sel.Name != path[i] {
				return false
			}
			e = se.X
		}
		_, ok := e.(*ast.Ident)
		return ok
	}
	isCall := func(e ast.Expr, path ...string) bool {
		c, ok := e.(*ast.CallExpr)
		return ok && isSel(c.Fun, path...)
	}
	if err == nil {
		for _, p := range pkgs {
			for name, f := range p.Files {
				if strings.HasSuffix(name, "_test.go") {
					continue
				}
				src := readFileBytes(name)
				for _, dcl := range f.Decls {
					fd, ok := dcl.(*ast.FuncDecl)
					if !ok || fd.Body == nil || fd.Recv == nil {
						continue
					}
					switch fd.Name.Name {
					case "read":
						{
							// every mention of v1Dot0Delim / v1Dot1Delim in read(), with the version constant of
							// the innermost enclosing `case V1DotX:` (if any)
							var stack []ast.Node
							ast.Inspect(fd.Body, func(n ast.Node) bool {
								if n == nil {
									stack = stack[:len(stack)-1]
									return true
								}
								stack = append(stack, n)
								name := ""
								switch x := n.(type) {
								case *ast.Ident:
									name = x.Name
								}
								if name == "v1Dot0Delim" || name == "v1Dot1Delim" {
									want := "V1Dot0"
									if name == "v1Dot1Delim" {
										want = "V1Dot1"
									}
									inCase := ""
									var stmt ast.Node
									for i := len(stack) - 1; i >= 0; i-- {
										if cc, ok := stack[i].(*ast.CaseClause); ok && inCase == "" {
											for _, e := range cc.List {
												if id, ok := e.(*ast.Ident); ok {
													inCase = id.Name
												}
											}
										}
										if _, ok := stack[i].(ast.Stmt); ok && stmt == nil {
											stmt = stack[i]
										}
									}
									if inCase != want {
										crossUses = append(crossUses, name+" in: "+c08ExprString(fset, src, stmt))
									}
								}
								return true
							})
						}
						for _, st := range fd.Body.List {
							loop, ok := st.(*ast.ForStmt)
							if !ok {
								continue
							}
							loopFound = true
							readIdx, examIdx := -1, -1
							for i, ls := range loop.Body.List {
								if as, ok := ls.(*ast.AssignStmt); ok && len(as.Rhs) == 1 && isCall(as.Rhs[0], "Channel", "Read") && readIdx < 0 {
									readIdx = i
								}
								if is, ok := ls.(*ast.IfStmt); ok && examIdx < 0 && isCall(is.Cond, "Channel", "PromptPattern", "Match") {
									examIdx = i
								}
							}
							if examIdx >= 0 {
								// what is examined, and what the id patterns are run over
								is := loop.Body.List[examIdx].(*ast.IfStmt)
								if c, ok := is.Cond.(*ast.CallExpr); ok && len(c.Args) == 1 {
									examinedBuf = c08ExprString(fset, src, c.Args[0])
								}
								ast.Inspect(is, func(n ast.Node) bool {
									if c, ok := n.(*ast.CallExpr); ok && len(c.Args) >= 1 {
										if isSel(c.Fun, "messageID", "FindSubmatch") {
											msgIDArgs = append(msgIDArgs, c08ExprString(fset, src, c.Args[0]))
										}
										if isSel(c.Fun, "subscriptionID", "FindSubmatch") {
											subIDArgs = append(subIDArgs, c08ExprString(fset, src, c.Args[0]))
										}
										if isSel(c.Fun, "storeMessage") && len(c.Args) == 2 {
											storedArgs = append(storedArgs, c08ExprString(fset, src, c.Args[1]))
										}
										if isSel(c.Fun, "storeSubscriptionMessage") && len(c.Args) == 2 {
											storedArgs = append(storedArgs, c08ExprString(fset, src, c.Args[1]))
										}
									}
									return true
								})
							}
							readFound, examineFound = readIdx >= 0, examIdx >= 0
							examineTopLevel = examIdx >= 0
							if readIdx >= 0 && examIdx > readIdx {
								for _, ls := range loop.Body.List[readIdx+1 : examIdx] {
									var conds []string
									var walk func(n ast.Node)
									walk = func(n ast.Node) {
										switch x := n.(type) {
										case nil:
										case *ast.FuncLit:
										case *ast.BranchStmt:
											if x.Tok == token.CONTINUE || x.Tok == token.BREAK || x.Tok == token.GOTO {
												jumps = append(jumps, x.Tok.String()+" if "+strings.Join(conds, " && "))
											}
										case *ast.IfStmt:
											conds = append(conds, c08ExprString(fset, src, x.Cond))
											walk(x.Body)
											conds = conds[:len(conds)-1]
											if x.Else != nil {
												conds = append(conds, "!("+c08ExprString(fset, src, x.Cond)+")")
												walk(x.Else)
												conds = conds[:len(conds)-1]
											}
										case *ast.BlockStmt:
											for _, s := range x.List {
												walk(s)
											}
										case *ast.SelectStmt:
											for _, cc := range x.Body.List {
												if c, ok := cc.(*ast.CommClause); ok {
													conds = append(conds, "select "+c08ExprString(fset, src, c.Comm))
													for _, s := range c.Body {
														walk(s)
													}
													conds = conds[:len(conds)-1]
												}
											}
										case *ast.SwitchStmt:
											for _, cc := range x.Body.List {
												if c, ok := cc.(*ast.CaseClause); ok {
													conds = append(conds, "case")
													for _, s := range c.Body {
														walk(s)
													}
													conds = conds[:len(conds)-1]
												}
											}
										case *ast.ForStmt, *ast.RangeStmt:
											// a break/continue inside a nested loop belongs to that loop
										case *ast.LabeledStmt:
											walk(x.Stmt)
										}
									}
									walk(ls)
								}
							}
						}
					case "determineVersion":
						detFound = true
						type asg struct {
							pos    token.Pos
							prompt bool
						}
						var all []asg
						ast.Inspect(fd.Body, func(n ast.Node) bool {
							if as, ok := n.(*ast.AssignStmt); ok {
								for _, l := range as.Lhs {
									if isSel(l, "Channel", "PromptPattern") {
										all = append(all, asg{as.Pos(), true})
									} else if isSel(l, "SelectedVersion") {
										all = append(all, asg{as.Pos(), false})
									}
								}
							}
							return true
						})
						var lastSel token.Pos
						for _, a := range all {
							if a.prompt {
								promptAssigns++
							} else {
								selectedAssigns++
								if a.pos > lastSel {
									lastSel = a.pos
								}
							}
						}
						for _, a := range all {
							if a.prompt && a.pos < lastSel {
								promptBeforeLastSelected++
							}
						}
					}
				}
			}
		}
	}
	q := make([]string, len(jumps))
	for i, j := range jumps {
		q[i] = strconv.Quote(j)
	}
	var b strings.Builder
	b.WriteString("-- GENERATED by go/cmd/extract (gen_c08.go) from driver/netconf of /repo's working tree; do not edit.\n")
	b.WriteString("namespace Scrapli.Gen.C08ReadLoop\n\n")
	fmt.Fprintf(&b, "/-- `(*Driver).read` has a `for` loop with `… := d.Channel.Read()` and, later and at the top level of the loop body, `if d.Channel.PromptPattern.Match(b)` -/\ndef readLoopFound : Bool := %v\n", loopFound && readFound && examineFound && examineTopLevel)
	fmt.Fprintf(&b, "/-- jumps (`continue` / `break` / `goto`, with their conditions) between taking bytes off the channel and examining the buffer -/\ndef jumpsBetweenReadAndExamine : List String := [%s]\n", strings.Join(q, ", "))
	ql := func(xs []string) string {
		o := make([]string, len(xs))
		for i, x := range xs {
			o[i] = strconv.Quote(x)
		}
		return "[" + strings.Join(o, ", ") + "]"
	}
	fmt.Fprintf(&b, "/-- the expression the end-of-message test `d.Channel.PromptPattern.Match(…)` examines (the read loop's message buffer) -/\ndef examinedBuffer : String := %s\n", strconv.Quote(examinedBuf))
	fmt.Fprintf(&b, "/-- the arguments of `patterns.messageID.FindSubmatch(…)` / `patterns.subscriptionID.FindSubmatch(…)` inside that test, as written -/\ndef messageIDSearchArgs : List String := %s\ndef subscriptionIDSearchArgs : List String := %s\n", ql(msgIDArgs), ql(subIDArgs))
	fmt.Fprintf(&b, "/-- the message arguments of `storeMessage` / `storeSubscriptionMessage` inside that test, as written -/\ndef storedMessageArgs : List String := %s\n", ql(storedArgs))
	fmt.Fprintf(&b, "/-- mentions of `v1Dot0Delim` / `v1Dot1Delim` in `(*Driver).read` that are NOT inside the `case` of their own version (with the statement they occur in): the read loop of one version must not look for the other version's end-of-message marker -/\ndef delimiterUsesOutsideOwnVersionCase : List String := %s\n", ql(crossUses))
	fmt.Fprintf(&b, "/-- `(*Driver).determineVersion` found -/\ndef determineVersionFound : Bool := %v\n", detFound)
	fmt.Fprintf(&b, "/-- assignments to `d.Channel.PromptPattern` / `d.SelectedVersion` in `determineVersion` -/\ndef promptPatternAssigns : Nat := %d\ndef selectedVersionAssigns : Nat := %d\n", promptAssigns, selectedAssigns)
	fmt.Fprintf(&b, "/-- assignments to `d.Channel.PromptPattern` that stand before the last assignment to `d.SelectedVersion` -/\ndef promptPatternAssignsBeforeLastSelectedVersion : Nat := %d\n", promptBeforeLastSelected)
	b.WriteString("\nend Scrapli.Gen.C08ReadLoop\n")
	return b.String()
}
