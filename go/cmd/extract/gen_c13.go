package main

import (
	"fmt"
	"go/ast"
	"go/token"
	"path/filepath"
	"strconv"
	"strings"
)

func strconvUnquote(s string) (string, error) { return strconv.Unquote(s) }

// C13 (also relied on by every property that passes operation options): the shape of the
// option-application loop in the four `NewOperation` constructors, which all receive the same
// variadic option list of a call:
//
//	channel/operation.go, driver/generic/operation.go, driver/network/operation.go,
//	driver/netconf/operation.go
//
// For each, the body of `for _, option := range options` is followed symbolically for the three
// possible outcomes of `option(o)` (nil / util.ErrIgnoredOption / another error) and the way the
// iteration is left is recorded: next (falls through or `continue`), brk (`break`), retErr
// (`return nil, err`), retOther (another return), unknown (a statement outside the small subset
// understood here: the err assignment, if/else on `err ==/!= nil`, `errors.Is(err,
// util.ErrIgnoredOption)` and their !, &&, ||; return; break; continue; call statements such as
// logging are skipped). Props/C13.lean demands `next / next / retErr` of all four.
func init() { extraGenerators["C13OptionLoops.lean"] = genC13OptionLoops }

var c13LoopFiles = []struct{ lean, rel string }{
	{"channel", "channel/operation.go"},
	{"generic", "driver/generic/operation.go"},
	{"network", "driver/network/operation.go"},
	{"netconf", "driver/netconf/operation.go"},
}

type c13LoopEval struct {
	optVar string // the range value variable
	errVar string
	state  string // "nil" | "ignored" | "other": the outcome of option(o) under evaluation
}

// isOptCall: `<optVar>(...)`
func (e *c13LoopEval) isOptCall(x ast.Expr) bool {
	c, ok := x.(*ast.CallExpr)
	if !ok {
		return false
	}
	id, ok := c.Fun.(*ast.Ident)
	return ok && id.Name == e.optVar
}

func (e *c13LoopEval) assign(s *ast.AssignStmt) bool {
	if len(s.Lhs) != 1 || len(s.Rhs) != 1 || !e.isOptCall(s.Rhs[0]) {
		return false
	}
	id, ok := s.Lhs[0].(*ast.Ident)
	if !ok {
		return false
	}
	e.errVar = id.Name
	return true
}

func isIdent(x ast.Expr, name string) bool {
	id, ok := x.(*ast.Ident)
	return ok && id.Name == name
}

func isSel(x ast.Expr, pkg, name string) bool {
	s, ok := x.(*ast.SelectorExpr)
	return ok && isIdent(s.X, pkg) && s.Sel.Name == name
}

// cond evaluates a condition under the current outcome: 1 true, 0 false, -1 not understood
func (e *c13LoopEval) cond(x ast.Expr) int {
	switch c := x.(type) {
	case *ast.ParenExpr:
		return e.cond(c.X)
	case *ast.UnaryExpr:
		if c.Op == token.NOT {
			if v := e.cond(c.X); v >= 0 {
				return 1 - v
			}
		}
		return -1
	case *ast.BinaryExpr:
		switch c.Op {
		case token.LAND, token.LOR:
			a := e.cond(c.X)
			if a < 0 {
				return -1
			}
			if c.Op == token.LAND && a == 0 {
				return 0
			}
			if c.Op == token.LOR && a == 1 {
				return 1
			}
			return e.cond(c.Y)
		case token.EQL, token.NEQ:
			var other ast.Expr
			switch {
			case e.errVar != "" && isIdent(c.X, e.errVar):
				other = c.Y
			case e.errVar != "" && isIdent(c.Y, e.errVar):
				other = c.X
			default:
				return -1
			}
			eq := -1
			switch {
			case isIdent(other, "nil"):
				eq = b2i(e.state == "nil")
			case isSel(other, "util", "ErrIgnoredOption"):
				eq = b2i(e.state == "ignored")
			}
			if eq < 0 {
				return -1
			}
			if c.Op == token.NEQ {
				return 1 - eq
			}
			return eq
		}
		return -1
	case *ast.CallExpr:
		if isSel(c.Fun, "errors", "Is") && len(c.Args) == 2 && e.errVar != "" && isIdent(c.Args[0], e.errVar) &&
			isSel(c.Args[1], "util", "ErrIgnoredOption") {
			return b2i(e.state == "ignored")
		}
	}
	return -1
}

func b2i(b bool) int {
	if b {
		return 1
	}
	return 0
}

// stmts returns "" when control falls off the end of the list
func (e *c13LoopEval) stmts(l []ast.Stmt) string {
	for _, s := range l {
		if x := e.stmt(s); x != "" {
			return x
		}
	}
	return ""
}

func (e *c13LoopEval) stmt(s ast.Stmt) string {
	switch st := s.(type) {
	case *ast.AssignStmt:
		if e.assign(st) {
			return ""
		}
		return "unknown"
	case *ast.ExprStmt:
		if e.isOptCall(st.X) {
			return "unknown" // result dropped
		}
		return "" // a call statement (logging): no control effect
	case *ast.EmptyStmt:
		return ""
	case *ast.BlockStmt:
		return e.stmts(st.List)
	case *ast.IfStmt:
		if st.Init != nil {
			a, ok := st.Init.(*ast.AssignStmt)
			if !ok || !e.assign(a) {
				return "unknown"
			}
		}
		switch e.cond(st.Cond) {
		case 1:
			return e.stmts(st.Body.List)
		case 0:
			if st.Else == nil {
				return ""
			}
			return e.stmt(st.Else)
		}
		return "unknown"
	case *ast.ReturnStmt:
		if len(st.Results) == 2 && isIdent(st.Results[0], "nil") && e.errVar != "" && isIdent(st.Results[1], e.errVar) && e.state != "nil" {
			return "retErr"
		}
		return "retOther"
	case *ast.BranchStmt:
		if st.Label != nil {
			return "unknown"
		}
		switch st.Tok {
		case token.BREAK:
			return "brk"
		case token.CONTINUE:
			return "next"
		}
		return "unknown"
	}
	return "unknown"
}

func c13LoopShape(rel string) (found bool, exits [3]string) {
	exits = [3]string{"unknown", "unknown", "unknown"}
	fset := token.NewFileSet()
	f, err := parserParse(fset, filepath.Join(*repo, rel))
	if err != nil {
		return false, exits
	}
	for _, d := range f.Decls {
		fd, ok := d.(*ast.FuncDecl)
		if !ok || fd.Recv != nil || fd.Name.Name != "NewOperation" || fd.Body == nil || fd.Type.Params == nil {
			continue
		}
		// the variadic parameter
		param := ""
		for _, p := range fd.Type.Params.List {
			if _, ok := p.Type.(*ast.Ellipsis); ok && len(p.Names) == 1 {
				param = p.Names[0].Name
			}
		}
		if param == "" {
			continue
		}
		for _, s := range fd.Body.List {
			rs, ok := s.(*ast.RangeStmt)
			if !ok || !isIdent(rs.X, param) || rs.Value == nil {
				continue
			}
			v, ok := rs.Value.(*ast.Ident)
			if !ok {
				continue
			}
			for i, state := range []string{"nil", "ignored", "other"} {
				e := &c13LoopEval{optVar: v.Name, state: state}
				x := e.stmts(rs.Body.List)
				if x == "" {
					x = "next"
				}
				exits[i] = x
			}
			return true, exits
		}
	}
	return false, exits
}

func genC13OptionLoops() string {
	var b strings.Builder
	b.WriteString("-- GENERATED by go/cmd/extract (gen_c13.go) from /repo's working tree; do not edit.\n")
	b.WriteString("import ScrapliModel.OptLoop\n")
	b.WriteString("/-! How the `for _, option := range options` loop of each `NewOperation` constructor leaves an\niteration when `option(o)` returned nil / util.ErrIgnoredOption / another error. -/\n")
	b.WriteString("namespace Scrapli.Gen.C13OptionLoops\nopen Scrapli.OptLoop\n\n")
	var files []string
	for _, lf := range c13LoopFiles {
		found, x := c13LoopShape(lf.rel)
		fmt.Fprintf(&b, "/-- `%s`: `NewOperation` -/\ndef «%s» : Shape :=\n  { found := %v, onNil := .%s, onIgnored := .%s, onError := .%s }\n\n",
			lf.rel, lf.lean, found, x[0], x[1], x[2])
		files = append(files, fmt.Sprintf("%q", lf.rel))
	}
	fmt.Fprintf(&b, "def files : List String := [%s]\n\nend Scrapli.Gen.C13OptionLoops\n", strings.Join(files, ", "))
	return b.String()
}

// C13: the texts of response.OperationError and response.MultiOperationError (response/errors.go).
// For `(*OperationError).Error` the single `return fmt.Sprintf(<literal>, args...)` is read; for
// `(*MultiOperationError).Error` the shape `if len(e.Operations) == N { return fmt.Sprintf(lit1,
// args1...) }; return fmt.Sprintf(lit2, args2...)`. Formats become byte strings; arguments are
// rendered with the receiver dropped ("Input", "Operations[0].Input", "len(Operations)"). Anything
// else yields "?" entries, which the obligations in Props/C13.lean reject.
func init() { extraGenerators["C13ErrorText.lean"] = genC13ErrorText }

func c13ExprStr(x ast.Expr, recv string) string {
	switch e := x.(type) {
	case *ast.Ident:
		if e.Name == recv {
			return ""
		}
		return e.Name
	case *ast.SelectorExpr:
		p := c13ExprStr(e.X, recv)
		if p == "" {
			return e.Sel.Name
		}
		return p + "." + e.Sel.Name
	case *ast.IndexExpr:
		return c13ExprStr(e.X, recv) + "[" + c13ExprStr(e.Index, recv) + "]"
	case *ast.BasicLit:
		return e.Value
	case *ast.CallExpr:
		var a []string
		for _, y := range e.Args {
			a = append(a, c13ExprStr(y, recv))
		}
		return c13ExprStr(e.Fun, recv) + "(" + strings.Join(a, ",") + ")"
	}
	return "?"
}

// c13Sprintf reads `return fmt.Sprintf(lit, args...)`
func c13Sprintf(s ast.Stmt, recv string) (format string, args []string, ok bool) {
	r, isRet := s.(*ast.ReturnStmt)
	if !isRet || len(r.Results) != 1 {
		return "", nil, false
	}
	c, isCall := r.Results[0].(*ast.CallExpr)
	if !isCall || !isSel(c.Fun, "fmt", "Sprintf") || len(c.Args) < 1 {
		return "", nil, false
	}
	lit, isLit := c.Args[0].(*ast.BasicLit)
	if !isLit || lit.Kind != token.STRING {
		return "", nil, false
	}
	f, err := strconvUnquote(lit.Value)
	if err != nil {
		return "", nil, false
	}
	for _, a := range c.Args[1:] {
		args = append(args, c13ExprStr(a, recv))
	}
	return f, args, true
}

func leanStrs(l []string) string {
	var p []string
	for _, s := range l {
		p = append(p, fmt.Sprintf("%q", s))
	}
	return "[" + strings.Join(p, ", ") + "]"
}

func genC13ErrorText() string {
	opFmt, multiOneFmt, multiManyFmt := "?", "?", "?"
	opArgs, multiOneArgs, multiManyArgs := []string{"?"}, []string{"?"}, []string{"?"}
	oneWhen := "none"
	fset := token.NewFileSet()
	f, err := parserParse(fset, filepath.Join(*repo, "response", "errors.go"))
	if err == nil {
		for _, d := range f.Decls {
			fd, ok := d.(*ast.FuncDecl)
			if !ok || fd.Recv == nil || fd.Name.Name != "Error" || fd.Body == nil || len(fd.Recv.List) != 1 || len(fd.Recv.List[0].Names) != 1 {
				continue
			}
			recv := fd.Recv.List[0].Names[0].Name
			typ := ""
			if st, ok := fd.Recv.List[0].Type.(*ast.StarExpr); ok {
				if id, ok := st.X.(*ast.Ident); ok {
					typ = id.Name
				}
			}
			body := fd.Body.List
			switch typ {
			case "OperationError":
				if len(body) == 1 {
					if ft, a, ok := c13Sprintf(body[0], recv); ok {
						opFmt, opArgs = ft, a
					}
				}
			case "MultiOperationError":
				if len(body) != 2 {
					continue
				}
				is, ok := body[0].(*ast.IfStmt)
				if !ok || is.Init != nil || is.Else != nil || len(is.Body.List) != 1 {
					continue
				}
				be, ok := is.Cond.(*ast.BinaryExpr)
				if !ok || be.Op != token.EQL || c13ExprStr(be.X, recv) != "len(Operations)" {
					continue
				}
				n, isLit := be.Y.(*ast.BasicLit)
				if !isLit || n.Kind != token.INT {
					continue
				}
				ft1, a1, ok1 := c13Sprintf(is.Body.List[0], recv)
				ft2, a2, ok2 := c13Sprintf(body[1], recv)
				if ok1 && ok2 {
					multiOneFmt, multiOneArgs, multiManyFmt, multiManyArgs = ft1, a1, ft2, a2
					oneWhen = "some " + n.Value
				}
			}
		}
	}
	var b strings.Builder
	b.WriteString("-- GENERATED by go/cmd/extract (gen_c13.go) from /repo's working tree; do not edit.\n")
	b.WriteString("import ScrapliModel.Bytes\n")
	b.WriteString("/-! Formats and argument lists of `(*OperationError).Error` and `(*MultiOperationError).Error`\n(`response/errors.go`); `?` = the source no longer has the expected shape. -/\n")
	b.WriteString("namespace Scrapli.Gen.C13ErrorText\nopen Scrapli\n\n")
	fmt.Fprintf(&b, "/-- %q -/\ndef opErrorFormat : Bytes := %s\ndef opErrorArgs : List String := %s\n\n", opFmt, leanBytes(opFmt), leanStrs(opArgs))
	fmt.Fprintf(&b, "/-- the `len(e.Operations) == N` under which the single-error text is used -/\ndef multiOneWhenLen : Option Nat := %s\n", oneWhen)
	fmt.Fprintf(&b, "/-- %q -/\ndef multiOneFormat : Bytes := %s\ndef multiOneArgs : List String := %s\n\n", multiOneFmt, leanBytes(multiOneFmt), leanStrs(multiOneArgs))
	fmt.Fprintf(&b, "/-- %q -/\ndef multiManyFormat : Bytes := %s\ndef multiManyArgs : List String := %s\n\n", multiManyFmt, leanBytes(multiManyFmt), leanStrs(multiManyArgs))
	b.WriteString("end Scrapli.Gen.C13ErrorText\n")
	return b.String()
}

// C13 from-file variants: how util.LoadFileLines (util/file.go) reads the file. The model
// (ScrapliModel/FileLines.lean) is bufio.Scanner + bufio.ScanLines with the default buffer; any
// other way of reading (ReadLine, ReadString, ReadBytes, ReadAll, a custom split function, a
// resized buffer) has different line semantics and must be re-modelled.
func init() { extraGenerators["C13FileLines.lean"] = genC13FileLines }

func genC13FileLines() string {
	found, usesScanner, setsBuffer, appendsText := false, false, false, false
	split := "default"
	var others []string
	fset := token.NewFileSet()
	f, err := parserParse(fset, filepath.Join(*repo, "util", "file.go"))
	if err == nil {
		for _, d := range f.Decls {
			fd, ok := d.(*ast.FuncDecl)
			if !ok || fd.Recv != nil || fd.Name.Name != "LoadFileLines" || fd.Body == nil {
				continue
			}
			found = true
			ast.Inspect(fd.Body, func(n ast.Node) bool {
				c, ok := n.(*ast.CallExpr)
				if !ok {
					return true
				}
				if isSel(c.Fun, "bufio", "NewScanner") {
					usesScanner = true
				}
				if isSel(c.Fun, "bufio", "NewReader") || isSel(c.Fun, "bufio", "NewReaderSize") || isSel(c.Fun, "io", "ReadAll") ||
					isSel(c.Fun, "os", "ReadFile") || isSel(c.Fun, "ioutil", "ReadAll") || isSel(c.Fun, "ioutil", "ReadFile") {
					others = append(others, c13ExprStr(c.Fun, ""))
				}
				if s, ok := c.Fun.(*ast.SelectorExpr); ok {
					switch s.Sel.Name {
					case "ReadLine", "ReadString", "ReadBytes", "ReadSlice", "ReadRune", "ReadByte":
						others = append(others, s.Sel.Name)
					case "Buffer":
						setsBuffer = true
					case "Split":
						if len(c.Args) == 1 {
							split = c13ExprStr(c.Args[0], "")
						}
					case "Text":
						appendsText = true
					}
				}
				return true
			})
		}
	}
	var b strings.Builder
	b.WriteString("-- GENERATED by go/cmd/extract (gen_c13.go) from /repo's working tree; do not edit.\n")
	b.WriteString("/-! How `util.LoadFileLines` (`util/file.go`) reads the file. -/\nnamespace Scrapli.Gen.C13FileLines\n\n")
	fmt.Fprintf(&b, "def found : Bool := %v\ndef usesScanner : Bool := %v\n/-- argument of `scanner.Split` (`default` = not called: bufio.ScanLines) -/\ndef splitFunc : String := %q\n", found, usesScanner, split)
	fmt.Fprintf(&b, "/-- other ways of reading that occur in the body -/\ndef otherReaders : List String := %s\ndef setsBuffer : Bool := %v\ndef appendsScannerText : Bool := %v\n\nend Scrapli.Gen.C13FileLines\n", leanStrs(others), setsBuffer, appendsText)
	return b.String()
}
