package main

import "verifgo/facts"

// C10: the substring → message table of channel.sshMessageHandler, and the custom login pattern
// sets the harness hands to the driver (as Lean regex terms).
func init() {
	extraGenerators["SshErrors.lean"] = facts.GenSshErrors
	extraGenerators["AuthPool.lean"] = facts.GenAuthPool
}
