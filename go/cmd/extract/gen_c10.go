package main

import "verifgo/facts"

// C10: the substring → message table of channel.sshMessageHandler.
func init() { extraGenerators["SshErrors.lean"] = facts.GenSshErrors }
