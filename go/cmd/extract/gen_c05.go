package main

import "verifgo/facts"

func init() { extraGenerators["C05Patterns.lean"] = facts.GenC05Patterns }
