package main

import "verifgo/facts"

func init() {
	extraGenerators["C05Patterns.lean"] = facts.GenC05Patterns
	extraGenerators["C05RpcSites.lean"] = facts.GenC05RpcSites
}
