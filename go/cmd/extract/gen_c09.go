package main

import (
	"fmt"
	"go/ast"
	"go/parser"
	"go/token"
	"path/filepath"
	"sort"
	"strconv"
	"strings"
)

// C09: where the driver's capability state lives. Facts about driver/netconf as the source reads now:
//   - which receiver fields / methods `(*Driver).ServerHasCapability` touches (the history theorems
//     of Props/C09.lean hold for a lookup that reads the capability list and nothing else);
//   - which receiver fields `(*Driver).processServerCapabilities` assigns at the top level of its
//     body (i.e. not under a condition), in order, and which of them come before the first
//     statement that can return nil (so that every Open that gets past the hello test has
//     replaced them);
//   - which functions of the package assign the capability list at all.
func init() { extraGenerators["C09State.lean"] = genC09State }

func genC09State() string {
	fset := token.NewFileSet()
	pkgs, err := parser.ParseDir(fset, filepath.Join(*repo, "driver", "netconf"), nil, 0)
	var hasCapRefs, topAssigns, beforeReturn, writers, tableWrites []string
	foundHas, foundProc := false, false
	recvName := func(fd *ast.FuncDecl) string {
		if fd.Recv == nil || len(fd.Recv.List) != 1 || len(fd.Recv.List[0].Names) != 1 {
			return ""
		}
		return fd.Recv.List[0].Names[0].Name
	}
	isDriver := func(fd *ast.FuncDecl) bool {
		if fd.Recv == nil || len(fd.Recv.List) != 1 {
			return false
		}
		if st, ok := fd.Recv.List[0].Type.(*ast.StarExpr); ok {
			if id, ok := st.X.(*ast.Ident); ok {
				return id.Name == "Driver"
			}
		}
		return false
	}
	recvField := func(e ast.Expr, recv string) string {
		if se, ok := e.(*ast.SelectorExpr); ok {
			if id, ok := se.X.(*ast.Ident); ok && id.Name == recv && recv != "" {
				return se.Sel.Name
			}
		}
		return ""
	}
	containsNilReturn := func(st ast.Stmt) bool {
		found := false
		ast.Inspect(st, func(n ast.Node) bool {
			if _, ok := n.(*ast.FuncLit); ok {
				return false
			}
			if r, ok := n.(*ast.ReturnStmt); ok && len(r.Results) == 1 {
				if id, ok := r.Results[0].(*ast.Ident); ok && id.Name == "nil" {
					found = true
				}
			}
			return true
		})
		return found
	}
	if err == nil {
		var files []string
		for _, p := range pkgs {
			for name := range p.Files {
				if !strings.HasSuffix(name, "_test.go") {
					files = append(files, name)
				}
			}
		}
		sort.Strings(files)
		for _, name := range files {
			var f *ast.File
			for _, p := range pkgs {
				if x, ok := p.Files[name]; ok {
					f = x
				}
			}
			for _, d := range f.Decls {
				fd, ok := d.(*ast.FuncDecl)
				if !ok || fd.Body == nil {
					continue
				}
				recv := recvName(fd)
				// every function that assigns <anything>.serverCapabilities
				ast.Inspect(fd.Body, func(n ast.Node) bool {
					if as, ok := n.(*ast.AssignStmt); ok {
						for _, l := range as.Lhs {
							if se, ok := l.(*ast.SelectorExpr); ok && se.Sel.Name == "serverCapabilities" {
								writers = append(writers, fd.Name.Name)
							}
						}
					}
					return true
				})
				// writes to the package-level pattern table outside its constructor: `x.f = …` where x was
				// bound to getNetconfPatterns() in this function, or is the global instance itself
				if fd.Name.Name != "getNetconfPatterns" {
					tbl := map[string]bool{"netconfPatternsInstance": true}
					ast.Inspect(fd.Body, func(n ast.Node) bool {
						as, ok := n.(*ast.AssignStmt)
						if !ok {
							return true
						}
						for k, r := range as.Rhs {
							if call, ok := r.(*ast.CallExpr); ok {
								if id, ok := call.Fun.(*ast.Ident); ok && id.Name == "getNetconfPatterns" && k < len(as.Lhs) {
									if l, ok := as.Lhs[k].(*ast.Ident); ok {
										tbl[l.Name] = true
									}
								}
							}
						}
						for _, l := range as.Lhs {
							if se, ok := l.(*ast.SelectorExpr); ok {
								if id, ok := se.X.(*ast.Ident); ok && tbl[id.Name] {
									tableWrites = append(tableWrites, fd.Name.Name+":"+se.Sel.Name)
								}
								if call, ok := se.X.(*ast.CallExpr); ok {
									if id, ok := call.Fun.(*ast.Ident); ok && id.Name == "getNetconfPatterns" {
										tableWrites = append(tableWrites, fd.Name.Name+":"+se.Sel.Name)
									}
								}
							}
							if id, ok := l.(*ast.Ident); ok && id.Name == "netconfPatternsInstance" {
								tableWrites = append(tableWrites, fd.Name.Name+":netconfPatternsInstance")
							}
						}
						return true
					})
				}
				if !isDriver(fd) {
					continue
				}
				switch fd.Name.Name {
				case "ServerHasCapability":
					foundHas = true
					set := map[string]bool{}
					ast.Inspect(fd.Body, func(n ast.Node) bool {
						if e, ok := n.(ast.Expr); ok {
							if fl := recvField(e, recv); fl != "" {
								set[fl] = true
							}
						}
						return true
					})
					for k := range set {
						hasCapRefs = append(hasCapRefs, k)
					}
					sort.Strings(hasCapRefs)
				case "processServerCapabilities":
					foundProc = true
					seenReturn := false
					for _, st := range fd.Body.List {
						if as, ok := st.(*ast.AssignStmt); ok {
							for _, l := range as.Lhs {
								if fl := recvField(l, recv); fl != "" {
									topAssigns = append(topAssigns, fl)
									if !seenReturn {
										beforeReturn = append(beforeReturn, fl)
									}
								}
							}
						}
						if containsNilReturn(st) {
							seenReturn = true
						}
					}
				}
			}
		}
	}
	uniq := func(xs []string) []string {
		var out []string
		seen := map[string]bool{}
		for _, x := range xs {
			if !seen[x] {
				seen[x] = true
				out = append(out, x)
			}
		}
		return out
	}
	lst := func(xs []string) string {
		q := make([]string, len(xs))
		for i, x := range xs {
			q[i] = strconv.Quote(x)
		}
		return "[" + strings.Join(q, ", ") + "]"
	}
	var b strings.Builder
	b.WriteString("-- GENERATED by go/cmd/extract (gen_c09.go) from driver/netconf of /repo's working tree; do not edit.\n")
	b.WriteString("namespace Scrapli.Gen.C09State\n\n")
	fmt.Fprintf(&b, "/-- `(*Driver).ServerHasCapability` found -/\ndef hasCapFound : Bool := %v\n", foundHas)
	fmt.Fprintf(&b, "/-- receiver fields / methods `(*Driver).ServerHasCapability` mentions (sorted) -/\ndef hasCapReceiverRefs : List String := %s\n", lst(hasCapRefs))
	fmt.Fprintf(&b, "/-- `(*Driver).processServerCapabilities` found -/\ndef procCapsFound : Bool := %v\n", foundProc)
	fmt.Fprintf(&b, "/-- receiver fields assigned at the top level of `processServerCapabilities` (not under a condition), in order -/\ndef procCapsTopLevelAssigns : List String := %s\n", lst(uniq(topAssigns)))
	fmt.Fprintf(&b, "/-- ... those assigned before the first statement that can `return nil` -/\ndef procCapsAssignsBeforeSuccessReturn : List String := %s\n", lst(uniq(beforeReturn)))
	fmt.Fprintf(&b, "/-- functions of driver/netconf (non-test) that assign a `serverCapabilities` field -/\ndef capabilityListWriters : List String := %s\n", lst(uniq(writers)))
	fmt.Fprintf(&b, "/-- assignments `function:field` to the package-level pattern table (getNetconfPatterns()) outside its constructor -/\ndef patternTableWrites : List String := %s\n", lst(uniq(tableWrites)))
	b.WriteString("\nend Scrapli.Gen.C09State\n")
	return b.String()
}
