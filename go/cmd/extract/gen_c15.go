package main

// Translator part for C15 (transport/telnet.go): the body of handleControlCharResponse, plus two
// facts about where the parser's partial-sequence buffer lives.
//
// The source may keep `ctrlBuf` either as a parameter/result of handleControlCharResponse (a local
// of handleControlChars: shape "param") or as a field of the Telnet struct (shape "field"). Both are
// rendered; `stepGen` normalises the translated body to `St → UInt8 → Option (St × Go.Error)` so
// that the obligation `generated_handleControlCharResponse_eq` is one statement for both shapes.
// `ctrlFreshPerOpen` says whether every negotiation phase starts with an empty buffer: a local
// initialised empty in handleControlChars, or a field that Open / handleControlChars empties before
// the read loop. Anything else (buffer not found, initialised otherwise) is `false`.

import (
	"go/ast"
	"go/token"
	"path/filepath"
	"strings"

	"verifgo/facts"
)

func init() { extraGenerators["BodiesTelnet.lean"] = genBodiesTelnet }

const c15CtrlName = "ctrlBuf"

func c15parseTelnet() *ast.File {
	f, err := parserParse(token.NewFileSet(), filepath.Join(*repo, "transport", "telnet.go"))
	if err != nil {
		return nil
	}
	return f
}

func c15findMethod(f *ast.File, name string) *ast.FuncDecl {
	if f == nil {
		return nil
	}
	for _, d := range f.Decls {
		if fd, ok := d.(*ast.FuncDecl); ok && fd.Name.Name == name && fd.Recv != nil {
			return fd
		}
	}
	return nil
}

// isEmptyBytes: make([]byte, 0) | nil | []byte{} | x[:0]
func c15isEmptyBytes(e ast.Expr) bool {
	switch v := e.(type) {
	case *ast.Ident:
		return v.Name == "nil"
	case *ast.CallExpr:
		if id, ok := v.Fun.(*ast.Ident); ok && id.Name == "make" && len(v.Args) == 2 {
			if lit, ok := v.Args[1].(*ast.BasicLit); ok {
				return lit.Value == "0"
			}
		}
	case *ast.CompositeLit:
		return len(v.Elts) == 0
	case *ast.SliceExpr:
		if v.Low == nil && v.High != nil {
			if lit, ok := v.High.(*ast.BasicLit); ok {
				return lit.Value == "0"
			}
		}
	}
	return false
}

// c15resetsBeforeLoop: does the body, before its first `for`, assign an empty value to the buffer
// (`ctrlBuf := …` when local, `recv.ctrlBuf = …` when a field)?
func c15resetsBeforeLoop(fd *ast.FuncDecl, field bool) bool {
	if fd == nil || fd.Body == nil {
		return false
	}
	for _, st := range fd.Body.List {
		if _, ok := st.(*ast.ForStmt); ok {
			return false
		}
		as, ok := st.(*ast.AssignStmt)
		if !ok || len(as.Lhs) != 1 || len(as.Rhs) != 1 {
			continue
		}
		switch lhs := as.Lhs[0].(type) {
		case *ast.Ident:
			if !field && lhs.Name == c15CtrlName && as.Tok == token.DEFINE && c15isEmptyBytes(as.Rhs[0]) {
				return true
			}
		case *ast.SelectorExpr:
			if field && lhs.Sel.Name == c15CtrlName && as.Tok == token.ASSIGN && c15isEmptyBytes(as.Rhs[0]) {
				return true
			}
		}
	}
	return false
}

func genBodiesTelnet() string {
	f := c15parseTelnet()
	step := c15findMethod(f, "handleControlCharResponse")
	shape := "param"
	if step != nil && step.Type.Params != nil {
		has := false
		for _, p := range step.Type.Params.List {
			for _, n := range p.Names {
				if n.Name == c15CtrlName {
					has = true
				}
			}
		}
		if !has {
			shape = "field"
		}
	}
	fresh := false
	if shape == "param" {
		fresh = c15resetsBeforeLoop(c15findMethod(f, "handleControlChars"), false)
	} else {
		// the field must be emptied on the way into every negotiation phase: in handleControlChars
		// before its loop, or in Open before it calls handleControlChars
		fresh = c15resetsBeforeLoop(c15findMethod(f, "handleControlChars"), true)
		if open := c15findMethod(f, "Open"); !fresh && open != nil && open.Body != nil {
			for _, st := range open.Body.List {
				if as, ok := st.(*ast.AssignStmt); ok && len(as.Lhs) == 1 && len(as.Rhs) == 1 {
					if sel, ok := as.Lhs[0].(*ast.SelectorExpr); ok && sel.Sel.Name == c15CtrlName && c15isEmptyBytes(as.Rhs[0]) {
						fresh = true
					}
					if call, ok := as.Rhs[0].(*ast.CallExpr); ok {
						if sel, ok := call.Fun.(*ast.SelectorExpr); ok && sel.Sel.Name == "handleControlChars" {
							break
						}
					}
				}
			}
		}
	}
	spec := &facts.FnSpec{Dir: "transport", Recv: "Telnet", Name: "handleControlCharResponse", Lean: "handleControlCharResponse",
		Doc: "State: `data` = `t.initialBuf`, `replies` = the byte strings passed to `t.c.Write`, in order " +
			"(every write is taken to succeed: it returns `len(b), nil`)" +
			map[string]string{"param": ".", "field": ", `ctrl` = `t.ctrlBuf`."}[shape],
		State: []facts.StateVar{
			{Key: "recv.initialBuf", Lean: "data", Ty: "bytes"},
			{Key: "«writes to recv.c»", Lean: "replies", Ty: "list"},
		},
		Effects: map[string]facts.Effect{
			"recv.c.Write": {State: "replies", ArgTy: "bytes",
				Ret: []facts.Val{{Lean: "(Go.len %0)", Ty: "int"}, {Lean: "(none : Go.Error)", Ty: "error"}}},
		}}
	var wrap string
	if shape == "field" {
		spec.State = append(spec.State, facts.StateVar{Key: "recv." + c15CtrlName, Lean: "ctrl", Ty: "bytes"})
		wrap = "  (handleControlCharResponse s.data s.replies s.ctrl c).map fun (err, data, replies, ctrl) =>\n" +
			"    (({ ctrl := ctrl, data := data, replies := replies } : Telnet.St), err)\n"
	} else {
		wrap = "  (handleControlCharResponse s.data s.replies s.ctrl c).map fun (ctrl, err, data, replies) =>\n" +
			"    (({ ctrl := ctrl, data := data, replies := replies } : Telnet.St), err)\n"
	}
	// Telnet.Read(n): `t.c.Read(b)` is abstracted to its two results (`sockN` bytes were read into the
	// scratch buffer, error `sockErr`); WHICH bytes the socket put into `b` is not modelled, so in the
	// socket branch only the length of the result is meaningful.
	read := &facts.FnSpec{Dir: "transport", Recv: "Telnet", Name: "Read", Lean: "telnetRead",
		Doc: "State: `data` = `t.initialBuf`. `sockN`, `sockErr` = what `t.c.Read(b)` returns (the bytes it " +
			"stores into `b` are not modelled: the scratch buffer stays zero filled).",
		Binders: "(sockN : Int) (sockErr : Go.Error)", BinderArgs: "sockN sockErr",
		State:   []facts.StateVar{{Key: "recv.initialBuf", Lean: "data", Ty: "bytes"}},
		Funcs: map[string]facts.LibFn{
			"recv.c.Read": {Args: []string{"bytes"}, Ret: []string{"int", "error"}, Tmpl: "(sockN, sockErr)"},
		}}
	bf := &facts.BodyFile{GeneratedBy: "gen_c15.go", Imports: []string{"ScrapliModel.Telnet"},
		Namespace: "Scrapli.Gen.Bodies.Telnet", Fns: []*facts.FnSpec{spec, read}}
	out := facts.GenBodies(bf)
	end := "\nend Scrapli.Gen.Bodies.Telnet\n"
	extra := "\n/-- where the source keeps the parser's partial-sequence buffer: `param` = parameter/result of\n" +
		"`handleControlCharResponse` (a local of `handleControlChars`), `field` = field of the `Telnet` struct -/\n" +
		"def ctrlBufShape : String := \"" + shape + "\"\n" +
		"\n/-- every negotiation phase starts with an empty buffer (a local initialised empty, or a field that\n" +
		"`Open` / `handleControlChars` empties before the read loop) -/\n" +
		"def ctrlFreshPerOpen : Bool := " + map[bool]string{true: "true", false: "false"}[fresh] + "\n" +
		"\n/-- the translated body as a parser step, whatever the shape -/\n" +
		"def stepGen (s : Telnet.St) (c : UInt8) : Option (Telnet.St × Go.Error) :=\n" + wrap
	return strings.Replace(out, end, extra+end, 1)
}
