package main

import (
	"go/ast"

	"verifgo/facts"
)

// Thin aliases so translator parts (gen_*.go) can keep using the short names.
type constVal = facts.ConstVal

func parseDir(dir string) map[string]*ast.File                       { return facts.ParseDir(dir) }
func sortedNames(m map[string]*ast.File) []string                    { return facts.SortedNames(m) }
func evalConst(e ast.Expr, env map[string]constVal) (constVal, bool) { return facts.EvalConst(e, env) }
func leanBytes(s string) string                                      { return facts.LeanBytes(s) }
func leanIdent(s string) string                                      { return facts.LeanIdent(s) }
func pkgConsts(dir string) (map[string]constVal, []string)           { return facts.PkgConsts(dir) }
func genConsts() string                                              { return facts.GenConsts() }
