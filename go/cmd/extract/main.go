// Command extract is the translator: it reads facts out of /repo's current working tree
// (constants, composite literals, regex literals, platform definitions, option tables, log call
// sites) and regenerates lean/ScrapliModel/Generated/*.lean, which the property theorems import.
package main

import (
	"flag"
	"fmt"
	"os"
	"path/filepath"

	"verifgo/facts"
)

var (
	repo = flag.String("repo", "/repo", "scrapligo source tree")
	out  = flag.String("out", "/verif/lean/ScrapliModel/Generated", "output directory")
)

// writeIfChanged keeps mtimes stable so `lake build` is a no-op on an unchanged tree.
func writeIfChanged(name, content string) {
	p := filepath.Join(*out, name)
	old, err := os.ReadFile(p)
	if err == nil && string(old) == content {
		return
	}
	if err := os.WriteFile(p, []byte(content), 0o644); err != nil {
		fmt.Fprintln(os.Stderr, "extract:", err)
		os.Exit(2)
	}
	fmt.Println("regenerated", name)
}

func main() {
	flag.Parse()
	facts.Repo = *repo
	if err := os.MkdirAll(*out, 0o755); err != nil {
		panic(err)
	}
	writeIfChanged("Consts.lean", genConsts())
	for name, gen := range extraGenerators {
		writeIfChanged(name, gen())
	}
}

var extraGenerators = map[string]func() string{}
