package main

import "verifgo/facts"

func init() { extraGenerators["C06Patterns.lean"] = facts.GenC06Patterns }
