package main

import "verifgo/facts"

func init() {
	extraGenerators["C06Patterns.lean"] = facts.GenC06Patterns
	extraGenerators["C06ReadLoop.lean"] = facts.GenC06ReadLoop
}
