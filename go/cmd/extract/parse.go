package main

import (
	"go/ast"
	"go/parser"
	"go/token"
)

func parserParse(fset *token.FileSet, path string) (*ast.File, error) {
	return parser.ParseFile(fset, path, nil, 0)
}
