package main

import "verifgo/facts"

// Translator part of property C17: advertised platform names, the listing of assets/platforms and
// every embedded definition (levels with patterns as Rx.Re terms, on-X steps, options, variants,
// one witness prompt per level) -> Generated/Platforms.lean. The rendering lives in package facts
// so that the harness can use the same loader and sampler.
func init() { extraGenerators["Platforms.lean"] = facts.GenPlatforms }
