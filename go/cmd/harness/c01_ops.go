package main

import (
	"bytes"
	"fmt"
	"os"
	"path/filepath"
	"regexp"
	"strconv"
	"strings"
	"time"

	"github.com/scrapli/scrapligo/channel"
	"github.com/scrapli/scrapligo/driver/generic"
	"github.com/scrapli/scrapligo/driver/network"
	"github.com/scrapli/scrapligo/driver/opoptions"
	"github.com/scrapli/scrapligo/driver/options"
	"github.com/scrapli/scrapligo/response"
	"github.com/scrapli/scrapligo/transport"
	"github.com/scrapli/scrapligo/util"

	"verifgo/facts"
	"verifgo/sim"
	"verifgo/vlib"
)

// c01genOps draws the API flavour, the transport / channel options that must not matter, and the
// operation list over the already drawn commands.
func c01genOps(r *vlib.Rng, cs *c01case) {
	c01genOps0(r, cs)
	for i := range cs.ops {
		cs.ops[i].oseed = r.U64()
	}
}

func c01genOps0(r *vlib.Rng, cs *c01case) {
	cs.api = []int{c01apiCommand, c01apiCommand, c01apiCommand, c01apiCommands, c01apiCommands, c01apiChannel, c01apiChannel,
		c01apiNetCommand, c01apiNetCommand, c01apiNetCommands, c01apiFile, c01apiNetFile}[r.Intn(12)]
	cs.privKnown = r.Chance(1, 2)
	if r.Chance(1, 4) {
		cs.chanLog = 1
		if r.Chance(1, 4) {
			cs.chanLog = 2
		}
	}
	if r.Chance(1, 5) {
		cs.sparse = r.Range(2, 5)
		cs.sparseNil = r.Bool()
	}
	cs.fileNoEOL = r.Bool()
	interimSet := func() []int {
		var is []int
		for len(is) == 0 {
			for i := range facts.C01Interim {
				if r.Chance(1, 2) {
					is = append(is, i)
				}
			}
		}
		return is
	}
	shorten := func(ci int) {
		// an eager send leaves the answer in the queue for the next echo read: keep most of them short
		// (the realistic use is configuration lines) so that the next command is not already a
		// subsequence of what is left
		if r.Chance(3, 4) {
			out := cs.cmds[ci].out
			if i := strings.Index(out, "\n"); i >= 0 && r.Chance(1, 2) {
				out = out[:i+1]
			} else {
				out = ""
			}
			cs.cmds[ci].out = out
			var keep []int
			for _, c := range cs.cmds[ci].cuts {
				if c <= len(out) {
					keep = append(keep, c)
				}
			}
			cs.cmds[ci].cuts = keep
		}
	}
	prompt := func() c01op { return c01op{kind: 'P', stopAt: -1, batch: -1} }
	if !c01apiBatch(cs.api) {
		// any kind of operation before any other: a GetPrompt or an empty sequence may stand in every
		// gap (also right after an eager send, whose unread answer then serves the GetPrompt)
		gap := func() {
			if r.Chance(1, 4) {
				cs.ops = append(cs.ops, prompt())
			}
			if cs.api != c01apiChannel && r.Chance(1, 10) {
				cs.ops = append(cs.ops, c01op{kind: 'N', stopAt: -1, batch: -1, nkind: r.Intn(2)})
			}
		}
		if cs.promptLines && r.Chance(1, 2) {
			cs.ops = append(cs.ops, prompt()) // the session starts by asking for the prompt
		}
		for ci := range cs.cmds {
			gap()
			op := c01op{kind: 'S', ci: ci, stopAt: -1, batch: -1}
			switch k := r.Intn(10); {
			case k < 2:
				op.kind = 'I'
				op.interim = interimSet()
				if r.Chance(1, 2) {
					op.stopAt = op.interim[r.Intn(len(op.interim))]
				}
			case k == 2:
				op.kind = 'E'
				shorten(ci)
			}
			cs.ops = append(cs.ops, op)
		}
		gap()
		return
	}
	// batch flavours: [P] [N] batch0 [P] [N] batch1 [P]; one option set for the whole session's batches
	var interim []int
	eager := false
	if r.Chance(1, 5) {
		interim = interimSet()
	} else if r.Chance(1, 12) {
		eager = true
	}
	split := len(cs.cmds)
	if len(cs.cmds) >= 2 && r.Chance(1, 3) {
		split = r.Range(1, len(cs.cmds)-1)
	}
	between := func() {
		if r.Chance(1, 4) || (cs.promptLines && len(cs.ops) == 0 && r.Chance(1, 2)) {
			cs.ops = append(cs.ops, prompt())
		}
		if r.Chance(1, 6) {
			n := c01op{kind: 'N', stopAt: -1, batch: -1, nkind: r.Intn(2)}
			if cs.api == c01apiFile || cs.api == c01apiNetFile {
				n.nkind = 2 + r.Intn(2)
			}
			cs.ops = append(cs.ops, n)
		}
	}
	between()
	for ci := range cs.cmds {
		if ci == split {
			between()
		}
		op := c01op{kind: 'S', ci: ci, stopAt: -1, batch: 0}
		if ci >= split {
			op.batch = 1
		}
		switch {
		case eager:
			op.kind = 'E'
			shorten(ci)
		case interim != nil:
			op.kind = 'I'
			op.interim = interim
			if r.Chance(1, 3) {
				op.stopAt = interim[r.Intn(len(interim))]
			}
		}
		cs.ops = append(cs.ops, op)
	}
	between()
}

// c01allOps is the operation list as the device sees it: the caller's operations plus the
// GetPrompt the network driver issues on its own before its first send when it does not know the
// privilege level yet.
func c01allOps(cs c01case) []c01op {
	ops := cs.ops
	if c01apiNet(cs.api) && !cs.privKnown {
		for i, op := range ops {
			if op.kind != 'P' {
				var out []c01op
				out = append(out, ops[:i]...)
				out = append(out, c01op{kind: 'P', stopAt: -1, batch: -1, implicit: true})
				return append(out, ops[i:]...)
			}
		}
	}
	return ops
}

func c01isSend(k byte) bool { return k == 'S' || k == 'E' || k == 'I' }

// c01expectedOp is the property's specification of one operation's result, computed
// independently of the code.
//
//	plain send                      the command's output (c01expected)
//	send stopped by an interim      the output followed by that interim prompt: it is not the
//	prompt                          channel's prompt, so it is never removed
//	eager send                      nothing (the answer is not read)
//	GetPrompt                       the device's prompt
func c01expectedOp(cs c01case, op c01op) string {
	switch op.kind {
	case 'E':
		return ""
	case 'P':
		return cs.prompt
	case 'S', 'I':
		c := cs.cmds[op.ci]
		if op.stopAt >= 0 {
			keep := cs
			keep.strip = false
			keep.prompt = facts.C01Interim[op.stopAt].Text
			return c01expected(keep, c)
		}
		return c01expected(cs, c)
	}
	return ""
}

type c01obs struct {
	results  []string // per element of c01allOps
	errs     []string // "" = not run
	noResp   []bool   // 'N': the call returned no responses
	lines    []string // device line log
	writes   [][]byte
	line     string // model request built from the observed reads
	intended string // model request built from the case alone (one chunk per region)
	aligned  bool   // the writes the device received have the shape the operations call for
	straddle bool
	closeErr string
	panicked string
	logLine  string // model request for the channel log
	logged   []byte
	empties  int64
}

var c01promptSrc = func() string {
	ch, err := channel.NewChannel(nil, nil)
	if err != nil || ch.PromptPattern == nil {
		return `(?im)^[a-z\d.\-@()/:]{1,48}[#>$]\s*$`
	}
	return ch.PromptPattern.String()
}()

var c01interimRe = func() []*regexp.Regexp {
	var out []*regexp.Regexp
	for _, p := range facts.C01Interim {
		out = append(out, regexp.MustCompile(p.Src))
	}
	return out
}()

// c01optLayout is the per-operation option list of one call, by name and in call order: the
// channel-level options the operation needs (their effective set is what the model gets) in random
// order, with 0-3 options of other layers before / between / after them. channel.NewOperation must
// apply every channel option wherever it stands.
func c01optLayout(cs c01case, op c01op) []string {
	var l []string
	if !cs.strip {
		l = append(l, "nostrip")
	}
	if cs.exact {
		l = append(l, "exact")
	}
	if op.kind == 'E' {
		l = append(l, "eager")
	}
	if len(op.interim) > 0 {
		l = append(l, "interim")
	}
	r := vlib.NewRng(op.oseed ^ 0x5eed0b75)
	if r.Chance(1, 3) {
		l = append(l, "timeout") // the driver's own 3 s, spelled out per operation
	}
	for i := len(l) - 1; i > 0; i-- {
		j := r.Intn(i + 1)
		l[i], l[j] = l[j], l[i]
	}
	foreign := []string{"failedwhen", "stoponfailed"}
	if c01apiNet(cs.api) {
		foreign = append(foreign, "privlevel")
	}
	for n := []int{0, 1, 1, 2, 2, 3}[r.Intn(6)]; n > 0; n-- {
		at := r.Intn(len(l) + 1)
		l = append(l[:at], append([]string{r.Pick(foreign)}, l[at:]...)...)
	}
	return l
}

func c01optForeign(name string) bool {
	return name == "failedwhen" || name == "stoponfailed" || name == "privlevel"
}

func c01opOpts(cs c01case, op c01op) []util.Option {
	var o []util.Option
	for _, name := range c01optLayout(cs, op) {
		switch name {
		case "nostrip":
			o = append(o, opoptions.WithNoStripPrompt())
		case "exact":
			o = append(o, opoptions.WithExactMatchInput())
		case "eager":
			o = append(o, opoptions.WithEager())
		case "interim":
			var ps []*regexp.Regexp
			for _, i := range op.interim {
				ps = append(ps, c01interimRe[i])
			}
			o = append(o, opoptions.WithInterimPromptPattern(ps))
		case "timeout":
			o = append(o, opoptions.WithTimeoutOps(3*time.Second))
		case "failedwhen":
			o = append(o, opoptions.WithFailedWhenContains([]string{"zzz-never"}))
		case "stoponfailed":
			o = append(o, opoptions.WithStopOnFailed())
		case "privlevel":
			o = append(o, opoptions.WithPrivilegeLevel("exec"))
		}
	}
	return o
}

func runC01case(cs c01case) (o c01obs) {
	all := c01allOps(cs)
	o.results = make([]string, len(all))
	o.errs = make([]string, len(all))
	o.noResp = make([]bool, len(all))
	o.intended = c01intended(cs, all)
	defer func() {
		// a panic on the calling goroutine (e.g. an index out of range in a driver method) must not
		// take the other sessions down: it is this session's outcome
		if r := recover(); r != nil {
			o.panicked = fmt.Sprint(r)
		}
	}()
	dev := sim.NewCLI()
	dev.Mode = "exec"
	dev.NL = cs.nl
	dev.EchoWrap = cs.wrap
	dev.IgnoreCR = cs.ret != "\n"
	cur := cs.prompt
	dev.Prompt = func(*sim.CLI) string { return cur }
	var lineOps []c01op
	for _, op := range all {
		if op.kind != 'N' {
			lineOps = append(lineOps, op)
		}
	}
	var wantCut []int // emitted-byte offsets at which a transport read must end (pipe lock held)
	// cutPrompt asks for a read boundary inside the prompt the device is about to print `before`
	// bytes from now: between its last non-blank byte and the blanks that end it
	cutPrompt := func(before int) {
		if t := strings.TrimRight(cur, " "); cs.cutInPrompt && len(t) < len(cur) {
			wantCut = append(wantCut, dev.Emitted+before+len(t))
		}
	}
	k := 0
	dev.Handle = func(_ *sim.CLI, line string) string {
		cur = cs.prompt
		if k < len(lineOps) {
			op := lineOps[k]
			want := ""
			if c01isSend(op.kind) {
				want = cs.cmds[op.ci].cmd
			}
			if strings.TrimRight(line, " \t") != strings.TrimRight(want, " \t") {
				// not what the next operation sends (a stray return, a mangled command): the device
				// answers with its prompt alone and still waits for that operation
				return ""
			}
			// (a device does not care about blanks at the end of a line: it runs the command; what it
			// received is judged byte for byte against the command in the device-side log)
			k++
			if op.stopAt >= 0 {
				cur = facts.C01Interim[op.stopAt].Text
			}
			if c01isSend(op.kind) {
				for _, c := range cs.cmds[op.ci].cuts {
					wantCut = append(wantCut, dev.Emitted+len(cs.nl)+c)
				}
				cutPrompt(len(cs.nl) + len(cs.cmds[op.ci].out))
				return cs.cmds[op.ci].out
			}
		}
		cutPrompt(len(cs.nl))
		return ""
	}
	sr := vlib.NewRng(cs.seed ^ 0xabcdef)
	switch cs.segClass {
	case 1:
		dev.Seg = sim.SegFixed(1)
	case 2:
		dev.Seg = sim.SegFixed(cs.segK)
	case 3, 4:
		dev.Seg = func(avail int) int { return 1 + sr.Intn(avail+cs.segK)%(cs.segK*3) }
	}
	if cs.promptLines || cs.cutInPrompt {
		// whatever the segmentation class: a read ends exactly at every requested offset
		inner := dev.Seg
		dev.Seg = func(avail int) int {
			n := avail
			if inner != nil {
				n = inner(avail)
			}
			if n < 1 {
				n = 1
			}
			for _, c := range wantCut {
				if c > dev.Delivered && dev.Delivered+n > c {
					n = c - dev.Delivered
				}
			}
			return n
		}
	}
	dev.ReadPause = time.Duration(cs.pauseUs) * time.Microsecond
	cutPrompt(0) // the login prompt
	dev.Start()
	var impl transport.Implementation = dev
	var sparse *sim.SparseCLI
	if cs.sparse > 0 {
		sparse = &sim.SparseCLI{CLI: dev, Every: cs.sparse, NilSlice: cs.sparseNil}
		impl = sparse
	}
	var logw *sim.LockedBuffer
	dopts := []util.Option{options.WithCustomTransport(impl), options.WithAuthBypass(),
		options.WithTimeoutOps(3 * time.Second), options.WithReadDelay(time.Duration(cs.delayUs) * time.Microsecond),
		options.WithPromptSearchDepth(cs.depth), options.WithTransportReadSize(cs.readSize), options.WithReturnChar(cs.ret)}
	if cs.chanLog > 0 {
		logw = &sim.LockedBuffer{Fail: cs.chanLog == 2}
		dopts = append(dopts, options.WithChannelLog(logw))
	}
	var gd *generic.Driver
	var nd *network.Driver
	var err error
	if c01apiNet(cs.api) {
		// one privilege level whose pattern is the channel's default prompt pattern: the joined
		// pattern the network driver installs is then the same expression
		dopts = append(dopts, options.WithPrivilegeLevels(map[string]*network.PrivilegeLevel{
			"exec": {Name: "exec", Pattern: c01promptSrc}}), options.WithDefaultDesiredPriv("exec"))
		nd, err = network.NewDriver("h", dopts...)
		if err == nil {
			gd = nd.Driver
		}
	} else {
		gd, err = generic.NewDriver("h", dopts...)
	}
	if err != nil {
		o.errs[0] = "new:" + err.Error()
		return o
	}
	if nd != nil {
		err = nd.Open()
	} else {
		err = gd.Open()
	}
	if err != nil {
		o.errs[0] = "open:" + errClass(err)
		return o
	}
	if nd != nil && cs.privKnown {
		nd.CurrentPriv = "exec"
	}
	if len(lineOps) > 0 && lineOps[0].kind == 'P' {
		// a session that starts by asking for the prompt: as on a real login, the device's first
		// prompt has been read (and sits in the queue) before the caller does anything
		for w := 0; w < 4000; w++ {
			dev.Mu.Lock()
			got := dev.Delivered >= dev.Emitted
			dev.Mu.Unlock()
			if got {
				break
			}
			time.Sleep(250 * time.Microsecond)
		}
	}
	tmp := ""
	defer func() {
		if tmp != "" {
			os.RemoveAll(tmp)
		}
	}()
	mkfile := func(lines []string, missing bool) string {
		if tmp == "" {
			tmp, _ = os.MkdirTemp("", "verif-c01-")
		}
		p := filepath.Join(tmp, fmt.Sprintf("cmds-%d.txt", len(lines)))
		if missing {
			return filepath.Join(tmp, "no-such-file.txt")
		}
		body := strings.Join(lines, "\n")
		if len(lines) > 0 && (!cs.fileNoEOL || lines[len(lines)-1] == "") {
			body += "\n" // (a final empty line exists only if it is terminated)
		}
		_ = os.WriteFile(p, []byte(body), 0o600)
		return p
	}
	many := func(cmds []string, nkind int, opts []util.Option) (*response.MultiResponse, error) {
		switch cs.api {
		case c01apiCommands, c01apiCommand:
			if nkind == 1 {
				cmds = []string{}
			}
			return gd.SendCommands(cmds, opts...)
		case c01apiNetCommands, c01apiNetCommand:
			if nkind == 1 {
				cmds = []string{}
			}
			return nd.SendCommands(cmds, opts...)
		case c01apiFile:
			return gd.SendCommandsFromFile(mkfile(cmds, nkind == 3), opts...)
		default:
			return nd.SendCommandsFromFile(mkfile(cmds, nkind == 3), opts...)
		}
	}
	// positions in `all` of the caller's operations (the implicit GetPrompt has none)
	for i := 0; i < len(all); {
		op := all[i]
		if op.implicit {
			i++
			continue
		}
		failed := false
		switch {
		case op.kind == 'P':
			var p string
			var err error
			switch {
			case cs.api == c01apiChannel:
				var b []byte
				b, err = gd.Channel.GetPrompt()
				p = string(b)
			case nd != nil:
				p, err = nd.GetPrompt()
			default:
				p, err = gd.GetPrompt()
			}
			o.results[i], o.errs[i] = p, errClass(err)
			failed = err != nil
			i++
		case op.kind == 'N':
			mr, err := many(nil, op.nkind, c01opOpts(cs, c01op{kind: 'S', oseed: op.oseed}))
			o.errs[i] = errClass(err)
			o.noResp[i] = mr == nil || len(mr.Responses) == 0
			i++
		case op.batch >= 0:
			j := i
			var cmds []string
			for j < len(all) && all[j].batch == op.batch && c01isSend(all[j].kind) {
				cmds = append(cmds, cs.cmds[all[j].ci].cmd)
				j++
			}
			mr, err := many(cmds, -1, c01opOpts(cs, op))
			n := 0
			if mr != nil {
				for _, r := range mr.Responses {
					if i+n < j {
						o.results[i+n], o.errs[i+n] = r.Result, "nil"
					}
					n++
				}
			}
			if err != nil {
				if i+n < j {
					o.errs[i+n] = errClass(err)
				}
				failed = true
			} else if n != j-i {
				for q := i + n; q < j; q++ {
					o.errs[q] = "missing"
				}
				if n > j-i {
					o.errs[j-1] = "extra-responses"
				}
			}
			i = j
		default:
			var res string
			var err error
			switch cs.api {
			case c01apiChannel:
				var b []byte
				b, err = gd.Channel.SendInput(cs.cmds[op.ci].cmd, c01opOpts(cs, op)...)
				res = string(b)
			case c01apiNetCommand:
				var r *response.Response
				r, err = nd.SendCommand(cs.cmds[op.ci].cmd, c01opOpts(cs, op)...)
				if r != nil {
					res = r.Result
				}
			default:
				var r *response.Response
				r, err = gd.SendCommand(cs.cmds[op.ci].cmd, c01opOpts(cs, op)...)
				if r != nil {
					res = r.Result
				}
			}
			o.results[i], o.errs[i] = res, errClass(err)
			failed = err != nil
			i++
		}
		if failed {
			break
		}
	}
	if nd != nil {
		o.closeErr = errClass(nd.Close())
	} else {
		o.closeErr = errClass(gd.Close())
	}
	if sparse != nil {
		o.empties = sparse.Empties.Load()
	}
	if logw != nil {
		// the read loop writes the log right after it enqueued a read: let the last write land
		for w, last, same := 0, -1, 0; w < 200 && same < 3; w++ {
			if n := logw.Len(); n == last {
				same++
			} else {
				last, same = n, 0
			}
			time.Sleep(300 * time.Microsecond)
		}
	}
	c01reconstruct(cs, all, dev, &o)
	if logw != nil {
		o.logged = logw.Bytes()
	}
	return o
}

// c01opTokens renders one operation of the model request (`c01 ops`).
func c01opTokens(cs c01case, op c01op, echo, resp [][]byte) []string {
	if op.kind == 'P' {
		return []string{"P", vlib.HexList(resp)}
	}
	k := string(op.kind)
	if len(op.interim) > 0 {
		var is []string
		for _, i := range op.interim {
			is = append(is, strconv.Itoa(i))
		}
		k = "I" + strings.Join(is, ",")
	}
	return []string{k, vlib.Hex([]byte(cs.cmds[op.ci].cmd)), vlib.HexList(echo), vlib.HexList(resp)}
}

func c01opsHead(cs c01case) []string {
	return []string{"c01", "ops", strconv.Itoa(cs.depth), b2s(cs.exact), b2s(cs.strip), vlib.Hex([]byte(cs.ret))}
}

// c01intended is the model request built from the case alone: what the device emits for every
// operation when it receives exactly the writes the operations call for, one chunk per region.
// (The theorem's hypotheses do not depend on the segmentation.)
func c01intended(cs c01case, all []c01op) string {
	one := func(s string) [][]byte {
		if s == "" {
			return nil
		}
		return [][]byte{[]byte(s)}
	}
	f := append(c01opsHead(cs), vlib.HexList(one(cs.prompt)))
	for _, op := range all {
		if op.kind == 'N' {
			continue
		}
		p := cs.prompt
		if op.stopAt >= 0 {
			p = facts.C01Interim[op.stopAt].Text
		}
		if op.kind == 'P' {
			f = append(f, c01opTokens(cs, op, nil, one(cs.nl+p))...)
			continue
		}
		c := cs.cmds[op.ci]
		var e strings.Builder
		for i := 0; i < len(c.cmd); i++ {
			if cs.wrap > 0 && i > 0 && i%cs.wrap == 0 {
				e.WriteString(" \r")
			}
			e.WriteByte(c.cmd[i])
		}
		f = append(f, c01opTokens(cs, op, one(e.String()), one(cs.nl+c.out+p))...)
	}
	return strings.Join(f, " ")
}

// c01reconstruct rebuilds, from what the transport saw, the per-operation read chunks and the
// model requests.
func c01reconstruct(cs c01case, all []c01op, dev *sim.CLI, o *c01obs) {
	o.intended = c01intended(cs, all)
	dev.Snapshot(func() {
		for _, l := range dev.Lines {
			o.lines = append(o.lines, l.Line)
		}
		for _, w := range dev.Writes {
			o.writes = append(o.writes, w.Data)
		}
		var want [][]byte
		for _, op := range all {
			switch {
			case op.kind == 'P':
				want = append(want, []byte(cs.ret))
			case c01isSend(op.kind):
				want = append(want, []byte(cs.cmds[op.ci].cmd), []byte(cs.ret))
			}
		}
		o.aligned = len(want) == len(dev.Writes)
		for i := 0; o.aligned && i < len(want); i++ {
			o.aligned = bytes.Equal(want[i], dev.Writes[i].Data)
		}
		stream := dev.EmittedBytes()
		cuts := map[int]bool{}
		pos := 0
		var reads [][]byte
		for _, sz := range dev.ReadLog {
			if pos+sz <= len(stream) {
				reads = append(reads, stream[pos:pos+sz])
			}
			pos += sz
			cuts[pos] = true
		}
		o.logLine = "c01 log " + vlib.HexList(reads)
		if dev.SplitAtoms > 0 {
			o.straddle = true // a read size smaller than an escape sequence cut it: outside the quantifier
		}
		if !o.aligned {
			return
		}
		// region boundaries in emitted-byte offsets: what was emitted before the first write, then
		// per write the bytes emitted in reaction to it
		type region struct {
			end     int
			movable bool // nobody waits for the end of this region before the next write: a read may span it
		}
		eb := func(w int) int {
			if w < len(dev.Writes) {
				return dev.Writes[w].EmittedBefore
			}
			return dev.Emitted
		}
		regs := []region{{eb(0), true}}
		promptReg := map[int]bool{} // regions that are a GetPrompt's
		w := 0
		for _, op := range all {
			switch {
			case op.kind == 'P':
				// a GetPrompt that finds a prompt already queued (after login, after an eager send)
				// returns without waiting for the reaction to its own return
				promptReg[len(regs)] = true
				regs = append(regs, region{eb(w + 1), regs[len(regs)-1].movable})
				w++
			case c01isSend(op.kind):
				regs = append(regs, region{eb(w + 1), false}, region{eb(w + 2), op.kind == 'E'})
				w += 2
			}
		}
		// chunks = the device's whole emission per region, cut where reads actually ended (what was
		// never read before Close is one more chunk: the theorem's hypotheses are about the device's
		// complete reaction, not only the part the client looked at)
		chunks := make([][][]byte, len(regs))
		start := 0
		for ri, rg := range regs {
			end := rg.end
			if end > len(stream) {
				end = len(stream)
			}
			if end < pos && !cuts[end] && end > start {
				if rg.movable && promptReg[ri+1] {
					// the next operation is a GetPrompt: unlike the echo read of a send, which swallows
					// whatever is queued together with its echo, a GetPrompt answers from the bytes queued
					// when it is called, so where this read was cut relative to the caller's write decides
					// its result (a prompt "router# " cut behind "#" is served as "router#"). That is a
					// race between the caller and the transport inside a device emission, not a
					// segmentation of the exchange: outside the quantifier
					o.straddle = true
				}
				if rg.movable {
					// the read that carries the end of this region belongs, whole, to the next one
					for end > start && !cuts[end] {
						end--
					}
				} else {
					o.straddle = true // one read carried bytes of two regions
				}
			}
			last := start
			for p := start + 1; p <= end; p++ {
				if cuts[p] || p == end {
					chunks[ri] = append(chunks[ri], stream[last:p])
					last = p
				}
			}
			start = end
		}
		f := append(c01opsHead(cs), vlib.HexList(chunks[0]))
		ri := 1
		for _, op := range all {
			switch {
			case op.kind == 'P':
				f = append(f, c01opTokens(cs, op, nil, chunks[ri])...)
				ri++
			case c01isSend(op.kind):
				f = append(f, c01opTokens(cs, op, chunks[ri], chunks[ri+1])...)
				ri += 2
			}
		}
		o.line = strings.Join(f, " ")
	})
}

// c01InterimDiff: the interim prompt patterns of the table as Go compiles them vs the Lean engine on
// the generated terms, on subjects assembled from the interim prompt texts, prompts, words and cuts.
func c01InterimDiff(c *ctx) {
	r := c.rng.Fork()
	frag := []string{"\n", " ", "...", "..", "--More--", "--More-- ", "Proceed? [y/n]:", "Proceed? [y/n]: ", "? [y/n]:", "router(list)...", "(list)...", "router#", "x", "Interface up", "\t", "y", "[y/n]", "a b"}
	for _, p := range facts.C01Interim {
		frag = append(frag, p.Text)
	}
	var lines []string
	type q struct {
		i    int
		subj []byte
	}
	var qs []q
	for i := range facts.C01Interim {
		for n := 0; n < c.n(150, 1500); n++ {
			var b []byte
			for k := r.Range(1, 5); k > 0; k-- {
				b = append(b, r.Pick(frag)...)
			}
			if r.Chance(1, 3) && len(b) > 1 {
				b = b[:r.Range(1, len(b)-1)]
			}
			qs = append(qs, q{i, b})
			lines = append(lines, fmt.Sprintf("c01 ipat %d %s", i, vlib.Hex(b)))
		}
	}
	ans := c.ask(lines)
	for k, x := range qs {
		if want := b2s(c01interimRe[x.i].Match(x.subj)); ans[k] != want {
			c.res.Fail("correspondence", lines[k], fmt.Sprintf("interim pattern %s on %q: Go %s, model %s", facts.C01Interim[x.i].Name, x.subj, want, ans[k]), "interim-pattern")
		}
	}
	c.res.Distribution["interim-pattern-diff"] = len(qs)
}

// c01histKind names an operation for the history counts.
func c01histKind(cs c01case, op c01op) string {
	switch {
	case op.kind == 'P' && op.implicit:
		return "P(network)"
	case op.kind == 'I' && op.stopAt >= 0:
		return "I(stopped)"
	case c01isSend(op.kind) && cs.cmds[op.ci].cmd == "":
		return string(op.kind) + "(empty)"
	}
	return string(op.kind)
}
