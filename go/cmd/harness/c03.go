package main

// C03 — NETCONF requests on the wire are correctly framed and carry the caller's content.
//
// Gating tie: real netconf.Driver methods against the NETCONF server simulator; observed are the
// concatenated bytes handed to Transport.Write, Response.Input and Response.FramedInput. They are
// compared with the Lean model (`c03 session`), decoded by the proved strict RFC decoder
// (`c03 decode`) and, for the XML-content clause (a specification tied by correspondence only),
// tokenised with encoding/xml and compared as a tree with the rpc the operation must denote.
// Auxiliary tie: the exported netconf.ForceSelfClosingTags against the scanner model (`c03 fsc`)
// and against the proved checker of the rewrite relation (`c03 chk`).

import (
	"bytes"
	"encoding/json"
	"encoding/xml"
	"errors"
	"fmt"
	"io"
	"os"
	"os/exec"
	"path/filepath"
	"sort"
	"strconv"
	"strings"
	"sync"
	"sync/atomic"
	"time"
	"unicode/utf8"

	"github.com/scrapli/scrapligo/driver/netconf"
	"github.com/scrapli/scrapligo/driver/opoptions"
	"github.com/scrapli/scrapligo/driver/options"
	"github.com/scrapli/scrapligo/response"
	"github.com/scrapli/scrapligo/util"

	"verifgo/sim"
	"verifgo/vlib"
)

func init() { props["C03"] = runC03 }

const (
	c03BaseNS     = "urn:ietf:params:xml:ns:netconf:base:1.0"
	c03DefaultsNS = "urn:ietf:params:xml:ns:yang:ietf-netconf-with-defaults"
	c03Header     = `<?xml version="1.0" encoding="UTF-8"?>`
	c03FirstID    = 101
)

// ---------------------------------------------------------------------------------------------
// generators

type c03gen struct{ r *vlib.Rng }

var c03Names = []string{"a", "b", "a", "interface", "config", "name", "if-name", "x_1", "unit", "é1", "nc:edit", "a.b"}

// c03Proto: the protocol's own vocabulary (caller content may use any of it as a data node name),
// names that merely begin or end with such a word, and prefixed forms.
var c03Proto = []string{"filter", "rpc", "rpc-reply", "config", "data", "source", "target", "get", "get-config", "edit-config",
	"hello", "capabilities", "capability", "ok", "rpc-error", "with-defaults", "running", "candidate", "url",
	"filters", "filter-list", "xfilter", "filter_", "rpcs", "subconfig", "configs", "targets",
	"nc:filter", "nc:config", "nc:rpc", "nc:data", "nc:get-config", "pf:filter", "pf:config", "x:rpc-error"}

// name draws an element name: mostly the plain alphabet, a third of the time protocol vocabulary.
func (g c03gen) name() string {
	if g.r.Chance(1, 3) {
		return g.r.Pick(c03Proto)
	}
	return g.r.Pick(c03Names)
}

func (g c03gen) ws() string {
	return g.r.Pick([]string{" ", "\n", "\t", "  ", "\r\n", " \n  "})
}

func (g c03gen) text(n int) string {
	var b strings.Builder
	for b.Len() < n {
		switch g.r.Intn(12) {
		case 0:
			b.WriteString("é✓日本")
		case 1:
			b.WriteString("&amp;")
		case 2:
			b.WriteString("\n##\n")
		case 3:
			b.WriteString("\n#" + strconv.Itoa(g.r.Intn(300)) + "\n")
		case 4:
			b.WriteString("&lt;a&gt;&lt;/a&gt;")
		case 5:
			b.WriteString("ge-0/0/" + strconv.Itoa(g.r.Intn(48)))
		case 6:
			b.WriteString("]]&gt;")
		case 7:
			b.WriteString(" / ")
		case 8:
			b.WriteString(g.r.Pick([]string{"𝔘𝔫𝔦", "&#x41;&#65;", "&quot;&apos;", "&amp;lt;filter&amp;gt;", "filter"}))
		default:
			b.WriteString(string(g.r.Bytes(g.r.Range(1, 12), []byte("abcxyz 0123456789.-_:#"))))
		}
	}
	return b.String()
}

func (g c03gen) attrs(name string) string {
	var b strings.Builder
	if strings.HasPrefix(name, "nc:") {
		b.WriteString(` xmlns:nc="` + c03BaseNS + `"`)
	} else if i := strings.IndexByte(name, ':'); i > 0 {
		b.WriteString(` xmlns:` + name[:i] + `="urn:vendor:` + name[:i] + `"`)
	}
	n := 0
	switch g.r.Intn(10) {
	case 0, 1, 2, 3:
	case 4, 5, 6, 7:
		n = 1
	default:
		n = 2
	}
	seen := map[int]bool{}
	for i := 0; i < n; i++ {
		k := g.r.Intn(16)
		if seen[k] {
			continue
		}
		seen[k] = true
		sep := " "
		if g.r.Chance(1, 8) {
			sep = g.ws()
		}
		switch k {
		case 0:
			b.WriteString(sep + `x="1"`)
		case 1:
			b.WriteString(sep + `name="ge-0/0/0"`)
		case 2:
			b.WriteString(sep + `xmlns="` + g.r.Pick([]string{"urn:example:ns", "urn:vendor:packet-filter", c03BaseNS, "urn:ietf:params:xml:ns:yang:ietf-netconf-with-defaults"}) + `"`)
		case 3:
			b.WriteString(sep + `d="é✓"`)
		case 4:
			b.WriteString(sep + `q="a&gt;b"`)
		case 5:
			b.WriteString(sep + `e=""`)
		case 6:
			b.WriteString(sep + `p="/"`)
		case 7:
			b.WriteString(sep + `y = '2'`)
		case 8:
			b.WriteString(sep + `operation="delete"`)
		case 9:
			b.WriteString(sep + `g=">"`)
		case 11:
			b.WriteString(sep + `type="` + g.r.Pick([]string{"subtree", "xpath", "other"}) + `"`)
		case 12:
			b.WriteString(sep + `select="/a/b[c='d']"`)
		case 13:
			b.WriteString(sep + `message-id="` + strconv.Itoa(g.r.Intn(1000)) + `"`)
		case 14:
			b.WriteString(sep + `v="&quot;x&apos; &#x41;&#65; &amp;amp;"`)
		case 15:
			b.WriteString(sep + `filter="filter"`)
		default:
			b.WriteString(sep + `k="v` + strconv.Itoa(g.r.Intn(100)) + `"`)
		}
	}
	return b.String()
}

// elem renders one well-formed element using roughly `budget` bytes.
func (g c03gen) elem(depth, budget int, exotic bool) string {
	name := g.name()
	at := g.attrs(name)
	open := "<" + name + at
	if g.r.Chance(1, 10) {
		open += g.r.Pick([]string{" ", "  ", "\n"})
	}
	cl := "</" + name + ">"
	if g.r.Chance(1, 25) {
		cl = "</" + name + " >"
	}
	form := g.r.Intn(10)
	if depth <= 0 && form >= 6 {
		form = g.r.Intn(6)
	}
	switch form {
	case 0:
		return "<" + name + at + "/>"
	case 1:
		return open + ">" + cl
	case 2:
		return open + ">" + g.ws() + cl
	case 3, 4:
		return open + ">" + g.text(g.r.Range(1, 1+budget/4)) + cl
	case 5:
		return "<" + name + at + " />"
	default:
		var b strings.Builder
		b.WriteString(open + ">")
		k := g.r.Range(1, 4)
		for i := 0; i < k || b.Len() < budget/2; i++ {
			if g.r.Chance(1, 4) {
				b.WriteString(g.ws())
			}
			if exotic && g.r.Chance(1, 6) {
				b.WriteString(g.r.Pick([]string{"<!-- c -->", "<!-- <a></a> -->", "<![CDATA[<a></a>]]>", "<?pi x?>", "<!---->"}))
			}
			b.WriteString(g.elem(depth-1, budget/(k+1), exotic))
			if i > 200 {
				break
			}
		}
		if g.r.Chance(1, 4) {
			b.WriteString(g.ws())
		}
		b.WriteString(cl)
		return b.String()
	}
}

// xmlDoc renders a sequence of elements of about `size` bytes.
func (g c03gen) xmlDoc(size int, exotic bool) string {
	var b strings.Builder
	for b.Len() < size {
		b.WriteString(g.elem(g.r.Range(0, 4), size-b.Len(), exotic))
		if b.Len() < size && g.r.Chance(1, 3) {
			b.WriteString(g.ws())
		}
	}
	return b.String()
}

// badXML renders payloads that are not well-formed (the malformed stream).
func (g c03gen) badXML() string {
	switch g.r.Intn(12) {
	case 0:
		return "<a><b></a>"
	case 1:
		return "</x>"
	case 2:
		return "<a>]]>]]></a>"
	case 3:
		return "<a></a"
	case 4:
		return "  \n<a/>"
	case 5:
		return "</edit-config></rpc>"
	case 6:
		return "<a x=1></a>"
	case 7:
		return "<a <b></b>"
	case 8:
		return "text only é"
	case 9:
		return "\n##\n"
	case 10:
		return "<a>]]></a>"
	default:
		return string(g.r.Bytes(g.r.Range(1, 30), []byte("<>/ ab=\"\n#]")))
	}
}

func (g c03gen) size(small bool) int {
	if small && g.r.Chance(1, 30) {
		return g.r.Range(3000, 20000)
	}
	k := g.r.Intn(20)
	switch {
	case k < 11 || (small && k < 18):
		return g.r.Range(1, 200)
	case k < 17 || small:
		return g.r.Range(200, 3000)
	default:
		return g.r.Range(3000, 20000)
	}
}

func (g c03gen) datastore() string {
	return g.r.Pick([]string{"running", "candidate", "startup", "running", "candidate", "startup", "url", "my-store", "ds_1", "é",
		"config", "data", "filter", "source", "target", "rpc", "get-config"})
}

func (g c03gen) plain(n int) string {
	var b strings.Builder
	for b.Len() < n {
		b.WriteString(g.r.Pick([]string{"/interfaces/interface[name=\"ge-0/0/0\"]", "/état", "//a[b<3 and c>'x']", "&", " ", "é✓", "\t", "\n", "a", "/config", "'", "]]>",
			"/filter", "//nc:rpc/data", "<filter>", "</filter>", "rpc-reply", "&amp;", "&#x41;", "\"", "/target/source"}))
	}
	return b.String()
}

// ---------------------------------------------------------------------------------------------
// operations

type c03op struct {
	kind       string
	variant    string // which API variant of the operation this is (evidence distribution)
	src, tgt   string
	filter     string
	ftype      string // "" = leave default
	ftypeTwice bool   // the filter type is first set to the other value, then to ftype (last one wins)
	defaults   string
	config     string
	confirmed  bool
	timeout    uint
	persist    string
	persistID  string
	period     int
	stray      int    // extra options that must not influence this operation (bit mask, see strayOpts)
	wellFormed bool   // the innerxml payload (if any) is well-formed XML
	wantErr    bool   // the call must fail before anything is written
	errClass   string // … with this error class
	failOpt    bool   // a caller-supplied option that returns an error
	shape      string // shape of the caller's XML fragment (evidence distribution)
}

// c03kinds: operation kinds with their weights (every kind the API offers; edit-config and get-config
// carry the large payload / option spaces).
var c03kinds = []string{"get", "get", "get-config", "get-config", "get-config", "edit-config", "edit-config", "edit-config",
	"copy-config", "delete-config", "lock", "unlock", "validate", "commit", "commit", "discard", "rpc", "rpc", "subscribe", "reject"}

func (g c03gen) op(small, exoticOK bool) c03op {
	o := c03op{wellFormed: true}
	payload := func() string {
		if g.r.Chance(1, 14) {
			o.wellFormed = false
			return g.badXML()
		}
		// comments / CDATA / processing instructions only where the rewrite is off: inside them
		// bytes.ReplaceAll also rewrites textual copies of a matched element (see c03direct)
		exotic := exoticOK && g.r.Chance(1, 6)
		var doc string
		if g.r.Chance(1, 4) {
			// ONE top-level data node named like a protocol element -- half of the time like the very
			// element the library wraps this fragment in (a subtree filter whose data node is called
			// `filter`, a configuration whose root is `config`, an rpc body that is an `rpc`)
			name := g.r.Pick(c03Proto)
			o.shape = "one top-level element with a protocol name"
			if g.r.Bool() {
				own := map[string]string{"get": "filter", "get-config": "filter", "edit-config": "config", "rpc": "rpc"}[o.kind]
				if own != "" {
					name = g.r.Pick([]string{own, own, own, "nc:" + own, "pf:" + own})
					o.shape = "one top-level element named like the wrapping element"
				}
			}
			open := "<" + name + g.attrs(name) + g.r.Pick([]string{"", "", "", " ", "\n"})
			switch g.r.Intn(5) {
			case 0:
				doc = open + "/>"
			case 1:
				doc = open + "></" + name + ">"
			default:
				doc = open + ">" + g.xmlDoc(g.size(true)/2+1, exotic) + "</" + name + ">"
			}
		} else {
			doc = g.xmlDoc(g.size(small), exotic)
			o.shape = "element sequence"
		}
		if exotic {
			o.shape += " +comments/CDATA/PI"
		}
		if exotic && g.r.Chance(1, 3) {
			doc = g.r.Pick([]string{"<!-- filter -->", "<?pi filter?>", "<!--<filter>-->"}) + doc
		}
		if exotic && g.r.Chance(1, 3) {
			doc += g.r.Pick([]string{"<!-- </filter> -->", "<?pi x?>", "<![CDATA[]]>"})
		}
		if g.r.Chance(1, 4) {
			doc = g.ws() + doc
			o.shape += " +leading-ws"
		}
		if g.r.Chance(1, 4) {
			doc += g.ws()
			o.shape += " +trailing-ws"
		}
		return doc
	}
	// filterVariant: 0 none, 1 subtree (type left default), 2 subtree (type set), 3 xpath,
	// 4 subtree set after xpath, 5 xpath set after subtree
	filterVariant := func(k int) string {
		switch k {
		case 0:
			return "nofilter"
		case 1:
			o.filter = payload()
			return "subtree-default"
		case 2:
			o.ftype, o.filter = "subtree", payload()
			return "subtree-set"
		case 3:
			o.ftype, o.filter = "xpath", g.plain(1+g.size(small)/4)
			return "xpath"
		case 4:
			o.ftype, o.ftypeTwice, o.filter = "subtree", true, payload()
			return "subtree-after-xpath"
		default:
			o.ftype, o.ftypeTwice, o.filter = "xpath", true, g.plain(1+g.size(small)/4)
			return "xpath-after-subtree"
		}
	}
	o.kind = g.r.Pick(c03kinds)
	switch o.kind {
	case "get":
		o.variant = filterVariant(g.r.Intn(6))
	case "get-config":
		o.src = g.datastore()
		fv := filterVariant(g.r.Intn(6))
		o.defaults = g.r.Pick([]string{"", "report-all", "report-all-tagged", "trim", "explicit"})
		o.variant = fv + "+defaults=" + o.defaults
	case "edit-config":
		o.tgt = g.datastore()
		switch g.r.Intn(8) {
		case 0:
			o.variant = "empty-config"
		default:
			o.config = payload()
			o.variant = "config"
			if !o.wellFormed {
				o.variant = "malformed-config"
			}
		}
	case "copy-config":
		o.src, o.tgt = g.datastore(), g.datastore()
		o.variant = "src/tgt"
	case "delete-config", "lock", "unlock":
		o.tgt = g.datastore()
		o.variant = "tgt"
	case "validate":
		o.src = g.datastore()
		o.variant = "src"
	case "commit":
		// all 16 combinations of confirmed x confirm-timeout x persist x persist-id, uniformly
		k := g.r.Intn(16)
		o.confirmed = k&1 != 0
		if k&2 != 0 {
			o.timeout = []uint{1, 59, 600, 4294967295, uint(g.r.Range(2, 100000))}[g.r.Intn(5)]
		}
		if k&4 != 0 {
			o.persist = g.plain(g.r.Range(1, 30))
		}
		if k&8 != 0 {
			o.persistID = g.plain(g.r.Range(1, 30))
		}
		o.variant = fmt.Sprintf("confirmed=%d timeout=%d persist=%d persist-id=%d", k&1, k>>1&1, k>>2&1, k>>3&1)
	case "discard":
		o.variant = "plain"
	case "rpc":
		switch g.r.Intn(10) {
		case 0:
			o.variant = "empty"
		case 1:
			o.filter = g.r.Pick([]string{" ", "\n", " \n\t "})
			o.variant = "white-space-only"
		case 2:
			o.filter = `<get message-id="999"><filter type="subtree"><a/></filter></get>`
			o.variant = "own-message-id-attribute"
		case 3:
			o.filter = `<rpc xmlns="urn:x" message-id="1"><get/></rpc>`
			o.variant = "nested-rpc"
		case 4:
			o.filter = "</rpc>" + g.r.Pick([]string{"", "<rpc>", "\n##\n"})
			o.wellFormed = false
			o.variant = "closes-rpc-early"
		case 5:
			o.filter = "é✓日本𝔘 plain text, no element"
			o.variant = "text-only"
		default:
			o.filter = payload()
			o.variant = "payload"
			if !o.wellFormed {
				o.variant = "malformed-payload"
			}
		}
	case "subscribe":
		o.filter = g.plain(g.r.Range(0, 60))
		o.period = c03pick3(g.r, -5, 0, g.r.Range(1, 1000000))
		o.variant = "periodic"
	default:
		// rejected before anything is built: must write nothing and must not consume a message-id
		o.wantErr = true
		o.errClass = "netconf"
		switch g.r.Intn(7) {
		case 0:
			o.kind, o.src, o.defaults = "get-config", "running", "report-everything"
			o.variant = "rejected:defaults-mode"
		case 1:
			o.kind, o.filter, o.ftype = "get", "<a/>", "regex"
			o.variant = "rejected:filter-type"
		case 2:
			o.kind, o.src, o.filter, o.ftype = "get-config", "candidate", "<a/>", "XPATH"
			o.variant = "rejected:filter-type"
		default:
			// a caller-supplied option that fails: every entry point that takes options
			o.kind = g.r.Pick([]string{"get", "get-config", "commit", "rpc"})
			o.src, o.filter = "running", "<a/>"
			o.failOpt, o.errClass = true, "badoption"
			o.variant = "rejected:failing-option"
		}
		return o
	}
	if g.r.Chance(1, 4) {
		o.stray = g.r.Range(1, 31)
	}
	return o
}

// c03pick3 picks one of three values.
func c03pick3(r *vlib.Rng, a, b, c int) int {
	switch r.Intn(3) {
	case 0:
		return a
	case 1:
		return b
	}
	return c
}

// strayOpts are options that the given operation kind does not use: they set OperationOptions fields
// the operation must ignore, or are not operation options at all (ignored by NewOperation).
func (o *c03op) strayOpts() []util.Option {
	var out []util.Option
	add := func(bit int, kinds string, opt util.Option) {
		if o.stray&bit != 0 && !strings.Contains(" "+kinds+" ", " "+o.kind+" ") {
			out = append(out, opt)
		}
	}
	// (bit, kinds that DO use the option, option)
	add(1, "get-config rpc", opoptions.WithFilter("<stray-filter/>"))
	add(2, "get-config", opoptions.WithDefaultType("trim"))
	add(4, "commit", opoptions.WithCommitConfirmed())
	add(4, "commit", opoptions.WithCommitConfirmedPersistID("stray-id"))
	add(8, "commit", opoptions.WithCommitConfirmTimeout(77))
	add(8, "get get-config", opoptions.WithFilterType("xpath"))
	add(16, "", options.WithNetconfExcludeHeader())     // a driver option: not for *OperationOptions, ignored
	add(16, "", opoptions.WithNoStripPrompt())          // a channel operation option: ignored as well
	add(2, "", opoptions.WithTimeoutOps(5*time.Second)) // per-operation timeout: must not change the request
	return out
}

func (o *c03op) call(d *netconf.Driver) (*response.NetconfResponse, error) {
	var opts []util.Option
	if o.stray != 0 {
		opts = append(opts, o.strayOpts()...)
	}
	if o.ftype != "" {
		if o.ftypeTwice {
			other := "xpath"
			if o.ftype == "xpath" {
				other = "subtree"
			}
			opts = append(opts, opoptions.WithFilterType(other))
		}
		opts = append(opts, opoptions.WithFilterType(o.ftype))
	}
	if o.failOpt {
		opts = append(opts, func(interface{}) error { return fmt.Errorf("%w: c03 failing option", util.ErrBadOption) })
	}
	switch o.kind {
	case "get":
		return d.Get(o.filter, opts...)
	case "get-config":
		if o.filter != "" {
			opts = append(opts, opoptions.WithFilter(o.filter))
		}
		if o.defaults != "" {
			opts = append(opts, opoptions.WithDefaultType(o.defaults))
		}
		return d.GetConfig(o.src, opts...)
	case "edit-config":
		return d.EditConfig(o.tgt, o.config)
	case "copy-config":
		return d.CopyConfig(o.src, o.tgt)
	case "delete-config":
		return d.DeleteConfig(o.tgt)
	case "lock":
		return d.Lock(o.tgt)
	case "unlock":
		return d.Unlock(o.tgt)
	case "validate":
		return d.Validate(o.src)
	case "commit":
		// the four commit options in a rotating order (the order must not matter)
		var co []util.Option
		if o.confirmed {
			co = append(co, opoptions.WithCommitConfirmed())
		}
		if o.timeout > 0 {
			co = append(co, opoptions.WithCommitConfirmTimeout(o.timeout))
		}
		if o.persist != "" {
			co = append(co, opoptions.WithCommitConfirmedPersist(o.persist))
		}
		if o.persistID != "" {
			co = append(co, opoptions.WithCommitConfirmedPersistID(o.persistID))
		}
		if n := len(co); n > 1 {
			k := int(o.timeout+uint(len(o.persist))) % n
			co = append(co[k:], co[:k]...)
		}
		return d.Commit(append(opts, co...)...)
	case "discard":
		return d.Discard()
	case "rpc":
		return d.RPC(append(opts, opoptions.WithFilter(o.filter))...)
	case "subscribe":
		return d.EstablishPeriodicSubscription(o.filter, o.period)
	}
	return nil, errors.New("c03: unknown op " + o.kind)
}

// c03esc is this harness's own XML escaper for the expected text (independent of encoding/xml's).
func c03esc(s string) string {
	var b strings.Builder
	for _, r := range s {
		switch r {
		case '&':
			b.WriteString("&amp;")
		case '<':
			b.WriteString("&lt;")
		case '>':
			b.WriteString("&gt;")
		case '"':
			b.WriteString("&quot;")
		case '\'':
			b.WriteString("&apos;")
		case '\t':
			b.WriteString("&#9;")
		case '\n':
			b.WriteString("&#10;")
		case '\r':
			b.WriteString("&#13;")
		default:
			b.WriteRune(r)
		}
	}
	return b.String()
}

// payload returns the caller's XML that must appear byte-identical in the request, together with
// the text that must directly precede and follow it.
func (o *c03op) payload() (pre, p, post string, has bool) {
	switch {
	case o.kind == "edit-config":
		return "</target>", o.config, "</edit-config>", true
	case (o.kind == "get" || o.kind == "get-config") && o.filter != "" && o.ftype != "xpath":
		return `<filter type="subtree">`, o.filter, "</filter>", true
	case o.kind == "rpc":
		return `">`, o.filter, "</rpc>", true
	}
	return "", "", "", false
}

// expectedInner is the content the rpc element must denote, written by this harness.
func (o *c03op) expectedInner() string {
	ds := func(w, n string) string { return "<" + w + "><" + n + "/></" + w + ">" }
	filter := func() string {
		if o.filter == "" {
			return ""
		}
		if o.ftype == "xpath" {
			return `<filter type="xpath" select="` + c03esc(o.filter) + `"/>`
		}
		return `<filter type="subtree">` + o.filter + `</filter>`
	}
	switch o.kind {
	case "get":
		return "<get>" + filter() + "</get>"
	case "get-config":
		s := "<get-config>" + ds("source", o.src) + filter()
		if o.defaults != "" {
			s += `<with-defaults xmlns="` + c03DefaultsNS + `">` + o.defaults + `</with-defaults>`
		}
		return s + "</get-config>"
	case "edit-config":
		return "<edit-config>" + ds("target", o.tgt) + o.config + "</edit-config>"
	case "copy-config":
		return "<copy-config>" + ds("target", o.tgt) + ds("source", o.src) + "</copy-config>"
	case "delete-config", "lock", "unlock":
		return "<" + o.kind + ">" + ds("target", o.tgt) + "</" + o.kind + ">"
	case "validate":
		return "<validate>" + ds("source", o.src) + "</validate>"
	case "commit":
		s := "<commit>"
		if o.confirmed {
			s += "<confirmed/>"
		}
		if o.timeout > 0 {
			s += "<confirm-timeout>" + strconv.Itoa(int(o.timeout)) + "</confirm-timeout>"
		}
		if o.persist != "" {
			s += "<persist>" + c03esc(o.persist) + "</persist>"
		}
		if o.persistID != "" {
			s += "<persist-id>" + c03esc(o.persistID) + "</persist-id>"
		}
		return s + "</commit>"
	case "discard":
		return "<discard-changes/>"
	case "rpc":
		return o.filter
	case "subscribe":
		return `<establish-subscription xmlns="urn:ietf:params:xml:ns:yang:ietf-event-notifications" xmlns:yp="urn:ietf:params:xml:ns:yang:ietf-yang-push">` +
			"<stream>yp:yang-push</stream><yp:xpath-filter>" + c03esc(o.filter) + "</yp:xpath-filter><yp:period>" + strconv.Itoa(o.period) + "</yp:period></establish-subscription>"
	}
	return ""
}

func (o *c03op) describe() string {
	trim := func(s string) string {
		if len(s) > 60 {
			return s[:60] + fmt.Sprintf("…(%d bytes)", len(s))
		}
		return s
	}
	return fmt.Sprintf("%s[%s] src=%q tgt=%q ftype=%q(twice=%v) defaults=%q filter=%q config=%q confirmed=%v timeout=%d persist=%q persist-id=%q period=%d stray=%d",
		o.kind, o.variant, o.src, o.tgt, o.ftype, o.ftypeTwice, o.defaults, trim(o.filter), trim(o.config), o.confirmed, o.timeout, trim(o.persist), trim(o.persistID), o.period, o.stray)
}

// ---------------------------------------------------------------------------------------------
// XML trees (encoding/xml tokenizer)

type c03node struct {
	Kind     string // elem, text, comment, pi, dir
	Space    string
	Local    string
	Attrs    []string
	Text     string
	Children []*c03node
}

func c03parse(b []byte) (*c03node, error) {
	dec := xml.NewDecoder(bytes.NewReader(b))
	root := &c03node{Kind: "root"}
	stack := []*c03node{root}
	for {
		tok, err := dec.Token()
		if err == io.EOF {
			break
		}
		if err != nil {
			return nil, err
		}
		top := stack[len(stack)-1]
		switch t := tok.(type) {
		case xml.StartElement:
			n := &c03node{Kind: "elem", Space: t.Name.Space, Local: t.Name.Local}
			for _, a := range t.Attr {
				n.Attrs = append(n.Attrs, a.Name.Space+"|"+a.Name.Local+"="+a.Value)
			}
			sort.Strings(n.Attrs)
			top.Children = append(top.Children, n)
			stack = append(stack, n)
		case xml.EndElement:
			stack = stack[:len(stack)-1]
		case xml.CharData:
			if k := len(top.Children); k > 0 && top.Children[k-1].Kind == "text" {
				top.Children[k-1].Text += string(t)
			} else {
				top.Children = append(top.Children, &c03node{Kind: "text", Text: string(t)})
			}
		case xml.Comment:
			top.Children = append(top.Children, &c03node{Kind: "comment", Text: string(t)})
		case xml.ProcInst:
			top.Children = append(top.Children, &c03node{Kind: "pi", Local: t.Target, Text: string(t.Inst)})
		case xml.Directive:
			top.Children = append(top.Children, &c03node{Kind: "dir", Text: string(t)})
		}
	}
	if len(stack) != 1 {
		return nil, errors.New("unbalanced")
	}
	return root, nil
}

// c03canon drops white-space-only text from elements without element children (what the
// self-closing rewrite is allowed to change) when relaxed is set.
func c03canon(n *c03node, relaxed bool) {
	if relaxed && n.Kind == "elem" {
		hasElem := false
		for _, c := range n.Children {
			if c.Kind != "text" {
				hasElem = true
			}
		}
		if !hasElem {
			var keep []*c03node
			for _, c := range n.Children {
				if strings.TrimSpace(c.Text) != "" {
					keep = append(keep, c)
				}
			}
			n.Children = keep
		}
	}
	for _, c := range n.Children {
		c03canon(c, relaxed)
	}
}

func c03diff(path string, a, b *c03node) string {
	if a.Kind != b.Kind || a.Space != b.Space || a.Local != b.Local || a.Text != b.Text {
		return fmt.Sprintf("%s: %s {%s}%s %.60q  vs  %s {%s}%s %.60q", path, a.Kind, a.Space, a.Local, a.Text, b.Kind, b.Space, b.Local, b.Text)
	}
	if strings.Join(a.Attrs, "\x00") != strings.Join(b.Attrs, "\x00") {
		return fmt.Sprintf("%s/%s: attributes %.120q vs %.120q", path, a.Local, a.Attrs, b.Attrs)
	}
	if len(a.Children) != len(b.Children) {
		return fmt.Sprintf("%s/%s: %d children vs %d", path, a.Local, len(a.Children), len(b.Children))
	}
	for i := range a.Children {
		if d := c03diff(path+"/"+a.Local, a.Children[i], b.Children[i]); d != "" {
			return d
		}
	}
	return ""
}

// ---------------------------------------------------------------------------------------------
// sessions on the real driver

type c03sessCase struct {
	neg    int // index into c03negotiations[v]
	caps   int // index into c03capSets
	wfK    int // replay of a write-failure case: request index and phase (-1: chosen by position)
	wfPh   int
	line   string // replayable: "c03 sess <v> <sc> <nh> <seed> <nops> <small>"
	v      string
	sc, nh bool
	ops    []c03op
}

type c03obs struct {
	inputs  [][]byte
	framed  [][]byte
	errs    []string // per op: "" or error class
	wire    []byte
	simRaw  [][]byte
	simOK   []bool
	openErr string
	version string
	wrote   []int // bytes written to the transport by each op
}

func c03errClass(err error) string {
	switch {
	case err == nil:
		return "nil"
	case errors.Is(err, util.ErrTimeoutError):
		return "timeout"
	case errors.Is(err, util.ErrConnectionError):
		return "connection"
	case errors.Is(err, util.ErrNetconfError):
		return "netconf"
	case errors.Is(err, util.ErrOperationError):
		return "operation"
	case errors.Is(err, util.ErrBadOption):
		return "badoption"
	}
	return "other"
}

// c03negotiations: how the session arrives at its framing (server capabilities x preferred version).
var c03negotiations = map[string][]struct {
	caps10, caps11 bool
	preferred      string
}{
	"1.0": {{true, false, ""}, {true, false, "1.0"}, {true, true, "1.0"}},
	"1.1": {{true, true, ""}, {true, true, "1.1"}, {false, true, ""}, {false, true, "1.1"}},
}

// c03capSets: what else the server's hello advertises (a session dimension): realistic capability
// sets around the things operation options talk about -- with-defaults with each basic mode and
// also-supported lists, candidate / confirmed-commit, xpath, url, writable-running, notification,
// yang-library, vendor capabilities. The request must never depend on them.
var c03capSets = [][]string{
	nil,
	{"urn:ietf:params:netconf:capability:writable-running:1.0", "urn:ietf:params:netconf:capability:candidate:1.0",
		"urn:ietf:params:netconf:capability:confirmed-commit:1.1", "urn:ietf:params:netconf:capability:rollback-on-error:1.0",
		"urn:ietf:params:netconf:capability:validate:1.1", "urn:ietf:params:netconf:capability:startup:1.0",
		"urn:ietf:params:netconf:capability:url:1.0?scheme=file,ftp,sftp", "urn:ietf:params:netconf:capability:xpath:1.0",
		"urn:ietf:params:netconf:capability:notification:1.0", "urn:ietf:params:netconf:capability:interleave:1.0",
		"urn:ietf:params:netconf:capability:with-defaults:1.0?basic-mode=explicit&amp;also-supported=report-all,report-all-tagged,trim",
		"urn:ietf:params:netconf:capability:yang-library:1.1?revision=2019-01-04&amp;content-id=61",
		"urn:ietf:params:xml:ns:yang:ietf-netconf-with-defaults?module=ietf-netconf-with-defaults&amp;revision=2011-06-01"},
	{"urn:ietf:params:netconf:capability:with-defaults:1.0?basic-mode=report-all", "urn:ietf:params:netconf:capability:writable-running:1.0",
		"urn:ietf:params:netconf:capability:xpath:1.0"},
	{"urn:ietf:params:netconf:capability:with-defaults:1.0?basic-mode=trim&amp;also-supported=report-all",
		"urn:ietf:params:netconf:capability:candidate:1.0", "urn:ietf:params:netconf:capability:confirmed-commit:1.0"},
	{"urn:ietf:params:netconf:capability:with-defaults:1.0?basic-mode=report-all-tagged;also-supported=explicit",
		"urn:ietf:params:netconf:capability:url:1.0?scheme=http", "urn:ietf:params:netconf:capability:notification:1.0"},
	{"urn:ietf:params:netconf:capability:with-defaults:1.0?also-supported=trim&amp;basic-mode=explicit"},
	{"http://xml.juniper.net/netconf/junos/1.0", "http://xml.juniper.net/dmi/system/1.0", "urn:ietf:params:xml:ns:netconf:capability:candidate:1.0",
		"urn:ietf:params:netconf:capability:candidate:1.0", "urn:ietf:params:netconf:capability:confirmed-commit:1.0",
		"urn:ietf:params:netconf:capability:validate:1.0", "urn:ietf:params:netconf:capability:url:1.0?scheme=http,ftp,file"},
}

func c03runSession(v string, neg, caps int, sc, nh bool, ops []c03op) c03obs {
	return c03runSessionFault(v, neg, caps, sc, nh, ops, -1)
}

// c03runSessionFault: writeErrAfter >= 0 makes the transport refuse every write that would take
// the total number of written bytes beyond that count.
func c03runSessionFault(v string, neg, caps int, sc, nh bool, ops []c03op, writeErrAfter int) c03obs {
	var o c03obs
	ng := c03negotiations[v][neg%len(c03negotiations[v])]
	s := sim.NewNCServer(ng.caps10, ng.caps11)
	s.Hello = s.DefaultHello(4711, c03capSets[caps%len(c03capSets)])
	s.WriteErrAfter = writeErrAfter
	s.Behave = func(i int, req sim.NCRequest) sim.NCReply {
		if bytes.Contains(req.Raw, []byte("<establish-subscription ")) {
			// lower-case subscription-id: the read loop stores this reply with storeSubscriptionMessage
			// concurrently with the caller registering the subscription (the once racy pair, see
			// c03raceChild)
			return sim.NCReply{Payload: []byte(fmt.Sprintf(`<rpc-reply xmlns="%s" message-id="%d"><subscription-result xmlns="urn:ietf:params:xml:ns:yang:ietf-event-notifications">notif-bis:ok</subscription-result><subscription-id xmlns="urn:ietf:params:xml:ns:yang:ietf-event-notifications">%d</subscription-id></rpc-reply>`, c03BaseNS, req.MessageID, 1000+i))}
		}
		return sim.NCReply{Payload: []byte(fmt.Sprintf(`<rpc-reply xmlns="%s" message-id="%d"><ok/></rpc-reply>`, c03BaseNS, req.MessageID))}
	}
	s.Start()
	dopts := []util.Option{options.WithCustomTransport(s), options.WithAuthBypass(),
		options.WithTimeoutOps(2 * time.Second), options.WithReadDelay(20 * time.Microsecond)}
	if ng.preferred != "" {
		dopts = append(dopts, options.WithNetconfPreferredVersion(ng.preferred))
	}
	if sc {
		dopts = append(dopts, options.WithNetconfForceSelfClosingTags())
	}
	if nh {
		dopts = append(dopts, options.WithNetconfExcludeHeader())
	}
	d, err := netconf.NewDriver("h", dopts...)
	if err != nil {
		o.openErr = "new: " + err.Error()
		return o
	}
	if err = d.Open(); err != nil {
		o.openErr = "open: " + err.Error()
		return o
	}
	o.version = d.SelectedVersion
	written := func() int {
		n := 0
		s.Snapshot(func() { n = s.Written })
		return n
	}
	for i := range ops {
		before := written()
		r, err := ops[i].call(d)
		o.errs = append(o.errs, c03errClass(err))
		o.wrote = append(o.wrote, written()-before)
		if err != nil || r == nil {
			o.inputs = append(o.inputs, nil)
			o.framed = append(o.framed, nil)
			if !ops[i].wantErr {
				if errors.Is(err, util.ErrTimeoutError) && writeErrAfter < 0 {
					c03timeouts.Add(1)
				}
				break // a request that got no reply: the rest of the session would only time out too
			}
			continue
		}
		o.inputs = append(o.inputs, append([]byte{}, r.Input...))
		o.framed = append(o.framed, append([]byte{}, r.FramedInput...))
	}
	o.wire = s.AllWritten()
	s.Snapshot(func() {
		for _, q := range s.Requests {
			o.simRaw = append(o.simRaw, append([]byte{}, q.Raw...))
			o.simOK = append(o.simOK, q.FrameOK)
		}
	})
	_ = d.Close()
	return o
}

func c03b(b bool) string {
	if b {
		return "1"
	}
	return "0"
}

func (g c03gen) session(v string, sc, nh bool, nops int, small bool) []c03op {
	ops := make([]c03op, nops)
	for i := range ops {
		ops[i] = g.op(small, !sc)
	}
	return ops
}

func c03mkSession(v string, sc, nh bool, seed uint64, nops int, small bool) c03sessCase {
	g := c03gen{r: vlib.NewRng(seed)}
	neg := g.r.Intn(len(c03negotiations[v]))
	caps := g.r.Intn(len(c03capSets))
	return c03sessCase{
		neg:  neg,
		caps: caps,
		wfK:  -1,
		wfPh: -1,
		line: fmt.Sprintf("c03 sess %s %s %s %d %d %s", v, c03b(sc), c03b(nh), seed, nops, c03b(small)),
		v:    v, sc: sc, nh: nh, ops: g.session(v, sc, nh, nops, small),
	}
}

// c03basicMode: the with-defaults basic mode a capability set advertises ("" if none).
func c03basicMode(caps int) string {
	for _, c := range c03capSets[caps] {
		if i := strings.Index(c, "basic-mode="); i >= 0 && strings.Contains(c, "capability:with-defaults:") {
			m := c[i+len("basic-mode="):]
			if j := strings.IndexAny(m, "&;"); j >= 0 {
				m = m[:j]
			}
			return m
		}
	}
	return ""
}

// c03refCaps: the capability set of the reference session (never the session's own).
func c03refCaps(caps int) int {
	if caps == 0 {
		return 1
	}
	return 0
}

func c03firstDiff(a, b []byte) int {
	n := len(a)
	if len(b) < n {
		n = len(b)
	}
	for i := 0; i < n; i++ {
		if a[i] != b[i] {
			return i
		}
	}
	if len(a) != len(b) {
		return n
	}
	return -1
}

func c03around(b []byte, i int) string {
	lo, hi := i-40, i+40
	if lo < 0 {
		lo = 0
	}
	if hi > len(b) {
		hi = len(b)
	}
	if lo > hi {
		lo = hi
	}
	return fmt.Sprintf("%q", b[lo:hi])
}

// c03fscSig classifies a wrong ForceSelfClosingTags result.
func c03fscSig(impl, model, asIs []byte) string {
	if bytes.Equal(impl, asIs) && !bytes.Equal(asIs, model) {
		return "selfclose-rewrites-already-self-closed-element"
	}
	return "selfclose-wrong-result"
}

// ---------------------------------------------------------------------------------------------

func runC03(c *ctx) {
	res := c.res
	res.Rule = "sessions: {1.0,1.1} (reached through 7 server-capability x preferred-version negotiations) x ForceSelfClosingTags x ExcludeHeader x 1..30 requests drawn from every API variant of get(6 filter variants)/get-config(6 filter variants x 5 defaults modes)/edit-config/copy-config/delete-config/lock/unlock/validate/commit(all 16 combinations of confirmed, confirm-timeout, persist, persist-id)/discard/raw rpc(8 payload kinds)/EstablishPeriodicSubscription, a quarter of them with extra options the operation must ignore, plus calls that must be rejected before anything is written (bad filter type, bad defaults mode, failing caller option) and transport write failures at each of the 2-3 writes of a request; payloads are generated XML (attributes, namespaces, prefixed names, empty / white-space-only / already self-closed elements, same-name nesting, multi-byte text, '##' and '#<n>' lines, 1..20000 bytes) plus malformed payloads; direct: ForceSelfClosingTags on generated XML (with and without comments/CDATA/processing instructions), byte soup and token soup. non-trivial = a request that was sent (distinct by version/options/position/bytes) or a direct rewrite input containing '</'"
	type sessParam struct {
		v      string
		sc, nh bool
		seed   uint64
		nops   int
		small  bool
		wfK    int
		wfPh   int
	}
	var sess []sessParam
	var direct [][]byte
	var directClass []string
	addDirect := func(cl string, b []byte) {
		direct = append(direct, b)
		directClass = append(directClass, cl)
	}
	if c.replay != "" {
		f := strings.Fields(c.replay)
		switch {
		case (len(f) == 8 || (len(f) == 11 && f[8] == "wf")) && f[1] == "sess":
			seed, _ := strconv.ParseUint(f[5], 10, 64)
			nops, _ := strconv.Atoi(f[6])
			sp := sessParam{f[2], f[3] == "1", f[4] == "1", seed, nops, f[7] == "1", -1, -1}
			if len(f) == 11 {
				sp.wfK, _ = strconv.Atoi(f[9])
				sp.wfPh, _ = strconv.Atoi(f[10])
			}
			sess = append(sess, sp)
		case len(f) == 3 && f[1] == "subrace":
			c.c03raceChild()
			return
		case len(f) == 3 && f[1] == "fsc":
			b, _ := vlib.UnHex(f[2])
			addDirect("replay", b)
		default:
			res.Fail("machinery", c.replay, "cannot parse replay line", "replay")
			return
		}
	} else {
		r := c.rng
		// every version x option combination at every session length class
		nSess := c.n(320, 6000)
		for i := 0; i < nSess; i++ {
			v := []string{"1.0", "1.1"}[i%2]
			sc := (i/2)%2 == 1
			nh := (i/4)%2 == 1
			var nops int
			small := false
			switch k := r.Intn(10); {
			case k < 4:
				nops = r.Range(1, 3)
			case k < 8:
				nops = r.Range(4, 12)
				small = r.Chance(2, 3)
			default:
				nops = r.Range(13, 30)
				small = true
			}
			sess = append(sess, sessParam{v, sc, nh, r.U64(), nops, small, -1, -1})
		}
		// direct ForceSelfClosingTags inputs
		g := c03gen{r: r}
		fixed := []string{`<a><a x="1"/></a>`, `<interface><interface name="x"/></interface>`, `<a><b/></a>`, `<a x="1"></a>`,
			`<a ></a>`, `<a  ></a>`, `<nc:a></nc:a>`, `<a> </a><a> </a>`, `<a x=">"></a>`, `<a><a x="1"/> </a>`, `<a></a></a>`,
			`<a  x></a> </a>`, `<b><b x="1"></b></b>`, `<a/>`, ``, `<`, `>`, `</a>`, `<a></a`, "<a>\f</a>", "<a>\v</a>", "<a> </a>", `<a-b_1></a-b_1>`, `<a></A>`,
			`<!-- <a></a> --><a></a>`, `<x <a></a>`, `</q <n a></n> </q>`, `<a <b></a>`, `<a></a><![CDATA[<a></a>]]>`}
		for _, s := range fixed {
			addDirect("fixed", []byte(s))
		}
		for i := 0; i < c.n(4000, 100000); i++ {
			addDirect("xml", []byte(g.xmlDoc(g.size(true)/2+1, false)))
		}
		for i := 0; i < c.n(600, 15000); i++ {
			addDirect("xml-exotic", []byte(g.xmlDoc(g.size(true)/2+1, true)))
		}
		for i := 0; i < c.n(2500, 60000); i++ {
			addDirect("soup", r.Bytes(r.Range(0, 40), []byte("<<>>//aab \n=\"x-")))
		}
		toks := []string{"<a", "<b", ">", "</a>", "</b>", " ", "/", ` x="1"`, "<!--", "-->", "\n", "</a", "<", "a", " x", "/>", "<a>", "<b>", "</a >"}
		for i := 0; i < c.n(2500, 60000); i++ {
			var b []byte
			for k := r.Range(0, 14); k > 0; k-- {
				b = append(b, r.Pick(toks)...)
			}
			addDirect("token-soup", b)
		}
	}
	for lo := 0; lo < len(direct); lo += 4000 {
		hi := lo + 4000
		if hi > len(direct) {
			hi = len(direct)
		}
		c03direct(c, direct[lo:hi], directClass[lo:hi])
	}
	c03directNotes(res)
	if c.replay == "" {
		c.c03raceChild()
	}
	for lo := 0; lo < len(sess); lo += 160 {
		hi := lo + 160
		if hi > len(sess) {
			hi = len(sess)
		}
		var batch []c03sessCase
		for _, p := range sess[lo:hi] {
			cs := c03mkSession(p.v, p.sc, p.nh, p.seed, p.nops, p.small)
			cs.wfK, cs.wfPh = p.wfK, p.wfPh
			batch = append(batch, cs)
		}
		c03sessions(c, batch)
	}
}

// c03raceChild builds cmd/c03race with -race next to the driver copy bin/check made and runs it:
// 200 (thorough 1000) EstablishPeriodicSubscription calls whose replies the read loop stores
// concurrently. A reported data race, a crash of the child or a wrong subscription store is a
// finding; if the race binary cannot be built the run is noted, not failed.
func (c *ctx) c03raceChild() {
	res := c.res
	build := filepath.Dir(c.driver)
	mf := filepath.Join(build, "go.mod")
	if _, err := os.Stat(mf); err != nil {
		res.Note("subscription race child not run: no go.mod next to the driver (%s)", mf)
		return
	}
	bin := filepath.Join(build, "c03race")
	cmd := exec.Command("go", "build", "-race", "-modfile", mf, "-o", bin, "./cmd/c03race")
	cmd.Env = append(os.Environ(), "CGO_ENABLED=1")
	if b, err := cmd.CombinedOutput(); err != nil {
		res.Note("subscription race child not run: go build -race failed: %s", c03clip(strings.TrimSpace(string(b)), 300))
		return
	}
	calls := c.n(200, 1000)
	line := fmt.Sprintf("c03 subrace %d", calls)
	run := exec.Command(bin, "-calls", strconv.Itoa(calls))
	run.Env = append(os.Environ(), "GORACE=halt_on_error=1 exitcode=66")
	var stdout, stderr bytes.Buffer
	run.Stdout, run.Stderr = &stdout, &stderr
	err := run.Run()
	res.Case(line, true)
	res.Count("subscription-race-child:calls=" + strconv.Itoa(calls))
	var rep struct {
		Calls     int
		Violation string
		Detail    string
	}
	switch {
	case strings.Contains(stderr.String(), "DATA RACE"):
		res.Fail("oracle", line, "race detector while establishing subscriptions:\n"+c03clip(stderr.String(), 900), "subscription-race")
	case json.Unmarshal(bytes.TrimSpace(stdout.Bytes()), &rep) != nil:
		res.Fail("oracle", line, fmt.Sprintf("subscription child died (%v): %s", err, c03clip(stderr.String(), 600)), "subscription-child-died")
	case rep.Violation != "":
		res.Fail("correspondence", line, rep.Detail, "subscription-child:"+rep.Violation)
	default:
		res.Note("subscription race child: %d EstablishPeriodicSubscription calls under -race, no race, every establishing reply stored once under its subscription id", rep.Calls)
	}
}

var c03inDom, c03total = map[string]int{}, map[string]int{}

// c03timeouts counts requests that got no reply; see c03sessions.
var c03timeouts atomic.Int32

func c03directNotes(res *vlib.Result) {
	var keys []string
	for k := range c03total {
		keys = append(keys, k)
	}
	sort.Strings(keys)
	for _, k := range keys {
		res.Note("direct tie, class %s: %d/%d inputs in the single-pass scanner's domain (scanner = FindAll+ReplaceAll model); implementation compared with the FindAll+ReplaceAll model on all of them", k, c03inDom[k], c03total[k])
	}
}

// c03direct ties the exported ForceSelfClosingTags to the scanner model and to the proved checker
// of the rewrite relation.
func c03direct(c *ctx, inputs [][]byte, class []string) {
	res := c.res
	if len(inputs) == 0 {
		return
	}
	outs := make([][]byte, len(inputs))
	twice := make([][]byte, len(inputs))
	var lines []string
	for i, in := range inputs {
		outs[i] = netconf.ForceSelfClosingTags(append([]byte{}, in...))
		twice[i] = netconf.ForceSelfClosingTags(append([]byte{}, outs[i]...))
		lines = append(lines, "c03 fsc "+vlib.Hex(in), "c03 chk "+vlib.Hex(in)+" "+vlib.Hex(outs[i]))
	}
	ans := c.ask(lines)
	inDom, total := c03inDom, c03total
	for i, in := range inputs {
		cl := class[i]
		res.Count("direct:" + cl)
		res.Case("fsc:"+string(in), bytes.Contains(in, []byte("</")))
		caseLine := "c03 fsc " + vlib.Hex(in)
		f := strings.Fields(ans[2*i])
		if len(f) != 4 {
			res.Fail("machinery", caseLine, "driver answered "+ans[2*i], "driver")
			continue
		}
		dom := f[0] == "1" // single-pass scanner (theorems) == statement-by-statement model
		scanner, _ := vlib.UnHex(f[1])
		model, _ := vlib.UnHex(f[2])
		asIs, _ := vlib.UnHex(f[3])
		legal := ans[2*i+1] == "1"
		total[cl]++
		if dom {
			inDom[cl]++
			res.InDomain++
		}
		if i%499 == 0 {
			res.Sample(map[string]any{"class": "direct-" + cl, "input": c03clip(string(in), 300), "impl": c03clip(string(outs[i]), 300), "model": c03clip(string(model), 300)})
		}
		// oracle: the output must be the input with some empty elements closed, nothing else
		if !legal {
			res.Fail("oracle", caseLine, fmt.Sprintf("ForceSelfClosingTags(%q) = %q is not the input with empty elements closed (repaired model: %q)", in, outs[i], scanner),
				c03fscSig(outs[i], model, asIs))
			continue
		}
		// correspondence with the statement-by-statement model (FindAllSubmatch + ReplaceAll), all inputs
		if !bytes.Equal(outs[i], model) {
			res.Fail("correspondence", caseLine, fmt.Sprintf("ForceSelfClosingTags(%q) = %q, model %q", in, outs[i], model), c03fscSig(outs[i], model, asIs))
			continue
		}
		// generated XML without comments / CDATA / processing instructions must be in the scanner's domain
		if !dom && cl == "xml" {
			res.Fail("machinery", caseLine, fmt.Sprintf("scanner %q and statement-by-statement model %q differ on plain XML %q", scanner, model, in), "scanner-domain")
		}
		if dom && !bytes.Equal(twice[i], outs[i]) {
			sig := "selfclose-not-idempotent"
			if bytes.Contains(twice[i], []byte("//>")) {
				sig = "selfclose-rewrites-already-self-closed-element"
			}
			res.Fail("correspondence", caseLine, fmt.Sprintf("ForceSelfClosingTags is not idempotent on %q: %q then %q", in, outs[i], twice[i]), sig)
		}
	}
	res.TracesVsImpl += len(inputs)
}

func c03sessions(c *ctx, sess []c03sessCase) {
	res := c.res
	if len(sess) == 0 {
		return
	}
	type run struct {
		obs, ref c03obs
		inners   [][]byte
		ok       bool
		skipped  bool
	}
	runs := make([]run, len(sess))
	// 1. run the real driver (and the reference session without options for the marshalled bodies);
	// sessions are independent, so they run on a few workers (results are gathered by index).
	// When requests keep timing out (a framing defect makes the server simulator wait for more
	// bytes) the remaining sessions are skipped: the verdict is already decided.
	var wg sync.WaitGroup
	next := make(chan int)
	for w := 0; w < vlib.Conc(8); w++ {
		wg.Add(1)
		go func() {
			defer wg.Done()
			for i := range next {
				sc := sess[i]
				if c03timeouts.Load() >= 8 {
					runs[i].skipped = true
					continue
				}
				runs[i].obs = c03runSession(sc.v, sc.neg, sc.caps, sc.sc, sc.nh, sc.ops)
				// the reference session (no options) always faces a server with a DIFFERENT capability
				// set: the request must be a function of the caller's arguments only
				runs[i].ref = c03runSession(sc.v, sc.neg, c03refCaps(sc.caps), false, true, sc.ops)
			}
		}()
	}
	for i := range sess {
		next <- i
	}
	close(next)
	wg.Wait()
	// 2. strip the rpc envelope of every reference body (model: rpcBody (101+k) inner)
	var lines []string
	type key struct{ s, k int }
	var idx []key
	for i := range sess {
		o := &runs[i]
		if o.skipped {
			res.Count("session:skipped-after-repeated-timeouts")
			continue
		}
		if o.obs.openErr != "" || o.ref.openErr != "" {
			res.Fail("oracle", sess[i].line, "session did not open: "+o.obs.openErr+o.ref.openErr, "open-failed")
			continue
		}
		o.ok = true
		id := c03FirstID
		for k := range o.ref.inputs {
			if o.ref.inputs[k] == nil {
				continue
			}
			lines = append(lines, fmt.Sprintf("c03 body %d %s", id, vlib.Hex(o.ref.inputs[k])))
			idx = append(idx, key{i, k})
			id++
		}
	}
	ans := c.ask(lines)
	for j, kk := range idx {
		f := strings.Fields(ans[j])
		o := &runs[kk.s]
		if len(f) != 2 || f[0] != "1" {
			o.ok = false
			res.Fail("oracle", sess[kk.s].line, fmt.Sprintf("request %d (%s): the marshalled message is not an rpc element with the base namespace and message-id %d: %.200q",
				kk.k, sess[kk.s].ops[kk.k].describe(), c03FirstID+len(o.inners), o.ref.inputs[kk.k]), "rpc-envelope")
			continue
		}
		inner, _ := vlib.UnHex(f[1])
		o.inners = append(o.inners, inner)
	}
	// 3. model session, strict decode of the observed wire, message-ids
	lines = lines[:0]
	for i, sc := range sess {
		if !runs[i].ok {
			continue
		}
		lines = append(lines,
			fmt.Sprintf("c03 session %s %s %s %s", sc.v, c03b(sc.sc), c03b(sc.nh), vlib.HexList(runs[i].inners)),
			fmt.Sprintf("c03 decode %s %s", sc.v, vlib.Hex(runs[i].obs.wire)))
	}
	ans = c.ask(lines)
	j := 0
	var chk []string
	var chkIdx []key
	// correspondence findings are held back until the session has been compared with the model of
	// the code as it is (only used to classify: a session that differs from the repaired model
	// exactly the way the recorded self-closing defect does carries that defect's signature)
	type pend struct{ detail, sig string }
	pending := map[int][]pend{}
	for i, sc := range sess {
		o := &runs[i]
		if !o.ok {
			continue
		}
		mAns, dAns := ans[j], ans[j+1]
		j += 2
		res.Count(fmt.Sprintf("session:v=%s sc=%s nh=%s", sc.v, c03b(sc.sc), c03b(sc.nh)))
		ng := c03negotiations[sc.v][sc.neg]
		res.Count(fmt.Sprintf("negotiation:v=%s server-caps(1.0=%v,1.1=%v) preferred=%q", sc.v, ng.caps10, ng.caps11, ng.preferred))
		res.Count(fmt.Sprintf("server-capability-set:%d", sc.caps))
		res.Count(fmt.Sprintf("session-requests:%02d-%02d", (len(sc.ops)-1)/5*5+1, (len(sc.ops)-1)/5*5+5))
		mf := strings.Fields(mAns)
		if len(mf) != 5 {
			res.Fail("machinery", sc.line, "driver answered "+c03clip(mAns, 100), "driver")
			continue
		}
		dom := mf[0] == "1"
		mWire, _ := vlib.UnHex(mf[1])
		mRaws := c03unhexList(mf[2])
		mFramed := c03unhexList(mf[3])
		if dom && mf[4] != "1" {
			res.Fail("machinery", sc.line, "model: strictDecode (session …) differs from the reported inputs on an in-domain session", "model-vs-spec")
		}
		if o.obs.version != sc.v {
			res.Fail("oracle", sc.line, "selected version "+o.obs.version+" want "+sc.v, "version")
			continue
		}
		// sent requests in order
		var sentIdx []int
		for k := range sc.ops {
			if k >= len(o.obs.errs) {
				break
			}
			op := &sc.ops[k]
			if op.wantErr {
				res.Count("op:rejected-before-send")
				res.Count("variant:" + op.kind + ":" + op.variant)
				if o.obs.errs[k] != op.errClass || o.obs.wrote[k] != 0 {
					res.Fail("oracle", sc.line, fmt.Sprintf("request %d (%s): want a %s error and nothing written, got %s and %d bytes", k, op.describe(), op.errClass, o.obs.errs[k], o.obs.wrote[k]), "invalid-argument-sent")
				}
				continue
			}
			if o.obs.errs[k] != "nil" {
				res.Fail("oracle", sc.line, fmt.Sprintf("request %d (%s) failed: %s (the server simulator answers every well-framed request; frame ok=%v)", k, op.describe(), o.obs.errs[k], o.obs.simOK), "request-failed:"+o.obs.errs[k])
				break
			}
			sentIdx = append(sentIdx, k)
		}
		if len(sentIdx) != len(o.inners) || len(mRaws) != len(sentIdx) {
			res.Fail("correspondence", sc.line, fmt.Sprintf("session with options sent %d requests, reference session %d, model %d", len(sentIdx), len(o.inners), len(mRaws)), "request-count")
			continue
		}
		if dom {
			res.InDomain++
		} else {
			res.Count("session:out-of-domain")
		}
		// correspondence: wire, Input, FramedInput against the model
		if d := c03firstDiff(o.obs.wire, mWire); d >= 0 {
			pending[i] = append(pending[i], pend{fmt.Sprintf("bytes written to the transport differ from the model at offset %d: impl %s model %s", d, c03around(o.obs.wire, d), c03around(mWire, d)), "wire-vs-model"})
		}
		var inputs [][]byte
		for n, k := range sentIdx {
			op := &sc.ops[k]
			in := o.obs.inputs[k]
			inputs = append(inputs, in)
			res.Count("op:" + op.kind)
			res.Count("variant:" + op.kind + ":" + op.variant)
			if op.shape != "" {
				res.Count("fragment:" + op.shape)
			}
			if op.kind == "get-config" && op.defaults != "" {
				switch bm := c03basicMode(sc.caps); {
				case bm == "":
					res.Count("defaults-mode-vs-server:server advertises no with-defaults")
				case bm == op.defaults:
					res.Count("defaults-mode-vs-server:caller's mode IS the server's basic mode")
				default:
					res.Count("defaults-mode-vs-server:caller's mode differs from the basic mode")
				}
			}
			if op.ftype == "xpath" && op.filter != "" {
				res.Count(fmt.Sprintf("xpath-filter:server advertises xpath=%v", strings.Contains(strings.Join(c03capSets[sc.caps], " "), "capability:xpath:")))
			}
			if op.kind == "commit" && op.confirmed {
				res.Count(fmt.Sprintf("confirmed-commit:server advertises confirmed-commit=%v", strings.Contains(strings.Join(c03capSets[sc.caps], " "), "capability:confirmed-commit:")))
			}
			if op.src == "url" || op.tgt == "url" {
				res.Count(fmt.Sprintf("url-datastore:server advertises url=%v", strings.Contains(strings.Join(c03capSets[sc.caps], " "), "capability:url:")))
			}
			if op.stray != 0 {
				res.Count("op-with-stray-options:" + op.kind)
			}
			res.Count("size:" + c03sizeClass(len(in)))
			res.Case(fmt.Sprintf("%s|%v|%v|%d|%s", sc.v, sc.sc, sc.nh, n, in), true)
			if (i+k)%97 == 0 {
				res.Sample(map[string]any{"class": "session", "version": sc.v, "self_closing": sc.sc, "exclude_header": sc.nh, "position": n + 1,
					"op": op.describe(), "input": c03clip(string(in), 400), "framed_prefix": c03clip(string(o.obs.framed[k]), 24)})
			}
			if d := c03firstDiff(in, mRaws[n]); d >= 0 {
				sig := "input-vs-model"
				if sc.sc {
					sig = "input-vs-model-selfclose"
					if bytes.Contains(in, []byte("//>")) {
						sig = "selfclose-rewrites-already-self-closed-element"
					}
				}
				pending[i] = append(pending[i], pend{fmt.Sprintf("request %d (%s): Response.Input differs from the model at %d: impl %s model %s", n, op.describe(), d, c03around(in, d), c03around(mRaws[n], d)), sig})
			}
			if d := c03firstDiff(o.obs.framed[k], mFramed[n]); d >= 0 {
				pending[i] = append(pending[i], pend{fmt.Sprintf("request %d (%s): Response.FramedInput differs from the model at %d: impl %s model %s", n, op.describe(), d, c03around(o.obs.framed[k], d), c03around(mFramed[n], d)), "framed-vs-model"})
			}
			// oracle: the declaration is present exactly when the option is off
			if bytes.HasPrefix(in, []byte(c03Header)) == sc.nh {
				res.Fail("oracle", sc.line, fmt.Sprintf("request %d: XML declaration present=%v with ExcludeHeader=%v: %.80q", n, !sc.nh, sc.nh, in), "header")
			}
			// oracle: options change only what they name (reference body = same request, no options)
			want := o.ref.inputs[k]
			if !sc.nh {
				want = append([]byte(c03Header), want...)
			}
			if !sc.sc {
				if !bytes.Equal(in, want) {
					// the two sessions differ in ExcludeHeader (if at all) and in what the server advertised
					sig, what := "header-only-prefix", "input is not the declaration followed by the marshalled rpc"
					body := in
					if !sc.nh {
						body = bytes.TrimPrefix(in, []byte(c03Header))
					}
					if !bytes.Equal(body, o.ref.inputs[k]) && bytes.HasPrefix(in, []byte(c03Header)) != sc.nh {
						sig = "request-depends-on-server-capabilities"
						what = fmt.Sprintf("the same call (%s) produces different requests against servers advertising %q and %q", op.describe(), c03capSets[sc.caps], c03capSets[c03refCaps(sc.caps)])
					}
					res.Fail("oracle", sc.line, fmt.Sprintf("request %d: %s: %s vs %s", n, what, c03clip(string(in), 400), c03clip(string(want), 400)), sig)
				}
			} else {
				chk = append(chk, "c03 chk "+vlib.Hex(want)+" "+vlib.Hex(in))
				chkIdx = append(chkIdx, key{i, k})
			}
			c03content(res, sc, n, op, in, o.ref.inputs[k], o.inners[n])
		}
		// oracle: the proved strict decoder recovers exactly the reported inputs
		df := strings.Fields(dAns)
		if dom {
			if len(df) != 3 || df[0] != "some" {
				res.Fail("oracle", sc.line, fmt.Sprintf("the strict RFC decoder rejects the bytes written to the transport (%d requests); tail %s", len(inputs), c03around(o.obs.wire, len(o.obs.wire))), "strict-decode-rejects:"+sc.v)
			} else {
				hello, _ := vlib.UnHex(df[1])
				got := c03unhexList(df[2])
				if !bytes.Contains(hello, []byte("urn:ietf:params:netconf:base:"+sc.v+"</capability>")) {
					res.Fail("oracle", sc.line, fmt.Sprintf("client hello does not advertise base:%s: %.300q", sc.v, hello), "hello")
				}
				if len(got) != len(inputs) {
					res.Fail("oracle", sc.line, fmt.Sprintf("strict decoder found %d messages, %d requests were reported", len(got), len(inputs)), "strict-decode-count:"+sc.v)
				} else {
					for n := range got {
						if d := c03firstDiff(got[n], inputs[n]); d >= 0 {
							res.Fail("oracle", sc.line, fmt.Sprintf("request %d: strictly decoded message differs from Response.Input at %d: wire %s input %s", n, d, c03around(got[n], d), c03around(inputs[n], d)), "strict-decode-differs:"+sc.v)
							break
						}
					}
				}
			}
			// second, independent decoder: the server simulator's own
			for n := range inputs {
				if n >= len(o.obs.simRaw) || !o.obs.simOK[n] || !bytes.Equal(o.obs.simRaw[n], inputs[n]) {
					res.Fail("oracle", sc.line, fmt.Sprintf("request %d: the server simulator did not receive the reported input as one well-framed message", n), "server-decode:"+sc.v)
					break
				}
			}
		}
	}
	// 3a. transport write failures: for some fault-free sessions, run the same session again with the
	// transport refusing the framed write / the return / the second return of one request. The call
	// must fail, and what the transport accepted must be exactly the fault-free stream (already
	// compared with the model above) cut at that write boundary.
	for i, sc := range sess {
		o := &runs[i]
		if !o.ok || ((i/8)%3 != 0 && sc.wfK < 0) || len(pending[i]) > 0 { // every third block of the 8 version x option combinations
			continue
		}
		var sent []int
		clean := true
		for k := range sc.ops {
			if k >= len(o.obs.errs) || (o.obs.errs[k] != "nil" && !sc.ops[k].wantErr) {
				clean = false
				break
			}
			if !sc.ops[k].wantErr {
				sent = append(sent, k)
			}
		}
		if !clean || len(sent) == 0 {
			continue
		}
		k := sent[(i*7+i/24)%len(sent)]
		phase := (i + i/24) % 3
		if sc.wfK >= 0 && sc.wfK < len(sc.ops) {
			k, phase = sc.wfK, sc.wfPh%3
		}
		if sc.v == "1.0" && phase == 2 {
			phase = 1
		}
		before := len(o.obs.wire)
		for j := k; j < len(o.obs.wrote); j++ {
			before -= o.obs.wrote[j]
		}
		limit := before + []int{0, len(o.obs.framed[k]), len(o.obs.framed[k]) + 1}[phase]
		res.Count(fmt.Sprintf("write-failure:v=%s at=%s", sc.v, []string{"framed-message", "return", "second-return"}[phase]))
		f := c03runSessionFault(sc.v, sc.neg, sc.caps, sc.sc, sc.nh, sc.ops[:k+1], limit)
		res.Case(fmt.Sprintf("wf|%s|%d|%d|%d", sc.line, k, phase, limit), true)
		caseLine := fmt.Sprintf("%s wf %d %d", strings.Join(strings.Fields(sc.line)[:8], " "), k, phase)
		switch {
		case f.openErr != "":
			res.Fail("oracle", caseLine, "write-failure session did not open: "+f.openErr, "open-failed")
		case len(f.errs) != k+1 || f.errs[k] == "nil":
			res.Fail("oracle", caseLine, fmt.Sprintf("request %d (%s): the transport refused the write of its %s (byte limit %d) but the call returned %v", k, sc.ops[k].describe(), []string{"framed message", "return", "second return"}[phase], limit, f.errs), "write-failure-not-reported")
		case !bytes.Equal(f.wire, o.obs.wire[:limit]):
			d := c03firstDiff(f.wire, o.obs.wire[:limit])
			res.Fail("oracle", caseLine, fmt.Sprintf("request %d (%s): with the transport failing at byte %d the accepted bytes are not the fault-free stream cut there (differs at %d: %s vs %s; %d vs %d bytes)", k, sc.ops[k].describe(), limit, d, c03around(f.wire, d), c03around(o.obs.wire[:limit], d), len(f.wire), limit), "write-failure-stream")
		}
	}
	// 3b. classify and emit the held-back correspondence findings
	var pidx []int
	for i := range sess {
		if len(pending[i]) > 0 {
			pidx = append(pidx, i)
		}
	}
	var asisLines []string
	for _, i := range pidx {
		if sess[i].sc {
			asisLines = append(asisLines, fmt.Sprintf("c03 session-asis %s %s %s %s", sess[i].v, c03b(sess[i].sc), c03b(sess[i].nh), vlib.HexList(runs[i].inners)))
		}
	}
	asis := c.ask(asisLines)
	q := 0
	for _, i := range pidx {
		known := false
		if sess[i].sc {
			w, _ := vlib.UnHex(asis[q])
			q++
			known = bytes.Equal(w, runs[i].obs.wire)
		}
		for _, p := range pending[i] {
			sig := p.sig
			if known {
				sig = "selfclose-rewrites-already-self-closed-element"
			}
			res.Fail("correspondence", sess[i].line, p.detail, sig)
		}
	}
	// 4. rewrite legality of every self-closed input, message-ids read back by the model
	var idLines []string
	var idIdx []key
	for i, sc := range sess {
		if !runs[i].ok {
			continue
		}
		n := 0
		for k := range sc.ops {
			if k < len(runs[i].obs.inputs) && runs[i].obs.inputs[k] != nil {
				idLines = append(idLines, "c03 msgid "+vlib.Hex(runs[i].obs.inputs[k]))
				idIdx = append(idIdx, key{i, n})
				n++
			}
		}
	}
	// 4a. the element that carries a caller fragment, as the model embeds it (filter_content_verbatim,
	// config_content_verbatim), must be in the request without options byte for byte
	var embLines []string
	var embIdx []key
	for i, sc := range sess {
		if !runs[i].ok {
			continue
		}
		for k := range sc.ops {
			op := &sc.ops[k]
			if k >= len(runs[i].ref.inputs) || runs[i].ref.inputs[k] == nil {
				continue
			}
			if op.kind == "get-config" && op.defaults != "" && !op.wantErr {
				embLines = append(embLines, "c03 embed defaults "+vlib.Hex([]byte(op.defaults)))
				embIdx = append(embIdx, key{i, k})
			}
			switch {
			case op.kind == "edit-config":
				embLines = append(embLines, "c03 embed edit "+vlib.Hex([]byte(op.tgt))+" "+vlib.Hex([]byte(op.config)))
				embIdx = append(embIdx, key{i, k})
			case (op.kind == "get" || op.kind == "get-config") && op.filter != "" && op.ftype != "xpath":
				embLines = append(embLines, "c03 embed subtree "+vlib.Hex([]byte(op.filter)))
				embIdx = append(embIdx, key{i, k})
			}
		}
	}
	embAns := c.ask(embLines)
	for q, kk := range embIdx {
		op := &sess[kk.s].ops[kk.k]
		if f := strings.Fields(embAns[q]); len(f) == 2 {
			// the with-defaults element: both sessions (two different server capability sets) must carry it
			want, _ := vlib.UnHex(f[1])
			res.Count("embedding-checked:with-defaults")
			for which, in := range [][]byte{runs[kk.s].ref.inputs[kk.k], runs[kk.s].obs.inputs[kk.k]} {
				caps := []int{c03refCaps(sess[kk.s].caps), sess[kk.s].caps}[which]
				if f[0] != "elem" || in == nil || (!bytes.Contains(in, want) && !sess[kk.s].sc) || (which == 0 && !bytes.Contains(in, want)) {
					res.Fail("oracle", sess[kk.s].line, fmt.Sprintf("request %d (%s): the caller's defaults mode is not on the wire as %s although the call succeeded (server advertised %q): %s", kk.k, op.describe(), want, c03capSets[caps], c03clip(string(in), 400)), "defaults-mode-missing")
					break
				}
			}
			continue
		}
		want, _ := vlib.UnHex(embAns[q])
		res.Count("embedding-checked:" + op.kind)
		if !bytes.Contains(runs[kk.s].ref.inputs[kk.k], want) {
			res.Fail("oracle", sess[kk.s].line, fmt.Sprintf("request %d (%s): the request does not contain the element that embeds the caller's XML verbatim, %s; request: %s", kk.k, op.describe(), c03clip(string(want), 200), c03clip(string(runs[kk.s].ref.inputs[kk.k]), 400)), "payload-altered")
		}
	}
	ans = c.ask(append(append([]string{}, chk...), idLines...))
	for q, kk := range chkIdx {
		if ans[q] != "1" {
			in := runs[kk.s].obs.inputs[kk.k]
			sig := "selfclose-illegal-rewrite"
			if bytes.Contains(in, []byte("//>")) {
				sig = "selfclose-rewrites-already-self-closed-element"
			}
			res.Fail("oracle", sess[kk.s].line, fmt.Sprintf("request %d (%s): with ForceSelfClosingTags the input is not the plain request with empty elements closed: %s", kk.k, sess[kk.s].ops[kk.k].describe(), c03clip(string(in), 300)), sig)
		}
	}
	for q, kk := range idIdx {
		if ans[len(chk)+q] != strconv.Itoa(c03FirstID+kk.k) {
			res.Fail("oracle", sess[kk.s].line, fmt.Sprintf("request at position %d carries message-id %s, want %d", kk.k+1, ans[len(chk)+q], c03FirstID+kk.k), "message-id")
		}
	}
	res.TracesVsImpl += len(sess)
}

// c03content is the XML-content clause: the input, tokenised, must be the rpc the operation denotes.
func c03content(res *vlib.Result, sc c03sessCase, n int, op *c03op, in, ref, inner []byte) {
	// the caller's XML, byte-identical, in the request without options
	if pre, p, post, has := op.payload(); has {
		if !bytes.Contains(ref, []byte(pre+p+post)) {
			res.Fail("oracle", sc.line, fmt.Sprintf("request %d (%s): the caller's XML is not in the request byte for byte: %s", n, op.describe(), c03clip(string(ref), 300)), "payload-altered")
			return
		}
	}
	if op.kind == "rpc" && !bytes.Equal(inner, []byte(op.filter)) {
		res.Fail("oracle", sc.line, fmt.Sprintf("request %d: raw rpc content %.200q, want %.200q", n, inner, op.filter), "payload-altered")
		return
	}
	if !op.wellFormed {
		res.Count("content:skipped-malformed-payload")
		return
	}
	exp := fmt.Sprintf(`<rpc xmlns="%s" message-id="%d">%s</rpc>`, c03BaseNS, c03FirstID+n, op.expectedInner())
	et, err := c03parse([]byte(exp))
	if err != nil {
		res.Fail("machinery", sc.line, "expected text does not parse: "+err.Error()+": "+c03clip(exp, 200), "expected-xml")
		return
	}
	body := in
	if !sc.nh {
		body = bytes.TrimPrefix(in, []byte(c03Header))
	}
	gt, err := c03parse(body)
	if err != nil {
		sig := "input-not-well-formed"
		if sc.sc && bytes.Contains(in, []byte("//>")) {
			sig = "selfclose-rewrites-already-self-closed-element"
		}
		res.Fail("oracle", sc.line, fmt.Sprintf("request %d (%s): Response.Input is not well-formed XML (%v): %s", n, op.describe(), err, c03clip(string(in), 300)), sig)
		return
	}
	c03canon(et, sc.sc)
	c03canon(gt, sc.sc)
	if d := c03diff("", gt, et); d != "" {
		res.Fail("oracle", sc.line, fmt.Sprintf("request %d (%s): the request does not denote the requested operation: %s", n, op.describe(), d), "content-tree:"+op.kind)
	}
}

func c03unhexList(s string) [][]byte {
	if s == "." {
		return nil
	}
	var out [][]byte
	for _, p := range strings.Split(s, ",") {
		b, _ := vlib.UnHex(p)
		out = append(out, b)
	}
	return out
}

func c03sizeClass(n int) string {
	switch {
	case n < 200:
		return "0000-0199"
	case n < 1000:
		return "0200-0999"
	case n < 5000:
		return "1000-4999"
	default:
		return "5000+"
	}
}

func c03clip(s string, n int) string {
	if len(s) <= n {
		return s
	}
	k := n
	for k > 0 && !utf8.RuneStart(s[k]) {
		k--
	}
	return s[:k] + fmt.Sprintf("…(%d bytes)", len(s))
}
