package main

// C03 — NETCONF requests on the wire are correctly framed and carry the caller's content.
//
// Gating tie: real netconf.Driver methods against the NETCONF server simulator; observed are the
// concatenated bytes handed to Transport.Write, Response.Input and Response.FramedInput. They are
// compared with the Lean model (`c03 session`), decoded by the proved strict RFC decoder
// (`c03 decode`) and, for the XML-content clause (a specification tied by correspondence only),
// tokenised with encoding/xml and compared as a tree with the rpc the operation must denote.
// Auxiliary tie: the exported netconf.ForceSelfClosingTags against the scanner model (`c03 fsc`)
// and against the proved checker of the rewrite relation (`c03 chk`).

import (
	"bytes"
	"encoding/xml"
	"errors"
	"fmt"
	"io"
	"sort"
	"strconv"
	"strings"
	"sync"
	"sync/atomic"
	"time"
	"unicode/utf8"

	"github.com/scrapli/scrapligo/driver/netconf"
	"github.com/scrapli/scrapligo/driver/opoptions"
	"github.com/scrapli/scrapligo/driver/options"
	"github.com/scrapli/scrapligo/response"
	"github.com/scrapli/scrapligo/util"

	"verifgo/sim"
	"verifgo/vlib"
)

func init() { props["C03"] = runC03 }

const (
	c03BaseNS     = "urn:ietf:params:xml:ns:netconf:base:1.0"
	c03DefaultsNS = "urn:ietf:params:xml:ns:yang:ietf-netconf-with-defaults"
	c03Header     = `<?xml version="1.0" encoding="UTF-8"?>`
	c03FirstID    = 101
)

// ---------------------------------------------------------------------------------------------
// generators

type c03gen struct{ r *vlib.Rng }

var c03Names = []string{"a", "b", "a", "interface", "config", "name", "if-name", "x_1", "unit", "é1", "nc:edit", "a.b"}

func (g c03gen) ws() string {
	return g.r.Pick([]string{" ", "\n", "\t", "  ", "\r\n", " \n  "})
}

func (g c03gen) text(n int) string {
	var b strings.Builder
	for b.Len() < n {
		switch g.r.Intn(12) {
		case 0:
			b.WriteString("é✓日本")
		case 1:
			b.WriteString("&amp;")
		case 2:
			b.WriteString("\n##\n")
		case 3:
			b.WriteString("\n#" + strconv.Itoa(g.r.Intn(300)) + "\n")
		case 4:
			b.WriteString("&lt;a&gt;&lt;/a&gt;")
		case 5:
			b.WriteString("ge-0/0/" + strconv.Itoa(g.r.Intn(48)))
		case 6:
			b.WriteString("]]&gt;")
		case 7:
			b.WriteString(" / ")
		case 8:
			b.WriteString("𝔘𝔫𝔦")
		default:
			b.WriteString(string(g.r.Bytes(g.r.Range(1, 12), []byte("abcxyz 0123456789.-_:#"))))
		}
	}
	return b.String()
}

func (g c03gen) attrs(name string) string {
	var b strings.Builder
	if strings.HasPrefix(name, "nc:") {
		b.WriteString(` xmlns:nc="` + c03BaseNS + `"`)
	}
	n := 0
	switch g.r.Intn(10) {
	case 0, 1, 2, 3:
	case 4, 5, 6, 7:
		n = 1
	default:
		n = 2
	}
	seen := map[int]bool{}
	for i := 0; i < n; i++ {
		k := g.r.Intn(11)
		if seen[k] {
			continue
		}
		seen[k] = true
		sep := " "
		if g.r.Chance(1, 8) {
			sep = g.ws()
		}
		switch k {
		case 0:
			b.WriteString(sep + `x="1"`)
		case 1:
			b.WriteString(sep + `name="ge-0/0/0"`)
		case 2:
			b.WriteString(sep + `xmlns="urn:example:ns"`)
		case 3:
			b.WriteString(sep + `d="é✓"`)
		case 4:
			b.WriteString(sep + `q="a&gt;b"`)
		case 5:
			b.WriteString(sep + `e=""`)
		case 6:
			b.WriteString(sep + `p="/"`)
		case 7:
			b.WriteString(sep + `y = '2'`)
		case 8:
			b.WriteString(sep + `operation="delete"`)
		case 9:
			b.WriteString(sep + `g=">"`)
		default:
			b.WriteString(sep + `k="v` + strconv.Itoa(g.r.Intn(100)) + `"`)
		}
	}
	return b.String()
}

// elem renders one well-formed element using roughly `budget` bytes.
func (g c03gen) elem(depth, budget int, exotic bool) string {
	name := g.r.Pick(c03Names)
	at := g.attrs(name)
	open := "<" + name + at
	if g.r.Chance(1, 10) {
		open += g.r.Pick([]string{" ", "  ", "\n"})
	}
	cl := "</" + name + ">"
	if g.r.Chance(1, 25) {
		cl = "</" + name + " >"
	}
	form := g.r.Intn(10)
	if depth <= 0 && form >= 6 {
		form = g.r.Intn(6)
	}
	switch form {
	case 0:
		return "<" + name + at + "/>"
	case 1:
		return open + ">" + cl
	case 2:
		return open + ">" + g.ws() + cl
	case 3, 4:
		return open + ">" + g.text(g.r.Range(1, 1+budget/4)) + cl
	case 5:
		return "<" + name + at + " />"
	default:
		var b strings.Builder
		b.WriteString(open + ">")
		k := g.r.Range(1, 4)
		for i := 0; i < k || b.Len() < budget/2; i++ {
			if g.r.Chance(1, 4) {
				b.WriteString(g.ws())
			}
			if exotic && g.r.Chance(1, 6) {
				b.WriteString(g.r.Pick([]string{"<!-- c -->", "<!-- <a></a> -->", "<![CDATA[<a></a>]]>", "<?pi x?>", "<!---->"}))
			}
			b.WriteString(g.elem(depth-1, budget/(k+1), exotic))
			if i > 200 {
				break
			}
		}
		if g.r.Chance(1, 4) {
			b.WriteString(g.ws())
		}
		b.WriteString(cl)
		return b.String()
	}
}

// xmlDoc renders a sequence of elements of about `size` bytes.
func (g c03gen) xmlDoc(size int, exotic bool) string {
	var b strings.Builder
	for b.Len() < size {
		b.WriteString(g.elem(g.r.Range(0, 4), size-b.Len(), exotic))
		if b.Len() < size && g.r.Chance(1, 3) {
			b.WriteString(g.ws())
		}
	}
	return b.String()
}

// badXML renders payloads that are not well-formed (the malformed stream).
func (g c03gen) badXML() string {
	switch g.r.Intn(12) {
	case 0:
		return "<a><b></a>"
	case 1:
		return "</x>"
	case 2:
		return "<a>]]>]]></a>"
	case 3:
		return "<a></a"
	case 4:
		return "  \n<a/>"
	case 5:
		return "</edit-config></rpc>"
	case 6:
		return "<a x=1></a>"
	case 7:
		return "<a <b></b>"
	case 8:
		return "text only é"
	case 9:
		return "\n##\n"
	case 10:
		return "<a>]]></a>"
	default:
		return string(g.r.Bytes(g.r.Range(1, 30), []byte("<>/ ab=\"\n#]")))
	}
}

func (g c03gen) size(small bool) int {
	k := g.r.Intn(20)
	switch {
	case k < 12 || (small && k < 18):
		return g.r.Range(1, 200)
	case k < 18 || small:
		return g.r.Range(200, 3000)
	default:
		return g.r.Range(3000, 20000)
	}
}

func (g c03gen) datastore() string {
	return g.r.Pick([]string{"running", "candidate", "startup", "running", "candidate", "my-store", "ds_1", "é"})
}

func (g c03gen) plain(n int) string {
	var b strings.Builder
	for b.Len() < n {
		b.WriteString(g.r.Pick([]string{"/interfaces/interface[name=\"ge-0/0/0\"]", "/état", "//a[b<3 and c>'x']", "&", " ", "é✓", "\t", "\n", "a", "/config", "'", "]]>"}))
	}
	return b.String()
}

// ---------------------------------------------------------------------------------------------
// operations

type c03op struct {
	kind       string
	src, tgt   string
	filter     string
	ftype      string // "" = leave default
	defaults   string
	config     string
	confirmed  bool
	timeout    uint
	persist    string
	persistID  string
	wellFormed bool // the innerxml payload (if any) is well-formed XML
	wantErr    bool // the call must fail before anything is written
}

func (g c03gen) op(small, exoticOK bool) c03op {
	o := c03op{wellFormed: true}
	payload := func() string {
		if g.r.Chance(1, 14) {
			o.wellFormed = false
			return g.badXML()
		}
		// comments / CDATA / processing instructions only where the rewrite is off: inside them
		// bytes.ReplaceAll also rewrites textual copies of a matched element (see c03direct)
		return g.xmlDoc(g.size(small), exoticOK && g.r.Chance(1, 12))
	}
	switch g.r.Intn(14) {
	case 0:
		o.kind = "get"
		if g.r.Chance(1, 3) {
			o.ftype = "xpath"
			o.filter = g.plain(g.size(small) / 4)
		} else {
			if g.r.Bool() {
				o.ftype = "subtree"
			}
			o.filter = payload()
		}
	case 1, 2:
		o.kind = "get-config"
		o.src = g.datastore()
		switch g.r.Intn(4) {
		case 0:
		case 1:
			o.ftype = "xpath"
			o.filter = g.plain(g.size(small) / 4)
		default:
			o.filter = payload()
		}
		if g.r.Chance(1, 2) {
			o.defaults = g.r.Pick([]string{"report-all", "report-all-tagged", "trim", "explicit"})
		}
	case 3, 4, 5:
		o.kind = "edit-config"
		o.tgt = g.datastore()
		o.config = payload()
	case 6:
		o.kind = "copy-config"
		o.src, o.tgt = g.datastore(), g.datastore()
	case 7:
		o.kind = "delete-config"
		o.tgt = g.datastore()
	case 8:
		o.kind = g.r.Pick([]string{"lock", "unlock"})
		o.tgt = g.datastore()
	case 9:
		o.kind = "validate"
		o.src = g.datastore()
	case 10:
		o.kind = "commit"
		o.confirmed = g.r.Bool()
		if g.r.Bool() {
			o.timeout = uint(g.r.Range(1, 100000))
		}
		if g.r.Chance(1, 3) {
			o.persist = g.plain(g.r.Range(1, 30))
		}
		if g.r.Chance(1, 3) {
			o.persistID = g.plain(g.r.Range(1, 30))
		}
	case 11:
		o.kind = "discard"
	case 12:
		o.kind = "rpc"
		if !g.r.Chance(1, 10) {
			o.filter = payload()
		}
	default:
		// rejected before anything is built: must write nothing and must not consume a message-id
		o.wantErr = true
		if g.r.Bool() {
			o.kind = "get-config"
			o.src = "running"
			o.defaults = "report-everything"
		} else {
			o.kind = "get"
			o.filter = "<a/>"
			o.ftype = "regex"
		}
	}
	return o
}

func (o *c03op) call(d *netconf.Driver) (*response.NetconfResponse, error) {
	var opts []util.Option
	if o.ftype != "" {
		opts = append(opts, opoptions.WithFilterType(o.ftype))
	}
	switch o.kind {
	case "get":
		return d.Get(o.filter, opts...)
	case "get-config":
		if o.filter != "" {
			opts = append(opts, opoptions.WithFilter(o.filter))
		}
		if o.defaults != "" {
			opts = append(opts, opoptions.WithDefaultType(o.defaults))
		}
		return d.GetConfig(o.src, opts...)
	case "edit-config":
		return d.EditConfig(o.tgt, o.config)
	case "copy-config":
		return d.CopyConfig(o.src, o.tgt)
	case "delete-config":
		return d.DeleteConfig(o.tgt)
	case "lock":
		return d.Lock(o.tgt)
	case "unlock":
		return d.Unlock(o.tgt)
	case "validate":
		return d.Validate(o.src)
	case "commit":
		if o.confirmed {
			opts = append(opts, opoptions.WithCommitConfirmed())
		}
		if o.timeout > 0 {
			opts = append(opts, opoptions.WithCommitConfirmTimeout(o.timeout))
		}
		if o.persist != "" {
			opts = append(opts, opoptions.WithCommitConfirmedPersist(o.persist))
		}
		if o.persistID != "" {
			opts = append(opts, opoptions.WithCommitConfirmedPersistID(o.persistID))
		}
		return d.Commit(opts...)
	case "discard":
		return d.Discard()
	case "rpc":
		return d.RPC(opoptions.WithFilter(o.filter))
	}
	return nil, errors.New("c03: unknown op " + o.kind)
}

// c03esc is this harness's own XML escaper for the expected text (independent of encoding/xml's).
func c03esc(s string) string {
	var b strings.Builder
	for _, r := range s {
		switch r {
		case '&':
			b.WriteString("&amp;")
		case '<':
			b.WriteString("&lt;")
		case '>':
			b.WriteString("&gt;")
		case '"':
			b.WriteString("&quot;")
		case '\'':
			b.WriteString("&apos;")
		case '\t':
			b.WriteString("&#9;")
		case '\n':
			b.WriteString("&#10;")
		case '\r':
			b.WriteString("&#13;")
		default:
			b.WriteRune(r)
		}
	}
	return b.String()
}

// payload returns the caller's XML that must appear byte-identical in the request, together with
// the text that must directly precede and follow it.
func (o *c03op) payload() (pre, p, post string, has bool) {
	switch {
	case o.kind == "edit-config":
		return "</target>", o.config, "</edit-config>", true
	case (o.kind == "get" || o.kind == "get-config") && o.filter != "" && o.ftype != "xpath":
		return `<filter type="subtree">`, o.filter, "</filter>", true
	case o.kind == "rpc":
		return `">`, o.filter, "</rpc>", true
	}
	return "", "", "", false
}

// expectedInner is the content the rpc element must denote, written by this harness.
func (o *c03op) expectedInner() string {
	ds := func(w, n string) string { return "<" + w + "><" + n + "/></" + w + ">" }
	filter := func() string {
		if o.filter == "" {
			return ""
		}
		if o.ftype == "xpath" {
			return `<filter type="xpath" select="` + c03esc(o.filter) + `"/>`
		}
		return `<filter type="subtree">` + o.filter + `</filter>`
	}
	switch o.kind {
	case "get":
		return "<get>" + filter() + "</get>"
	case "get-config":
		s := "<get-config>" + ds("source", o.src) + filter()
		if o.defaults != "" {
			s += `<with-defaults xmlns="` + c03DefaultsNS + `">` + o.defaults + `</with-defaults>`
		}
		return s + "</get-config>"
	case "edit-config":
		return "<edit-config>" + ds("target", o.tgt) + o.config + "</edit-config>"
	case "copy-config":
		return "<copy-config>" + ds("target", o.tgt) + ds("source", o.src) + "</copy-config>"
	case "delete-config", "lock", "unlock":
		return "<" + o.kind + ">" + ds("target", o.tgt) + "</" + o.kind + ">"
	case "validate":
		return "<validate>" + ds("source", o.src) + "</validate>"
	case "commit":
		s := "<commit>"
		if o.confirmed {
			s += "<confirmed/>"
		}
		if o.timeout > 0 {
			s += "<confirm-timeout>" + strconv.Itoa(int(o.timeout)) + "</confirm-timeout>"
		}
		if o.persist != "" {
			s += "<persist>" + c03esc(o.persist) + "</persist>"
		}
		if o.persistID != "" {
			s += "<persist-id>" + c03esc(o.persistID) + "</persist-id>"
		}
		return s + "</commit>"
	case "discard":
		return "<discard-changes/>"
	case "rpc":
		return o.filter
	}
	return ""
}

func (o *c03op) describe() string {
	trim := func(s string) string {
		if len(s) > 60 {
			return s[:60] + fmt.Sprintf("…(%d bytes)", len(s))
		}
		return s
	}
	return fmt.Sprintf("%s src=%q tgt=%q ftype=%q defaults=%q filter=%q config=%q confirmed=%v timeout=%d persist=%q persist-id=%q",
		o.kind, o.src, o.tgt, o.ftype, o.defaults, trim(o.filter), trim(o.config), o.confirmed, o.timeout, trim(o.persist), trim(o.persistID))
}

// ---------------------------------------------------------------------------------------------
// XML trees (encoding/xml tokenizer)

type c03node struct {
	Kind     string // elem, text, comment, pi, dir
	Space    string
	Local    string
	Attrs    []string
	Text     string
	Children []*c03node
}

func c03parse(b []byte) (*c03node, error) {
	dec := xml.NewDecoder(bytes.NewReader(b))
	root := &c03node{Kind: "root"}
	stack := []*c03node{root}
	for {
		tok, err := dec.Token()
		if err == io.EOF {
			break
		}
		if err != nil {
			return nil, err
		}
		top := stack[len(stack)-1]
		switch t := tok.(type) {
		case xml.StartElement:
			n := &c03node{Kind: "elem", Space: t.Name.Space, Local: t.Name.Local}
			for _, a := range t.Attr {
				n.Attrs = append(n.Attrs, a.Name.Space+"|"+a.Name.Local+"="+a.Value)
			}
			sort.Strings(n.Attrs)
			top.Children = append(top.Children, n)
			stack = append(stack, n)
		case xml.EndElement:
			stack = stack[:len(stack)-1]
		case xml.CharData:
			if k := len(top.Children); k > 0 && top.Children[k-1].Kind == "text" {
				top.Children[k-1].Text += string(t)
			} else {
				top.Children = append(top.Children, &c03node{Kind: "text", Text: string(t)})
			}
		case xml.Comment:
			top.Children = append(top.Children, &c03node{Kind: "comment", Text: string(t)})
		case xml.ProcInst:
			top.Children = append(top.Children, &c03node{Kind: "pi", Local: t.Target, Text: string(t.Inst)})
		case xml.Directive:
			top.Children = append(top.Children, &c03node{Kind: "dir", Text: string(t)})
		}
	}
	if len(stack) != 1 {
		return nil, errors.New("unbalanced")
	}
	return root, nil
}

// c03canon drops white-space-only text from elements without element children (what the
// self-closing rewrite is allowed to change) when relaxed is set.
func c03canon(n *c03node, relaxed bool) {
	if relaxed && n.Kind == "elem" {
		hasElem := false
		for _, c := range n.Children {
			if c.Kind != "text" {
				hasElem = true
			}
		}
		if !hasElem {
			var keep []*c03node
			for _, c := range n.Children {
				if strings.TrimSpace(c.Text) != "" {
					keep = append(keep, c)
				}
			}
			n.Children = keep
		}
	}
	for _, c := range n.Children {
		c03canon(c, relaxed)
	}
}

func c03diff(path string, a, b *c03node) string {
	if a.Kind != b.Kind || a.Space != b.Space || a.Local != b.Local || a.Text != b.Text {
		return fmt.Sprintf("%s: %s {%s}%s %.60q  vs  %s {%s}%s %.60q", path, a.Kind, a.Space, a.Local, a.Text, b.Kind, b.Space, b.Local, b.Text)
	}
	if strings.Join(a.Attrs, "\x00") != strings.Join(b.Attrs, "\x00") {
		return fmt.Sprintf("%s/%s: attributes %.120q vs %.120q", path, a.Local, a.Attrs, b.Attrs)
	}
	if len(a.Children) != len(b.Children) {
		return fmt.Sprintf("%s/%s: %d children vs %d", path, a.Local, len(a.Children), len(b.Children))
	}
	for i := range a.Children {
		if d := c03diff(path+"/"+a.Local, a.Children[i], b.Children[i]); d != "" {
			return d
		}
	}
	return ""
}

// ---------------------------------------------------------------------------------------------
// sessions on the real driver

type c03sessCase struct {
	line   string // replayable: "c03 sess <v> <sc> <nh> <seed> <nops> <small>"
	v      string
	sc, nh bool
	ops    []c03op
}

type c03obs struct {
	inputs  [][]byte
	framed  [][]byte
	errs    []string // per op: "" or error class
	wire    []byte
	simRaw  [][]byte
	simOK   []bool
	openErr string
	version string
	wrote   []int // bytes written to the transport by each op
}

func c03errClass(err error) string {
	switch {
	case err == nil:
		return "nil"
	case errors.Is(err, util.ErrTimeoutError):
		return "timeout"
	case errors.Is(err, util.ErrConnectionError):
		return "connection"
	case errors.Is(err, util.ErrNetconfError):
		return "netconf"
	case errors.Is(err, util.ErrOperationError):
		return "operation"
	case errors.Is(err, util.ErrBadOption):
		return "badoption"
	}
	return "other"
}

func c03runSession(v string, sc, nh bool, ops []c03op) c03obs {
	var o c03obs
	s := sim.NewNCServer(true, v == "1.1")
	s.Behave = func(i int, req sim.NCRequest) sim.NCReply {
		return sim.NCReply{Payload: []byte(fmt.Sprintf(`<rpc-reply xmlns="%s" message-id="%d"><ok/></rpc-reply>`, c03BaseNS, req.MessageID))}
	}
	s.Start()
	dopts := []util.Option{options.WithCustomTransport(s), options.WithAuthBypass(),
		options.WithTimeoutOps(2 * time.Second), options.WithReadDelay(20 * time.Microsecond)}
	if sc {
		dopts = append(dopts, options.WithNetconfForceSelfClosingTags())
	}
	if nh {
		dopts = append(dopts, options.WithNetconfExcludeHeader())
	}
	d, err := netconf.NewDriver("h", dopts...)
	if err != nil {
		o.openErr = "new: " + err.Error()
		return o
	}
	if err = d.Open(); err != nil {
		o.openErr = "open: " + err.Error()
		return o
	}
	o.version = d.SelectedVersion
	written := func() int {
		n := 0
		s.Snapshot(func() { n = s.Written })
		return n
	}
	for i := range ops {
		before := written()
		r, err := ops[i].call(d)
		o.errs = append(o.errs, c03errClass(err))
		o.wrote = append(o.wrote, written()-before)
		if err != nil || r == nil {
			o.inputs = append(o.inputs, nil)
			o.framed = append(o.framed, nil)
			if !ops[i].wantErr {
				if errors.Is(err, util.ErrTimeoutError) {
					c03timeouts.Add(1)
				}
				break // a request that got no reply: the rest of the session would only time out too
			}
			continue
		}
		o.inputs = append(o.inputs, append([]byte{}, r.Input...))
		o.framed = append(o.framed, append([]byte{}, r.FramedInput...))
	}
	o.wire = s.AllWritten()
	s.Snapshot(func() {
		for _, q := range s.Requests {
			o.simRaw = append(o.simRaw, append([]byte{}, q.Raw...))
			o.simOK = append(o.simOK, q.FrameOK)
		}
	})
	_ = d.Close()
	return o
}

func c03b(b bool) string {
	if b {
		return "1"
	}
	return "0"
}

func (g c03gen) session(v string, sc, nh bool, nops int, small bool) []c03op {
	ops := make([]c03op, nops)
	for i := range ops {
		ops[i] = g.op(small, !sc)
	}
	return ops
}

func c03mkSession(v string, sc, nh bool, seed uint64, nops int, small bool) c03sessCase {
	g := c03gen{r: vlib.NewRng(seed)}
	return c03sessCase{
		line: fmt.Sprintf("c03 sess %s %s %s %d %d %s", v, c03b(sc), c03b(nh), seed, nops, c03b(small)),
		v:    v, sc: sc, nh: nh, ops: g.session(v, sc, nh, nops, small),
	}
}

func c03firstDiff(a, b []byte) int {
	n := len(a)
	if len(b) < n {
		n = len(b)
	}
	for i := 0; i < n; i++ {
		if a[i] != b[i] {
			return i
		}
	}
	if len(a) != len(b) {
		return n
	}
	return -1
}

func c03around(b []byte, i int) string {
	lo, hi := i-40, i+40
	if lo < 0 {
		lo = 0
	}
	if hi > len(b) {
		hi = len(b)
	}
	if lo > hi {
		lo = hi
	}
	return fmt.Sprintf("%q", b[lo:hi])
}

// c03fscSig classifies a wrong ForceSelfClosingTags result.
func c03fscSig(impl, model, asIs []byte) string {
	if bytes.Equal(impl, asIs) && !bytes.Equal(asIs, model) {
		return "selfclose-rewrites-already-self-closed-element"
	}
	return "selfclose-wrong-result"
}

// ---------------------------------------------------------------------------------------------

func runC03(c *ctx) {
	res := c.res
	res.Rule = "sessions: {1.0,1.1} x ForceSelfClosingTags x ExcludeHeader x 1..30 requests drawn from get/get-config/edit-config/copy-config/delete-config/lock/unlock/validate/commit(+confirmed/timeout/persist)/discard/raw rpc with generated XML (attributes, namespaces, prefixed names, empty / white-space-only / already self-closed elements, same-name nesting, multi-byte text, '##' and '#<n>' lines, 1..20000 bytes) plus malformed payloads; direct: ForceSelfClosingTags on generated XML (with and without comments/CDATA/processing instructions), byte soup and token soup. non-trivial = a request that was sent (distinct by version/options/position/bytes) or a direct rewrite input containing '</'"
	type sessParam struct {
		v      string
		sc, nh bool
		seed   uint64
		nops   int
		small  bool
	}
	var sess []sessParam
	var direct [][]byte
	var directClass []string
	addDirect := func(cl string, b []byte) {
		direct = append(direct, b)
		directClass = append(directClass, cl)
	}
	if c.replay != "" {
		f := strings.Fields(c.replay)
		switch {
		case len(f) == 8 && f[1] == "sess":
			seed, _ := strconv.ParseUint(f[5], 10, 64)
			nops, _ := strconv.Atoi(f[6])
			sess = append(sess, sessParam{f[2], f[3] == "1", f[4] == "1", seed, nops, f[7] == "1"})
		case len(f) == 3 && f[1] == "fsc":
			b, _ := vlib.UnHex(f[2])
			addDirect("replay", b)
		default:
			res.Fail("machinery", c.replay, "cannot parse replay line", "replay")
			return
		}
	} else {
		r := c.rng
		// every version x option combination at every session length class
		nSess := c.n(320, 6000)
		for i := 0; i < nSess; i++ {
			v := []string{"1.0", "1.1"}[i%2]
			sc := (i/2)%2 == 1
			nh := (i/4)%2 == 1
			var nops int
			small := false
			switch k := r.Intn(10); {
			case k < 4:
				nops = r.Range(1, 3)
			case k < 8:
				nops = r.Range(4, 12)
				small = r.Chance(2, 3)
			default:
				nops = r.Range(13, 30)
				small = true
			}
			sess = append(sess, sessParam{v, sc, nh, r.U64(), nops, small})
		}
		// direct ForceSelfClosingTags inputs
		g := c03gen{r: r}
		fixed := []string{`<a><a x="1"/></a>`, `<interface><interface name="x"/></interface>`, `<a><b/></a>`, `<a x="1"></a>`,
			`<a ></a>`, `<a  ></a>`, `<nc:a></nc:a>`, `<a> </a><a> </a>`, `<a x=">"></a>`, `<a><a x="1"/> </a>`, `<a></a></a>`,
			`<a  x></a> </a>`, `<b><b x="1"></b></b>`, `<a/>`, ``, `<`, `>`, `</a>`, `<a></a`, "<a>\f</a>", "<a>\v</a>", "<a> </a>", `<a-b_1></a-b_1>`, `<a></A>`,
			`<!-- <a></a> --><a></a>`, `<x <a></a>`, `</q <n a></n> </q>`, `<a <b></a>`, `<a></a><![CDATA[<a></a>]]>`}
		for _, s := range fixed {
			addDirect("fixed", []byte(s))
		}
		for i := 0; i < c.n(4000, 100000); i++ {
			addDirect("xml", []byte(g.xmlDoc(g.size(true)/2+1, false)))
		}
		for i := 0; i < c.n(600, 15000); i++ {
			addDirect("xml-exotic", []byte(g.xmlDoc(g.size(true)/2+1, true)))
		}
		for i := 0; i < c.n(2500, 60000); i++ {
			addDirect("soup", r.Bytes(r.Range(0, 40), []byte("<<>>//aab \n=\"x-")))
		}
		toks := []string{"<a", "<b", ">", "</a>", "</b>", " ", "/", ` x="1"`, "<!--", "-->", "\n", "</a", "<", "a", " x", "/>", "<a>", "<b>", "</a >"}
		for i := 0; i < c.n(2500, 60000); i++ {
			var b []byte
			for k := r.Range(0, 14); k > 0; k-- {
				b = append(b, r.Pick(toks)...)
			}
			addDirect("token-soup", b)
		}
	}
	for lo := 0; lo < len(direct); lo += 4000 {
		hi := lo + 4000
		if hi > len(direct) {
			hi = len(direct)
		}
		c03direct(c, direct[lo:hi], directClass[lo:hi])
	}
	c03directNotes(res)
	for lo := 0; lo < len(sess); lo += 160 {
		hi := lo + 160
		if hi > len(sess) {
			hi = len(sess)
		}
		var batch []c03sessCase
		for _, p := range sess[lo:hi] {
			batch = append(batch, c03mkSession(p.v, p.sc, p.nh, p.seed, p.nops, p.small))
		}
		c03sessions(c, batch)
	}
}

var c03inDom, c03total = map[string]int{}, map[string]int{}

// c03timeouts counts requests that got no reply; see c03sessions.
var c03timeouts atomic.Int32

func c03directNotes(res *vlib.Result) {
	var keys []string
	for k := range c03total {
		keys = append(keys, k)
	}
	sort.Strings(keys)
	for _, k := range keys {
		res.Note("direct tie, class %s: %d/%d inputs in the single-pass scanner's domain (scanner = FindAll+ReplaceAll model); implementation compared with the FindAll+ReplaceAll model on all of them", k, c03inDom[k], c03total[k])
	}
}

// c03direct ties the exported ForceSelfClosingTags to the scanner model and to the proved checker
// of the rewrite relation.
func c03direct(c *ctx, inputs [][]byte, class []string) {
	res := c.res
	if len(inputs) == 0 {
		return
	}
	outs := make([][]byte, len(inputs))
	twice := make([][]byte, len(inputs))
	var lines []string
	for i, in := range inputs {
		outs[i] = netconf.ForceSelfClosingTags(append([]byte{}, in...))
		twice[i] = netconf.ForceSelfClosingTags(append([]byte{}, outs[i]...))
		lines = append(lines, "c03 fsc "+vlib.Hex(in), "c03 chk "+vlib.Hex(in)+" "+vlib.Hex(outs[i]))
	}
	ans := c.ask(lines)
	inDom, total := c03inDom, c03total
	for i, in := range inputs {
		cl := class[i]
		res.Count("direct:" + cl)
		res.Case("fsc:"+string(in), bytes.Contains(in, []byte("</")))
		caseLine := "c03 fsc " + vlib.Hex(in)
		f := strings.Fields(ans[2*i])
		if len(f) != 4 {
			res.Fail("machinery", caseLine, "driver answered "+ans[2*i], "driver")
			continue
		}
		dom := f[0] == "1" // single-pass scanner (theorems) == statement-by-statement model
		scanner, _ := vlib.UnHex(f[1])
		model, _ := vlib.UnHex(f[2])
		asIs, _ := vlib.UnHex(f[3])
		legal := ans[2*i+1] == "1"
		total[cl]++
		if dom {
			inDom[cl]++
			res.InDomain++
		}
		if i%499 == 0 {
			res.Sample(map[string]any{"class": "direct-" + cl, "input": c03clip(string(in), 300), "impl": c03clip(string(outs[i]), 300), "model": c03clip(string(model), 300)})
		}
		// oracle: the output must be the input with some empty elements closed, nothing else
		if !legal {
			res.Fail("oracle", caseLine, fmt.Sprintf("ForceSelfClosingTags(%q) = %q is not the input with empty elements closed (repaired model: %q)", in, outs[i], scanner),
				c03fscSig(outs[i], model, asIs))
			continue
		}
		// correspondence with the statement-by-statement model (FindAllSubmatch + ReplaceAll), all inputs
		if !bytes.Equal(outs[i], model) {
			res.Fail("correspondence", caseLine, fmt.Sprintf("ForceSelfClosingTags(%q) = %q, model %q", in, outs[i], model), c03fscSig(outs[i], model, asIs))
			continue
		}
		// generated XML without comments / CDATA / processing instructions must be in the scanner's domain
		if !dom && cl == "xml" {
			res.Fail("machinery", caseLine, fmt.Sprintf("scanner %q and statement-by-statement model %q differ on plain XML %q", scanner, model, in), "scanner-domain")
		}
		if dom && !bytes.Equal(twice[i], outs[i]) {
			sig := "selfclose-not-idempotent"
			if bytes.Contains(twice[i], []byte("//>")) {
				sig = "selfclose-rewrites-already-self-closed-element"
			}
			res.Fail("correspondence", caseLine, fmt.Sprintf("ForceSelfClosingTags is not idempotent on %q: %q then %q", in, outs[i], twice[i]), sig)
		}
	}
	res.TracesVsImpl += len(inputs)
}

func c03sessions(c *ctx, sess []c03sessCase) {
	res := c.res
	if len(sess) == 0 {
		return
	}
	type run struct {
		obs, ref c03obs
		inners   [][]byte
		ok       bool
		skipped  bool
	}
	runs := make([]run, len(sess))
	// 1. run the real driver (and the reference session without options for the marshalled bodies);
	// sessions are independent, so they run on a few workers (results are gathered by index).
	// When requests keep timing out (a framing defect makes the server simulator wait for more
	// bytes) the remaining sessions are skipped: the verdict is already decided.
	var wg sync.WaitGroup
	next := make(chan int)
	for w := 0; w < 8; w++ {
		wg.Add(1)
		go func() {
			defer wg.Done()
			for i := range next {
				sc := sess[i]
				if c03timeouts.Load() >= 8 {
					runs[i].skipped = true
					continue
				}
				runs[i].obs = c03runSession(sc.v, sc.sc, sc.nh, sc.ops)
				if sc.sc || !sc.nh {
					runs[i].ref = c03runSession(sc.v, false, true, sc.ops)
				} else {
					runs[i].ref = runs[i].obs
				}
			}
		}()
	}
	for i := range sess {
		next <- i
	}
	close(next)
	wg.Wait()
	// 2. strip the rpc envelope of every reference body (model: rpcBody (101+k) inner)
	var lines []string
	type key struct{ s, k int }
	var idx []key
	for i := range sess {
		o := &runs[i]
		if o.skipped {
			res.Count("session:skipped-after-repeated-timeouts")
			continue
		}
		if o.obs.openErr != "" || o.ref.openErr != "" {
			res.Fail("oracle", sess[i].line, "session did not open: "+o.obs.openErr+o.ref.openErr, "open-failed")
			continue
		}
		o.ok = true
		id := c03FirstID
		for k := range o.ref.inputs {
			if o.ref.inputs[k] == nil {
				continue
			}
			lines = append(lines, fmt.Sprintf("c03 body %d %s", id, vlib.Hex(o.ref.inputs[k])))
			idx = append(idx, key{i, k})
			id++
		}
	}
	ans := c.ask(lines)
	for j, kk := range idx {
		f := strings.Fields(ans[j])
		o := &runs[kk.s]
		if len(f) != 2 || f[0] != "1" {
			o.ok = false
			res.Fail("oracle", sess[kk.s].line, fmt.Sprintf("request %d (%s): the marshalled message is not an rpc element with the base namespace and message-id %d: %.200q",
				kk.k, sess[kk.s].ops[kk.k].describe(), c03FirstID+len(o.inners), o.ref.inputs[kk.k]), "rpc-envelope")
			continue
		}
		inner, _ := vlib.UnHex(f[1])
		o.inners = append(o.inners, inner)
	}
	// 3. model session, strict decode of the observed wire, message-ids
	lines = lines[:0]
	for i, sc := range sess {
		if !runs[i].ok {
			continue
		}
		lines = append(lines,
			fmt.Sprintf("c03 session %s %s %s %s", sc.v, c03b(sc.sc), c03b(sc.nh), vlib.HexList(runs[i].inners)),
			fmt.Sprintf("c03 decode %s %s", sc.v, vlib.Hex(runs[i].obs.wire)))
	}
	ans = c.ask(lines)
	j := 0
	var chk []string
	var chkIdx []key
	// correspondence findings are held back until the session has been compared with the model of
	// the code as it is (only used to classify: a session that differs from the repaired model
	// exactly the way the recorded self-closing defect does carries that defect's signature)
	type pend struct{ detail, sig string }
	pending := map[int][]pend{}
	for i, sc := range sess {
		o := &runs[i]
		if !o.ok {
			continue
		}
		mAns, dAns := ans[j], ans[j+1]
		j += 2
		res.Count(fmt.Sprintf("session:v=%s sc=%s nh=%s", sc.v, c03b(sc.sc), c03b(sc.nh)))
		res.Count(fmt.Sprintf("session-requests:%02d-%02d", (len(sc.ops)-1)/5*5+1, (len(sc.ops)-1)/5*5+5))
		mf := strings.Fields(mAns)
		if len(mf) != 5 {
			res.Fail("machinery", sc.line, "driver answered "+c03clip(mAns, 100), "driver")
			continue
		}
		dom := mf[0] == "1"
		mWire, _ := vlib.UnHex(mf[1])
		mRaws := c03unhexList(mf[2])
		mFramed := c03unhexList(mf[3])
		if dom && mf[4] != "1" {
			res.Fail("machinery", sc.line, "model: strictDecode (session …) differs from the reported inputs on an in-domain session", "model-vs-spec")
		}
		if o.obs.version != sc.v {
			res.Fail("oracle", sc.line, "selected version "+o.obs.version+" want "+sc.v, "version")
			continue
		}
		// sent requests in order
		var sentIdx []int
		for k := range sc.ops {
			if k >= len(o.obs.errs) {
				break
			}
			op := &sc.ops[k]
			if op.wantErr {
				res.Count("op:rejected-before-send")
				if o.obs.errs[k] != "netconf" || o.obs.wrote[k] != 0 {
					res.Fail("oracle", sc.line, fmt.Sprintf("request %d (%s): want a netconf error and nothing written, got %s and %d bytes", k, op.describe(), o.obs.errs[k], o.obs.wrote[k]), "invalid-argument-sent")
				}
				continue
			}
			if o.obs.errs[k] != "nil" {
				res.Fail("oracle", sc.line, fmt.Sprintf("request %d (%s) failed: %s (the server simulator answers every well-framed request; frame ok=%v)", k, op.describe(), o.obs.errs[k], o.obs.simOK), "request-failed:"+o.obs.errs[k])
				break
			}
			sentIdx = append(sentIdx, k)
		}
		if len(sentIdx) != len(o.inners) || len(mRaws) != len(sentIdx) {
			res.Fail("correspondence", sc.line, fmt.Sprintf("session with options sent %d requests, reference session %d, model %d", len(sentIdx), len(o.inners), len(mRaws)), "request-count")
			continue
		}
		if dom {
			res.InDomain++
		} else {
			res.Count("session:out-of-domain")
		}
		// correspondence: wire, Input, FramedInput against the model
		if d := c03firstDiff(o.obs.wire, mWire); d >= 0 {
			pending[i] = append(pending[i], pend{fmt.Sprintf("bytes written to the transport differ from the model at offset %d: impl %s model %s", d, c03around(o.obs.wire, d), c03around(mWire, d)), "wire-vs-model"})
		}
		var inputs [][]byte
		for n, k := range sentIdx {
			op := &sc.ops[k]
			in := o.obs.inputs[k]
			inputs = append(inputs, in)
			res.Count("op:" + op.kind)
			res.Count("size:" + c03sizeClass(len(in)))
			res.Case(fmt.Sprintf("%s|%v|%v|%d|%s", sc.v, sc.sc, sc.nh, n, in), true)
			if (i+k)%97 == 0 {
				res.Sample(map[string]any{"class": "session", "version": sc.v, "self_closing": sc.sc, "exclude_header": sc.nh, "position": n + 1,
					"op": op.describe(), "input": c03clip(string(in), 400), "framed_prefix": c03clip(string(o.obs.framed[k]), 24)})
			}
			if d := c03firstDiff(in, mRaws[n]); d >= 0 {
				sig := "input-vs-model"
				if sc.sc {
					sig = "input-vs-model-selfclose"
					if bytes.Contains(in, []byte("//>")) {
						sig = "selfclose-rewrites-already-self-closed-element"
					}
				}
				pending[i] = append(pending[i], pend{fmt.Sprintf("request %d (%s): Response.Input differs from the model at %d: impl %s model %s", n, op.describe(), d, c03around(in, d), c03around(mRaws[n], d)), sig})
			}
			if d := c03firstDiff(o.obs.framed[k], mFramed[n]); d >= 0 {
				pending[i] = append(pending[i], pend{fmt.Sprintf("request %d (%s): Response.FramedInput differs from the model at %d: impl %s model %s", n, op.describe(), d, c03around(o.obs.framed[k], d), c03around(mFramed[n], d)), "framed-vs-model"})
			}
			// oracle: the declaration is present exactly when the option is off
			if bytes.HasPrefix(in, []byte(c03Header)) == sc.nh {
				res.Fail("oracle", sc.line, fmt.Sprintf("request %d: XML declaration present=%v with ExcludeHeader=%v: %.80q", n, !sc.nh, sc.nh, in), "header")
			}
			// oracle: options change only what they name (reference body = same request, no options)
			want := o.ref.inputs[k]
			if !sc.nh {
				want = append([]byte(c03Header), want...)
			}
			if !sc.sc {
				if !bytes.Equal(in, want) {
					res.Fail("oracle", sc.line, fmt.Sprintf("request %d: input is not the declaration followed by the marshalled rpc: %.120q vs %.120q", n, in, want), "header-only-prefix")
				}
			} else {
				chk = append(chk, "c03 chk "+vlib.Hex(want)+" "+vlib.Hex(in))
				chkIdx = append(chkIdx, key{i, k})
			}
			c03content(res, sc, n, op, in, o.ref.inputs[k], o.inners[n])
		}
		// oracle: the proved strict decoder recovers exactly the reported inputs
		df := strings.Fields(dAns)
		if dom {
			if len(df) != 3 || df[0] != "some" {
				res.Fail("oracle", sc.line, fmt.Sprintf("the strict RFC decoder rejects the bytes written to the transport (%d requests); tail %s", len(inputs), c03around(o.obs.wire, len(o.obs.wire))), "strict-decode-rejects:"+sc.v)
			} else {
				hello, _ := vlib.UnHex(df[1])
				got := c03unhexList(df[2])
				if !bytes.Contains(hello, []byte("urn:ietf:params:netconf:base:"+sc.v+"</capability>")) {
					res.Fail("oracle", sc.line, fmt.Sprintf("client hello does not advertise base:%s: %.300q", sc.v, hello), "hello")
				}
				if len(got) != len(inputs) {
					res.Fail("oracle", sc.line, fmt.Sprintf("strict decoder found %d messages, %d requests were reported", len(got), len(inputs)), "strict-decode-count:"+sc.v)
				} else {
					for n := range got {
						if d := c03firstDiff(got[n], inputs[n]); d >= 0 {
							res.Fail("oracle", sc.line, fmt.Sprintf("request %d: strictly decoded message differs from Response.Input at %d: wire %s input %s", n, d, c03around(got[n], d), c03around(inputs[n], d)), "strict-decode-differs:"+sc.v)
							break
						}
					}
				}
			}
			// second, independent decoder: the server simulator's own
			for n := range inputs {
				if n >= len(o.obs.simRaw) || !o.obs.simOK[n] || !bytes.Equal(o.obs.simRaw[n], inputs[n]) {
					res.Fail("oracle", sc.line, fmt.Sprintf("request %d: the server simulator did not receive the reported input as one well-framed message", n), "server-decode:"+sc.v)
					break
				}
			}
		}
	}
	// 3b. classify and emit the held-back correspondence findings
	var pidx []int
	for i := range sess {
		if len(pending[i]) > 0 {
			pidx = append(pidx, i)
		}
	}
	var asisLines []string
	for _, i := range pidx {
		if sess[i].sc {
			asisLines = append(asisLines, fmt.Sprintf("c03 session-asis %s %s %s %s", sess[i].v, c03b(sess[i].sc), c03b(sess[i].nh), vlib.HexList(runs[i].inners)))
		}
	}
	asis := c.ask(asisLines)
	q := 0
	for _, i := range pidx {
		known := false
		if sess[i].sc {
			w, _ := vlib.UnHex(asis[q])
			q++
			known = bytes.Equal(w, runs[i].obs.wire)
		}
		for _, p := range pending[i] {
			sig := p.sig
			if known {
				sig = "selfclose-rewrites-already-self-closed-element"
			}
			res.Fail("correspondence", sess[i].line, p.detail, sig)
		}
	}
	// 4. rewrite legality of every self-closed input, message-ids read back by the model
	var idLines []string
	var idIdx []key
	for i, sc := range sess {
		if !runs[i].ok {
			continue
		}
		n := 0
		for k := range sc.ops {
			if k < len(runs[i].obs.inputs) && runs[i].obs.inputs[k] != nil {
				idLines = append(idLines, "c03 msgid "+vlib.Hex(runs[i].obs.inputs[k]))
				idIdx = append(idIdx, key{i, n})
				n++
			}
		}
	}
	ans = c.ask(append(append([]string{}, chk...), idLines...))
	for q, kk := range chkIdx {
		if ans[q] != "1" {
			in := runs[kk.s].obs.inputs[kk.k]
			sig := "selfclose-illegal-rewrite"
			if bytes.Contains(in, []byte("//>")) {
				sig = "selfclose-rewrites-already-self-closed-element"
			}
			res.Fail("oracle", sess[kk.s].line, fmt.Sprintf("request %d (%s): with ForceSelfClosingTags the input is not the plain request with empty elements closed: %s", kk.k, sess[kk.s].ops[kk.k].describe(), c03clip(string(in), 300)), sig)
		}
	}
	for q, kk := range idIdx {
		if ans[len(chk)+q] != strconv.Itoa(c03FirstID+kk.k) {
			res.Fail("oracle", sess[kk.s].line, fmt.Sprintf("request at position %d carries message-id %s, want %d", kk.k+1, ans[len(chk)+q], c03FirstID+kk.k), "message-id")
		}
	}
	res.TracesVsImpl += len(sess)
}

// c03content is the XML-content clause: the input, tokenised, must be the rpc the operation denotes.
func c03content(res *vlib.Result, sc c03sessCase, n int, op *c03op, in, ref, inner []byte) {
	// the caller's XML, byte-identical, in the request without options
	if pre, p, post, has := op.payload(); has {
		if !bytes.Contains(ref, []byte(pre+p+post)) {
			res.Fail("oracle", sc.line, fmt.Sprintf("request %d (%s): the caller's XML is not in the request byte for byte: %s", n, op.describe(), c03clip(string(ref), 300)), "payload-altered")
			return
		}
	}
	if op.kind == "rpc" && !bytes.Equal(inner, []byte(op.filter)) {
		res.Fail("oracle", sc.line, fmt.Sprintf("request %d: raw rpc content %.200q, want %.200q", n, inner, op.filter), "payload-altered")
		return
	}
	if !op.wellFormed {
		res.Count("content:skipped-malformed-payload")
		return
	}
	exp := fmt.Sprintf(`<rpc xmlns="%s" message-id="%d">%s</rpc>`, c03BaseNS, c03FirstID+n, op.expectedInner())
	et, err := c03parse([]byte(exp))
	if err != nil {
		res.Fail("machinery", sc.line, "expected text does not parse: "+err.Error()+": "+c03clip(exp, 200), "expected-xml")
		return
	}
	body := in
	if !sc.nh {
		body = bytes.TrimPrefix(in, []byte(c03Header))
	}
	gt, err := c03parse(body)
	if err != nil {
		sig := "input-not-well-formed"
		if sc.sc && bytes.Contains(in, []byte("//>")) {
			sig = "selfclose-rewrites-already-self-closed-element"
		}
		res.Fail("oracle", sc.line, fmt.Sprintf("request %d (%s): Response.Input is not well-formed XML (%v): %s", n, op.describe(), err, c03clip(string(in), 300)), sig)
		return
	}
	c03canon(et, sc.sc)
	c03canon(gt, sc.sc)
	if d := c03diff("", gt, et); d != "" {
		res.Fail("oracle", sc.line, fmt.Sprintf("request %d (%s): the request does not denote the requested operation: %s", n, op.describe(), d), "content-tree:"+op.kind)
	}
}

func c03unhexList(s string) [][]byte {
	if s == "." {
		return nil
	}
	var out [][]byte
	for _, p := range strings.Split(s, ",") {
		b, _ := vlib.UnHex(p)
		out = append(out, b)
	}
	return out
}

func c03sizeClass(n int) string {
	switch {
	case n < 200:
		return "0000-0199"
	case n < 1000:
		return "0200-0999"
	case n < 5000:
		return "1000-4999"
	default:
		return "5000+"
	}
}

func c03clip(s string, n int) string {
	if len(s) <= n {
		return s
	}
	k := n
	for k > 0 && !utf8.RuneStart(s[k]) {
		k--
	}
	return s[:k] + fmt.Sprintf("…(%d bytes)", len(s))
}
