package main

import (
	"fmt"
	"regexp"
	"strconv"
	"strings"

	"verifgo/vlib"
)

// Size tokens that SOME integer parser reads as n although they are not an RFC 6242 chunk-size
// ([1-9][0-9]*): Go / C literal prefixes, digit separators, signs, white space, other scripts'
// digits, exponents, wrap-arounds at the 32- and 64-bit boundaries. Every token is paired with
// exactly n bytes of data, so that a decoder which accepts the token yields a clean-looking frame
// with the payload as its result. The data is letters only (no '#', no LF): a decoder that reads
// the token as any OTHER number runs into a letter, or swallows the end marker.

type c02tok struct{ tok, class string }

func c02digitsIn(n int, zero rune) string {
	var b strings.Builder
	for _, c := range strconv.Itoa(n) {
		b.WriteRune(zero + (c - '0'))
	}
	return b.String()
}

func c02sizeTokens(n int) []c02tok {
	d := strconv.Itoa(n)
	var out []c02tok
	add := func(class string, toks ...string) {
		for _, t := range toks {
			out = append(out, c02tok{t, class})
		}
	}
	add("size-hex", fmt.Sprintf("0x%x", n), fmt.Sprintf("0X%X", n), fmt.Sprintf("0x%X", n), fmt.Sprintf("%x", n), fmt.Sprintf("%X", n),
		fmt.Sprintf("%xh", n), fmt.Sprintf("x%x", n), fmt.Sprintf("$%x", n), fmt.Sprintf("0x0%x", n), fmt.Sprintf("0x_%x", n), fmt.Sprintf("+0x%x", n))
	add("size-binary", fmt.Sprintf("0b%b", n), fmt.Sprintf("0B%b", n), fmt.Sprintf("%b", n), fmt.Sprintf("%bb", n))
	add("size-octal", fmt.Sprintf("0o%o", n), fmt.Sprintf("0O%o", n), fmt.Sprintf("0%o", n), fmt.Sprintf("00%o", n), fmt.Sprintf("%o", n), fmt.Sprintf("0_%o", n))
	for i := 0; i <= len(d); i++ {
		add("size-underscore", d[:i]+"_"+d[i:])
	}
	add("size-underscore", "0_"+d, d[:1]+"__"+d[1:])
	add("size-leading-zeros", "0"+d, "00"+d, fmt.Sprintf("%010d", n), fmt.Sprintf("%011d", n), fmt.Sprintf("%020d", n))
	add("size-sign", "+"+d, "-"+d, "++"+d, "+-"+d, "-+"+d, "+0"+d, "-0"+d, d+"+", d+"-", "+ "+d, "+")
	add("size-whitespace", " "+d, d+" ", "\t"+d, d+"\t", d+"\r", "\r"+d, "\v"+d, d+"\f", d[:1]+" "+d[1:], d+"\x00", "\x00"+d, " "+d, d+" ", "\u3000"+d)
	add("size-unicode-digits", c02digitsIn(n, 0x0660), c02digitsIn(n, 0x06F0), c02digitsIn(n, 0x0966), c02digitsIn(n, 0xFF10), c02digitsIn(n, 0x1D7CE),
		d[:1]+c02digitsIn(n, 0x0660)[2:], "\ufeff"+d)
	mant, exp := n, 0
	for mant%10 == 0 && mant > 0 {
		mant /= 10
		exp++
	}
	add("size-exponent-float", fmt.Sprintf("%de%d", mant, exp), fmt.Sprintf("%dE%d", mant, exp), fmt.Sprintf("%de+%d", mant, exp), d+".0", d+".", d+".5",
		fmt.Sprintf("%d0e-1", n), strconv.FormatFloat(float64(n), 'e', -1, 64), fmt.Sprintf("0x%xp0", n), d+"e0", d+"f", d+"L", d+"u", d+"n")
	add("size-wraparound", strconv.FormatUint(1<<32+uint64(n), 10), strconv.FormatUint(1<<31+uint64(n), 10), strconv.FormatInt(-(1<<32)+int64(n), 10),
		strconv.FormatUint(1<<63+uint64(n), 10), new(bigDec).pow2_64plus(n), "2147483647", "2147483648", "4294967295", "4294967296",
		"9223372036854775807", "9223372036854775808", "18446744073709551615", "18446744073709551616", "9999999999", "99999999999",
		strings.Repeat("9", 40), strings.Repeat("0", 30)+d, "-2147483648", "-9223372036854775808")
	add("size-other-syntax", d+";ext=1", d+" ;x", d+",000", d[:1]+","+d[1:], d+"#", d+"\\", "'"+d+"'", "\""+d+"\"", "("+d+")", d+"/1", d+"*1", d+"|0", "~"+d, "!"+d,
		d+"#"+d, "", "0", "00", "-0", "+0", "NaN", "inf", "nil", "true")
	return out
}

// bigDec renders 2^64 + n without math/big
type bigDec struct{}

func (*bigDec) pow2_64plus(n int) string {
	// 2^64 = 18446744073709551616
	digits := []byte("18446744073709551616")
	carry := n
	for i := len(digits) - 1; i >= 0 && carry > 0; i-- {
		v := int(digits[i]-'0') + carry
		digits[i] = byte('0' + v%10)
		carry = v / 10
	}
	return string(digits)
}

var c02lenientDecimal = regexp.MustCompile(`^\+?[0-9]+$`)

// c02tokenMust reports whether a frame whose chunk header carries tok in front of exactly n letter
// bytes must be failed. Not so for the two documented leniencies of the decoder (one '+', leading
// zeros: the token is still a base-ten number equal to the data length) and for a base-ten value of
// n+1, which takes the LF in front of the end marker as data (the decoder does not insist on that
// LF) and decodes to the same payload; those cases are compared with the model only.
func c02tokenMust(tok string, n int) bool {
	if c02lenientDecimal.MatchString(tok) && len(tok) <= 10 {
		t := strings.TrimLeft(strings.TrimPrefix(tok, "+"), "0")
		if v, err := strconv.Atoi(t); err == nil && (v == n || v == n+1) {
			return false
		}
	}
	return true
}

// c02sizeStream appends the labelled size-token cases: the token heads the only chunk, or the second
// of two chunks, or the last of three.
func c02sizeStream(r *vlib.Rng, ns []int, add func(raw []byte, class string, must bool)) {
	letters := []byte("abcdefghijklmnopqrstuvwxyz<>/=\"")
	for _, n := range ns {
		data := r.Bytes(n, letters)
		data[0], data[n-1] = '<', '>'
		for _, tk := range c02sizeTokens(n) {
			if strings.ContainsAny(tk.tok, "\n") {
				continue
			}
			must := c02tokenMust(tk.tok, n)
			one := "\n#" + tk.tok + "\n" + string(data) + "\n##\n"
			add([]byte(one), tk.class, must)
			switch r.Intn(3) {
			case 0:
				add([]byte("\n#3\n<a>\n#"+tk.tok+"\n"+string(data)+"\n##\n"), tk.class, must)
			case 1:
				if c02lenientDecimal.MatchString(tk.tok) {
					break // a base-ten reading of the token could swallow the next chunk and still line up
				}
				add([]byte("#"+tk.tok+"\n"+string(data)+"\n#4\n</a>\n##"), tk.class, must)
			}
		}
	}
}
