//go:build internaltie

package main

import (
	"fmt"
	"regexp"

	"github.com/scrapli/scrapligo/driver/generic"

	"verifgo/facts"
	"verifgo/vlib"
)

// c18Internal: auxiliary tie of Callback.check against the model's `check` (and the property's
// `trigger`), exhaustive over all (contains, not-contains, text) triples with contains/not-contains
// over {a,B} up to length 3 and text over {a,b,B} up to length 3 (quick) / 4 (thorough), times case
// sensitivity; plus the same texts against three patterns with and without a contains text.
func c18Internal(c *ctx) {
	res := c.res
	res.InternalTie = true
	var gen func(alpha []byte, cur []byte, n int, dst *[][]byte)
	gen = func(alpha []byte, cur []byte, n int, dst *[][]byte) {
		*dst = append(*dst, append([]byte{}, cur...))
		if n == 0 {
			return
		}
		for _, a := range alpha {
			gen(alpha, append(cur, a), n-1, dst)
		}
	}
	var keys, texts [][]byte
	gen([]byte{'a', 'B'}, nil, 3, &keys)
	tl := 3
	if c.thorough() {
		tl = 4
	}
	gen([]byte{'a', 'b', 'B'}, nil, tl, &texts)
	var lines, want, desc []string
	for _, ins := range []bool{true, false} {
		for _, ct := range keys {
			for _, nc := range keys {
				cb := &generic.Callback{Contains: string(ct), NotContains: string(nc), Insensitive: ins}
				for _, tx := range texts {
					lines = append(lines, fmt.Sprintf("c18 chk %s %s %s %s", b2s(ins), vlib.Hex(ct), vlib.Hex(nc), vlib.Hex(tx)))
					want = append(want, b2s(cb.VerifCheck(append([]byte{}, tx...))))
					desc = append(desc, fmt.Sprintf("check(contains=%q not=%q insensitive=%v)(%q)", ct, nc, ins, tx))
				}
			}
		}
	}
	// multi-byte keys and texts, whole and truncated characters
	for _, ins := range []bool{true, false} {
		for _, ct := range []string{"é", "É", "日", "ü"} {
			for _, nc := range []string{"", "Ü", "é"} {
				cb := &generic.Callback{Contains: ct, NotContains: nc, Insensitive: ins}
				for _, tx := range []string{"é", "É", "aÉb", "\xc3", "\xa9", "\x89", "日本", "\xe6\x97", "Üé", "üÉ", "xü"} {
					lines = append(lines, fmt.Sprintf("c18 chk %s %s %s %s", b2s(ins), vlib.Hex([]byte(ct)), vlib.Hex([]byte(nc)), vlib.Hex([]byte(tx))))
					want = append(want, b2s(cb.VerifCheck([]byte(tx))))
					desc = append(desc, fmt.Sprintf("check(contains=%q not=%q insensitive=%v)(%q)", ct, nc, ins, tx))
				}
			}
		}
	}
	nExh := len(lines)
	for _, src := range []string{`ab`, `(?i)ab`, `B+a`} {
		term, _ := facts.PatternToLean(src)
		re := regexp.MustCompile(src)
		for _, ins := range []bool{true, false} {
			for _, ct := range [][]byte{nil, []byte("aa")} {
				for _, nc := range [][]byte{nil, []byte("B"), []byte("ba")} {
					cb := &generic.Callback{Contains: string(ct), NotContains: string(nc), ContainsRe: re, Insensitive: ins}
					for _, tx := range texts {
						lines = append(lines, fmt.Sprintf("c18 chkre %s %s %s %s %s", b2s(ins), vlib.Hex(ct), vlib.Hex(nc), vlib.Hex([]byte(term)), vlib.Hex(tx)))
						want = append(want, b2s(cb.VerifCheck(append([]byte{}, tx...))))
						desc = append(desc, fmt.Sprintf("check(contains=%q not=%q re=%q insensitive=%v)(%q)", ct, nc, src, ins, tx))
					}
				}
			}
		}
	}
	ans := c.ask(lines)
	for i := range lines {
		a := ans[i]
		if len(a) != 3 {
			res.Fail("machinery", lines[i], "driver answered "+a, "driver")
			continue
		}
		trig, chk, asis := a[0:1], a[1:2], a[2:3]
		if trig != chk {
			res.Fail("machinery", lines[i], desc[i]+": model check "+chk+" but trigger "+trig, "model-vs-spec")
			continue
		}
		if want[i] != chk {
			sig := "internal:check"
			if want[i] == asis {
				sig = "internal:check not-contains-inverted"
			}
			res.Fail("correspondence", lines[i], fmt.Sprintf("%s: impl %s, model %s", desc[i], want[i], chk), sig)
		}
	}
	res.Distribution["internal:check-exhaustive"] = nExh
	res.Distribution["internal:check-regex"] = len(lines) - nExh
	res.Exhaustive = true
	res.ExhaustiveOf = fmt.Sprintf("Callback.check over all (contains, not-contains) in {a,B}^≤3, texts in {a,b,B}^≤%d, both sensitivities (%d triples)", tl, nExh)
}
