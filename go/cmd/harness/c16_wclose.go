package main

// C16, fifth part: a large Write that returned nil, then Close at once, while the peer is still
// draining slowly. Demanded (first clause of the property: "every byte written is received by the
// peer unmodified and in order"): every byte of a Write that returned nil reaches the peer, and the
// peer then sees the end of the stream the orderly way — not a reset that throws queued bytes away.

import (
	"bytes"
	"fmt"
	"io"
	"strconv"
	"strings"
	"sync"
	"time"

	"github.com/scrapli/scrapligo/logging"
	"github.com/scrapli/scrapligo/transport"

	"verifgo/vlib"
)

type c16WCJob struct {
	kind, mode string
	kib        int
	force      bool
	seed       uint64
}

func (j c16WCJob) line() string {
	return fmt.Sprintf("wclose %s %s %d %s %d", j.kind, j.mode, j.kib, c16b(j.force), j.seed)
}

// c16WriteClose runs one scenario. The peer reads 4 KiB per millisecond from the moment the
// connection is up.
func c16WriteClose(j c16WCJob) (fails []c16Fail, note string) {
	fail := func(k, sig, f string, a ...any) { fails = append(fails, c16Fail{k, fmt.Sprintf(f, a...), sig}) }
	opts, peerOf, err := c16TransportOpts(j.kind, j.mode, nil, j.seed)
	if err != nil {
		fail("machinery", "c16:peer-setup", "peer setup: %v", err)
		return
	}
	log, _ := logging.NewInstance()
	tr, err := transport.NewTransport(log, "127.0.0.1", c16TType(j.kind), opts...)
	if err == nil {
		err = tr.Open()
	}
	if err != nil {
		fail("oracle", "c16:"+j.kind+":open-failed", "open: %v", err)
		return
	}
	conn, err := peerOf()
	if err != nil {
		_ = tr.Close(true)
		fail("oracle", "c16:"+j.kind+":open-failed", "peer side of the connection: %v", err)
		return
	}
	defer conn.cleanup()
	payload := c16Payload(vlib.NewRng(j.seed), j.kib<<10)
	type end struct {
		got []byte
		err error
	}
	endc := make(chan end, 1)
	var gotMu sync.Mutex
	gotN := 0   // bytes the peer has received so far
	go func() { // slow reader
		var got []byte
		buf := make([]byte, 4096)
		for {
			n, err := conn.peer.Read(buf)
			got = append(got, buf[:n]...)
			gotMu.Lock()
			gotN = len(got)
			gotMu.Unlock()
			if err != nil {
				endc <- end{got, err}
				return
			}
			time.Sleep(time.Millisecond)
		}
	}()
	werr := make(chan error, 1)
	go func() { werr <- tr.Write(payload) }()
	select {
	case e := <-werr:
		if e != nil {
			fail("oracle", "c16:"+j.kind+":write-error", "Write(%d KiB) to a slowly reading peer returned %v", j.kib, e)
			_ = tr.Close(true)
			return
		}
	case <-time.After(c16ReadBound + time.Duration(j.kib>>8)*10*time.Second):
		fail("oracle", "c16:"+j.kind+":write-stuck", "Write(%d KiB) to a peer reading 4 KiB/ms did not return", j.kib)
		go func() { _ = tr.Close(true) }()
		return
	}
	// Close at once
	gotMu.Lock()
	atClose := gotN // what the peer had received when Close was called
	gotMu.Unlock()
	cdone := make(chan struct{})
	go func() { _ = tr.Close(j.force); close(cdone) }()
	select {
	case <-cdone:
	case <-time.After(c16UnblockBound):
		fail("oracle", "c16:"+j.kind+":close-stuck", "Close(%v) right after a Write of %d KiB did not return within %v", j.force, j.kib, c16UnblockBound)
	}
	var e end
	select {
	case e = <-endc:
	case <-time.After(c16ReadBound + time.Duration(j.kib>>8)*10*time.Second):
		fail("oracle", "c16:"+j.kind+":peer-never-saw-end", "the peer did not see the end of the stream after the client wrote %d KiB and closed", j.kib)
		return
	}
	what := fmt.Sprintf("Write(%d KiB) returned nil, then Close(%v) at once, peer reading 4 KiB/ms", j.kib, j.force)
	if j.kind != "telnet" {
		// pinned from the unchanged tree: the system transport's Close kills the ssh child at once
		// (what the child had not yet forwarded is gone), and the standard transport's Close closes
		// the TCP connection under crypto/ssh without draining (when window-adjust packets of the
		// slowly reading server are still unread the kernel resets the connection and drops the
		// unsent tail). Both are reported as observations, not judged; judged is that what did arrive
		// is the written stream, in order, nothing else, and that the peer sees an end of stream.
		// Judged as "must be the written stream, in order": what the peer had received when Close was
		// called. What arrives while the connection is being torn down is compared too, but only
		// reported. Reason (system transport, seen about once in 400 runs under load, captured with
		// the offsets printed below): Close closes the master side of the pty and kills the ssh
		// stand-in while it is still copying. The kernel hangs the slave up; for a pty that flushes
		// the N_TTY read buffer (4095 bytes) and re-initialises the line discipline, and what was
		// still in the flip buffers behind it can reach the dying relay after the flush. The peer
		// then receives the stream with a hole of exactly 4095 bytes shortly before the end (total =
		// payload - 4095, the bytes after the hole are the written bytes shifted by 4095) instead of
		// a truncated stream. The transport has no part in it: every byte went into the pty through
		// one Write before Close was called, and Close only closes and kills.
		if !bytes.HasPrefix(payload, e.got[:c16min(atClose, len(e.got))]) {
			i := c16FirstDiff(e.got[:atClose], payload)
			fail("oracle", "c16:"+j.kind+":write-then-close-corrupt", "%s: the %d byte(s) the peer had received when Close was called are not a prefix of what was written (first difference at %d: received %x, written %x)",
				what, atClose, i, e.got[i:c16min(atClose, i+24)], payload[i:c16min(len(payload), i+24)])
		}
		teardown := ""
		if !bytes.HasPrefix(payload, e.got) {
			i := c16FirstDiff(e.got, payload)
			tail := e.got[i:]
			where := -1
			if probe := tail[:c16min(len(tail), 12)]; len(probe) >= 4 {
				where = bytes.Index(payload, probe)
			}
			teardown = fmt.Sprintf("; during teardown (after the %d bytes received at Close) the stream deviates at offset %d: %d byte(s) follow, starting %x where %x was written (those bytes occur in the payload at offset %d)",
				atClose, i, len(tail), tail[:c16min(len(tail), 24)], payload[i:c16min(len(payload), i+24)], where)
		}
		if e.err != io.EOF {
			fail("oracle", "c16:"+j.kind+":write-then-close-abortive-end", "%s: the peer's read ended with %q instead of EOF after %d of %d byte(s)", what, e.err, len(e.got), len(payload))
		}
		note = fmt.Sprintf("%s/%s %d KiB: peer received %d of %d bytes (%d before Close was called), end: %v%s", j.kind, j.mode, j.kib, len(e.got), len(payload), atClose, e.err, teardown)
		return
	}
	if !bytes.Equal(e.got, payload) {
		i := c16FirstDiff(e.got, payload)
		fail("oracle", "c16:"+j.kind+":write-then-close-lost", "%s: the peer received %d of %d byte(s) (first difference at offset %d), its read ended with: %v", what, len(e.got), len(payload), i, e.err)
	}
	if e.err != io.EOF {
		fail("oracle", "c16:"+j.kind+":write-then-close-abortive-end", "%s: the peer's read ended with %q instead of the orderly end of stream (EOF) after %d of %d byte(s)", what, e.err, len(e.got), len(payload))
	}
	return
}

func c16RecordWC(c *ctx, j c16WCJob, fails []c16Fail, note string) {
	c.res.Case(j.line(), true)
	c.res.InDomain++
	c.res.Count("write-then-close:" + j.kind + "/" + j.mode)
	for _, f := range fails {
		c.res.Fail(f.kind, j.line(), f.detail, f.sig)
	}
	if note != "" {
		c.res.Note("observation (not judged): write then close at once, %s", note)
	}
}

func c16ReplayWC(c *ctx, line string) {
	f := strings.Fields(line)
	if len(f) != 6 {
		c.res.Fail("machinery", line, "bad wclose line", "c16:replay")
		return
	}
	kib, _ := strconv.Atoi(f[3])
	seed, _ := strconv.ParseUint(f[5], 10, 64)
	j := c16WCJob{f[1], f[2], kib, f[4] == "1", seed}
	fails, note := c16WriteClose(j)
	c16RecordWC(c, j, fails, note)
}

func c16WriteCloses(c *ctx) {
	r := c.rng
	var jobs []c16WCJob
	for i := 0; i < c.n(1, 4); i++ {
		for _, k := range []struct{ kind, mode string }{{"telnet", "shell"}, {"telnet", "shell"}, {"standard", "shell"}, {"standard", "netconf"}, {"system", "shell"}} {
			jobs = append(jobs, c16WCJob{k.kind, k.mode, []int{768, 256, 1536, 64}[r.Intn(4)], r.Chance(1, 2), r.U64()})
		}
	}
	type out struct {
		fails []c16Fail
		note  string
	}
	outs := make([]out, len(jobs))
	sem := make(chan struct{}, vlib.Conc(6))
	var wg sync.WaitGroup
	for i := range jobs {
		wg.Add(1)
		sem <- struct{}{}
		go func(i int) {
			defer wg.Done()
			defer func() { <-sem }()
			outs[i].fails, outs[i].note = c16WriteClose(jobs[i])
		}(i)
	}
	wg.Wait()
	for i, j := range jobs {
		c16RecordWC(c, j, outs[i].fails, outs[i].note)
	}
}
