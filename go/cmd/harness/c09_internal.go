//go:build internaltie

package main

import (
	"fmt"
	"strings"

	"github.com/scrapli/scrapligo/driver/netconf"
)

// c09Internal: determineVersion itself, exhaustively over every capability list of length <= 3
// drawn from {base:1.0, base:1.1, a near miss, an unrelated URI} (order and duplicates included)
// x preference strings (the three valid ones and two invalid ones), against the Lean model.
func c09Internal(c *ctx) {
	res := c.res
	res.InternalTie = true
	universe := []string{c09base10, c09base11, "urn:ietf:params:netconf:base:1.10", "urn:x"}
	var lists [][]string
	var gen func(cur []string, n int)
	gen = func(cur []string, n int) {
		lists = append(lists, append([]string{}, cur...))
		if n == 0 {
			return
		}
		for _, u := range universe {
			gen(append(cur, u), n-1)
		}
	}
	gen(nil, 3)
	prefs := []string{"", "1.0", "1.1", "2.0", "1"}
	var lines []string
	for _, l := range lists {
		for _, p := range prefs {
			lines = append(lines, "c09 ver "+c09strList(l)+" "+c09hex(p))
		}
	}
	ans := c.ask(lines)
	k := 0
	for _, l := range lists {
		for _, p := range prefs {
			ver, pp, err := netconf.VerifDetermineVersion(l, p)
			impl := "err"
			if err == nil {
				impl = ver
			} else if errClass(err) != "netconf" {
				impl = "err:" + errClass(err)
			}
			f := strings.Fields(ans[k])
			k++
			caseLine := fmt.Sprintf("c09ver %q %q", l, p)
			res.Case("ver:"+caseLine, true)
			res.Count("internal:determineVersion")
			if len(f) != 2 {
				res.Fail("machinery", caseLine, "driver answered "+strings.Join(f, " "), "driver")
				continue
			}
			if impl != f[1] {
				res.Fail("correspondence", caseLine, fmt.Sprintf("determineVersion(%q, pref %q) = %s ; model %s", l, p, impl, f[1]), "impl-vs-model:determineVersion")
				continue
			}
			has10, has11 := false, false
			for _, u := range l {
				has10 = has10 || u == c09base10
				has11 = has11 || u == c09base11
			}
			if p == "" || p == "1.0" || p == "1.1" {
				res.InDomain++
				want := c09table(has10, has11, p)
				if want == "" {
					want = "err"
				}
				if impl != want {
					res.Fail("oracle", caseLine, fmt.Sprintf("determineVersion(%q, pref %q) = %s, the table says %s", l, p, impl, want), "wrong-version:internal")
					continue
				}
			}
			// the channel's delimiter follows the selected version
			if err == nil {
				wantPP := "]]>]]>"
				if ver == "1.1" {
					wantPP = "(?m)^##$"
				}
				if pp != wantPP {
					res.Fail("oracle", caseLine, fmt.Sprintf("selected %s but the channel prompt pattern is %q", ver, pp), "delimiter-not-following-version")
				}
			}
		}
	}
}
