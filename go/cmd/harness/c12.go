package main

import (
	"bytes"
	"fmt"
	"regexp"
	"regexp/syntax"
	"strconv"
	"strings"
	"sync"
	"time"

	"github.com/scrapli/scrapligo/channel"
	"github.com/scrapli/scrapligo/driver/generic"
	"github.com/scrapli/scrapligo/driver/network"
	"github.com/scrapli/scrapligo/driver/opoptions"
	"github.com/scrapli/scrapligo/driver/options"
	"github.com/scrapli/scrapligo/util"

	"verifgo/facts"
	"verifgo/sim"
	"verifgo/vlib"
)

func init() { props["C12"] = runC12 }

// ---------------------------------------------------------------------------------------------
// cases

type c12ev struct {
	input     string
	resp      int // index into facts.C12Patterns, -1 = no expected response
	hidden    bool
	out       string // what the device prints after this event's return, before ask / prompt
	ask       string // the question the device ends its reaction with ("" = a prompt)
	devHidden bool   // the device does not echo this event's input
	pre       string // a prompt-like status line the device prints (and holds) before out / ask
}

type c12case struct {
	seed     uint64
	kind     string // inter | esc | send
	thorough bool
	depth    int
	exact    bool
	nl       string
	segClass int
	segK     int
	readSize int
	delayUs  int
	pauseUs  int
	wrap     int
	setup    int  // 0 clean: the device is silent until the first return and a GetPrompt precedes the operation; 1 stale: the device shows its prompt on connect and nothing reads it; 2 shifted: prompt on connect, then a GetPrompt (which returns at the stale prompt and leaves its own answer behind)
	host     string
	weird    string // "" or the name of the out-of-domain twist that was applied
	echoTail   int  // the device keeps back the last echoTail bytes of every echo for c12hold (0 = no)
	statusLine bool // some event carries a prompt-like status line (in domain)
	clean    bool   // built without any twist, from a clean queue, with questions no proper prefix of which matches their pattern, and with hidden inputs the device does not echo

	// inter
	events    []c12ev
	complete  []int
	earlyAt   int    // the device shows a completion prompt after this event (-1 never)
	earlyMode string // done | abort

	// esc
	detour    string // escalation: a prompt of an unrelated level shown (and held) before the outcome's reaction
	outcome   string // ask | grant | refuse | detour-only
	secret    string // AuthSecondary
	devSecret string // what the device accepts
	askText   string
	target    string
	escAuth   bool

	// send
	cmd   string
	eager bool
	out   string
}

var c12words = []string{"Interface", "up", "down", "Gi0/1", "10.0.0.1", "is", "line", "protocol", "a #b", "x > y", "100%", "ü", "(config)", "::", "cost=5", "erase", "nvram:", "[OK]", "bytes", "copied"}

var c12ask = map[int][]string{
	0: {"Proceed with reload? [confirm]", "Clear logging buffer [confirm]"},
	1: {"Are you sure (yes/no)?", "Overwrite? (YES/NO)"},
	2: {"Password:", "password:"},
	3: {"Destination filename [startup-config]?", "Destination filename [r1-confg]?"},
	4: {"New secret:"},
}

func c12out(r *vlib.Rng, nl string, maxLines int) string {
	var b strings.Builder
	for l := r.Intn(maxLines + 1); l > 0; l-- {
		switch r.Intn(8) {
		case 0:
		case 1:
			b.WriteString("  ")
		default:
			for w := r.Range(1, 5); w > 0; w-- {
				b.WriteString(r.Pick(c12words))
				b.WriteString(" ")
			}
			b.WriteString("ok")
			if r.Chance(1, 4) {
				b.WriteString(strings.Repeat(" ", r.Range(1, 3)))
			}
		}
		b.WriteString(nl)
	}
	return b.String()
}

func c12secret(r *vlib.Rng) string {
	return "S" + string(r.Bytes(r.Range(3, 12), []byte("abcXYZ0189!%$#>*.[](){}|\\^+? -_")))+"x"
}

func genC12(seed uint64, thorough bool) c12case {
	r := vlib.NewRng(seed)
	cs := c12case{seed: seed, thorough: thorough, earlyAt: -1}
	switch k := r.Intn(100); {
	case k < 55:
		cs.kind = "inter"
	case k < 88:
		cs.kind = "esc"
	default:
		cs.kind = "send"
	}
	cs.host = r.Pick([]string{"router", "r1", "core-sw.lab", "a@b:/x"})
	cs.nl = r.Pick([]string{"\n", "\n", "\r\n"})
	cs.segClass = r.Intn(5)
	cs.segK = r.Range(2, 24)
	cs.readSize = []int{1, 3, 64, 8192, 65536}[r.Intn(5)]
	if cs.segClass != 1 && r.Chance(1, 2) {
		cs.readSize = 8192
	}
	cs.delayUs = []int{20, 50, 250}[r.Intn(3)]
	if cs.segClass == 1 || cs.readSize <= 3 {
		cs.delayUs = 20 // one byte per read: keep the session short
	}
	if r.Chance(1, 2) {
		cs.pauseUs = r.Range(30, 300)
	}
	cs.exact = r.Chance(1, 4)
	if !cs.exact && r.Chance(1, 4) {
		cs.wrap = r.Range(3, 12)
	}
	cs.setup = []int{0, 0, 0, 0, 0, 1, 2}[r.Intn(7)]
	maxLines := 4
	if thorough {
		maxLines = 12
	}
	longest := 0
	note := func(s string) {
		for _, ln := range strings.Split(strings.ReplaceAll(s, "\r", ""), "\n") {
			if len(ln) > longest {
				longest = len(ln)
			}
		}
	}
	switch cs.kind {
	case "inter":
		n := r.Range(1, 6)
		prevQ := -1
		for i := 0; i < n; i++ {
			var e c12ev
			e.resp = -1
			q := -1
			if i < n-1 && r.Chance(3, 4) || i == n-1 && r.Chance(1, 5) {
				q = r.Intn(5)
			}
			if q >= 0 {
				e.resp = q
				e.ask = r.Pick(c12ask[q])
			}
			// the input answers the previous question
			switch {
			case i == 0:
				e.input = r.Pick([]string{"clear logging", "reload", "copy running-config startup-config", "write erase", "x",
					"clear counters all", "reload in 100", "copy flash: tftp://10.0.0.1/aa", "clear access-list counters acl-foo"})
			case prevQ == 2 || prevQ == 4:
				e.hidden = true
				e.devHidden = !r.Chance(1, 6)
				e.input = c12secret(r)
			default:
				e.input = r.Pick([]string{"y", "yes", "n", "", "startup-config", "flash:/cfg.txt", "show clock", "all", "yess", "show access"})
				if prevQ == -1 && e.input == "" {
					e.input = "show clock"
				}
				if e.input == "" && cs.exact && !r.Chance(1, 8) {
					e.input = "y" // exact matching of an empty input stalls (twist exact-empty-input): keep it rare
				}
			}
			e.out = c12out(r, cs.nl, maxLines)
			if q < 0 && e.resp < 0 && r.Chance(1, 3) {
				e.out = "" // a confirmation that prints nothing
			}
			prevQ = q
			cs.events = append(cs.events, e)
		}
		switch r.Intn(4) {
		case 0:
			cs.complete = []int{facts.C12Index("doneprompt")}
		case 1:
			cs.complete = []int{facts.C12Index("doneprompt"), facts.C12Index("abortprompt")}
		case 2:
			cs.complete = []int{facts.C12Index("abortprompt"), facts.C12Index("doneprompt")}
		}
		if len(cs.complete) > 0 && n >= 2 && r.Chance(1, 2) {
			cs.earlyAt = r.Intn(n - 1)
			cs.earlyMode = "done"
			if len(cs.complete) == 2 && r.Bool() {
				cs.earlyMode = "abort"
			}
		} else if len(cs.complete) > 0 && r.Chance(1, 3) {
			cs.earlyAt = n - 1 // completion pattern after the last event: nothing is cut short
			cs.earlyMode = "done"
		}
		// in-domain twist: before the expected response of an event that is followed by another
		// one, the device shows — in a read of its own, then pausing — a line that looks like a
		// prompt but is neither the expected response nor a complete pattern
		if r.Chance(1, 7) {
			var cand []int
			for i := 0; i+1 < n; i++ {
				if cs.events[i].resp >= 0 && i != cs.earlyAt {
					cand = append(cand, i)
				}
			}
			if len(cand) > 0 {
				i := cand[r.Intn(len(cand))]
				cs.events[i].pre = r.Pick([]string{"stage:1/2>", cs.host + "#", "copy:50/100$", "(busy)#"})
				cs.statusLine = true
			}
		}
		// out-of-domain twists (never gate the oracle: the Lean side reports dom = 0 for them)
		if !cs.statusLine && r.Chance(1, 10) {
			i := r.Intn(n)
			switch r.Intn(3) {
			case 0:
				if cs.events[i].ask != "" {
					cs.weird = "decoy"
					cs.events[i].out = "note: " + cs.events[i].ask + " was seen" + cs.nl + cs.events[i].out
				}
			case 1:
				if cs.events[i].ask != "" {
					cs.weird = "trailing-space-question"
					cs.events[i].ask += " "
				}
			case 2:
				cs.weird = "prompt-like-output"
				cs.events[i].out = cs.host + "#" + cs.nl + cs.events[i].out
			}
		}
		for _, e := range cs.events {
			note(e.out)
			note(e.pre)
			if l := len(e.ask) + len(e.input) + len(e.input)/3 + 2; l > longest {
				longest = l
			}
		}
		if l := len(cs.host) + 10 + len(cs.events[0].input)*4/3; l > longest {
			longest = l
		}
	case "esc":
		cs.secret = c12secret(r)
		cs.devSecret = cs.secret
		cs.askText = r.Pick([]string{"Password:", "password:", "Enable password:"})
		cs.escAuth = true
		cs.target = "privilege-exec"
		switch k := r.Intn(100); {
		case k < 40:
			cs.outcome = "ask"
		case k < 58:
			cs.outcome = "grant"
		case k < 70:
			cs.outcome = "refuse"
		case k < 80:
			cs.outcome = "ask"
			cs.devSecret = cs.secret + "!" // the device denies our secret
			cs.weird = "denied"
		case k < 88:
			cs.outcome = "ask"
			cs.askText = "Password: " // matches one byte before its end: not exact
			cs.weird = "trailing-space-question"
		case k < 91:
			cs.outcome = "ask"
			cs.askText = "Secret code:" // no pattern matches: the operation times out
			cs.weird = "unknown-question"
		case k < 96:
			cs.outcome = "grant"
			cs.secret = "" // no secondary secret configured: plain SendInput
			cs.weird = "no-secret"
		default:
			cs.outcome = "grant"
			cs.escAuth = false
			cs.weird = "no-escalate-auth"
		}
		// in-domain: the device answers the escalate command with the prompt of an unrelated level
		// (matches the channel's joined prompt pattern, but neither the previous nor the target
		// level) before asking — or instead of asking
		if cs.weird == "" && cs.outcome == "ask" && r.Chance(1, 4) {
			cs.detour = cs.host + "(config)#"
			cs.statusLine = true
			if r.Chance(1, 4) {
				cs.outcome, cs.detour = "detour-only", ""
			}
		}
		if (cs.outcome == "grant" || cs.outcome == "ask" && cs.weird == "") && cs.detour == "" && r.Chance(1, 3) {
			cs.target = "configuration"
		}
		longest = len(cs.host) + 90
	case "send":
		cs.cmd = r.Pick([]string{"show version", "show ip interface brief", "x", "ping 10.0.0.1 repeat 2",
			"show access", "clear counters all", "ping 10.0.0.1 repeat 100", "show process cpu | i sss", "show ip bgp summ"})
		cs.eager = r.Chance(1, 2)
		cs.out = c12out(r, cs.nl, maxLines)
		note(cs.out)
		if l := len(cs.host) + 4 + len(cs.cmd)*4/3; l > longest {
			longest = l
		}
	}
	cs.depth = 1000
	if r.Chance(1, 3) {
		cs.depth = longest + 3 + r.Intn(40)
	}
	if cs.kind != "esc" && r.Chance(1, 3) {
		cs.echoTail = r.Range(1, 2)
	}
	cs.clean = cs.weird == "" && (cs.setup == 0 || c12staleOK(cs))
	for _, e := range cs.events {
		if strings.HasSuffix(e.ask, ")?") || e.hidden && !e.devHidden {
			cs.clean = false
		}
	}
	if cs.kind == "inter" && cs.exact && cs.weird == "" {
		for i, e := range cs.events {
			if e.input == "" && e.resp >= 0 && !e.hidden && (cs.earlyAt < 0 || i <= cs.earlyAt) {
				// ReadUntilExplicit of an empty input waits for a chunk the device never sends
				cs.weird = "exact-empty-input"
				cs.clean = false
			}
		}
	}
	return cs
}

// ---------------------------------------------------------------------------------------------
// running one case against the real drivers

type c12op struct {
	kind     string   // gp | inter | esc | send
	tokens   []string // the operation in the model's session request
	w0, w1   int      // writes [w0,w1) of the session belong to this operation
	impl     [][]byte
	result   string
	hasRes   bool
	err      string
}

type c12obs struct {
	dur      time.Duration
	line     string // model request for the whole session
	main     int    // index of the operation under test (inter / send)
	fatal    string
	ops      []c12op
	err      string // error class of the call under test
	writes   []sim.WriteEvent
	wstates  []sim.WriteState
	lines    []sim.LineEvent
	lstates  []sim.WriteState
	emitted  []byte
	splitEsc bool
	endMode  string
	asked    int
}

func c12seg(cs c12case) func(int) int {
	sr := vlib.NewRng(cs.seed ^ 0x5eed12)
	switch cs.segClass {
	case 1:
		return sim.SegFixed(1)
	case 2:
		return sim.SegFixed(cs.segK)
	case 3, 4:
		return func(avail int) int { return 1 + sr.Intn(avail+cs.segK)%(cs.segK*3) }
	}
	return nil
}

type c12chunk struct{ start, end int }

// c12chunks lists the reads the transport delivered (as offsets into the emitted stream), plus one
// final pseudo chunk for what the device emitted but nobody read before Close.
func c12chunks(p *sim.Pipe) []c12chunk {
	var out []c12chunk
	pos := 0
	for _, sz := range p.ReadLog {
		out = append(out, c12chunk{pos, pos + sz})
		pos += sz
	}
	if pos < p.Emitted {
		out = append(out, c12chunk{pos, p.Emitted})
	}
	return out
}

// c12react returns the chunks whose last byte was emitted in (lo, hi], and the index of the first.
func c12react(stream []byte, chunks []c12chunk, lo, hi int) ([][]byte, int) {
	var out [][]byte
	first := -1
	for i, c := range chunks {
		if c.end > lo && c.end <= hi {
			if first < 0 {
				first = i
			}
			out = append(out, stream[c.start:c.end])
		}
	}
	return out, first
}

func c12idx(is []int) string {
	if len(is) == 0 {
		return "."
	}
	var s []string
	for _, i := range is {
		s = append(s, strconv.Itoa(i))
	}
	return strings.Join(s, ",")
}

// c12sessLine builds the model request for a whole session: the chunks delivered before the first
// write (q0), one chunk list per write (the device's reaction, cut where the reads ended), and the
// operations in order.
func c12sessLine(p *sim.Pipe, depth int, prompt string, ops []c12op) string {
	stream := p.EmittedBytes()
	chunks := c12chunks(p)
	f := []string{"c12", "sess", strconv.Itoa(depth), "0a", prompt}
	first := p.Emitted
	if len(p.Writes) > 0 {
		first = p.Writes[0].EmittedBefore
	}
	q, _ := c12react(stream, chunks, -1, first)
	var eb []int
	for _, w := range p.Writes {
		eb = append(eb, w.EmittedBefore)
	}
	eb = append(eb, p.Emitted)
	f = append(f, vlib.HexList(q), strconv.Itoa(len(p.Writes)), c12idx(eb))
	for k := range p.Writes {
		hi := p.Emitted
		if k+1 < len(p.Writes) {
			hi = p.Writes[k+1].EmittedBefore
		}
		rc, _ := c12react(stream, chunks, p.Writes[k].EmittedBefore, hi)
		f = append(f, vlib.HexList(rc))
	}
	for _, op := range ops {
		f = append(f, op.tokens...)
	}
	return strings.Join(f, " ")
}

func c12levels() map[string]*network.PrivilegeLevel {
	P := func(n string) string { return facts.C12Patterns[facts.C12Index(n)].Src }
	return map[string]*network.PrivilegeLevel{
		"exec": {Name: "exec", Pattern: P("exec")},
		"privilege-exec": {Name: "privilege-exec", Pattern: P("privexec"), PreviousPriv: "exec", Deescalate: "disable",
			Escalate: "enable", EscalateAuth: true, EscalatePrompt: P("enablepass")},
		"configuration": {Name: "configuration", Pattern: P("configuration"), PreviousPriv: "privilege-exec",
			Deescalate: "end", Escalate: "configure terminal"},
	}
}

// operations that are expected to run into their timeout get a short one; all others a generous
// one (a 1-byte segmentation at a 250 µs read delay needs tens of milliseconds per dialogue)
// c12subseq: in-order subsequence (the specification of the fuzzy echo matcher).
func c12subseq(in, out string) bool {
	i := 0
	for j := 0; j < len(out) && i < len(in); j++ {
		if in[i] == out[j] {
			i++
		}
	}
	return i == len(in)
}

// c12staleOK: a session that starts with the login prompt still in the queue is nevertheless
// in-domain when its first input's echo is awaited (the echo read swallows the stale bytes) and
// the input is not already an in-order subsequence of the stale bytes plus a proper prefix of the
// echo (so the echo read of a conforming implementation ends exactly at the end of the echo).
func c12staleOK(cs c12case) bool {
	if cs.wrap != 0 || cs.exact {
		return false
	}
	var first string
	switch cs.kind {
	case "send":
		first = cs.cmd
	case "inter":
		if cs.events[0].resp < 0 || cs.events[0].hidden {
			return false
		}
		first = cs.events[0].input
	default:
		return false
	}
	if first == "" {
		return false
	}
	stale := cs.host + "#\n" + cs.host + "#"
	return !c12subseq(first, stale+first[:len(first)-1])
}

// c12hold is how long a device keeps back the rest of its reaction after a status line: long
// against the read delay (an implementation that stops at the status line types ahead well within
// it), short against the operation timeout
const c12hold = 4 * time.Millisecond

func c12timeout(cs c12case) time.Duration {
	if cs.weird == "unknown-question" || cs.outcome == "detour-only" {
		return 150 * time.Millisecond // stalls right after the escalate command: a few bytes in
	}
	return 3 * time.Second
}

func runC12case(cs c12case) (o c12obs) {
	t0 := time.Now()
	defer func() { o.dur = time.Since(t0) }()
	commonOpts := func() []util.Option {
		return []util.Option{options.WithAuthBypass(), options.WithTimeoutOps(c12timeout(cs)),
			options.WithReadDelay(time.Duration(cs.delayUs) * time.Microsecond),
			options.WithPromptSearchDepth(cs.depth), options.WithTransportReadSize(cs.readSize)}
	}
	snapshot := func(p *sim.Pipe, cli *sim.CLI) {
		o.writes = append([]sim.WriteEvent{}, p.Writes...)
		o.lines = append([]sim.LineEvent{}, cli.Lines...)
		o.emitted = append([]byte{}, p.EmittedBytes()...)
		o.splitEsc = p.SplitAtoms > 0
		o.endMode = cli.Mode
	}
	switch cs.kind {
	case "inter", "send":
		prompts := map[string]string{"exec": cs.host + "#", "done": cs.host + "(done)#", "abort": cs.host + "(abort)>"}
		var script []sim.DlgStep
		if cs.kind == "inter" {
			for i, e := range cs.events {
				st := sim.DlgStep{Out: e.out, Ask: e.ask, NextMode: "exec", Pre: e.pre, Hold: c12hold}
				if i+1 < len(cs.events) {
					st.Hidden = cs.events[i+1].devHidden
				}
				if i == cs.earlyAt {
					st.Ask, st.NextMode, st.Hidden = "", cs.earlyMode, false
				}
				script = append(script, st)
			}
		} else {
			script = []sim.DlgStep{{Out: cs.out, NextMode: "exec"}}
		}
		dev := sim.NewDialogue("exec", prompts, script)
		dev.NL = cs.nl
		dev.EchoWrap = cs.wrap
		dev.EchoTail, dev.EchoHold = cs.echoTail, c12hold
		dev.Seg = c12seg(cs)
		dev.ReadPause = time.Duration(cs.pauseUs) * time.Microsecond
		if cs.setup != 0 {
			dev.Start()
		}
		opts := append([]util.Option{options.WithCustomTransport(dev)}, commonOpts()...)
		d, err := generic.NewDriver("h", opts...)
		if err != nil {
			o.fatal = "new:" + err.Error()
			return o
		}
		if err := d.Open(); err != nil {
			o.fatal = "open:" + errClass(err)
			return o
		}
		w0 := 0
		if cs.setup != 1 {
			if _, err := d.GetPrompt(); err != nil {
				o.fatal = "getprompt:" + errClass(err)
				_ = d.Close()
				return o
			}
			w0 = 1
			o.ops = append(o.ops, c12op{kind: "gp", tokens: []string{"gp"}, w0: 0, w1: 1, impl: [][]byte{[]byte("\n")}, err: "nil"})
		}
		var op c12op
		op.kind = cs.kind
		var opOpts []util.Option
		if cs.exact {
			opOpts = append(opOpts, opoptions.WithExactMatchInput())
		}
		if cs.kind == "inter" {
			var evs []*channel.SendInteractiveEvent
			for _, e := range cs.events {
				ev := &channel.SendInteractiveEvent{ChannelInput: e.input, HideInput: e.hidden}
				if e.resp >= 0 {
					ev.ChannelResponse = facts.C12Patterns[e.resp].Src
				}
				evs = append(evs, ev)
			}
			if len(cs.complete) > 0 {
				var cp []*regexp.Regexp
				for _, i := range cs.complete {
					cp = append(cp, regexp.MustCompile(facts.C12Patterns[i].Src))
				}
				opOpts = append(opOpts, opoptions.WithCompletePatterns(cp))
			}
			r, err := d.SendInteractive(evs, opOpts...)
			op.err = errClass(err)
			if err == nil {
				op.result, op.hasRes = r.Result, true
			}
		} else {
			opOpts = append(opOpts, opoptions.WithNoStripPrompt())
			if cs.eager {
				opOpts = append(opOpts, opoptions.WithEager())
			}
			b, err := d.Channel.SendInput(cs.cmd, opOpts...)
			op.err = errClass(err)
			if err == nil {
				op.result, op.hasRes = string(b), true
			}
		}
		o.err = op.err
		_ = d.Close()
		dev.Snapshot(func() {
			snapshot(dev.Pipe, dev.CLI)
			o.wstates = append([]sim.WriteState{}, dev.WriteStates...)
			o.lstates = append([]sim.WriteState{}, dev.LineStates...)
			op.w0, op.w1 = w0, len(dev.Writes)
			for _, w := range dev.Writes[w0:] {
				op.impl = append(op.impl, w.Data)
			}
			if cs.kind == "inter" {
				op.tokens = []string{"inter", b2s(cs.exact), c12idx(cs.complete), strconv.Itoa(len(cs.events))}
				for _, e := range cs.events {
					rs := "-"
					if e.resp >= 0 {
						rs = strconv.Itoa(e.resp)
					}
					op.tokens = append(op.tokens, vlib.Hex([]byte(e.input)), rs, b2s(e.hidden))
				}
			} else {
				op.tokens = []string{"send", b2s(cs.exact), b2s(cs.eager), vlib.Hex([]byte(cs.cmd))}
			}
			o.ops = append(o.ops, op)
			o.main = len(o.ops) - 1
			o.line = c12sessLine(dev.Pipe, cs.depth, "d", o.ops)
		})
	case "esc":
		dev := sim.NewEscDevice(cs.host, cs.outcome, cs.devSecret, cs.askText)
		dev.Detour, dev.Hold = cs.detour, c12hold
		dev.NL = cs.nl
		dev.EchoWrap = cs.wrap
		dev.Seg = c12seg(cs)
		dev.ReadPause = time.Duration(cs.pauseUs) * time.Microsecond
		if cs.setup != 0 {
			dev.Start()
		}
		lv := c12levels()
		lv["privilege-exec"].EscalateAuth = cs.escAuth
		opts := append([]util.Option{options.WithCustomTransport(dev), options.WithPrivilegeLevels(lv),
			options.WithDefaultDesiredPriv("privilege-exec"), options.WithAuthSecondary(cs.secret)}, commonOpts()...)
		d, err := network.NewDriver("h", opts...)
		if err != nil {
			o.fatal = "new:" + err.Error()
			return o
		}
		if err := d.Open(); err != nil {
			o.fatal = "open:" + errClass(err)
			return o
		}
		o.err = errClass(d.AcquirePriv(cs.target))
		_ = d.Close()
		dev.Snapshot(func() {
			snapshot(dev.Pipe, dev.CLI)
			o.wstates = append([]sim.WriteState{}, dev.WriteStates...)
			o.lstates = append([]sim.WriteState{}, dev.LineStates...)
			o.asked = dev.Asked
			// split the session's writes into operations: a lone return is a GetPrompt; an escalate
			// command starts an operation that owns the following return and, if present, the secret
			// and its return
			ws := dev.Writes
			allIdx := c12idx([]int{facts.C12Index("exec"), facts.C12Index("privexec"), facts.C12Index("configuration")})
			for i := 0; i < len(ws); {
				data := string(ws[i].Data)
				if data == "\n" {
					o.ops = append(o.ops, c12op{kind: "gp", tokens: []string{"gp"}, w0: i, w1: i + 1, impl: [][]byte{ws[i].Data}, err: "nil"})
					i++
					continue
				}
				var op c12op
				op.kind = "esc"
				op.w0 = i
				j := i + 1
				if j < len(ws) && string(ws[j].Data) == "\n" {
					j++
					if data == "enable" && cs.secret != "" && j < len(ws) && string(ws[j].Data) == cs.secret {
						j++
						if j < len(ws) && string(ws[j].Data) == "\n" {
							j++
						}
					}
				}
				op.w1 = j
				for _, w := range ws[op.w0:op.w1] {
					op.impl = append(op.impl, w.Data)
				}
				switch data {
				case "enable":
					op.tokens = []string{"esc", strconv.Itoa(facts.C12Index("exec")), strconv.Itoa(facts.C12Index("privexec")),
						strconv.Itoa(facts.C12Index("enablepass")), b2s(cs.escAuth), vlib.Hex([]byte("enable")), vlib.Hex([]byte(cs.secret))}
				default:
					op.tokens = []string{"esc", strconv.Itoa(facts.C12Index("privexec")), strconv.Itoa(facts.C12Index("configuration")),
						"-", "0", vlib.Hex(ws[i].Data), "-"}
				}
				op.err = "nil"
				o.ops = append(o.ops, op)
				i = j
			}
			if len(o.ops) > 0 && o.err == "timeout" {
				o.ops[len(o.ops)-1].err = "timeout"
			}
			o.line = c12sessLine(dev.Pipe, cs.depth, allIdx, o.ops)
		})
	}
	return o
}

// ---------------------------------------------------------------------------------------------
// oracle helpers (independent of the model)

// c12canon is the specification of post-processing: CR dropped, trailing spaces of every line
// dropped, surrounding newlines dropped.
func c12canon(b []byte) string {
	text := strings.ReplaceAll(string(b), "\r", "")
	lines := strings.Split(text, "\n")
	for i := range lines {
		lines[i] = strings.TrimRight(lines[i], " ")
	}
	return strings.Trim(strings.Join(lines, "\n"), "\n")
}

type c12trace struct {
	writes   [][]byte
	redacted []bool
	consumed []int // number of chunks delivered to the operation before each write
	total    int   // number of chunks delivered to the operation
}

func c12parseTrace(s string) (t c12trace, ok bool) {
	if s == "." {
		return t, true
	}
	n := 0
	for _, it := range strings.Split(s, ",") {
		if len(it) < 2 {
			return t, false
		}
		b, err := vlib.UnHex(it[1:])
		if err != nil {
			return t, false
		}
		switch it[0] {
		case 'd':
			n++
		case 'w', 'r':
			t.writes = append(t.writes, b)
			t.redacted = append(t.redacted, it[0] == 'r')
			t.consumed = append(t.consumed, n)
		default:
			return t, false
		}
	}
	t.total = n
	return t, true
}

func c12join(bs [][]byte) string {
	var s []string
	for _, b := range bs {
		s = append(s, strconv.Quote(string(b)))
	}
	return "[" + strings.Join(s, " ") + "]"
}

// ---------------------------------------------------------------------------------------------

func runC12(c *ctx) {
	res := c.res
	res.Rule = "sessions of the real drivers over causal dialogue devices: generic.Driver.SendInteractive with 1-6 events (visible/hidden, with/without expected response, early completion through complete patterns, completion pattern after the last event), network.Driver.AcquirePriv against an IOS-like device that asks / grants / refuses / denies / asks with a trailing space / asks something unknown (plus no secret configured, escalate-auth off, two-hop targets), and plain Channel.SendInput eager / not eager; segmentations whole/1-byte/fixed/random, read sizes 1..65536, read delays, transport delivery pauses, CRLF, wrapped echo, exact/fuzzy input matching, search depths from longest line+3 to 1000. non-trivial = in-domain (every read of the operation ended exactly at the end of what the device had printed) case with >= 2 events, or an escalation, or a plain send; distinct by case seed"
	if c.replay != "" {
		f := strings.Fields(c.replay)
		if len(f) >= 2 && f[0] == "c12case" {
			seed, _ := strconv.ParseUint(f[1], 10, 64)
			c12check(c, []c12case{genC12(seed, len(f) > 2 && f[2] == "thorough")})
			return
		}
		res.Note("replay of a raw model line is evaluated by the model only: %s", c.replay)
		return
	}
	// vlib.NewRng(seed+1) is vlib.NewRng(seed) shifted by one output: take exactly one output of
	// the run's generator and derive every case from that fork, so that different VERIF_SEEDs give
	// unrelated case sets
	base := c.rng.Fork()
	rxDiff(c, []string{"Channel.promptPattern"}, c.n(150, 2000))
	c12rxDiff(c, base.Fork(), c.n(120, 2500))
	n := c.n(2500, 40000)
	cases := make([]c12case, n)
	for i := range cases {
		cases[i] = genC12(base.U64(), c.thorough())
	}
	for lo := 0; lo < len(cases); lo += 250 {
		hi := lo + 250
		if hi > len(cases) {
			hi = len(cases)
		}
		c12check(c, cases[lo:hi])
		nf := 0
		for k, v := range res.Distribution {
			if strings.HasPrefix(k, "finding:") {
				nf += v
			}
		}
		if nf >= 20 && hi < len(cases) {
			// a broken tree makes many sessions run into their timeout: enough evidence, stop
			res.Note("stopped after %d of %d sessions: %d failing checks recorded", hi, len(cases), nf)
			break
		}
	}
}

// c12rxDiff ties the Lean engine running the generated table terms to Go's regexp on the same
// table sources.
func c12rxDiff(c *ctx, r *vlib.Rng, per int) {
	var lines []string
	var want []string
	noise := []string{"\n", " ", "x", "#", ">", "router", "(done)", "password:", "Password: ", "[confirm]", "(yes/no)?", "\r", "é", "New secret:", "enable ", "(", ")", "\n"}
	for i, p := range facts.C12Patterns {
		re := regexp.MustCompile(p.Src)
		syn, _ := syntax.Parse(p.Src, syntax.Perl)
		for k := 0; k < per; k++ {
			var s []byte
			for j := r.Range(0, 3); j >= 0; j-- {
				switch r.Intn(3) {
				case 0:
					s = append(s, r.Pick(noise)...)
				default:
					s = append(s, sampleRe(r, syn, 0)...)
				}
				if r.Chance(1, 3) {
					s = append(s, r.Pick(noise)...)
				}
			}
			if r.Chance(1, 5) && len(s) > 0 {
				s[r.Intn(len(s))] = r.Bytes(1, []byte("aZ0 #>\n:("))[0]
			}
			if len(s) > 120 {
				s = s[:120]
			}
			lines = append(lines, fmt.Sprintf("c12 rx %d %s", i, vlib.Hex(s)))
			want = append(want, b2s(re.Match(s)))
		}
	}
	ans := c.ask(lines)
	for i := range lines {
		c.res.Count("rxdiff:c12table")
		if ans[i] != want[i] {
			c.res.Fail("correspondence", lines[i], fmt.Sprintf("regex engine on table pattern: %s: Go %s, Lean %s", lines[i], want[i], ans[i]), "rx:c12table")
		}
	}
	c.res.Note("C12 pattern table (%d patterns) diffed against Go regexp on %d subjects", len(facts.C12Patterns), len(lines))
}

func c12check(c *ctx, cases []c12case) {
	res := c.res
	obs := make([]c12obs, len(cases))
	var wg sync.WaitGroup
	sem := make(chan struct{}, vlib.Conc(16))
	for i := range cases {
		wg.Add(1)
		sem <- struct{}{}
		go func(i int) {
			defer wg.Done()
			obs[i] = runC12case(cases[i])
			<-sem
		}(i)
	}
	wg.Wait()
	var lines []string
	var refs []int
	for i := range obs {
		if obs[i].line != "" && obs[i].fatal == "" {
			lines = append(lines, obs[i].line)
			refs = append(refs, i)
		}
	}
	ans := c.ask(lines)
	answers := map[int]string{}
	for k, i := range refs {
		answers[i] = ans[k]
	}
	for i, cs := range cases {
		o := obs[i]
		tier := ""
		if cs.thorough {
			tier = " thorough"
		}
		caseLine := fmt.Sprintf("c12case %d%s", cs.seed, tier)
		key := strconv.FormatUint(cs.seed, 10)
		res.Count("kind:" + cs.kind)
		res.Count(fmt.Sprintf("seg:%d", cs.segClass))
		res.Count(fmt.Sprintf("setup:%d", cs.setup))
		if cs.weird != "" {
			res.Count("twist:" + cs.weird)
		}
		if o.fatal != "" {
			res.Case(key, false)
			res.Fail("machinery", caseLine, "session could not be set up: "+o.fatal, "setup")
			continue
		}
		if o.splitEsc {
			res.Case(key, false)
			res.Count("nodom:split-escape")
			continue
		}
		if c.replay != "" {
			fmt.Printf("case %+v\nrequest %s\nanswer %s\nerr %s\n", cs, o.line, answers[i], o.err)
			for k, w := range o.writes {
				fmt.Printf("  write %d %q emitted=%d delivered=%d reads=%d state=%+v\n", k, w.Data, w.EmittedBefore, w.DeliveredBefore, w.ReadsBefore, o.wstates[k])
			}
			for _, op := range o.ops {
				fmt.Printf("  op %s [%d,%d) err=%s result=%q\n", op.kind, op.w0, op.w1, op.err, op.result)
			}
			fmt.Printf("  emitted %q\n", o.emitted)
		}
		if ms := int(o.dur / time.Millisecond); o.err != "timeout" && ms > res.Distribution["max-session-ms"] {
			res.Distribution["max-session-ms"] = ms
		}
		if o.err == "timeout" {
			res.Count("timeouts: twist=" + cs.weird + " kind=" + cs.kind)
			if cs.weird == "" {
				res.Note("timeout in %s setup=%d", caseLine, cs.setup)
			}
		}
		parts := strings.Split(answers[i], " | ")
		if len(parts) != len(o.ops) {
			res.Case(key, false)
			res.Fail("machinery", caseLine, fmt.Sprintf("driver answered %q for %d operations ; request %s", answers[i], len(o.ops), o.line), "driver")
			continue
		}
		// per operation: correspondence with the model
		allDom := true
		okAll := true
		traces := make([]c12trace, len(o.ops))
		delivered := 0 // chunks the model has consumed so far in the session
		for j, op := range o.ops {
			f := strings.Fields(parts[j])
			if len(f) != 5 {
				res.Fail("machinery", caseLine, "driver answered "+parts[j]+" for operation "+strconv.Itoa(j)+" of "+o.line, "driver")
				okAll = false
				break
			}
			dom := f[0] == "1" && f[4] == "1"
			if f[4] != "1" {
				res.Count("nodom:window-unsound")
			}
			if op.kind != "gp" {
				allDom = allDom && dom
			}
			mok := f[1] == "1"
			mres, _ := vlib.UnHex(f[2])
			tr, ok := c12parseTrace(f[3])
			if !ok {
				res.Fail("machinery", caseLine, "unparsable trace "+f[3], "driver")
				okAll = false
				break
			}
			traces[j] = tr
			// (a) what was written, in order
			if c12join(tr.writes) != c12join(op.impl) {
				res.Fail("correspondence", caseLine, fmt.Sprintf("operation %d (%s): implementation wrote %s, model %s ; request %s", j, op.kind, c12join(op.impl), c12join(tr.writes), o.line), "writes-differ")
				okAll = false
				break
			}
			// (b) outcome and result
			implOK := op.err == "nil"
			if implOK != mok {
				res.Fail("correspondence", caseLine, fmt.Sprintf("operation %d (%s): implementation error class %s, model ok=%v ; request %s", j, op.kind, op.err, mok, o.line), "outcome-differs")
				okAll = false
				break
			}
			if !implOK && op.err != "timeout" {
				res.Fail("correspondence", caseLine, fmt.Sprintf("operation %d (%s): implementation error class %s where the model runs dry (timeout)", j, op.kind, op.err), "error-class:"+op.err)
				okAll = false
				break
			}
			if op.hasRes && string(mres) != op.result {
				res.Fail("correspondence", caseLine, fmt.Sprintf("operation %d (%s): implementation result %q, model %q ; request %s", j, op.kind, op.result, mres, o.line), "result-differs")
				okAll = false
				break
			}
			// (c) the trace order: the implementation wrote no earlier than the model — before each
			// write the transport had delivered at least the chunks the model had consumed
			for k := range tr.writes {
				have := o.writes[op.w0+k].ReadsBefore
				if have < delivered+tr.consumed[k] {
					res.Fail("correspondence", caseLine, fmt.Sprintf("operation %d (%s): write %d %q was issued when %d chunk(s) had been delivered; the model has consumed %d before it ; request %s", j, op.kind, k, op.impl[k], have, delivered+tr.consumed[k], o.line), "wrote-before-delivery")
					okAll = false
					break
				}
			}
			delivered += tr.total
			if !okAll {
				break
			}
		}
		res.TracesVsImpl++
		res.Count(fmt.Sprintf("dom:%v", allDom))
		if cs.echoTail > 0 {
			res.Count(fmt.Sprintf("echo-tail-held setup=%d dom:%v clean:%v", cs.setup, allDom, cs.clean))
		}
		if cs.statusLine {
			res.Count(fmt.Sprintf("status-line/detour kind=%s outcome=%s dom:%v", cs.kind, cs.outcome, allDom))
		}
		nontriv := allDom && okAll && (cs.kind != "inter" || len(cs.events) >= 2)
		res.Case(key, nontriv)
		if i%257 == 0 {
			res.Sample(map[string]any{"case": caseLine, "kind": cs.kind, "events": len(cs.events), "complete": cs.complete, "early_at": cs.earlyAt,
				"outcome": cs.outcome, "twist": cs.weird, "target": cs.target, "depth": cs.depth, "seg": cs.segClass, "read_size": cs.readSize,
				"pause_us": cs.pauseUs, "setup": cs.setup, "err": o.err, "ops": len(o.ops), "dom": allDom})
		}
		// oracles that need no model: never gated by exactness nor by the correspondence — a secret
		// typed at a command prompt, or a hidden input whose echo is awaited, is a violation
		// whatever the segmentation did
		if cs.kind == "esc" {
			c12secretOracle(res, caseLine, cs, o)
		}
		if cs.kind == "inter" {
			c12hiddenOracle(res, caseLine, cs, o)
		}
		// in-domain: the model found every read exact. When the correspondence is broken the model's
		// judgement is void; the oracles then run on the sessions the generator built without any
		// twist from a clean queue (which are in-domain on a conforming implementation), so that a
		// concrete failing input is reported instead of a bare model disagreement.
		inDom := allDom
		if !okAll {
			inDom = cs.clean
			traces = nil
		} else if cs.clean && !allDom {
			res.Count("clean-but-nodom")
			if c.replay == "" && res.Distribution["clean-but-nodom"] <= 6 {
				res.Note("clean-but-nodom %s", caseLine)
			}
		}
		if !inDom {
			continue
		}
		res.InDomain++
		switch cs.kind {
		case "inter":
			c12interOracle(res, caseLine, cs, o, traces)
		case "esc":
			c12escOracle(res, caseLine, cs, o, traces)
		case "send":
			c12sendOracle(res, caseLine, cs, o, traces)
		}
	}
}

// paced reports a violation when write k arrived before everything the device had printed so far
// had been handed out by Read.
func c12paced(res *vlib.Result, caseLine string, o c12obs, k int, what string) bool {
	w := o.writes[k]
	if w.DeliveredBefore != w.EmittedBefore {
		res.Fail("oracle", caseLine, fmt.Sprintf("%s (write %d, %q) was sent when the device had printed %d bytes but only %d had been delivered: typed ahead of %q", what, k, w.Data, w.EmittedBefore, w.DeliveredBefore, o.emitted[w.DeliveredBefore:w.EmittedBefore]), "typed-ahead:"+strings.Fields(what)[0])
		return false
	}
	return true
}

func c12interOracle(res *vlib.Result, caseLine string, cs c12case, o c12obs, traces []c12trace) {
	op := o.ops[o.main]
	if op.err != "nil" {
		res.Fail("oracle", caseLine, "well-formed dialogue returned error class "+op.err, "error:"+op.err)
		return
	}
	// spec: all inputs in order, each followed by a return, up to the event after which the device
	// showed a completion pattern
	var want [][]byte
	var wantStates []string
	for i, e := range cs.events {
		want = append(want, []byte(e.input), []byte("\n"))
		st := "prompt:exec"
		if i > 0 && cs.events[i-1].ask != "" {
			st = "ask:" + strconv.Itoa(i-1)
		}
		wantStates = append(wantStates, st)
		if i == cs.earlyAt {
			break
		}
	}
	if c12join(op.impl) != c12join(want) {
		res.Fail("oracle", caseLine, fmt.Sprintf("device received %s, the dialogue demands %s", c12join(op.impl), c12join(want)), "wrong-device-input")
		return
	}
	if traces != nil && c12join(traces[o.main].writes) != c12join(want) {
		res.Fail("machinery", caseLine, "in-domain case: model writes differ from the spec", "model-vs-spec")
	}
	// every input arrived in the device state it answers
	ls := o.lstates
	ln := o.lines
	if cs.setup != 1 {
		ls, ln = ls[1:], ln[1:]
	}
	for i := range wantStates {
		if i >= len(ls) || ls[i].Mode != wantStates[i] || ln[i].Line != cs.events[i].input {
			res.Fail("oracle", caseLine, fmt.Sprintf("input %d %q arrived in device state %v (line log %v), expected state %s", i, cs.events[i].input, ls, ln, wantStates[i]), "wrong-device-state")
			return
		}
	}
	// pacing: every input after the first, and every return that follows an awaited echo, was sent
	// only after all the device had printed was delivered
	for k := op.w0; k < op.w1; k++ {
		rel := k - op.w0
		ev := cs.events[rel/2]
		if rel%2 == 0 && rel > 0 {
			if !c12paced(res, caseLine, o, k, fmt.Sprintf("input of event %d", rel/2)) {
				return
			}
		}
		if rel%2 == 1 && ev.resp >= 0 && !ev.hidden && !(ev.input == "" && !cs.exact) {
			if !c12paced(res, caseLine, o, k, fmt.Sprintf("return of event %d (visible, awaited echo)", rel/2)) {
				return
			}
		}
		// hidden inputs: the return follows at once — the device printed nothing in between that
		// could have been awaited
	}
	// the result is the whole dialogue
	start := 0
	if cs.setup == 0 {
		start = o.writes[op.w0].EmittedBefore
	}
	if want := c12canon(o.emitted[start:]); cs.setup != 2 && op.result != want {
		res.Fail("oracle", caseLine, fmt.Sprintf("result %q, the whole dialogue is %q", op.result, want), "wrong-result")
	}
}

// c12hiddenOracle: hidden inputs must not be awaited. If the device does not echo a hidden input,
// waiting for its echo would stall the dialogue: so a hidden event whose device does not echo must
// still get its return (checked for every case, in or out of domain, that did not time out for
// another reason).
func c12hiddenOracle(res *vlib.Result, caseLine string, cs c12case, o c12obs) {
	op := o.ops[o.main]
	for rel := 0; rel < len(op.impl) && rel/2 < len(cs.events); rel += 2 {
		ev := cs.events[rel/2]
		if string(op.impl[rel]) != ev.input {
			break // the writes do not follow the event list at all: reported elsewhere
		}
		if ev.hidden && ev.devHidden && rel+1 >= len(op.impl) {
			res.Fail("oracle", caseLine, fmt.Sprintf("hidden input of event %d was written but its return never followed (error class %s): the echo of a hidden input was awaited", rel/2, op.err), "hidden-awaited")
		}
	}
}

func c12secretOracle(res *vlib.Result, caseLine string, cs c12case, o c12obs) {
	if cs.secret == "" {
		return
	}
	secretWrites := 0
	for k, w := range o.writes {
		if !bytes.Contains(w.Data, []byte(cs.secret)) {
			continue
		}
		secretWrites++
		st := o.wstates[k]
		if st.Mode != "password" {
			res.Fail("oracle", caseLine, fmt.Sprintf("the secondary secret was written (write %d) while the device was in state %q, not at its password question (outcome %s, twist %q)", k, st.Mode, cs.outcome, cs.weird), "secret-at-prompt")
			return
		}
		if k+1 >= len(o.writes) || string(o.writes[k+1].Data) != "\n" {
			res.Fail("oracle", caseLine, fmt.Sprintf("the secret was written (write %d) but its return never followed (error class %s): the echo of a hidden input was awaited", k, o.err), "hidden-awaited")
			return
		}
		// and the password question had been delivered in full (bar at most its trailing space)
		if w.DeliveredBefore < w.EmittedBefore-1 {
			res.Fail("oracle", caseLine, fmt.Sprintf("the secondary secret was written when %d of %d printed bytes had been delivered", w.DeliveredBefore, w.EmittedBefore), "secret-typed-ahead")
			return
		}
	}
	for k, l := range o.lines {
		if strings.Contains(l.Line, cs.secret) && o.lstates[k].Mode != "password" {
			res.Fail("oracle", caseLine, fmt.Sprintf("a line containing the secret arrived in device state %q", o.lstates[k].Mode), "secret-at-prompt")
			return
		}
	}
	if cs.outcome != "ask" && secretWrites > 0 {
		res.Fail("oracle", caseLine, "the device never asked for a password but the secret was written", "secret-at-prompt")
		return
	}
	if cs.outcome == "ask" && cs.weird != "unknown-question" && secretWrites != o.asked {
		res.Fail("oracle", caseLine, fmt.Sprintf("the device asked %d time(s) for the password, the secret was written %d time(s)", o.asked, secretWrites), "secret-count")
	}
	if cs.weird == "unknown-question" && secretWrites > 0 {
		res.Fail("oracle", caseLine, "the secret was written at a question that is not the escalate prompt", "secret-at-prompt")
	}
}

func c12escOracle(res *vlib.Result, caseLine string, cs c12case, o c12obs, traces []c12trace) {
	wantErr := "nil"
	wantMode := cs.target
	switch {
	case cs.outcome == "refuse" || cs.weird == "denied":
		wantErr, wantMode = "privilege", "exec"
	case cs.outcome == "detour-only":
		wantErr, wantMode = "timeout", "configuration"
	}
	if o.err != wantErr {
		res.Fail("oracle", caseLine, fmt.Sprintf("AcquirePriv(%s) returned error class %s, expected %s (outcome %s twist %q)", cs.target, o.err, wantErr, cs.outcome, cs.weird), "error:"+o.err)
		return
	}
	if o.endMode != wantMode {
		res.Fail("oracle", caseLine, fmt.Sprintf("device ended in mode %s, expected %s", o.endMode, wantMode), "wrong-mode")
		return
	}
	// pacing of every write of every escalation operation but its first
	for j, op := range o.ops {
		if op.kind != "esc" {
			continue
		}
		for k := op.w0 + 1; k < op.w1; k++ {
			rel := k - op.w0
			if rel == 3 {
				continue // the return after the (hidden) secret is not paced
			}
			what := []string{"", "return of the escalate command", "secret", ""}[rel]
			if !c12paced(res, caseLine, o, k, fmt.Sprintf("%s (operation %d)", what, j)) {
				return
			}
		}
		if traces != nil {
			for k, red := range traces[j].redacted {
				if red != (k == 2) {
					res.Fail("machinery", caseLine, "model redaction flags differ from the spec", "model-vs-spec")
				}
			}
		}
	}
}

func c12sendOracle(res *vlib.Result, caseLine string, cs c12case, o c12obs, traces []c12trace) {
	op := o.ops[o.main]
	if op.err != "nil" {
		res.Fail("oracle", caseLine, "plain send returned error class "+op.err, "error:"+op.err)
		return
	}
	want := [][]byte{[]byte(cs.cmd), []byte("\n")}
	if c12join(op.impl) != c12join(want) {
		res.Fail("oracle", caseLine, fmt.Sprintf("device received %s, expected %s", c12join(op.impl), c12join(want)), "wrong-device-input")
		return
	}
	c12paced(res, caseLine, o, op.w0+1, "return of the plain command")
}
